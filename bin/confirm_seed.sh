#!/bin/bash
# bin/confirm_seed.sh <worktree> <seed dir> <demo file> <dest path rel. to repo> <pkg dir rel. to module> <test regex> <out dir>
# Confirms in the scratch worktree: (1) with the patch the existing tests pass, (2) with the patch the
# demonstration fails, (3) without the patch it passes.  Writes the seed to <out dir>.
wt=$1; sd=$2; demo=$3; dest=$4; pkg=$5; rx=$6; out=$7
export GOFLAGS=-mod=mod GOPROXY=off GOSUMDB=off GOTOOLCHAIN=local
cd $wt || exit 2
git checkout -q -- . ; rm -f $dest
git apply $sd/patch.diff || { echo "PATCH DOES NOT APPLY"; exit 2; }
(cd module && go build ./... && go test -vet=off -count=1 ./x/... 2>&1 | grep -v "no test files") > /tmp/cs_$$_suite.txt 2>&1
suite_ok=$(grep -c "^FAIL\|^---.FAIL\|panic:" /tmp/cs_$$_suite.txt)
cp $sd/$demo $dest
(cd module && go test -vet=off -count=1 -run "$rx" ./$pkg/ 2>&1 | tail -15) > /tmp/cs_$$_with.txt
with_fail=$(grep -c "^FAIL\|^--- FAIL" /tmp/cs_$$_with.txt)
git apply -R $sd/patch.diff
(cd module && go test -vet=off -count=1 -run "$rx" ./$pkg/ 2>&1 | tail -5) > /tmp/cs_$$_without.txt
without_ok=$(grep -c "^ok" /tmp/cs_$$_without.txt)
rm -f $dest; git checkout -q -- .
echo "suite failures with patch: $suite_ok ; demo fails with patch: $with_fail ; demo passes without: $without_ok"
if [ "$suite_ok" = "0" ] && [ "$with_fail" != "0" ] && [ "$without_ok" != "0" ]; then
  mkdir -p $out; cp $sd/patch.diff $out/patch.diff; cp $sd/$demo $out/; cp $sd/README.md $out/README.agent.md
  echo CONFIRMED
else
  echo NOT-CONFIRMED; tail -5 /tmp/cs_$$_suite.txt /tmp/cs_$$_with.txt /tmp/cs_$$_without.txt
fi
