#!/bin/bash
# Rebuilds the Go harnesses against /repo's current working tree (hooks: build tag verif).
set -e
cd "$(dirname "$0")/.."
export GOFLAGS=-mod=mod GOPROXY=off GOSUMDB=off GOTOOLCHAIN=local
mkdir -p build
cp /repo/module/go.sum harness/go.sum
(cd harness && go build -tags verif -o ../build/verifharness .)
if [ -d harness-conn ]; then
  sort -u /repo/module/go.sum /repo/minter-connector/go.sum > harness-conn/go.sum
  (cd harness-conn && go build -tags verif -o ../build/connharness . && go build -tags verif -o ../build/connector-verif github.com/MinterTeam/mhub2/minter-connector/cmd/mhub-minter-connector)
fi
