"""Per-property configuration of bin/check: suites (harness generator + model function),
source-fact generators, extra scripts, trusted base and rule texts for the evidence."""

HUB_TB = [
    'model: coq/Hub/{Types,Model}.v (pool, batches, bank ledger, event handler, Begin/EndBlocker batch logic) is hand-written; '
    'tied to /repo by co-execution of hub histories on the real keepers (x/mhub2 keeper + msg server + Begin/EndBlocker, real x/bank, x/auth, x/params on IAVL stores)',
    'modelled, not verified: cosmos-sdk x/bank (as a ledger), store/IAVL, protobuf; staking and x/oracle are inputs (mock staking keeper, price/holder tables); '
    'quorum machinery is abstracted here as "a claim voted by a >=66% validator is applied in the same block\'s EndBlocker" (its own model: C02/C03)',
]
HUB_RULE = ('seeded histories (VERIF_SEED -> splitmix64) of 40-120 operations over 4 chains, 1-3 denoms with external decimals in {0,6,8,12,18,20,24}, '
            'commission rates {0,1e-18,0.003,0.01,0.5,0.999,random}, holder tiers, prices; operations: send, cancel, request-batch, deposit / transfer / '
            'batch-executed / other events (applied by EndBlocker), BeginBlock (timeouts, auto-batching), EndBlock (expiry refunds), governance token-list change; '
            'a separate hostile stream adds 2^250-scale amounts, negative and overflowing fees, zero deposits, unknown tokens. '
            'A case counts as non-trivial/agreeing when the model reproduces the implementation\'s observable state after every operation.')


def hub_suite(qn=150, tn=1200, ops_q=60, ops_t=120, hostile=True):
    s = [{'name': 'hub', 'quick': '-n %d -ops %d' % (qn, ops_q), 'thorough': '-n %d -ops %d' % (tn, ops_t), 'shards': {'quick': 2, 'thorough': 16}}]
    # boundary-directed: prefix-related token ids on one chain, many batches, out-of-order executions
    s.append({'name': 'hub', 'quick': '-n %d -ops %d -directed' % (qn // 2, ops_q + 20), 'thorough': '-n %d -ops %d -directed' % (tn // 2, ops_t), 'shards': {'quick': 1, 'thorough': 8}})
    if hostile:
        # 2^250-scale amounts, negative/overflowing fees, zero deposits, unknown tokens
        s.append({'name': 'hub', 'quick': '-n %d -ops %d -hostile' % (qn // 3, ops_q), 'thorough': '-n %d -ops %d -hostile' % (tn // 3, ops_t), 'shards': {'quick': 1, 'thorough': 8}})
    return s


PROPS = {
    'C04': {'suites': hub_suite(), 'trusted_base': HUB_TB, 'rule': HUB_RULE,
            'assumptions': ['chain ids are prefix-free (true of ethereum/minter/bsc/hub; checked by Example C04_hypothesis_satisfiable)',
                            'uint64 counters do not wrap (2^64 sends are unreachable)']},
    'C11': {'suites': hub_suite(), 'trusted_base': HUB_TB, 'rule': HUB_RULE,
            'assumptions': ['sdk.Dec.Mul rounding is modelled (round half to even); rate*(value*10^18) is exact, so the commission is a floor',
                            '(chain, external id) identifies one token info (ConvertToExternalValue looks the token up again by external id)']},
    'C19': {'suites': hub_suite(hostile=False), 'trusted_base': HUB_TB, 'rule': HUB_RULE,
            'assumptions': ['prices are inputs (x/oracle: C18); sdk.Dec arithmetic of the reimbursement is modelled (Mul/Quo round half even, QuoInt64/TruncateInt truncate)',
                            'the per-user bound is stated for tokens with at most 18 external decimals (more: known finding)']},
    'C12': {'suites': hub_suite(hostile=False), 'trusted_base': HUB_TB, 'rule': HUB_RULE,
            'assumptions': ['chain ids are prefix-free', 'expiry is decided on whole-millisecond block times (the harness only uses such times)']},
    'C13': {'suites': hub_suite(hostile=False), 'trusted_base': HUB_TB, 'rule': HUB_RULE,
            'assumptions': ['chain ids are prefix-free',
                            '"can no longer execute" relies on the contract model (block.number < timeout, per-token nonce) of C08 and on observed heights coming only from applied events (C03)']},
    'C10': {'suites': hub_suite(), 'trusted_base': HUB_TB, 'rule': HUB_RULE,
            'assumptions': ['chain ids are prefix-free', 'uint64 counters do not wrap']},
}
