"""Per-property configuration of bin/check: suites (harness generator + model function),
source-fact generators, extra scripts, trusted base and rule texts for the evidence."""

HUB_TB = [
    'model: coq/Hub/{Types,Model}.v (pool, batches, bank ledger, event handler, Begin/EndBlocker batch logic) is hand-written; '
    'tied to /repo by co-execution of hub histories on the real keepers (x/mhub2 keeper + msg server + Begin/EndBlocker, real x/bank, x/auth, x/params on IAVL stores)',
    'modelled, not verified: cosmos-sdk x/bank (as a ledger), store/IAVL, protobuf; staking and x/oracle are inputs (mock staking keeper, price/holder tables); '
    'quorum machinery is abstracted here as "a claim voted by a >=66% validator is applied in the same block\'s EndBlocker" (its own model: C02/C03)',
]
HUB_RULE = ('seeded histories (VERIF_SEED -> splitmix64) of 40-120 operations over 4 chains, 1-3 denoms with external decimals in {0,6,8,12,18,20,24}, '
            'commission rates {0,1e-18,0.003,0.01,0.5,0.999,random}, holder tiers, prices; operations: send, cancel, request-batch, deposit / transfer / '
            'batch-executed / other events (applied by EndBlocker), BeginBlock (timeouts, auto-batching), EndBlock (expiry refunds), governance token-list change; '
            'a separate hostile stream adds 2^250-scale amounts, negative and overflowing fees, zero deposits, unknown tokens (the hub value of all deposits of one asset is kept below 2^255: what the custodies hold stays representable). '
            'One case in four lists the same contract address on ethereum and bsc for different assets; one in four scales the validator powers beyond 2^32 (the signer set given to the model is normalised by the harness, not read from the keeper); '
            'quiet stretches of 4-17 empty blocks while batches wait; batch requests inside a transaction that fails afterwards (dropped cache branch). '
            'A case counts as non-trivial/agreeing when the model reproduces the implementation\'s observable state after every operation.')


def hub_suite(qn=150, tn=600, ops_q=60, ops_t=120, hostile=True):
    s = [{'name': 'hub', 'quick': '-n %d -ops %d' % (qn, ops_q), 'thorough': '-n %d -ops %d' % (tn, ops_t), 'shards': {'quick': 2, 'thorough': 16}}]
    # boundary-directed: prefix-related token ids on one chain, many batches, out-of-order executions
    s.append({'name': 'hub', 'quick': '-n %d -ops %d -directed' % (qn // 2, ops_q + 20), 'thorough': '-n %d -ops %d -directed' % (tn // 2, ops_t), 'shards': {'quick': 1, 'thorough': 8}})
    if hostile:
        # 2^250-scale amounts, negative/overflowing fees, zero deposits, unknown tokens
        s.append({'name': 'hub', 'quick': '-n %d -ops %d -hostile' % (qn // 3, ops_q), 'thorough': '-n %d -ops %d -hostile' % (tn // 3, ops_t), 'shards': {'quick': 1, 'thorough': 8}})
    return s


VOTES_TB = [
    'model: coq/Hub/Votes.v (recordEventVote, getLastEventNonceByValidator, getSignerValidator, TryEventVoteRecord, eventVoteRecordTally for one chain) is hand-written; '
    'tied to /repo by co-executing vote histories on the real msg server and EndBlocker (real stores, real claim hashes)',
    'inputs, not verified: the staking snapshot (mock staking keeper: bonded flag, LastValidatorPower, LastTotalPower as the sum of bonded powers), the orchestrator registry (C17), the claim hash (C14); '
    'applying an event is abstracted to "append to the log and credit its amount" (its effects: hub model, C01/C11)',
]
VOTES_RULE = ('seeded histories of 60-150 operations for 2-6 validators (equal powers, tiny totals 1..3 for threshold rounding, one dominant, near-boundary 30..37, powers around 1e17 whose 66-fold exceeds int64, random up to 1e6), '
              '0..n registered orchestrators; operations: claims (in-order, repeated, skipped, arbitrary nonce, conflicting variants, from own account / orchestrator / foreign orchestrator / non-validator), '
              'EndBlocker tallies, staking changes (powers and unbonding) between vote and tally, key rotations (a real signed MsgDelegateKeys with a fresh orchestrator and key for a validator in mid-sequence). A case agrees when records, last observed nonce, per-validator nonces and credited supply match after every operation.')


def votes_suite():
    return [{'name': 'votes', 'quick': '-n 400 -ops 70', 'thorough': '-n 3000 -ops 150', 'shards': {'quick': 2, 'thorough': 16}}]


SIG_TB = [
    'model: coq/Hub/SignerSet.v (CurrentSignerSet, ExternalSigners.Sort, PowerDiff as the rational test 20*sum > 2^32-1, CreateSignerSetTx, createSignerSetTxs) is hand-written; '
    'tied to /repo by co-executing BeginBlocker sequences on the real keeper (CurrentSignerSet, GetLatestSignerSetTx, LatestSignerSetTxNonce)',
    'inputs: bonded validators in staking order with LastValidatorPower, registered external addresses (C17). The float64 evaluation of PowerDiff is not modelled: it is argued equal to the rational test '
    '(integers below 2^33 are exact, no integer lies within 0.25/(2^32-1) of the 5% boundary) and exercised by the correspondence.',
]
SIG_RULE = ('seeded sequences of 25-60 BeginBlocker calls over a pool of 1-40 validators (some without a key for the chain): all-equal powers, powers 1..5, one dominant validator (1e12 vs <=1e6), '
            'near ties around the 5% boundary, random up to 2^30; nearly equal addresses; per step random bonding/unbonding and delegation changes. A case agrees when the current set, the latest set and the nonce match after every step.')

REG_TB = [
    'model: coq/Hub/Registry.v (SetDelegateKeys with the two in-use scans, getSignerValidator, SubmitTxConfirmation, the *TxConfirmations and Unsigned*Txs queries) is hand-written; '
    'tied to /repo by co-executing registration/confirmation histories on the real msg server (real secp256k1 signatures over DelegateKeysSignMsg, real account sequences in x/auth) and the real gRPC query methods',
    'abstractions: the signature check enters the model as "the address go-ethereum recovers from the message\'s signature over (validator, sequence-1)"; that the transaction is signed by the validator\'s own account is the SDK\'s GetSigners/ante handler (not modelled); '
    'chain ids are taken as exact map keys (registrations for chain ids that are byte-prefixes of each other are only over-restricted by the real scans); the confirmation signature itself is not verified by the code (stated in DESIGN.md)',
]
REG_RULE = ('seeded histories of 50-120 operations for 2-5 validators (operator addresses with leading bytes 0xff, 0x00, 0x10, 0x7f, 0x80), 4 orchestrator accounts, 6 external keys, chains ethereum/bsc/minter/hub: registrations (fresh, re-registration, address or orchestrator already in use, unknown validator, zero address, '
            'signature over a stale sequence, by another key, truncated, 65 zero bytes), confirmations of signer sets / batches / contract calls (by validator, orchestrator, stranger; wrong chain, unknown tx, wrong or zero claimed signer, duplicates), '
            'bonding changes, new outgoing txs, batches observed as executed (preferring one that leaves an older batch of its token behind); every third case opens with two Minter batches of one coin, confirmed, the later executed first; after every operation all three maps, the confirmations of every outgoing tx and the unsigned lists for every asker are compared.')

PROPS = {
    'C16': {'suites': [{'name': 'reg', 'quick': '-n 150 -ops 60', 'thorough': '-n 1500 -ops 120', 'shards': {'quick': 2, 'thorough': 16}}],
            'trusted_base': REG_TB, 'rule': REG_RULE,
            'assumptions': ['store-index prefixes of different outgoing txs are not prefixes of each other (true for signer sets and batches; contract-call scopes are variable length: noted in DESIGN.md)']},
    'C17': {'suites': [{'name': 'reg', 'quick': '-n 150 -ops 60', 'thorough': '-n 1500 -ops 120', 'shards': {'quick': 2, 'thorough': 16}}],
            'trusted_base': REG_TB, 'rule': REG_RULE,
            'assumptions': ['chain ids consist of bytes (hypothesis realbytes); the tx signer is the validator account (SDK GetSigners)']},
    'C20': {'suites': [{'name': 'conn', 'bin': 'connharness', 'quick': '-n 400', 'thorough': '-n 5000', 'shards': {'quick': 2, 'thorough': 16}},
                       {'name': 'cmd', 'bin': 'connharness', 'quick': '-n 6000', 'thorough': '-n 100000', 'shards': {'quick': 1, 'thorough': 8}},
                       # the connector process itself (hook: tag verif): start-up resync + rounds of relayMinterEvents, committer intercepted
                       {'name': 'relay', 'bin': 'connharness', 'quick': '-n 120', 'thorough': '-n 2000', 'shards': {'quick': 4, 'thorough': 16}}],
            'trusted_base': [
                'model: coq/Conn/Connector.v (ValidateAndComplete incl. common.IsHexAddress and big.Int.SetString(s,0) number syntax, strconv.Atoi, transaction classification, GetLatestMinterBlockAndNonce, LoadStatus/Commit, '
                'the numbering of relayMinterEvents) is hand-written; tied to /repo by co-executing the real packages minter-connector/{minter,context,command} against a scripted Minter node (net/http/httptest serving /status and /blocks), by running the connector binary itself (cmd/mhub-minter-connector built with -tags verif: relay_verif.go runs resync + relayMinterEvents rounds and prints cursors and intercepted claims) '
                'and by calling ValidateAndComplete on generated payloads',
                'abstractions: bech32 validity of send_to_hub recipients is an input computed by sdk.AccAddressFromBech32 in the harness; JSON decoding of the payload is done by the implementation (the model receives the three strings, or "not JSON"); '
                'the node answers every request and returns blocks in ascending order (an unreachable node makes the real loop retry forever: not modelled); the requests of 100 blocks are flattened into one ascending scan',
                'relayMinterEvents lives in package main and needs a live hub connection: it is MODELLED, NOT CO-EXECUTED (its numbering theorem C20_event_nonces_canonical rests on reading the code); uint64 wrap-around of nonces is not modelled except for the uint64(nonce) cast of a multisig-edit payload'],
            'rule': 'conn: chains of 8-38 (sometimes 150-270) blocks with 0-3 transactions each: sends to the multisig with valid / invalid commands (unknown type, bad recipient, fee syntax and bound variants, non-JSON payload, numeric fee field), sends elsewhere, '
                    'multisends and multisig edits from the multisig or from strangers (payloads "12", "-2", "abc", "", overflow ...), other transaction types; 2-6 operations per case: restart+resync with acknowledged nonce 0 / behind / at / ahead of the cursor and a growing node height, '
                    'status file corrupted, status file removed. Compared after every operation: the returned cursor and the status file. cmd: type x recipient x fee syntax x amount combinations.',
            'assumptions': ['the configured start block is >= 0 and Minter blocks are numbered consecutively from 1', 'the Minter API returns the blocks of a range in ascending order (as the scripted node does)']},
    'C08': {'gen': ['gen_srcfacts.py'],
            'suites': [{'name': 'evm', 'quick': '-n 150 -ops 30', 'thorough': '-n 3000 -ops 40', 'shards': {'quick': 4, 'thorough': 16}},
                       {'name': 'sigset', 'quick': '-n 150 -ops 40', 'thorough': '-n 1500 -ops 60', 'shards': {'quick': 2, 'thorough': 16}},
                       # what the relayer assembles comes from the confirmation queries: a recorded confirmation of a pending tx is served
                       {'name': 'reg', 'quick': '-n 100 -ops 60', 'thorough': '-n 1000 -ops 120', 'shards': {'quick': 2, 'thorough': 16}},
                       # hub side of "in nonce order": a signer set leaves the store only after a higher one was observed as executed
                       {'name': 'sigprune', 'quick': '-n 150 -ops 40', 'thorough': '-n 2000 -ops 80', 'shards': {'quick': 1, 'thorough': 8}},
                       # hub side of "in step": a batch is withdrawn only after its timeout height was observed on its chain
                       {'name': 'hub', 'quick': '-n 100 -ops 60', 'thorough': '-n 800 -ops 120', 'shards': {'quick': 2, 'thorough': 16}}],
            'trusted_base': [
                'translator bin/gen_srcfacts.py (regex based): regenerates coq/Gen/SrcFactsSol.v from solidity/contracts/Hub2.sol on every run: the ordered require conditions and state assignments of updateValset / submitBatch / transferToChain, '
                'the three comparisons and the skeleton of the checkValidatorSignatures loop, the initial nonces; coq/Gen/SrcFactsGo.v: the Minter multisig threshold and weight expression of the connector. '
                'The contract model coq/Ext/Hub2Sol.v does not contain these comparisons: it compiles and interprets the extracted text (lemmas C08_source_facts re-check what it compiles to)',
                'correspondence: the COMPILED contract (module/solidity/Hub2.go bytecode, deployed on go-ethereum backends.SimulatedBackend with an ERC20) is driven with signer-set updates and batches whose digests are the real hub types\' GetCheckpoint values '
                'and whose signatures are real secp256k1 signatures; accept/revert, the three nonces, the contract\'s token balance, the block height and destination balances are compared after every transaction',
                'modelled, not verified: that the bytecode in Hub2.go was compiled from Hub2.sol (no solc in the sandbox; the co-execution ties the model to the bytecode, the translator ties it to the source text); checkpoints are compared as the values they hash '
                '(keccak/ABI injectivity; encodings: C07); ERC20 semantics (transfer reverts on insufficient balance); logic calls, WETH and the guardian functions are not modelled; the Minter multisig rule itself (weights reach the threshold) is Minter\'s, stated as the definition msig_accepts'],
            'rule': 'seeded cases of 30-40 transactions on one deployment with 1-6 validators (equal / one dominant / near-threshold / random powers, hub normalisation to 2^32-1): signer-set updates (re-powered, added, dropped, same, too weak; nonce +1, +3, equal, lower), '
                    'batches of 1-4 transfers (nonce +1, +2, stale; timeout future / executing block / executing block + 1 / past; amounts within, draining, exceeding the balance), deposits (within / above the user balance, zero), empty blocks; '
                    'signer subsets: all, minimal above the threshold, maximal not above it, exactly at it, strongest prefix, random; signature quality valid / invalid (wrong digest or wrong key), invalid ones before and after the quorum; '
                    'claimed current set: true, wrong set, wrong nonce.',
            'assumptions': ['powers are non-negative (hypothesis members_nonneg)',
                            'no member of a signer set is the zero address: ecrecover returns address(0) for a malformed signature, so "valid signature" would not mean "confirmed" for such a member; '
                            'checked on every hub-emitted set by the monitor C08/zero-address-member (sigset suite), registration of the zero address is refused (C17)',
                            'the hub stores a signer set in Sort() order, the order in which its attestation is stored and which the relayer presents as the current set (monitor C08/set-not-in-attested-order)',
                            'keccak256/abi.encode of (gravityId, "checkpoint", nonce, validators, powers) is injective (checkpoints compared as values)']},
    'C15': {'suites': [{'name': 'genesis', 'quick': '-n 150 -ops 40', 'thorough': '-n 2000 -ops 100', 'shards': {'quick': 2, 'thorough': 16}},
                       # a relayer far behind: more than 100 batches of one token wait on one chain at the export
                       {'name': 'genesis', 'quick': '-n 2 -ops 30 -many', 'thorough': '-n 16 -ops 40 -many', 'shards': {'quick': 1, 'thorough': 8}},
                       {'name': 'votesgen', 'quick': '-n 150 -ops 70', 'thorough': '-n 2000 -ops 150', 'shards': {'quick': 2, 'thorough': 16}},
                       {'name': 'oraclegen', 'quick': '-n 150 -ops 60', 'thorough': '-n 2000 -ops 120', 'shards': {'quick': 1, 'thorough': 8}},
                       {'name': 'reggen', 'quick': '-n 100 -ops 60', 'thorough': '-n 1000 -ops 120', 'shards': {'quick': 2, 'thorough': 16}}],
            'trusted_base': [
                'models of the round trip on the four hand-written state models: coq/Hub/Genesis.v (restart on the hub state, vrestart on the vote state), coq/Oracle/Oracle.v (orestart), coq/Hub/Registry.v (rrestart); '
                'tied to /repo by executing, inside generated histories of the respective suite, the real keeper.ExportGenesis / x/oracle ExportGenesis -> JSON -> InitGenesis on fresh stores (harness Env.Restart; bank and auth state travel through their own export) '
                'and comparing the full observation of the suite after the restart (and, for the vote suite, after every later operation) with the model',
                'the models mirror the implementation INCLUDING its losses (that is what makes the correspondence agree); the property itself is evaluated by the monitors (component by component, before vs after the restart) and by the refutation theorems',
                'not covered: app/export.go wiring (zero-height export, validator set export) and modules other than mhub2, oracle, bank, auth; contract-call outgoing txs only through the registry suite'],
            'rule': 'genesis: hub histories (sends, cancels, batches, deposits, executions, timeouts, block boundaries; only events that pass ExternalEvent.Validate) ended by a restart at a block boundary; '
                    'votesgen: vote histories with a restart between any two operations (probability 1/12 per step, votes in progress, orchestrators registered), continuation compared step by step; '
                    'oraclegen: oracle histories ended by a restart; reggen: registration/confirmation histories ended by a restart.',
            'assumptions': ['a restart happens at a block boundary (no claims pending inside a block)', 'bank and auth genesis round trips are the SDK\'s (exercised, not modelled)']},
    'C06': {'gen': ['gen_nondet.py'], 'extra': ['c06_replays.py'],
            'suites': [{'name': 'det', 'quick': '-n 150 -ops 50', 'thorough': '-n 2000 -ops 100', 'shards': {'quick': 2, 'thorough': 16}},
                       {'name': 'detoracle', 'quick': '-n 150 -ops 60', 'thorough': '-n 2000 -ops 120', 'shards': {'quick': 1, 'thorough': 8}}],
            'trusted_base': [
                'translator bin/gen_nondet.py (syntactic, no type checker: map variables are recognised from literals, make, declarations, parameters and calls of map-returning functions of the two modules): '
                'regenerates coq/Gen/NondetFacts.v from module/x/mhub2 and module/x/oracle (tests, generated protobuf/gateway code and test_common.go excluded) on every run: every `range` over a map, goroutine, select, time.Now and math/rand use',
                'the models are Gallina functions (deterministic by construction) that model Go maps by lists; theorems show order-independence at each inventoried site; the correspondence suites det / detoracle tie the models to the code, '
                'with histories that also contain failing transactions that wrote the token list (must leave no trace) and rebuilds of all keeper objects over the same stores (a process restart)',
                'RUNTIME HALF, NOT A PROOF: bin/c06_replays.py executes the same seeded histories in several fresh processes (Go randomises map iteration per process) and single cases alone, and compares the observations plus a SHA-256 over all KV pairs '
                'of the bridge, oracle and bank stores and the ABCI events after every operation; goroutine scheduling inside one process is not explored (the consensus code starts no goroutine: inventory)',
                'not covered: nondeterminism inside cosmos-sdk / tendermint / protobuf (trusted), the app wiring in module/app, gRPC query handlers (not consensus)'],
            'rule': 'det: hub histories (as for C04/C10-C13) interleaved with failing token-list transactions and keeper rebuilds; detoracle: oracle histories (as for C18); every history executed by 3 (thorough: 8) processes and compared byte for byte incl. per-operation state/event hashes; 4 cases per suite re-run alone.',
            'assumptions': ['distinct voters hold at most the total power (C18_voters_distinct_one_report_each + staking: operator addresses are unique)',
                            'PowerDiff\'s float64 additions are exact: every partial sum is an integer below 2^34 (both signer sets sum to at most 2^32-1: C09)']},
    'C05': {'gen': ['gen_iterfacts.py'],
            'suites': [{'name': 'blocks', 'quick': '-n 6 -ops 60 -hostile', 'thorough': '-n 60 -ops 150 -hostile', 'shards': {'quick': 4, 'thorough': 16}},
                       {'name': 'votes', 'quick': '-n 200 -ops 70', 'thorough': '-n 2000 -ops 150', 'shards': {'quick': 2, 'thorough': 8}},
                       {'name': 'oracle', 'quick': '-n 200 -ops 80', 'thorough': '-n 2000 -ops 160', 'shards': {'quick': 2, 'thorough': 8}},
                       # hostile events (amounts that overflow a conversion, negative fees, unknown tokens): every Begin/EndBlocker returns normally
                       {'name': 'hub', 'quick': '-n 60 -ops 60 -hostile', 'thorough': '-n 600 -ops 120 -hostile', 'shards': {'quick': 2, 'thorough': 8}},
                       # deposits not capped below 2^255 of hub value: refunds and mints run into the bank's 256-bit supply limit
                       # (seed 9204 case 45 is the input on which the expiry refund used to panic out of the EndBlocker, fixed by 8157192)
                       {'name': 'hub', 'seed_base': 9204, 'quick': '-n 60 -ops 120 -hostile -consistent -nocap', 'thorough': '-n 100 -ops 120 -hostile -consistent -nocap', 'shards': {'quick': 1, 'thorough': 8}}],
            'trusted_base': [
                'translator bin/gen_iterfacts.py (syntactic; calls are resolved by name inside module/x/mhub2 and module/x/oracle, transitively): regenerates coq/Gen/IterFacts.v on every run: the bodies that run while a store iterator is open '
                '(callbacks of the keepers\' Iterate* helpers, for-iter.Valid loops; calls through longer selectors and interface fields such as k.ExternalEventProcessor.Handle are resolved by method name, an over-approximation) and the calls in them that write to the module store and open another iterator (iter_write_sites, must be empty) or only write (iter_plain_write_sites)',
                'lock model (Proofs/C05Proofs.v): the cosmos-sdk cachekv store + tm-db MemDB discipline reduced to: an open iterator may hold the read lock of the dirty-entry index; an iterator opened after a write needs its write lock. '
                'This reduction is read from cosmos-sdk v0.45.4 store/cachekv and tm-db v0.6.6 memdb (trusted, reproduced by the watchdog runs on the reverted fix and on the seeded change)',
                'correspondence / runtime half: suite blocks executes hub histories with every block on a cache-wrapped multistore (as deliverState), BeginBlocker/EndBlocker under a 20 s watchdog (code 3 = did not return), hostile amounts and bursts of 60-110 transfers, '
                'timed-out full batches and mass expiries in one block; suites votes and oracle run the tally / oracle EndBlocker; the monitor flags every block-processing call that does not return normally',
                'proved on the models: BeginBlocker never panics (configured chains known, block times non-zero), an applied event fails on its own, tally and oracle never panic, and the hub EndBlocker (tally + expiry refunds of every chain) always completes '
                '(C05_end_block_never_fails: any pool, balances, supply up to the bank\'s 256-bit limit, token list) — true of the tree after fix 8157192, which contains a panicking expiry refund like a failing one; '
                'the model\'s panic points (sdk.Int beyond 2^256-1 in mint / conversion, missing token entries) are tied to the code by the hostile and the uncapped (-nocap) correspondence streams'],
            'rule': 'blocks: hub histories (hostile stream: negative / zero / 2^255-scale amounts and fees, unknown tokens and chains, missing prices) with up to three bursts of 60-110 transfers written in one block, followed by a batch request + timeout of the whole batch, '
                    'or by a 62 s jump so that they expire next to a second burst; every BeginBlocker/EndBlocker on a cache-wrapped multistore under a watchdog. votes / oracle: as for C02/C03 and C18.',
            'assumptions': ['every configured chain id is one of ethereum, bsc, minter, hub and the average block times are non-zero (hypothesis params_ok; an unknown chain id divides by zero in getBatchTimeoutHeight)',
                            'staking powers are non-negative']},
    # the hostile stream of C01 keeps the reported executions within what the custody could have done (-consistent):
    # a custody ledger derived from execution claims is meaningless for executions no contract / multisig can make
    'C01': {'suites': [dict(s, quick=s['quick'] + ' -consistent', thorough=s['thorough'] + ' -consistent') if '-hostile' in s['quick'] else s for s in hub_suite()]
                      + [{'name': 'hub', 'quick': '-n 60 -ops 80 -gov', 'thorough': '-n 500 -ops 120 -gov', 'shards': {'quick': 1, 'thorough': 8}},
                                     # the clock that decides batch timeouts moves only with attested claims (sub-quorum and conflicting claims, key rotations)
                                     {'name': 'votesh', 'quick': '-n 100 -ops 60', 'thorough': '-n 1500 -ops 120', 'shards': {'quick': 1, 'thorough': 8}}],
            'trusted_base': HUB_TB + [
                'external custody is a LEDGER derived from the history (Hub/World.v): a deposit / transfer event stands for a lock of its amount in the chain\'s contract or multisig before it was attested, a batch-executed event for the payout of that batch\'s amounts '
                '(once per batch; executions the hub dropped are reported separately and not subtracted). That the contract only pays out batches signed by more than the threshold and locks what it reports is C08; that events are attested by 66% and applied in order is C02/C03',
                'cross-chain liquidity is not part of the property as modelled: the bound is per asset over all chains together (an individual contract can run dry: C08 model refuses such a batch)'],
            'rule': HUB_RULE + ' For C01 the monitor evaluates, after every operation and for every asset, phi = supply + hub value of pool and batch entries: it may grow only in an EndBlocker and only by the deposits applied there, and never exceeds the custody ledger.',
            'assumptions': ['the token table is consistent (a token is found again by (chain, external id) and by id; 0..24 decimals: hypothesis tokens_ok)', 'fees are non-negative (MsgSendToExternal.ValidateBasic)',
                            'execution claims of pending batches are handled by the hub (violated in the situations of the known finding C01/execution-event-dropped)']},
    'C18': {'suites': [{'name': 'oracle', 'quick': '-n 300 -ops 80', 'thorough': '-n 4000 -ops 160', 'shards': {'quick': 2, 'thorough': 16}}],
            'trusted_base': [
                'model: coq/Oracle/Oracle.v (MsgPriceClaim / MsgHoldersClaim handlers, attestation vote lists, tryAttestation threshold, GetNormalizedValPowers, the two AttestationHandler branches, ProcessCurrentEpoch, '
                'the oracle EndBlocker) is hand-written; tied to /repo by co-executing claim/epoch histories on the real x/oracle msg server, keeper and EndBlocker (real stores, real sdk.Dec arithmetic)',
                'abstractions: a validator is one identity (the raw address bytes shared by its operator and account address; the bech32 conversions are done by the harness); staking (bonded flag, LastValidatorPower, LastTotalPower = sum of bonded) '
                'and the required price names (mhub2 token list + eth, ethereum/gas, bnb, bsc/gas) are inputs; holder lists are compared in their stabilized (sorted "address:value") form, which the harness computes; '
                'prices are sdk.Dec mantissas (value * 10^18); the 65535-normalised power of GetNormalizedValPowers is taken as the stake weight (theorem C18_weight_is_stake_share: within one unit of the exact share)'],
            'rule': 'seeded histories of 80-160 operations for 1-6 validators (equal powers, 10/40/40/10/25/25, random up to 100 and up to 1e6), one or two hub tokens: price claims (complete, a required name missing, a zero price, an extra name; '
                    'current, previous and next epoch; by validators and by a stranger; repeated by the same validator), holders claims (three list variants incl. the empty list, permuted), EndBlocker at consecutive heights (every 5th is an epoch boundary), '
                    'staking changes (power, bonding) in mid-epoch. After every operation: epoch, stored prices, stored holders and both vote lists are compared.',
            'assumptions': ['staking powers are non-negative (hypothesis wf_oop / vals_ok)', 'operator addresses are unique among validators (cosmos-sdk staking)']},
    'C14': {'suites': [{'name': 'claim', 'quick': '-n 4000', 'thorough': '-n 60000', 'shards': {'quick': 2, 'thorough': 16}}],
            'trusted_base': [
                'model: coq/Ext/ClaimHash.v (type tag + 8-byte length-prefixed fields of each event type; sdk.Int as sign byte + minimal big-endian magnitude; members in Sort() order) is hand-written; '
                'tied to /repo by comparing, on generated pairs of events, (a) the byte string the real per-type Hash() feeds into SHA-256 (recorded by the verif-tagged hasher hook) with the model\'s byte string, byte for byte, and '
                '(b) the equality pattern Hash(e1)==Hash(e2) with equality of the model\'s strings (single-field mutants of every field, boundary shifts, separator-absorbing pairs built from the observed byte strings, power swaps), so no SHA-256 model is needed',
                'SHA-256 collision resistance is a hypothesis of C14_claim_ids (an arbitrary injective function in the statement)'],
            'rule': 'pairs (event, mutant) over the five event types: identical copy; one field changed (nonce, height, coin, amount incl. x256 / negation, fee, sender incl. case and 0x prefix, receiver, chain, tx hash, '
                    'batch nonce, fee paid incl. unset, fee payer, scope, invalidation nonce, return data, set nonce, member power / order / addition / double duplication); '
                    'boundary shifts (last byte of the coin id into the amount, receiver into chain or sender, scope into return data, tx hash into payer); member powers exchanged between two addresses; '
                    'separator-absorbing pairs (field i swallows the bytes the implementation writes between fields i and j, field j carries them in the twin event); '
                    'sign/width pairs (fee or fee-paid = -x with a k-byte magnitude against 2^(8k)+x, k in {1,3,7,8,15,31}).',
            'assumptions': ['event nonces, heights and powers are below 2^64 and fields shorter than 2^64 bytes (hypothesis xwf)']},
    'C07': {'gen': ['gen_srcfacts.py'],
            'suites': [{'name': 'ckpt', 'quick': '-n 50', 'thorough': '-n 600', 'shards': {'quick': 2, 'thorough': 16}},
                       {'name': 'sig', 'quick': '-n 600', 'thorough': '-n 6000', 'shards': {'quick': 1, 'thorough': 4}}],
            'trusted_base': [
                'translator bin/gen_srcfacts.py (regex/JSON based): regenerates coq/Gen/SrcFactsSol.v from solidity/contracts/Hub2.sol (abi.encode argument lists with types, method-name literals, verifySig prefix and shape) '
                'and coq/Gen/SrcFactsGo.v from types/abi_json.go, types/outgoing_tx.go, types/ethereum_signer.go on every run; the theorems are re-checked against them',
                'model: coq/Ext/Abi.v (Solidity ABI encoder, written from the ABI specification), coq/Ext/Keccak.v (Keccak-256, checked against two test vectors inside Coq), coq/Ext/Checkpoint.v; '
                'tied to the implementation by co-execution: types.*.GetCheckpoint digests on generated signer sets / batches / contract calls must equal keccak256(abi_encode(model args)); '
                'ValidateEthereumSignature verdicts must equal the model scheme given go-ethereum\'s recovery result',
                'modelled: the relayer\'s mapping of hub fields to contract parameters (relay_valset / relay_batch, as the orchestrator passes them); ECDSA recovery is an abstract function; '
                'collision resistance of Keccak-256 is assumed for "no other digest"; the EVM\'s own abi.encode/ecrecover are exercised through the compiled contract in the C08 suite'],
            'rule': 'ckpt: random gravity ids (0..32 bytes), nonces/timeouts up to 2^63, 0..120 members with powers up to 2^32, batches of 0..100 transfers with amounts in {0, 2^256-1, powers of 256, random widths}, '
                    'addresses with leading zero bytes and in every spelling IsHexAddress accepts (checksummed, lower, upper, 0X prefix, no prefix), contract calls with payloads of 0/1/31/32/33/64/100/1000 bytes and scopes of 0/1/20/32 bytes. sig: fresh secp256k1 keys; valid signatures, other claimed address, '
                    'v=27/28 and 0/1, short, long, damaged signatures, other digest, the high-s twin (r, n-s, v^1) of a valid signature.',
            'assumptions': ['Keccak-256 collision resistance and ECDSA unforgeability (not proved; the scheme agreement holds for any recovery function)']},
    'C09': {'suites': [{'name': 'sigset', 'quick': '-n 400 -ops 25', 'thorough': '-n 3000 -ops 60', 'shards': {'quick': 2, 'thorough': 16}},
                       # with attested executions and pruning in between: the latest nonce never goes back, stored nonces are unique
                       {'name': 'sigprune', 'quick': '-n 150 -ops 40', 'thorough': '-n 2000 -ops 80', 'shards': {'quick': 1, 'thorough': 8}}],
            'trusted_base': SIG_TB, 'rule': SIG_RULE,
            'assumptions': ['powers are non-negative', 'registered external addresses are distinct (C17); the staking hook for unbonding heights is disabled in the code (lastUnbondingHeight stays 0)']},
    'C02': {'suites': votes_suite(), 'trusted_base': VOTES_TB, 'rule': VOTES_RULE,
            'assumptions': ['event nonces are >= 1 (ExternalEvent.Validate) and staking powers are non-negative (hypothesis wf_vop of the theorems)',
                            'LastTotalPower equals the sum of the bonded validators\' LastValidatorPower (cosmos-sdk staking invariant)']},
    'C03': {'suites': votes_suite(), 'trusted_base': VOTES_TB, 'rule': VOTES_RULE,
            'assumptions': ['event nonces are >= 1 (ExternalEvent.Validate)', 'vote records are never deleted (no pruning exists in the code base)']},
    'C04': {'suites': hub_suite(), 'trusted_base': HUB_TB, 'rule': HUB_RULE,
            'assumptions': ['chain ids are prefix-free (true of ethereum/minter/bsc/hub; checked by Example C04_hypothesis_satisfiable)',
                            'uint64 counters do not wrap (2^64 sends are unreachable)']},
    'C11': {'suites': hub_suite(), 'trusted_base': HUB_TB, 'rule': HUB_RULE,
            'assumptions': ['sdk.Dec.Mul rounding is modelled (round half to even); rate*(value*10^18) is exact, so the commission is a floor',
                            '(chain, external id) identifies one token info (ConvertToExternalValue looks the token up again by external id)']},
    'C19': {'suites': hub_suite(hostile=False), 'trusted_base': HUB_TB, 'rule': HUB_RULE,
            'assumptions': ['prices are inputs (x/oracle: C18); sdk.Dec arithmetic of the reimbursement is modelled (Mul/Quo round half even, QuoInt64/TruncateInt truncate)',
                            'the per-user bound is stated for tokens with at most 18 external decimals (more: known finding)']},
    'C12': {'suites': hub_suite(hostile=False) + [
                # delistings: refunds that cannot be sent back to the originating chain fail on their own and change nothing
                {'name': 'hub', 'quick': '-n 100 -ops 80 -gov', 'thorough': '-n 800 -ops 120 -gov', 'shards': {'quick': 2, 'thorough': 8}}],
            'trusted_base': HUB_TB, 'rule': HUB_RULE,
            'assumptions': ['chain ids are prefix-free', 'expiry is decided on whole-millisecond block times (the harness only uses such times)']},
    'C13': {'gen': ['gen_srcfacts.py'], 'suites': hub_suite(hostile=False) + [
                # the clock of the timeout sweep: the stored external height moves only when the tally applies a claim
                {'name': 'votesh', 'quick': '-n 150 -ops 60', 'thorough': '-n 2000 -ops 120', 'shards': {'quick': 2, 'thorough': 16}}],
            'trusted_base': HUB_TB + ['coq/Hub/VotesHeight.v wraps the vote model (C02/C03) with the external heights the claims report; tied to /repo by the votesh suite (real msg server + EndBlocker, sub-quorum and conflicting claims with different heights, key rotations, staking changes)'],
            'rule': HUB_RULE,
            'assumptions': ['chain ids are prefix-free',
                            '"can no longer execute" relies on the contract model (block.number < timeout, per-token nonce) of C08; that observed heights come only from applied claims is the theorem C13_observed_height_only_from_applied_claims']},
    # flood: four or five tokens of one chain with a backlog of 100-112 transfers each, batched by one BeginBlocker (about 450 operations per case)
    'C10': {'suites': hub_suite() + [{'name': 'hub', 'quick': '-n 2 -ops 40 -flood', 'thorough': '-n 3 -ops 40 -flood', 'shards': {'quick': 4, 'thorough': 5}}],   # the driver needs 3-8 GB per shard on these histories
            'trusted_base': HUB_TB, 'rule': HUB_RULE,
            'assumptions': ['chain ids are prefix-free', 'uint64 counters do not wrap']},
}


# ---- texts for MANIFEST.json ----
_HUB_NOTE = ('Trusted: Coq 8.16.1 kernel (vm_compute, no native_compute), extraction (ExtrOcamlBasic) + OCaml driver, the Go harness; the hand-written hub model is tied to /repo '
             'by co-executing generated histories on the real keepers on every run; x/bank, stores, protobuf are modelled not verified; staking and oracle are inputs.')
_VOTES_NOTE = ('Trusted: Coq kernel, extraction + driver, Go harness; the hand-written votes model is tied to /repo by co-execution on the real msg server/EndBlocker; '
               'staking, orchestrator registry and claim hash are inputs.')
TEXT = {
    'C16': {'technique': 'Coq iff-characterisation of the confirmation handler and of the queries + refutation witness + correspondence',
            'level': 'Theorems: a confirmation is recorded iff (configured chain, signer resolves to a bonded validator, tx exists, registered address set and equal to the claimed signer, none stored yet), at most once per validator and tx, queries return exactly the stored signatures of that index; attribution to the right address is refuted after re-registration by a kernel-checked witness (known finding). Monitors on the implementation incl. the Unsigned* queries.',
            'note': 'Trusted: Coq kernel, extraction + driver, Go harness; staking and account sequences are inputs.'},
    'C17': {'technique': 'Coq invariant by induction over registration histories + correspondence with real signatures',
            'level': 'Theorems for all histories: per chain an external address is bound to at most one validator; every validator->address and orchestrator->validator binding stems from a successful registration of that validator; success requires an unused address and orchestrator and a signature recovering to the address over (validator, sequence-1); orchestrators resolve to their validator. Monitors on the implementation.',
            'note': 'Trusted: Coq kernel, extraction + driver, Go harness; ECDSA recovery computed by go-ethereum in the harness.'},
    'C20': {'technique': 'Coq invariant (whole-block cursor) over restart histories + characterisation of command validity + correspondence with the real connector packages on a scripted Minter node',
            'level': 'Theorems for all block histories, acknowledged nonces, node heights and restart sequences (incl. lost or corrupt status file): every persisted and every returned cursor is the result of scanning a whole number of blocks from the configured start, '
                     'hence next nonce = start nonce + number of bridge events at or below the last checked block; a relay round numbers its events consecutively from there (nonce independent of the restart history); '
                     'a send is a deposit iff it goes to the multisig with a JSON command of known type, valid recipient and integer fee 0 <= f < amount - amount/100. The relay loop is co-executed as well: the connector binary (build tag verif: the transaction committer is intercepted, no hub connection) is started against the scripted node for a resync and 1-3 rounds per start; cursors, status file and the claims handed to the committer are compared with the model, and the monitor re-checks whole-block cursors and consecutive claim nonces. PARTIAL: crashes in the middle of a round and the broadcast of the claims (tx_committer, hub side) are outside.',
            'note': 'Trusted: Coq kernel, extraction + driver, Go harness with the scripted node; the model covers the tree after three connector fix: commits (negative fee, partial-block resync, corrupt status file).'},
    'C08': {'technique': 'source-to-Coq translator (Hub2.sol conditions interpreted by the model) + Coq proofs of the signature-threshold loop + co-execution with the compiled contract on a simulated chain',
            'level': 'Theorems for all signer sets, signature subsets and power distributions: the contract\'s check accepts only if validators of its current set with valid signatures hold strictly more than the threshold, and (no invalid signature supplied) exactly then; '
                     'updateValset / submitBatch additionally need the true current set, a larger nonce, block < timeout and funds, and with those are accepted; every accepted operation advances the event nonce by exactly one, a refused one changes nothing; nonces never decrease; '
                     'Minter multisig threshold 667/1000 of floor-weights implies >= 66.7% of power. Monitors evaluate the same on the compiled contract. On the contract model a batch nonce / signer-set nonce executes at most once whatever happens in between; on the hub a signer set leaves the store only after a higher nonce was observed as executed and a batch is withdrawn only after its timeout height was observed. PARTIAL: "fed back through attestation" is covered by composition with C03/C09 theorems, not by one end-to-end model; logic calls are not modelled.',
            'note': 'Trusted: Coq kernel, the translator, extraction + driver, Go harness + go-ethereum simulated backend; bytecode/source correspondence of Hub2.go is assumed.'},
    'C15': {'technique': 'Coq models of export/import on the state models (preservation theorems, continuation theorem, kernel-checked refutation witnesses) + co-execution of the real ExportGenesis -> JSON -> InitGenesis inside generated histories',
            'level': 'The property is FALSE of the code and is decided as such: theorems prove what survives (pool, batches with sequence numbers, batch nonce, outgoing sequence, observed external height, tokens, params, vote records and validator nonces, prices, holders, current delegate keys, outgoing txs) '
                     'and that the continuation is identical when the unexported components are empty; witnesses refute the full round trip (transfer-id counter, statuses, oracle epoch). Monitors compare every observed component before and after the real round trip; '
                     'nine lost components are KNOWN FINDINGS (no genesis field exists), one defect (pool / outgoing txs / vote records not exported) was repaired.',
            'note': 'Trusted: Coq kernel, extraction + driver, Go harness (Env.Restart); app/export.go not exercised.'},
    'C06': {'technique': 'source-to-Coq inventory of nondeterminism sources + Coq order-independence theorems per site + correspondence; process-level replays as the runtime half',
            'level': 'Theorems: the map iterations / goroutines / clock / random uses of the current consensus code are exactly the eight classified sites and two simulation helpers; sorted key lists, minima, exact sums, the weighted-median inputs are independent of iteration order; '
                     'at most one holder list can pass the two-thirds test. The models are functions, tied to the code by the det suites. PARTIAL by nature: absence of nondeterminism below the modules (SDK, protobuf, Go runtime) and goroutine scheduling are exercised by replays in fresh processes, not proved.',
            'note': 'Trusted: Coq kernel, the syntactic translator, extraction + driver, Go harness; replays are tests.'},
    'C05': {'technique': 'Coq theorem on iterator nesting (lock skeleton) over facts translated from the keepers + no-panic theorems on the models + watchdog correspondence on a cache-wrapped multistore',
            'level': 'Theorems: code without an iterator body that both writes and opens another iterator never blocks (all loop counts, all dirty-entry counts), the excluded shape does block, and the current keepers contain no such site; BeginBlocker never panics for known chains; '
                     'an applied event fails on its own; tally and oracle never panic; the hub EndBlocker always completes on the model (expiry refunds that fail or panic are dropped on their own, after fix 8157192). PARTIAL: deadlock freedom of the real store is the lock model plus watchdog runs, not a proof about cachekv/MemDB.',
            'note': 'Trusted: Coq kernel, the syntactic translator, the lock model of cachekv/MemDB, extraction + driver, Go harness with watchdog.'},
    'C01': {'technique': 'Coq potential-function invariant proved by induction over every hub history (history theorem) + custody-ledger monitor over every co-executed history',
            'level': 'Theorem C01_history: along every history of hub operations from the empty state (withdrawal requests, cancellations, batch requests, attested deposits / transfers / batch executions / valset updates, Begin- and EndBlockers with timeouts, refunds, commission and fee payouts), for every parameter set with distinct prefix-free chain ids and every consistent token table with at most 18 external decimals and non-negative commission rates, '
                     'supply + in-flight value of every asset never exceeds the hub value minted for the attested deposits of that asset, and each deposit term is at most the locked external value. Step lemmas: a withdrawal never increases the potential (all decimals 0..24), a deposit raises it by exactly floor(locked value), refunds return exactly the in-flight value, batching only moves transfers, a failed event changes nothing. '
                     'PARTIAL: token-list changes inside a history and tokens with more than 18 decimals are excluded from the history theorem (the latter are the known findings C12/C19); the external custody itself (contract balance) is the monitor\'s ledger over co-executed histories, not part of the theorem; one genuine defect is a known finding (execution claim dropped when its handling fails).',
            'note': _HUB_NOTE},
    'C18': {'technique': 'Coq invariant over claim histories + order-independence lemma for the quorum + sorted-list proof of the weighted median + correspondence with the real x/oracle keeper',
            'level': 'Theorems for all histories and power distributions: epoch, prices and holders change at no step other than the epoch-boundary EndBlocker; voters are pairwise distinct and are exactly the validators with a stored (latest) report of the epoch; '
                     'the in-order early-exit quorum test equals "voters hold >= 66% of bonded power"; a boundary that changes prices/holders had that quorum; every stored price is the weighted median (half-weight bounds on both sides) of the latest reports; '
                     'an adopted holder list is the identical list of voters holding more than two thirds of the real stake. Monitors recompute quorum, median and two-thirds independently on the implementation.',
            'note': 'Trusted: Coq kernel, extraction + driver, Go harness; staking and required names are inputs; the model covers the tree after the two oracle fix: commits (vote dedup + ceil threshold, nil payload checks).'},
    'C14': {'technique': 'Coq injectivity proof of the hashed encoding (framing, fixed-width and minimal big-endian lemmas) + equality-pattern correspondence',
            'level': 'Theorem: for all admissible events of any two types, equal hashed byte strings imply the same type and equal values of every field (so, with a collision-free SHA-256, events differing in any effect field get different claim ids). The encoding model is tied to the real Hash() by equality patterns over generated mutant pairs.',
            'note': 'Trusted: Coq kernel, extraction + driver, Go harness; SHA-256 collision resistance assumed.'},
    'C07': {'technique': 'source-to-Coq translators + Coq lemmas over the generated facts + executable ABI/Keccak model co-executed with GetCheckpoint',
            'level': 'Theorems re-checked on every run against definitions generated from the current Hub2.sol and Go sources: same argument types/order/method constants, same argument values for every relayed signer set and batch (all sizes, all amounts) hence equal encodings and digests; hub signature check = contract verifySig for v in {27,28} for any recovery function; same prefix. The encoder+Keccak model is validated against the real GetCheckpoint and ValidateEthereumSignature.',
            'note': 'Trusted: Coq kernel, the translator, extraction + driver, Go harness; ABI spec transcription; contract-call (logic call) value mapping is only type-checked, not value-mapped.'},
    'C09': {'technique': 'Coq algebraic lemmas (floor, sums, unique sorted permutation) + freshness characterisation + correspondence',
            'level': 'Theorems for all validator sets: members = bonded validators with a key, in staking order; normalised power = floor(p*(2^32-1)/total) within one unit, sum <= 2^32-1; published order is a sorted permutation and the only one; nonce = previous+1; after BeginBlocker either the sorted current set was just published or the latest differs by at most 5% (rational test). Monitors on the implementation.',
            'note': 'Trusted: Coq kernel, extraction + driver, Go harness; staking input and key registry are inputs; float evaluation of PowerDiff argued, not modelled.'},
    'C02': {'technique': 'Coq invariant + tally lemma by induction over vote histories + correspondence',
            'level': 'Theorems over all histories of claims, tallies and staking changes: every claim the tally applies has pairwise distinct voters holding, at tally time, at least 66% of total bonded power; the tally never panics; each recorded vote is attributed to a bonded validator resolved through the orchestrator registry or its own account. Monitors evaluate the same on the implementation.',
            'note': _VOTES_NOTE},
    'C03': {'technique': 'Coq refinement of the vote store to an append-only log + correspondence',
            'level': 'Theorems: in every reachable state the applied claims carry nonces 1..L in order (exactly once, one claim per nonce), L is the stored last observed nonce, accepted iff applied, every EndBlocker only appends, validators\' claims are consecutive after the first one. Monitors on the implementation incl. effect = sum of applied amounts.',
            'note': _VOTES_NOTE},
    'C04': {'technique': 'Coq invariant by induction over histories + extraction-based correspondence',
            'level': 'Theorems (all histories, all configurations with prefix-free chain ids): every transfer (chain,id) is at most once in pool+batches, ids within the counter, fresh ids on creation; the status clause is refuted by a kernel-checked witness (known finding). The model is co-executed with the real keeper on generated histories and the placement/status monitor runs on the implementation.',
            'note': _HUB_NOTE},
    'C10': {'technique': 'Coq invariant by induction over histories + extraction-based correspondence',
            'level': 'Theorems: every pending batch of every reachable state has 1..100 transfers of its own chain and token, nonce within the counter, unique per chain; creation rule (first min(100,n) candidates in descending store-key order, nonce/sequence = counter+1, no batch and no counter change on an empty pool); the store-key order IS the fee order (big-endian 32-byte fee, then 8-byte id: byte comparison = numeric comparison for fees < 2^256 and ids < 2^64), so every transfer taken into a batch has a fee >= every same-token transfer left in the pool (ties: higher id first). The monitor re-checks numeric order on the implementation.',
            'note': _HUB_NOTE},
    'C11': {'technique': 'Coq algebraic laws over Z (floor/tier lemmas) + extraction-based correspondence',
            'level': 'Theorems for all amounts, decimals 0..24, rates: exact debit of amount+fee, commission = floor(r*(amount+fee)) with r the configured rate reduced by exactly one tier of the table, scheduled amounts, atomic failure, exact deposit credit with truncation below one unit. Correspondence and monitor on the real msg server and event handler.',
            'note': _HUB_NOTE},
    'C12': {'technique': 'Coq lemmas on the cancel/expiry function for every invariant state + correspondence',
            'level': 'Theorems: cancel succeeds only for an unbatched entry of that chain and its sender; the entry is gone afterwards (pool and batches); hub-origin refund = recorded amounts converted back, exact for >=18 decimals, bounded loss otherwise ("exactly" refuted for <18 decimals: known finding). Monitors check authorisation, removal, amount, destination and expiry on the implementation.',
            'note': _HUB_NOTE},
    'C13': {'technique': 'Coq characterisation (iff) of batch removal by sweep and by execution + correspondence',
            'level': 'Theorems (every state satisfying the proved invariant): the timeout sweep removes a batch iff it is of that chain with timeout below the observed height; Minter batches are never withdrawn by BeginBlocker; an execution removes exactly the batch and (non-Minter) the older same-token batches; the last observed external height (the clock of the sweep) is moved by the tally alone and only to the height of a claim it has just applied (with C02: a claim that had the quorum); composed with the contract model of C08: a batch the sweep withdraws is rejected by submitBatch at every block at or after the observed height. Monitors check the same on the implementation, with contract-consistent external executions (any order on Minter). PARTIAL: the theorems speak of APPLIED executions; an attested execution claim whose handling fails is dropped and removes nothing (genuine defect, known finding C13/execution-event-dropped, the C13 face of C01/execution-event-dropped).',
            'note': _HUB_NOTE},
    'C19': {'technique': 'Coq inequalities over Z for arbitrary batches + correspondence',
            'level': 'Theorems for all batches/fee spreads/power splits: reimbursement <= total fee, sum of refunds <= surplus, each refund <= own fee (<=18 decimals), commission shares floor-proportional with sum <= collected, fee record within [0, fee]; the per-user bound is refuted for >18 decimals by a kernel-checked witness. Monitors on the implementation.',
            'note': _HUB_NOTE},
}
