#!/bin/bash
# Builds the framework from files on disk only: the Coq development (full .vo build), the
# extracted OCaml model + driver, and the Go harnesses (against /repo's working tree).
set -e
cd "$(dirname "$0")/.."
ROOT=$(pwd)
export GOFLAGS=-mod=mod GOPROXY=off GOSUMDB=off GOTOOLCHAIN=local
mkdir -p build evidence replays
(cd coq && coq_makefile -f _CoqProject -o Makefile >/dev/null 2>&1 && timeout 3000 make -j16 2>&1 | grep -v "^COQDEP\|^COQC\|^make" || true)
(cd coq && timeout 3000 make -j16 >/dev/null 2>&1)   # fail hard if anything is broken
bin/build_driver.sh
bin/build_harness.sh
echo "setup done"
