#!/usr/bin/env python3
"""seed_table.py: markdown table of seeded changes vs checks, from seeded/*/meta.json (written by bin/seed_sweep.py)."""
import json, glob, os
ROOT = os.path.dirname(os.path.dirname(os.path.abspath(__file__)))
print('| seeded change | files | check | outcome | violation keys |')
print('|---|---|---|---|---|')
for d in sorted(glob.glob(os.path.join(ROOT, 'seeded', 'C*'))):
    mp = os.path.join(d, 'meta.json')
    if not os.path.exists(mp):
        continue
    m = json.load(open(mp))
    files = ', '.join(os.path.basename(f) for f in m.get('files_changed', []))
    for c in m.get('checks', []):
        keys = ', '.join(k for k in (c.get('violation_keys') or []) if '/' in k)
        print('| %s | %s | %s | %s | %s |' % (m['name'], files, c['check'], c['outcome'], keys))
