"""Tiny reader/printer for the value syntax shared with the Coq model (coq/Base/Val.v)."""
import sys

def parse(s):
    pos = 0
    n = len(s)
    def value():
        nonlocal pos
        while pos < n and s[pos] == ' ':
            pos += 1
        c = s[pos]
        if c == '(':
            pos += 1
            items = []
            while True:
                while pos < n and s[pos] == ' ':
                    pos += 1
                if s[pos] == ')':
                    pos += 1
                    return items
                items.append(value())
        if c == '"':
            j = s.index('"', pos + 1)
            r = s[pos + 1:j]
            pos = j + 1
            return ('b', r)
        start = pos
        while pos < n and s[pos] not in ' )':
            pos += 1
        tok = s[start:pos]
        if tok.startswith('x'):
            return ('b', bytes.fromhex(tok[1:]).decode('latin1'))
        return int(tok)
    return value()

def show(v):
    if isinstance(v, list):
        if v and v[0] == ('b', 'set'):
            return '("set"' + ''.join(' ' + x for x in sorted(show(i) for i in v[1:])) + ')'
        return '(' + ' '.join(show(i) for i in v) + ')'
    if isinstance(v, tuple):
        b = v[1]
        if b and all(32 < ord(ch) < 127 and ch not in '"\\()' for ch in b):
            return '"' + b + '"'
        return 'x' + b.encode('latin1').hex()
    return str(v)

def canon(v):
    return show(v)
