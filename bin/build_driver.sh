#!/bin/bash
# Re-extracts the model and rebuilds the OCaml driver when the compiled model changed.
set -e
cd "$(dirname "$0")/../coq/Extract"
stamp=$(cat ../*/*.vo 2>/dev/null | sha256sum | cut -d' ' -f1)
if [ -x driver ] && [ "$(cat .stamp 2>/dev/null)" = "$stamp" ] && [ driver -nt driver.ml ]; then exit 0; fi
timeout 1200 coqc -Q .. V Extract.v >/dev/null
ocamlfind ocamlopt -O2 -w -a -package zarith -linkpkg model.mli model.ml driver.ml -o driver 2>&1 | grep -v "^$" || true
test -x driver
echo "$stamp" > .stamp
