#!/bin/bash
# Runs the repository's pinned test suite with the guard OFF (no -tags verif) and compares with /root/.vp/BASELINE.json.
export GOFLAGS=-mod=mod GOPROXY=off GOSUMDB=off GOTOOLCHAIN=local
(cd /repo/module && go test -json -vet=off -count=1 -timeout 25m ./... 2>/dev/null) > /tmp/verif_baseline.json
python3 - <<'PY'
import json, sys
base = json.load(open('/root/.vp/BASELINE.json'))
want = set(base['stable_pass'])
got = set()
for l in open('/tmp/verif_baseline.json'):
    try:
        e = json.loads(l)
    except Exception:
        continue
    if e.get('Action') == 'pass' and e.get('Test'):
        got.add(e['Package'] + '::' + e['Test'])
missing = sorted(want - got)
print('baseline: %d/%d pinned tests pass with the guard off' % (len(want & got), len(want)))
for m in missing:
    print('MISSING', m)
sys.exit(1 if missing else 0)
PY
rc=$?
rm -f /tmp/verif_baseline.json
exit $rc
