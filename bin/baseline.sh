#!/bin/bash
# Runs the repository's pinned test suite (guard OFF) and prints pass/fail counts.
export GOFLAGS=-mod=mod GOPROXY=off GOSUMDB=off GOTOOLCHAIN=local
rc=0
for m in module minter-connector; do
  (cd /repo/$m && go test -vet=off -count=1 -timeout 25m ./... 2>&1) | grep -v "no test files" || true
done
