#!/bin/bash
# bin/tryseed.sh <patch.diff> <PROP> [<PROP>...] : apply a seeded change to /repo, run the quick checks, undo it.
patch=$1; shift
git -C /repo apply "$patch" || { echo "patch does not apply"; exit 2; }
for p in "$@"; do
  VERIF_SCRATCH=1 /verif/bin/check $p quick 2>&1 | grep -v "^KNOWN-FINDING" | cut -c1-400
done
git -C /repo checkout -- . ; /verif/bin/build_harness.sh
git -C /repo status --short | head -3
