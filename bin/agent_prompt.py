#!/usr/bin/env python3
"""agent_prompt.py <base dir> <property id> [mechanisms to avoid ...]: the prompt given to a fresh seeding sub-agent (property text + its own
scratch worktree; nothing from /verif)."""
import sys, json, os
base, pid = sys.argv[1], sys.argv[2]
avoid = sys.argv[3:]
ROOT = os.path.dirname(os.path.dirname(os.path.abspath(__file__)))
prop = None
for line in open(os.path.join(ROOT, 'properties.jsonl')):
    d = json.loads(line)
    if d.get('id') == pid:
        prop = d
text = '%s: %s\n%s\nQuantified over: %s\nAnchored in: %s\nMechanisms: %s' % (
    prop['id'], prop.get('title', ''), prop.get('statement', ''), prop.get('quantifier', {}).get('text', ''),
    ', '.join(prop.get('anchors', {}).get('files', [])),
    '; '.join('%s (%s)' % (m.get('name'), m.get('where')) for m in prop.get('anchors', {}).get('mechanism', [])))
av = ''
if avoid:
    av = '\nALREADY EXPLORED (do something different from these mechanisms):\n' + '\n'.join('- ' + a for a in avoid) + '\n'
print(f"""You are working in a scratch git worktree of the open-source repository MinterTeam/mhub2 (Minter Hub: a Cosmos SDK chain module, a gravity-bridge fork, bridging Minter, Ethereum and BSC via validator attestations, batches and valset checkpoints, plus Go oracles/connectors). Your worktree is {base}/{pid} . Work ONLY inside that directory; never touch /repo or /verif or other directories under {base}.

GOAL: produce realistic "seeded defects": small source changes to the repository that BREAK the property below while the code still compiles and the existing test suite still passes, each with a demonstration (a Go test or small program) that FAILS with the change applied and PASSES without it.

PROPERTY
{text}
{av}
REQUIREMENTS FOR EACH CHANGE
- It must need something specific to manifest: a particular interleaving or ordering of operations, a multi-step sequence, an unusual input or configuration (e.g. odd decimals, token ids where one is a prefix of another, ties, boundary values), a fault at a particular point, or two cooperating sites that each look fine alone. NOT something that ordinary use or the existing tests would expose at once.
- It should look like a plausible refactor, optimisation, or honest mistake a developer could make. Keep it small (a few lines to a few dozen).
- It changes non-test source only (Go under module/ or minter-connector/, or solidity if relevant). Do not edit existing tests.
- With the change applied: the code builds and the existing tests pass. Without it: your demonstration passes. With it: your demonstration fails.

ENVIRONMENT (offline sandbox; nothing can be downloaded)
- In every shell command first: export GOFLAGS=-mod=mod GOPROXY=off GOSUMDB=off GOTOOLCHAIN=local
- Build+test the module: cd {base}/{pid}/module && go build ./... && go test -vet=off -count=1 ./x/...   (about 1 minute cold). The test TestKeyGen under module/cmd fails already at baseline; ignore module/cmd.
- Useful test scaffolding exists in module/x/mhub2/keeper/test_common.go (CreateTestEnv, SetupFiveValChain, NewStakingKeeperWeightedMock, ...), and existing tests in module/x/mhub2/keeper/*_test.go and module/x/mhub2/*_test.go show how to drive the keeper, the msg server, BeginBlocker/EndBlocker.
- minter-connector has its own go.mod with a broken relative replace; if you need to test it, put your demo in a temporary module with `replace github.com/MinterTeam/mhub2/module => {base}/{pid}/module` and `replace github.com/MinterTeam/mhub2/minter-connector => {base}/{pid}/minter-connector`, copy go.sum files (sort -u of both), and `replace github.com/gogo/protobuf => github.com/regen-network/protobuf v1.3.2-alpha.regen.4`.

DELIVERABLES (try for TWO different changes, SEED1 and SEED2, attacking different mechanisms; one is acceptable if the second does not work out)
For each k in 1,2 create the directory {base}/{pid}/SEED<k>/ containing:
  - patch.diff : the source change as produced by `git diff` from the worktree root (must apply with `git apply` at the repository root on a clean checkout of the same commit). It must NOT include the demonstration file.
  - the demonstration file(s), e.g. demo_test.go, plus in README.md the exact destination path inside the repository where it has to be placed (e.g. module/x/mhub2/keeper/zz_seed_demo_test.go) and the exact command to run it (e.g. go test -vet=off -count=1 -run TestSeedDemo ./x/mhub2/keeper/).
  - README.md : which clause of the property the change breaks, what exactly is needed for it to manifest, and the commands you ran with their observed results (tests pass with the patch; demo fails with the patch; demo passes without the patch).
Before finishing, restore the worktree to a clean state for the source files (git checkout -- . ; remove the demo files from the source tree) so that only the SEED<k> directories remain as untracked additions. Verify each patch applies cleanly on the clean tree with `git apply --check`.

Report at the end, briefly: for each seed, one paragraph on what it changes and how it manifests.""")
