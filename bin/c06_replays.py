#!/usr/bin/env python3
"""c06_replays.py <tier> <seed>: replays of the determinism suites in fresh processes.
 (a) the same seeded histories are executed by k separate processes (Go randomises map iteration per
     process); the full output (observations + a hash over all KV pairs and ABCI events after every
     operation) must be byte-identical;
 (b) single cases are re-run alone in a fresh process (-case i) and must reproduce their line of the
     full run (no dependence on what the process executed before)."""
import sys, os, subprocess
ROOT = os.path.dirname(os.path.dirname(os.path.abspath(__file__)))
tier = sys.argv[1]; seed = int(sys.argv[2])
H = os.path.join(ROOT, 'build', 'verifharness')
ENV = dict(os.environ)
k = 3 if tier == 'quick' else 8
suites = [('det', '-n %d -ops %d' % ((60, 50) if tier == 'quick' else (600, 100))),
          ('detoracle', '-n %d -ops %d' % ((60, 60) if tier == 'quick' else (600, 120)))]
compared = 0
for name, args in suites:
    cmd = '%s %s -seed %d %s' % (H, name, seed * 131, args)
    procs = [subprocess.Popen(cmd, shell=True, stdout=subprocess.PIPE, stderr=subprocess.DEVNULL, env=ENV) for _ in range(k)]
    outs = [p.communicate()[0].decode().split('\n') for p in procs]
    if any(p.returncode != 0 for p in procs):
        print('EXTRA-PROBLEM\treplay run failed: ' + cmd)
        continue
    base = outs[0]
    for j in range(1, k):
        compared += 1
        if outs[j] != base:
            for i, (a, b) in enumerate(zip(base, outs[j])):
                if a != b:
                    ha, hb = a.split('\t')[3].split(','), b.split('\t')[3].split(',')
                    step = next((t for t, (x, y) in enumerate(zip(ha, hb)) if x != y), -1)
                    print('EXTRA-VIOLATION\tC06/replay-divergence\t("C06/replay-divergence" %d "two processes, same history `%s -case %d`: state/event hash differs from step %d")' % (i, cmd, i, step))
                    break
            break
    # (c) the shadow instance (keepers rebuilt before every operation) must behave like the normal one
    for i, l in enumerate(base):
        f = l.split('\t')
        if len(f) > 4 and f[4].startswith('shadow=') and f[4] != 'shadow=-1':
            print('EXTRA-VIOLATION\tC06/behaviour-depends-on-keeper-instance\t("C06/behaviour-depends-on-keeper-instance" %d "`%s -case %d`: from step %s on, an instance whose keeper objects are rebuilt before every operation answers differently")' % (i, cmd, i, f[4][7:]))
            break
    # (b) isolated re-runs
    n = len([l for l in base if l])
    for i in sorted(set([0, n // 3, n // 2, n - 1])):
        out = subprocess.run('%s -case %d' % (cmd, i), shell=True, stdout=subprocess.PIPE, stderr=subprocess.DEVNULL, env=ENV).stdout.decode().split('\n')
        compared += 1
        if not out or out[0] != base[i]:
            print('EXTRA-VIOLATION\tC06/replay-divergence\t("C06/replay-divergence" %d "case run alone in a fresh process differs from the same case inside the full run: `%s -case %d`")' % (i, cmd, i))
print('EXTRA-STAT\treplays_compared\t%d' % compared)
