#!/usr/bin/env python3
"""Regenerates MANIFEST.json from bin/props.py (checks) and the list of properties."""
import json, os, sys
ROOT = os.path.dirname(os.path.dirname(os.path.abspath(__file__)))
sys.path.insert(0, os.path.join(ROOT, 'bin'))
from props import PROPS, TEXT
ids = [json.loads(l)['id'] for l in open(os.path.join(ROOT, 'properties.jsonl'))]
checks, na = [], []
for pid in ids:
    if pid in PROPS:
        t = TEXT[pid]
        checks.append({
            'property_id': pid,
            'quick_cmd': 'bin/check %s quick' % pid,
            'thorough_cmd': 'bin/check %s thorough' % pid,
            'evidence_file': '/verif/evidence/%s.json' % pid,
            'replay_cmd_template': 'bin/replay {path}',
            'engine': 'coq-proof+correspondence',
            'level_claimed': {'category': 'proof', 'text': t['level'], 'design_ref': 'DESIGN.md section 4 (%s)' % pid},
            'level_note': t['note'],
            'technique': t['technique'],
        })
    else:
        na.append({'property_id': pid, 'reason': 'check not built yet in this snapshot (work in progress; see DESIGN.md section 4 for the plan)'})
m = {
    'version': 1,
    'setup_cmd': 'bin/setup.sh',
    'hooks': {'guard': 'verif', 'enable': 'go build -tags verif (bin/build_harness.sh). Two hooks. (1) module/x/mhub2/types/claim_hasher_verif.go (tag verif) records the bytes written into the claim-id hasher (types.LastClaimPreimage); '
                        'claim_hasher.go (tag !verif) is the identity; claimHash wraps its sha256.New() in newClaimHasher (one changed line). '
                        '(2) minter-connector: tx_committer/commit_hook_verif.go (tag verif) intercepts CommitTx requests (commit_hook.go, tag !verif, never intercepts; CommitTx asks it first: three added lines), and '
                        'cmd/mhub-minter-connector/relay_verif.go (tag verif) adds an init() that, only when VERIF_RELAY is set, runs the start-up resync and rounds of relayMinterEvents against the configured Minter API, prints cursors and intercepted claims and exits. '
                        'Every other entry point used is exported.',
              'baseline_off_cmd': 'bin/baseline.sh', 'source_commits': ['3b45937', '2d18c76'], 'add_only': False},
    'engines': [{'name': 'coq-proof+correspondence', 'path': 'coq/ harness/ bin/check',
                 'serves_properties': [c['property_id'] for c in checks],
                 'kind_free_text': 'Coq 8.16.1 theorems over an executable Gallina model; model extracted to OCaml and co-executed with the Go implementation on generated histories; monitors = extracted predicates evaluated on the implementation'}],
    'checks': checks,
    'not_applicable': na,
    'notes': 'fix: commits in /repo and known findings are listed in KNOWN_FINDINGS.json; seeded changes in seeded/.',
}
json.dump(m, open(os.path.join(ROOT, 'MANIFEST.json'), 'w'), indent=1)
print('claimed:', [c['property_id'] for c in checks])
