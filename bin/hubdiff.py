#!/usr/bin/env python3
"""hubdiff.py <cases file> <line no>: show the first step where model and implementation differ."""
import sys, subprocess, os
sys.path.insert(0, os.path.dirname(__file__))
from sexp import parse, show
lines = open(sys.argv[1]).read().split('\n')
ln = int(sys.argv[2])
name, case, impl = lines[ln].split('\t')
out = subprocess.run([os.environ.get('DRIVER', os.path.join(os.path.dirname(__file__), '../coq/Extract/driver')), 'print'], input=lines[ln] + '\n', capture_output=True, text=True).stdout
m = parse(out.strip())
i = parse(impl)
c = parse(case)
ops = c[2]
for k in range(len(ops)):
    if show(m[k]) != show(i[k]):
        print("first difference at step", k, "op:", show(ops[k]))
        print("previous ops:")
        for j in range(max(0, k - 6), k):
            print("   ", j, show(ops[j])[:400], "-> code", i[j][0])
        for part in range(len(m[k][1])):
            a, b = m[k][1][part], i[k][1][part]
            if show(a) != show(b):
                sa = set(show(x) for x in a[1:]); sb = set(show(x) for x in b[1:])
                print(" component", part)
                for x in sorted(sa - sb): print("   model only:", x)
                for x in sorted(sb - sa): print("   impl  only:", x)
        print(" codes: model", m[k][0], "impl", i[k][0])
        break
else:
    print("no difference")
