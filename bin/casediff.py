#!/usr/bin/env python3
"""casediff.py <cases file> <line no> <ops index in case>: first differing step of a stepwise case, model vs implementation."""
import sys, subprocess, os
sys.path.insert(0, os.path.dirname(__file__))
from sexp import parse, show
lines = open(sys.argv[1]).read().split('\n')
ln = int(sys.argv[2]); opsidx = int(sys.argv[3])
name, case, impl = lines[ln].split('\t')
out = subprocess.run([os.path.join(os.path.dirname(__file__), '../coq/Extract/driver'), 'print'], input=lines[ln] + '\n', capture_output=True, text=True).stdout
m = parse(out.strip()); i = parse(impl); c = parse(case)
ops = c[opsidx] if opsidx >= 0 else c
for k in range(len(ops)):
    if show(m[k]) != show(i[k]):
        print("first difference at step", k, "op:", show(ops[k])[:600])
        for j in range(max(0, k - 8), k):
            print("   ", j, show(ops[j])[:300], "-> code", i[j][0])
        print(" model:", show(m[k])[:1500]); print(" impl :", show(i[k])[:1500])
        break
else:
    print("no difference")
