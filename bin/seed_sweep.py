#!/usr/bin/env python3
"""seed_sweep.py [name-prefix ...]: applies every seeded change in seeded/<name>/patch.diff to /repo (git apply), runs the quick
check of its property in scratch mode (evidence untouched), undoes the change, and records the outcome in seeded/<name>/meta.json
(what the change breaks and needs is taken from the seeding agent's README; 'confirmed' records what was re-run by hand when the
seed was accepted)."""
import os, re, sys, json, subprocess, glob
ROOT = os.path.dirname(os.path.dirname(os.path.abspath(__file__)))
EXTRA = {'C04-5': ['C13'], 'C09-6': ['C08'], 'C11-5': ['C01'], 'C13-6': ['C04'], 'C13-5': ['C04'], 'C19-6': ['C01'], 'C03-6': ['C02'], 'C01-6': ['C13'], 'C12-5': ['C01'], 'C08-5': ['C16'], 'C08-6': ['C13'], 'C10-4': ['C06'], 'C19-4': ['C09'], 'C13-4': ['C02'], 'C01-3': ['C13'], 'C08-3': ['C13'], 'C12-4': ['C13'], 'C05-4': ['C18'], 'C06-4': ['C18'], 'C04-1': ['C13', 'C01'], 'C01-1': ['C13'], 'C08-1': ['C09'], 'C08-2': ['C09'], 'C05-2': ['C02'], 'C06-1': ['C03']}

def section(txt, *names):
    for n in names:
        m = re.search(r'^##+\s*[^\n]*%s[^\n]*\n(.*?)(?=^##|\Z)' % n, txt, re.S | re.M | re.I)
        if m:
            return re.sub(r'\s+', ' ', m.group(1)).strip()[:1500]
    return ''

def sh(cmd, timeout=3000):
    return subprocess.run(cmd, shell=True, capture_output=True, text=True, timeout=timeout)

sel = sys.argv[1:]
for d in sorted(glob.glob(os.path.join(ROOT, 'seeded', 'C*'))):
    name = os.path.basename(d)
    if sel and not any(name.startswith(s) for s in sel):
        continue
    prop = name[:3]
    readme = open(os.path.join(d, 'README.agent.md')).read() if os.path.exists(os.path.join(d, 'README.agent.md')) else ''
    patch = open(os.path.join(d, 'patch.diff')).read()
    files = sorted(set(re.findall(r'^\+\+\+ b/(\S+)', patch, re.M)))
    demo = [f for f in os.listdir(d) if f.endswith('_test.go')]
    meta = {'property': prop, 'name': name,
            'title': (re.search(r'^#\s*(.*)', readme, re.M).group(1).strip() if readme else name),
            'files_changed': files,
            'breaks': section(readme, 'Clause', 'Property clause', 'broken', 'breaks'),
            'needs_to_manifest': section(readme, 'needed', 'manifest'),
            'demonstration': {'file': demo[0] if demo else None, 'how': section(readme, 'Demonstration', 'Demo')},
            'confirmed': 'in a scratch worktree of /repo at the then-current HEAD: with the patch the module test suite (go test ./x/...) passes, '
                         'with the patch the demonstration test fails, without the patch it passes (bin/confirm_seed.sh; connector seeds with -modfile)',
            'checks': []}
    if sh('git -C /repo apply --check %s' % os.path.join(d, 'patch.diff')).returncode != 0:
        meta['checks'].append({'check': prop, 'outcome': 'patch no longer applies to the current /repo HEAD'})
    else:
        for chk in [prop] + EXTRA.get(name[:5], []):
            sh('git -C /repo apply %s' % os.path.join(d, 'patch.diff'))
            try:
                r = sh('VERIF_SCRATCH=1 %s %s quick' % (os.path.join(ROOT, 'bin', 'check'), chk))
                out = r.stdout + r.stderr
            finally:
                sh('git -C /repo checkout -- .')
            vio = re.search(r'^VIOLATION property=(\S+) replay=(\S+)(.*)$', out, re.M)
            rec = {'check': chk + ' quick', 'exit': r.returncode, 'summary': (out.strip().split('\n') or [''])[-1][:300]}
            if vio:
                rec['outcome'] = 'VIOLATION' + (' no-failing-input-found' if 'no-failing-input-found' in vio.group(3) else ' with a concrete failing input')
                try:
                    rp = json.load(open(vio.group(2)))
                    rec['violation_keys'] = rp.get('all_new_violation_keys') or ([rp['violation']['key']] if rp.get('violation') else [])
                    rec['unchecked_obligations'] = rp.get('unchecked_obligations')
                except Exception:
                    pass
            else:
                rec['outcome'] = 'not detected'
            meta['checks'].append(rec)
            print(name, chk, rec['outcome'], rec.get('violation_keys'), flush=True)
    json.dump(meta, open(os.path.join(d, 'meta.json'), 'w'), indent=1)
sh(os.path.join(ROOT, 'bin', 'build_harness.sh'))
