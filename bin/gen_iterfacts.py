#!/usr/bin/env python3
"""gen_iterfacts.py: lock skeleton of the bridge and oracle keepers (C05, deadlock half).
A cosmos-sdk block runs on cache-wrapped KV stores.  An open cachekv iterator keeps the read lock of
the block's sorted dirty-entry MemDB while it still has buffered items (more than ~65 dirty entries in
range); a write to the SAME store followed by opening another iterator (or simply another iterator after
a write) then blocks forever.  The pattern to exclude is therefore: while an iterator over the module's
store is open, code that writes to that store.

For every function of module/x/mhub2 and module/x/oracle (tests, generated code, test_common.go, client/
excluded) this translator finds the bodies that run while a store iterator is open:
  - callbacks passed to the keepers' own Iterate*/iterate* helpers,
  - `for ; iter.Valid(); iter.Next() { ... }` loops,
and lists the calls inside them that (transitively, within the two modules) write to the module store:
store.Set / store.Delete, or a keeper function that does.  Bank/auth writes go to other stores and are
not counted.  Output: coq/Gen/IterFacts.v (iter_write_sites)."""
import re, os
REPO = os.environ.get('VERIF_REPO', '/repo')
MOD = os.path.join(REPO, 'module')
OUT = os.path.join(os.path.dirname(os.path.dirname(os.path.abspath(__file__))), 'coq', 'Gen')


def coq_bytes(s):
    return '[' + ';'.join(str(b) for b in s.encode('latin1', 'replace')) + ']%N'


def files():
    out = []
    for d in ['x/mhub2', 'x/oracle']:
        for root, _, fs in os.walk(os.path.join(MOD, d)):
            if '/client' in root or '/types' in root:
                continue
            for f in sorted(fs):
                if f.endswith('.go') and not f.endswith('_test.go') and not f.endswith('.pb.go') and not f.endswith('.pb.gw.go') and f != 'test_common.go':
                    out.append(os.path.join(root, f))
    return sorted(out)


def strip_comments(src):
    src = re.sub(r'/\*.*?\*/', '', src, flags=re.S)
    return re.sub(r'//[^\n]*', '', src)


def balanced(src, start, o='{', c='}'):
    depth, i = 0, start
    while i < len(src):
        ch = src[i]
        if ch == '"':
            j = i + 1
            while src[j] != '"' or src[j - 1] == '\\':
                j += 1
            i = j
        elif ch == '`':
            i = src.index('`', i + 1)
        elif ch == o:
            depth += 1
        elif ch == c:
            depth -= 1
            if depth == 0:
                return i + 1
        i += 1
    return len(src)


def functions(src):
    for fm in re.finditer(r'^func\s*(?:\([^)]*\)\s*)?(\w+)\s*\(', src, re.M):
        b = src.index('{', fm.end()) if '{' in src[fm.end():] else None
        if b is None:
            continue
        # skip the parameter list and result types: the body starts at the first '{' at depth 0 of parens
        depth, i = 0, fm.end() - 1
        while i < len(src):
            if src[i] == '(':
                depth += 1
            elif src[i] == ')':
                depth -= 1
            elif src[i] == '{' and depth == 0:
                break
            i += 1
        e = balanced(src, i)
        yield fm.group(1), src[i:e]


def main():
    srcs = {f: strip_comments(open(f).read()) for f in files()}
    bodies = {}
    where = {}
    for f, s in srcs.items():
        for name, body in functions(s):
            bodies.setdefault(name, '')
            bodies[name] += body
            where[name] = os.path.relpath(f, MOD)
    direct = set(n for n, b in bodies.items() if re.search(r'\b(?:store|prefixStore|Store\([^)]*\))\s*\.\s*(?:Set|Delete)\s*\(|KVStore\([^)]*\)\s*\.\s*(?:Set|Delete)\s*\(|\)\.(?:Set|Delete)\(', b))
    calls = {n: set(re.findall(r'\b(?:k|keeper|a\.keeper|h\.keeper)\s*\.\s*(\w+)\s*\(', b)) | set(re.findall(r'(?<![\w.])(\w+)\s*\(', b)) for n, b in bodies.items()}
    # calls through longer selectors and interface fields (k.ExternalEventProcessor.Handle(...)): resolved by method name
    # against the functions of these packages (an over-approximation)
    for n, b in bodies.items():
        calls[n] |= set(x for x in re.findall(r'\.\s*(\w+)\s*\(', b) if x in bodies and x not in ('Set', 'Delete', 'Get', 'Has', 'Iterator', 'String', 'Error', 'Validate', 'ValidateBasic', 'Bytes', 'Hash'))
    writers = set(direct)
    changed = True
    while changed:
        changed = False
        for n, cs in calls.items():
            if n not in writers and cs & writers:
                writers.add(n); changed = True
    # functions that (transitively) open a store iterator
    openers = set(n for n, b in bodies.items() if re.search(r'\.\s*(?:Reverse)?Iterator\s*\(|KVStorePrefixIterator\s*\(|KVStoreReversePrefixIterator\s*\(', b))
    changed = True
    while changed:
        changed = False
        for n, cs in calls.items():
            if n not in openers and cs & openers:
                openers.add(n); changed = True
    sites = []
    plain = []
    for f, s in sorted(srcs.items()):
        rel = os.path.relpath(f, MOD)
        for name, body in functions(s):
            open_bodies = []
            for m in re.finditer(r'\.\s*((?:I|i)terate\w*)\s*\(', body):
                call_end = balanced(body, body.index('(', m.start()), '(', ')')
                arg = body[m.end():call_end]
                fm = re.search(r'func\s*\([^)]*\)\s*(?:\w+\s*)?\{', arg)
                if fm:
                    b0 = m.end() + fm.end() - 1
                    open_bodies.append((m.group(1), body[b0:balanced(body, b0)]))
            for m in re.finditer(r'for\s*;\s*(\w+)\.Valid\(\)\s*;\s*\w+\.Next\(\)\s*\{', body):
                b0 = m.end() - 1
                open_bodies.append(('for ' + m.group(1), body[b0:balanced(body, b0)]))
            for it, ob in open_bodies:
                called = set(re.findall(r'\b(?:k|keeper)\s*\.\s*(\w+)\s*\(', ob) + re.findall(r'(?<![\w.])(\w+)\s*\(', ob))
                called |= set(x for x in re.findall(r'\.\s*(\w+)\s*\(', ob) if x in bodies and x not in ('Set', 'Delete', 'Get', 'Has', 'Iterator', 'String', 'Error', 'Validate', 'ValidateBasic', 'Bytes', 'Hash'))
                writes = bool(re.search(r'\b(?:store|prefixStore)\s*\.\s*(?:Set|Delete)\s*\(', ob)) or bool(called & writers)
                # the deadlock pattern: the body writes to the store AND opens another iterator on it
                for c in sorted(called & openers):
                    if writes:
                        sites.append((rel, name, it, c))
                # writes alone are recorded separately (harmless for the lock, but they change what the open iterator sees)
                for c in sorted(called & writers - openers):
                    plain.append((rel, name, it, c))
    sites = sorted(set(sites))
    out = ['(* GENERATED by bin/gen_iterfacts.py from %s/module/x/{mhub2,oracle} -- do not edit *)' % REPO,
           'From V Require Import Base.Prelude.', '',
           '(* (file, function, open iterator, store-writing call made while it is open) *)',
           'Definition iter_write_sites : list (bytes * bytes * bytes * bytes) :=',
           '  [ ' + ';\n    '.join('(%s, %s, %s, %s)' % tuple(coq_bytes(x) for x in t) for t in sites) + ' ].', '',
           '(* writes made while an iterator is open, without opening another one (no lock involved) *)',
           'Definition iter_plain_write_sites : list (bytes * bytes * bytes * bytes) :=',
           '  [ ' + ';\n    '.join('(%s, %s, %s, %s)' % tuple(coq_bytes(x) for x in t) for t in sorted(set(plain))) + ' ].', '']
    os.makedirs(OUT, exist_ok=True)
    open(os.path.join(OUT, 'IterFacts.v'), 'w').write('\n'.join(out))
    for t in sites:
        print('NESTED', t)
    for t in sorted(set(plain)):
        print('plain ', t)
    print('writers:', len(writers))


if __name__ == '__main__':
    main()
