package main

// connharness <suite> -seed S -n N
// Suites for C20 (Minter connector):
//   conn : GetLatestMinterBlockAndNonce against a scripted Minter node (httptest), over restarts,
//          acknowledged nonces, corrupt / missing status files
//   cmd  : command.ValidateAndComplete on generated payloads
// Output: one line per case  <suite> TAB <case> TAB <implementation output>; statistics as JSON on stderr.

import (
	"bufio"
	"encoding/base64"
	"encoding/json"
	"flag"
	"fmt"
	"io/ioutil"
	"math/big"
	"math/rand"
	"net/http"
	"net/http/httptest"
	"os"
	"path/filepath"
	"strconv"
	"strings"

	sdk "github.com/cosmos/cosmos-sdk/types"
	"github.com/cosmos/cosmos-sdk/types/bech32"
	"github.com/tendermint/tendermint/libs/log"

	"github.com/MinterTeam/mhub2/minter-connector/command"
	"github.com/MinterTeam/mhub2/minter-connector/config"
	"github.com/MinterTeam/mhub2/minter-connector/context"
	"github.com/MinterTeam/mhub2/minter-connector/minter"
	"github.com/MinterTeam/minter-go-sdk/v2/api/http_client"
)

// ---------- deterministic PRNG (splitmix64) ----------
type Rng struct{ s uint64 }

func (r *Rng) Next() uint64 {
	r.s += 0x9e3779b97f4a7c15
	z := r.s
	z = (z ^ (z >> 30)) * 0xbf58476d1ce4e5b9
	z = (z ^ (z >> 27)) * 0x94d049bb133111eb
	return z ^ (z >> 31)
}
func (r *Rng) Intn(n int) int {
	if n <= 0 {
		return 0
	}
	return int(r.Next() % uint64(n))
}
func (r *Rng) Chance(num, den int) bool { return r.Intn(den) < num }
func (r *Rng) Pick(l []string) string   { return l[r.Intn(len(l))] }

const msig = "Mx1111111111111111111111111111111111111111"
const other = "Mx2222222222222222222222222222222222222222"

// ---------- scripted Minter node ----------
type mtx struct {
	kind      int // 1 send, 2 multisend, 3 edit multisig, 4 other
	toMsig    bool
	fromMsig  bool
	payload   []byte
	value     string
	jsonOK    bool
	ctype     string
	recipient string
	fee       string
	bechOK    bool
}

type node struct {
	chain  [][]mtx // chain[h-1] = transactions of block h
	latest uint64
	script []uint64 // relay suite: the height reported by successive /status calls (the last one stays)
}

func (n *node) handler(w http.ResponseWriter, r *http.Request) {
	w.Header().Set("Content-Type", "application/json")
	switch {
	case strings.HasSuffix(r.URL.Path, "/status"):
		if len(n.script) > 0 {
			n.latest = n.script[0]
			if len(n.script) > 1 {
				n.script = n.script[1:]
			}
		}
		fmt.Fprintf(w, `{"version":"x","network":"x","latest_block_hash":"","latest_app_hash":"","latest_block_height":"%d","latest_block_time":"2021-01-01T00:00:00Z","keep_last_states":"0","total_slashed":"0","catching_up":false,"public_key":"","node_id":"","initial_height":"1"}`, n.latest)
	case strings.HasSuffix(r.URL.Path, "/blocks"):
		from, _ := strconv.ParseUint(r.URL.Query().Get("from_height"), 10, 64)
		to, _ := strconv.ParseUint(r.URL.Query().Get("to_height"), 10, 64)
		var blocks []string
		for h := from; h <= to && h <= uint64(len(n.chain)); h++ {
			if h == 0 {
				continue
			}
			var txs []string
			for i, t := range n.chain[h-1] {
				hash := fmt.Sprintf("Mt%062x", h*1000+uint64(i))
				from := other
				if t.fromMsig {
					from = msig
				}
				to := other
				if t.toMsig {
					to = msig
				}
				var typ int
				var data string
				switch t.kind {
				case 1:
					typ = 1
					data = fmt.Sprintf(`{"@type":"type.googleapis.com/api_pb.SendData","coin":{"id":"0","symbol":"BIP"},"to":"%s","value":"%s"}`, to, t.value)
				case 2:
					typ = 13
					data = fmt.Sprintf(`{"@type":"type.googleapis.com/api_pb.MultiSendData","list":[{"coin":{"id":"0","symbol":"BIP"},"to":"%s","value":"1"}]}`, other)
				case 3:
					typ = 18
					data = `{"@type":"type.googleapis.com/api_pb.EditMultisigData","threshold":"2","weights":["1","2"],"addresses":["Mx3333333333333333333333333333333333333333","Mx4444444444444444444444444444444444444444"]}`
				default:
					typ = 2
					data = `{"@type":"type.googleapis.com/api_pb.SellCoinData","coin_to_sell":{"id":"0","symbol":"BIP"},"value_to_sell":"1","coin_to_buy":{"id":"1","symbol":"X"},"minimum_value_to_buy":"0"}`
				}
				txs = append(txs, fmt.Sprintf(`{"hash":"%s","raw_tx":"","from":"%s","nonce":"1","gas_price":"1","type":"%d","data":%s,"payload":"%s","service_data":"","gas":"1","gas_coin":{"id":"0","symbol":"BIP"},"tags":{},"code":"0","log":""}`,
					hash, from, typ, data, base64.StdEncoding.EncodeToString(t.payload)))
			}
			blocks = append(blocks, fmt.Sprintf(`{"hash":"","height":"%d","time":"2021-01-01T00:00:00Z","transaction_count":"%d","transactions":[%s],"block_reward":"0","size":"0","proposer":"","validators":[],"evidence":{"evidence":[]},"missed":[],"events":[],"code":"0"}`,
				h, len(txs), strings.Join(txs, ",")))
		}
		fmt.Fprintf(w, `{"blocks":[%s]}`, strings.Join(blocks, ","))
	default:
		w.WriteHeader(404)
		fmt.Fprint(w, `{"error":{"code":"404","message":"not scripted"}}`)
	}
}

// ---------- generators ----------
func genCommand(rng *Rng, stats map[string]int) (ctype, recipient, fee string, bechOK bool) {
	ctype = rng.Pick([]string{"send_to_ethereum", "send_to_ethereum", "send_to_bsc", "send_to_hub", "send_to_eth", ""})
	hexAddr := "0x" + strings.Repeat("ab", 20)
	switch rng.Intn(9) {
	case 0:
		recipient = strings.Repeat("ab", 20) // no prefix: still a hex address
	case 1:
		recipient = "0x" + strings.Repeat("ab", 19) // too short
	case 2:
		recipient = "0x" + strings.Repeat("zz", 20)
	case 3:
		recipient = "0X" + strings.Repeat("AB", 20)
	case 4:
		recipient = ""
	default:
		recipient = hexAddr
	}
	if ctype == "send_to_hub" {
		recipient = rng.Pick([]string{sdk.AccAddress(strings.Repeat("\x01", 20)).String(), sdk.AccAddress(strings.Repeat("\x01", 20)).String(), "cosmos1qqqq", hexAddr})
		if rng.Chance(1, 4) {
			// well-formed bech32 strings (right prefix, valid checksum) around the limits of the address length
			n := []int{0, 1, 19, 20, 32, 255, 256, 300}[rng.Intn(8)]
			if r, err := bech32.ConvertAndEncode(sdk.GetConfig().GetBech32AccountAddrPrefix(), []byte(strings.Repeat("\x02", n))); err == nil {
				recipient = r
			}
		}
	}
	_, err := sdk.AccAddressFromBech32(recipient)
	bechOK = err == nil
	return
}

func genFee(rng *Rng, amount *big.Int) string {
	lim := new(big.Int).Sub(amount, new(big.Int).Quo(amount, big.NewInt(100)))
	switch rng.Intn(14) {
	case 0:
		return lim.String() // exactly the bound: refused
	case 1:
		return new(big.Int).Sub(lim, big.NewInt(1)).String()
	case 2:
		return new(big.Int).Add(lim, big.NewInt(1)).String()
	case 3:
		return "-5"
	case 4:
		return "-0"
	case 5:
		return "+7"
	case 6:
		return ""
	case 7:
		return "1e3"
	case 8:
		return "12.5"
	case 9:
		return " 1"
	case 10:
		return "0x10"
	case 11:
		return new(big.Int).Lsh(big.NewInt(1), 256).String() // out of sdk.Int range
	case 12:
		// big.Int.SetString(s, 0): prefixes, octal, digit separators
		return []string{"007", "08", "0b101", "0o17", "0x", "1_000", "_1", "1_", "1__0", "0_7", "0x_1f", "-0x10", "+0b1", "0B2", "0Xff", "00", "0"}[rng.Intn(17)]
	default:
		if lim.Sign() > 0 {
			return new(big.Int).Rand(stdRand(rng), lim).String()
		}
		return "0"
	}
}

func genAmount(rng *Rng) *big.Int {
	switch rng.Intn(8) {
	case 0:
		return big.NewInt(0)
	case 1:
		return big.NewInt(int64(rng.Intn(200)))
	case 2:
		return big.NewInt(100)
	default:
		x := new(big.Int).SetUint64(rng.Next())
		return x.Mul(x, new(big.Int).Exp(big.NewInt(10), big.NewInt(int64(rng.Intn(12))), nil))
	}
}

func genTx(rng *Rng, stats map[string]int) mtx {
	c := rng.Intn(100)
	switch {
	case c < 55: // send
		t := mtx{kind: 1, toMsig: !rng.Chance(1, 8), jsonOK: true}
		amount := genAmount(rng)
		t.value = amount.String()
		t.ctype, t.recipient, _, t.bechOK = genCommand(rng, stats)
		t.fee = genFee(rng, amount)
		if rng.Chance(2, 3) { // mostly valid commands
			t.ctype = rng.Pick([]string{"send_to_ethereum", "send_to_bsc"})
			t.recipient = "0x" + strings.Repeat("cd", 20)
			if amount.Cmp(big.NewInt(2)) < 0 {
				amount = big.NewInt(1000)
				t.value = "1000"
			}
			t.fee = "1"
		}
		switch rng.Intn(12) {
		case 0:
			t.jsonOK = false
			t.payload = []byte("not json")
		case 1:
			t.jsonOK = false
			t.payload = []byte(fmt.Sprintf(`{"type":%q,"recipient":%q,"fee":5}`, t.ctype, t.recipient))
		case 2, 3:
			// a command that omits keys: a fresh decode leaves those fields empty
			m := map[string]string{}
			if rng.Chance(2, 3) {
				m["type"] = t.ctype
			} else {
				t.ctype = ""
			}
			if rng.Chance(2, 3) {
				m["recipient"] = t.recipient
			} else {
				t.recipient = ""
			}
			if rng.Chance(1, 3) {
				m["fee"] = t.fee
			} else {
				t.fee = ""
			}
			p, _ := json.Marshal(m)
			t.payload = p
		default:
			p, _ := json.Marshal(map[string]string{"type": t.ctype, "recipient": t.recipient, "fee": t.fee})
			t.payload = p
		}
		_, err := sdk.AccAddressFromBech32(t.recipient)
		t.bechOK = err == nil
		return t
	case c < 70:
		return mtx{kind: 2, fromMsig: !rng.Chance(1, 4)}
	case c < 85:
		return mtx{kind: 3, fromMsig: !rng.Chance(1, 4), payload: []byte(rng.Pick([]string{"12", "7", "abc", "", "3", "-2", "4.5", "+7", " 3", "9223372036854775808", "9223372036854775807", "007", "1_0", "0x10"}))}
	default:
		return mtx{kind: 4}
	}
}

func (t mtx) val() V {
	switch t.kind {
	case 1:
		amount, _ := new(big.Int).SetString(t.value, 10)
		return L(I(1), Bool(t.toMsig), Bool(t.jsonOK), B(t.ctype), B(t.recipient), B(t.fee), Z(amount), Bool(t.bechOK))
	case 2:
		return L(I(2), Bool(t.fromMsig))
	case 3:
		return L(I(3), Bool(t.fromMsig), Bb(t.payload))
	default:
		return L(I(4))
	}
}

func readStatus(path string) V {
	data, err := os.ReadFile(path)
	if err != nil {
		return L()
	}
	var st struct {
		B uint64 `json:"last_checked_minter_block"`
		E uint64 `json:"last_event_nonce"`
		N uint64 `json:"last_batch_nonce"`
		S uint64 `json:"last_valset_nonce"`
	}
	if json.Unmarshal(data, &st) != nil {
		return L(I(-1))
	}
	return L(U(st.B), U(st.E), U(st.N), U(st.S))
}

func runConnCase(seed uint64, dir string, stats map[string]int) (V, V) {
	rng := &Rng{s: seed}
	cfg := config.MinterConfig{MultisigAddr: msig,
		StartBlock:       uint64([]int{0, 0, 3}[rng.Intn(3)]),
		StartEventNonce:  uint64([]int{1, 1, 7}[rng.Intn(3)]),
		StartBatchNonce:  uint64([]int{1, 5}[rng.Intn(2)]),
		StartValsetNonce: uint64([]int{0, 3}[rng.Intn(2)])}
	height := 8 + rng.Intn(30)
	if rng.Chance(1, 10) {
		height = 150 + rng.Intn(120) // more than one request of 100 blocks
	}
	n := &node{}
	density := 1 + rng.Intn(3)
	var chainV []V
	for h := 1; h <= height; h++ {
		var txs []mtx
		var tv []V
		k := 0
		if rng.Chance(density, 4) {
			k = 1 + rng.Intn(3)
		}
		for i := 0; i < k; i++ {
			t := genTx(rng, stats)
			txs = append(txs, t)
			tv = append(tv, t.val())
			stats[fmt.Sprintf("tx_kind%d", t.kind)]++
		}
		n.chain = append(n.chain, txs)
		chainV = append(chainV, L(tv...))
	}
	srv := httptest.NewServer(http.HandlerFunc(n.handler))
	defer srv.Close()
	client, err := http_client.New(srv.URL)
	if err != nil {
		panic(err)
	}
	statusFile := filepath.Join(dir, fmt.Sprintf("status-%d.json", seed))
	os.Remove(statusFile)
	defer os.Remove(statusFile)

	var ops, outs []V
	latest := uint64(cfg.StartBlock)
	nOps := 2 + rng.Intn(5)
	for len(ops) < nOps {
		switch c := rng.Intn(10); {
		case c < 8:
			// the node has advanced
			latest += uint64(rng.Intn(height/2 + 1))
			if latest > uint64(height) {
				latest = uint64(height)
			}
			n.latest = latest
			ctx := context.Context{MinterMultisigAddr: msig, MinterClient: client, Logger: log.NewNopLogger()}
			ctx.LoadStatus(statusFile, cfg)
			cur := ctx.LastEventNonce()
			var ack uint64
			switch rng.Intn(6) {
			case 0:
				ack = 0
			case 1:
				ack = cur + uint64(rng.Intn(4))
			case 2:
				ack = uint64(rng.Intn(int(cur) + 5))
			default:
				// somewhere ahead of the cursor: the usual restart
				ack = cur + uint64(rng.Intn(8))
			}
			if latest < ctx.LastCheckedMinterBlock() {
				continue // the node never reports less than what was already scanned
			}
			res := minter.GetLatestMinterBlockAndNonce(ctx, ack)
			ops = append(ops, L(I(1), U(ack), U(latest)))
			outs = append(outs, L(L(U(res.LastCheckedMinterBlock()), U(res.LastEventNonce()), U(res.LastBatchNonce()), U(res.LastValsetNonce())), readStatus(statusFile)))
			stats["resync"]++
			if res.LastCheckedMinterBlock() < latest {
				stats["resync_stopped_early"]++
			}
		case c < 9:
			if _, err := os.Stat(statusFile); err != nil {
				continue
			}
			ioutil.WriteFile(statusFile, []byte("{corrupt"), 0644)
			ops = append(ops, L(I(2)))
			outs = append(outs, L(L(), readStatus(statusFile)))
			stats["corrupt"]++
		default:
			os.Remove(statusFile)
			ops = append(ops, L(I(3)))
			outs = append(outs, L(L(), readStatus(statusFile)))
			stats["removed"]++
		}
	}
	return L(L(U(cfg.StartBlock), U(cfg.StartEventNonce), U(cfg.StartBatchNonce), U(cfg.StartValsetNonce)), L(chainV...), L(ops...)), L(outs...)
}

func runCmdCase(seed uint64, stats map[string]int) (V, V) {
	rng := &Rng{s: seed}
	amount := genAmount(rng)
	ctype, recipient, _, _ := genCommand(rng, stats)
	fee := genFee(rng, amount)
	if rng.Chance(1, 2) {
		ctype = rng.Pick([]string{"send_to_ethereum", "send_to_bsc"})
		recipient = "0x" + strings.Repeat("cd", 20)
	}
	_, berr := sdk.AccAddressFromBech32(recipient)
	cmd := &command.Command{Type: ctype, Recipient: recipient, Fee: fee}
	err := cmd.ValidateAndComplete(sdk.NewIntFromBigInt(amount))
	stats["cmd_type_"+ctype]++
	if err == nil {
		stats["cmd_valid"]++
	} else {
		stats["cmd_err_"+err.Error()]++
	}
	return L(B(ctype), B(recipient), B(fee), Z(amount), Bool(berr == nil)), Bool(err == nil)
}

func stdRand(r *Rng) *rand.Rand { return rand.New(rand.NewSource(int64(r.Next() >> 1))) }

func main() {
	if len(os.Args) < 2 {
		fmt.Fprintln(os.Stderr, "usage: connharness <suite> [flags]")
		os.Exit(2)
	}
	suite := os.Args[1]
	fs := flag.NewFlagSet(suite, flag.ExitOnError)
	seed := fs.Uint64("seed", 1, "PRNG seed")
	n := fs.Int("n", 10, "number of cases")
	only := fs.Int("case", -1, "run only this case index")
	fs.Int("ops", 0, "unused")
	fs.Parse(os.Args[2:])
	w := bufio.NewWriterSize(os.Stdout, 1<<20)
	defer w.Flush()
	stats := map[string]int{}
	dir, err := ioutil.TempDir("", "connharness")
	if err != nil {
		panic(err)
	}
	defer os.RemoveAll(dir)
	for i := 0; i < *n; i++ {
		if *only >= 0 && i != *only {
			continue
		}
		s := *seed*1000003 + uint64(i)
		switch suite {
		case "conn":
			c, out := runConnCase(s, dir, stats)
			fmt.Fprintf(w, "conn\t%s\t%s\n", Str(c), Str(out))
		case "cmd":
			c, out := runCmdCase(s, stats)
			fmt.Fprintf(w, "cmd\t%s\t%s\n", Str(c), Str(out))
		case "relay":
			c, out := runRelayCase(s, dir, stats)
			fmt.Fprintf(w, "relay\t%s\t%s\n", Str(c), Str(out))
		default:
			fmt.Fprintln(os.Stderr, "unknown suite", suite)
			os.Exit(2)
		}
	}
	js, _ := json.Marshal(stats)
	fmt.Fprintln(os.Stderr, string(js))
}
