module connharness

go 1.17

require (
	github.com/MinterTeam/mhub2/minter-connector v0.0.0
	github.com/MinterTeam/mhub2/module v0.0.0
	github.com/MinterTeam/minter-go-sdk/v2 v2.5.2
	github.com/cosmos/cosmos-sdk v0.45.4
	github.com/tendermint/tendermint v0.34.19
)

require (
	filippo.io/edwards25519 v1.0.0-beta.2 // indirect
	github.com/99designs/keyring v1.1.6 // indirect
	github.com/ChainSafe/go-schnorrkel v0.0.0-20200405005733-88cbf1b4c40d // indirect
	github.com/FactomProject/basen v0.0.0-20150613233007-fe3947df716e // indirect
	github.com/FactomProject/btcutilecc v0.0.0-20130527213604-d3a63a5752ec // indirect
	github.com/PuerkitoBio/purell v1.1.1 // indirect
	github.com/PuerkitoBio/urlesc v0.0.0-20170810143723-de5bf2ad4578 // indirect
	github.com/armon/go-metrics v0.3.10 // indirect
	github.com/asaskevich/govalidator v0.0.0-20210307081110-f21760c49a8d // indirect
	github.com/beorn7/perks v1.0.1 // indirect
	github.com/bgentry/speakeasy v0.1.0 // indirect
	github.com/btcsuite/btcd v0.22.0-beta // indirect
	github.com/cespare/xxhash/v2 v2.1.2 // indirect
	github.com/confio/ics23/go v0.6.6 // indirect
	github.com/cosmos/btcutil v1.0.4 // indirect
	github.com/cosmos/go-bip39 v1.0.0 // indirect
	github.com/cosmos/iavl v0.17.3 // indirect
	github.com/cosmos/ibc-go v1.0.1 // indirect
	github.com/davecgh/go-spew v1.1.1 // indirect
	github.com/dvsekhvalnov/jose2go v0.0.0-20200901110807-248326c1351b // indirect
	github.com/ethereum/go-ethereum v1.10.25 // indirect
	github.com/felixge/httpsnoop v1.0.1 // indirect
	github.com/fsnotify/fsnotify v1.5.1 // indirect
	github.com/go-kit/kit v0.12.0 // indirect
	github.com/go-kit/log v0.2.0 // indirect
	github.com/go-logfmt/logfmt v0.5.1 // indirect
	github.com/go-openapi/analysis v0.21.1 // indirect
	github.com/go-openapi/errors v0.20.1 // indirect
	github.com/go-openapi/jsonpointer v0.19.5 // indirect
	github.com/go-openapi/jsonreference v0.19.6 // indirect
	github.com/go-openapi/loads v0.21.0 // indirect
	github.com/go-openapi/runtime v0.21.0 // indirect
	github.com/go-openapi/spec v0.20.4 // indirect
	github.com/go-openapi/strfmt v0.21.1 // indirect
	github.com/go-openapi/swag v0.19.15 // indirect
	github.com/go-openapi/validate v0.20.3 // indirect
	github.com/go-stack/stack v1.8.1 // indirect
	github.com/godbus/dbus v0.0.0-20190726142602-4481cbc300e2 // indirect
	github.com/gogo/gateway v1.1.0 // indirect
	github.com/gogo/protobuf v1.3.3 // indirect
	github.com/golang/protobuf v1.5.2 // indirect
	github.com/golang/snappy v0.0.4 // indirect
	github.com/google/btree v1.0.0 // indirect
	github.com/gorilla/handlers v1.5.1 // indirect
	github.com/gorilla/mux v1.8.0 // indirect
	github.com/gorilla/websocket v1.5.0 // indirect
	github.com/grpc-ecosystem/go-grpc-middleware v1.3.0 // indirect
	github.com/grpc-ecosystem/grpc-gateway v1.16.0 // indirect
	github.com/gsterjov/go-libsecret v0.0.0-20161001094733-a6f4afe4910c // indirect
	github.com/gtank/merlin v0.1.1 // indirect
	github.com/gtank/ristretto255 v0.1.2 // indirect
	github.com/hashicorp/go-immutable-radix v1.3.1 // indirect
	github.com/hashicorp/golang-lru v0.5.5-0.20210104140557-80c98217689d // indirect
	github.com/hashicorp/hcl v1.0.0 // indirect
	github.com/hdevalence/ed25519consensus v0.0.0-20210204194344-59a8610d2b87 // indirect
	github.com/josharian/intern v1.0.0 // indirect
	github.com/libp2p/go-buffer-pool v0.0.2 // indirect
	github.com/magiconair/properties v1.8.5 // indirect
	github.com/mailru/easyjson v0.7.7 // indirect
	github.com/mattn/go-isatty v0.0.14 // indirect
	github.com/matttproud/golang_protobuf_extensions v1.0.1 // indirect
	github.com/mimoo/StrobeGo v0.0.0-20181016162300-f8f6d4d2b643 // indirect
	github.com/mitchellh/mapstructure v1.4.3 // indirect
	github.com/mtibben/percent v0.2.1 // indirect
	github.com/oklog/ulid v1.3.1 // indirect
	github.com/opentracing/opentracing-go v1.2.0 // indirect
	github.com/pelletier/go-toml v1.9.4 // indirect
	github.com/pkg/errors v0.9.1 // indirect
	github.com/pmezard/go-difflib v1.0.0 // indirect
	github.com/prometheus/client_golang v1.12.1 // indirect
	github.com/prometheus/client_model v0.2.0 // indirect
	github.com/prometheus/common v0.32.1 // indirect
	github.com/prometheus/procfs v0.7.3 // indirect
	github.com/rakyll/statik v0.1.7 // indirect
	github.com/rcrowley/go-metrics v0.0.0-20200313005456-10cdbea86bc0 // indirect
	github.com/regen-network/cosmos-proto v0.3.1 // indirect
	github.com/spf13/afero v1.6.0 // indirect
	github.com/spf13/cast v1.4.1 // indirect
	github.com/spf13/cobra v1.4.0 // indirect
	github.com/spf13/jwalterweatherman v1.1.0 // indirect
	github.com/spf13/pflag v1.0.5 // indirect
	github.com/spf13/viper v1.10.1 // indirect
	github.com/stretchr/testify v1.7.2 // indirect
	github.com/subosito/gotenv v1.2.0 // indirect
	github.com/syndtr/goleveldb v1.0.1-0.20210819022825-2ae1ddf74ef7 // indirect
	github.com/tendermint/btcd v0.1.1 // indirect
	github.com/tendermint/crypto v0.0.0-20191022145703-50d29ede1e15 // indirect
	github.com/tendermint/go-amino v0.16.0 // indirect
	github.com/tendermint/tm-db v0.6.6 // indirect
	github.com/tyler-smith/go-bip32 v1.0.0 // indirect
	github.com/tyler-smith/go-bip39 v1.1.0 // indirect
	go.mongodb.org/mongo-driver v1.8.0 // indirect
	golang.org/x/crypto v0.0.0-20211202192323-5770296d904e // indirect
	golang.org/x/net v0.0.0-20220607020251-c690dde0001d // indirect
	golang.org/x/sys v0.0.0-20220520151302-bc2c85ada10a // indirect
	golang.org/x/term v0.0.0-20210927222741-03fcf44c2211 // indirect
	golang.org/x/text v0.3.7 // indirect
	google.golang.org/genproto v0.0.0-20220317150908-0efb43f6373e // indirect
	google.golang.org/grpc v1.45.0 // indirect
	google.golang.org/protobuf v1.27.1 // indirect
	gopkg.in/ini.v1 v1.66.2 // indirect
	gopkg.in/yaml.v2 v2.4.0 // indirect
	gopkg.in/yaml.v3 v3.0.1 // indirect
)

replace github.com/MinterTeam/mhub2/minter-connector => /repo/minter-connector

replace github.com/MinterTeam/mhub2/module => /repo/module

replace github.com/gogo/protobuf => github.com/regen-network/protobuf v1.3.2-alpha.regen.4

replace google.golang.org/grpc => google.golang.org/grpc v1.33.2

replace github.com/99designs/keyring => github.com/cosmos/keyring v1.1.7-0.20210622111912-ef00f8ac3d76
