package main

// Text syntax of the values exchanged with the extracted Coq model (coq/Base/Val.v).

import (
	"fmt"
	"math/big"
	"strings"
)

type V interface{ write(sb *strings.Builder) }

type VI struct{ z *big.Int }
type VB struct{ b []byte }
type VL struct{ l []V }

func I(x int64) V          { return VI{big.NewInt(x)} }
func U(x uint64) V         { return VI{new(big.Int).SetUint64(x)} }
func Z(x *big.Int) V       { return VI{new(big.Int).Set(x)} }
func B(s string) V         { return VB{[]byte(s)} }
func Bb(b []byte) V        { return VB{b} }
func L(items ...V) V       { return VL{items} }
func Set(items ...V) V     { return VL{append([]V{B("set")}, items...)} }
func Bool(b bool) V {
	if b {
		return I(1)
	}
	return I(0)
}

func (v VI) write(sb *strings.Builder) { sb.WriteString(v.z.String()) }
func (v VB) write(sb *strings.Builder) {
	ok := len(v.b) > 0
	for _, c := range v.b {
		if !(c > 32 && c < 127 && c != 34 && c != 92 && c != 40 && c != 41) {
			ok = false
			break
		}
	}
	if ok {
		sb.WriteByte('"')
		sb.Write(v.b)
		sb.WriteByte('"')
	} else {
		sb.WriteByte('x')
		sb.WriteString(fmt.Sprintf("%x", v.b))
	}
}
func (v VL) write(sb *strings.Builder) {
	sb.WriteByte('(')
	for i, x := range v.l {
		if i > 0 {
			sb.WriteByte(' ')
		}
		x.write(sb)
	}
	sb.WriteByte(')')
}

func Str(v V) string {
	var sb strings.Builder
	v.write(&sb)
	return sb.String()
}
