package main

// Suite relay (C20): the connector binary itself (built with the verif hook: cmd/mhub-minter-connector/relay_verif.go)
// is started against the scripted Minter node; every start performs the start-up resync with an acknowledged nonce
// and then 1-3 rounds of relayMinterEvents (the node's height grows between the rounds). Observed per start: the
// cursor after the resync, per round the cursor and the claims handed to the committer, the status file at the end.

import (
	"encoding/json"
	"fmt"
	"io/ioutil"
	"net/http"
	"net/http/httptest"
	"os"
	"os/exec"
	"path/filepath"
	"strconv"
	"strings"

	"github.com/MinterTeam/mhub2/minter-connector/config"
)

func statusNums(path string) (uint64, uint64, bool) {
	data, err := os.ReadFile(path)
	if err != nil {
		return 0, 0, false
	}
	var st struct {
		B uint64 `json:"last_checked_minter_block"`
		E uint64 `json:"last_event_nonce"`
	}
	if json.Unmarshal(data, &st) != nil {
		return 0, 0, false
	}
	return st.B, st.E, true
}

func connectorBin() string {
	if p := os.Getenv("CONNECTOR_BIN"); p != "" {
		return p
	}
	return "build/connector-verif"
}

func cursorVal(f []string) V {
	var l []V
	for _, x := range f {
		n, _ := strconv.ParseUint(x, 10, 64)
		l = append(l, U(n))
	}
	return L(l...)
}

func claimVal(c string) V {
	f := strings.Split(c, ":")
	num := func(i int) uint64 { n, _ := strconv.ParseUint(f[i], 10, 64); return n }
	switch f[0] {
	case "deposit":
		return L(I(1), U(num(1)), U(num(2)))
	case "batch":
		return L(I(2), U(num(1)), U(num(2)), U(num(3)))
	case "valset":
		return L(I(3), U(num(1)), U(num(2)), U(num(3)))
	}
	return L(I(9), B(c))
}

func runRelayCase(seed uint64, dir string, stats map[string]int) (V, V) {
	rng := &Rng{s: seed}
	cfg := config.MinterConfig{MultisigAddr: msig,
		StartBlock:       uint64([]int{0, 0, 3}[rng.Intn(3)]),
		StartEventNonce:  uint64([]int{1, 1, 7}[rng.Intn(3)]),
		StartBatchNonce:  uint64([]int{1, 5}[rng.Intn(2)]),
		StartValsetNonce: uint64([]int{0, 3}[rng.Intn(2)])}
	height := 8 + rng.Intn(30)
	if rng.Chance(1, 8) {
		height = 150 + rng.Intn(120) // more than one request of 100 blocks, more than one round per 100 blocks
	}
	n := &node{}
	density := 1 + rng.Intn(3)
	var chainV []V
	for h := 1; h <= height; h++ {
		var txs []mtx
		var tv []V
		k := 0
		if rng.Chance(density, 4) {
			k = 1 + rng.Intn(3)
		}
		for i := 0; i < k; i++ {
			t := genTx(rng, stats)
			txs = append(txs, t)
			tv = append(tv, t.val())
		}
		n.chain = append(n.chain, txs)
		chainV = append(chainV, L(tv...))
	}
	srv := httptest.NewServer(http.HandlerFunc(n.handler))
	defer srv.Close()
	statusFile := filepath.Join(dir, fmt.Sprintf("relay-status-%d.json", seed))
	cfgFile := filepath.Join(dir, fmt.Sprintf("relay-config-%d.toml", seed))
	os.Remove(statusFile)
	defer os.Remove(statusFile)
	defer os.Remove(cfgFile)
	ioutil.WriteFile(cfgFile, []byte(fmt.Sprintf("[minter]\nchain = \"mainnet\"\nmultisig_addr = \"%s\"\nprivate_key = \"\"\napi_addr = \"%s\"\nstart_block = %d\nstart_event_nonce = %d\nstart_batch_nonce = %d\nstart_valset_nonce = %d\n\n[cosmos]\nmnemonic = \"\"\ngrpc_addr = \"\"\nrpc_addr = \"\"\n",
		msig, srv.URL, cfg.StartBlock, cfg.StartEventNonce, cfg.StartBatchNonce, cfg.StartValsetNonce)), 0644)

	var ops, outs []V
	latest := uint64(cfg.StartBlock)
	nOps := 2 + rng.Intn(3)
	for len(ops) < nOps {
		switch c := rng.Intn(10); {
		case c < 8:
			// where the persisted cursor stands (to choose a sensible acknowledged nonce and heights)
			curBlock, curNonce := cfg.StartBlock, cfg.StartEventNonce
			if b, e, ok := statusNums(statusFile); ok {
				curBlock, curNonce = b, e
			}
			if latest < curBlock {
				latest = curBlock
			}
			latest += uint64(rng.Intn(height/3 + 1))
			if latest > uint64(height) {
				latest = uint64(height)
			}
			var ack uint64
			switch rng.Intn(6) {
			case 0:
				ack = 0
			case 1:
				ack = curNonce + uint64(rng.Intn(4))
			case 2:
				ack = uint64(rng.Intn(int(curNonce) + 5))
			default:
				ack = curNonce + uint64(rng.Intn(8))
			}
			rounds := 1 + rng.Intn(3)
			script := []uint64{latest}
			var roundsV []V
			for r := 0; r < rounds; r++ {
				latest += uint64(rng.Intn(height/3 + 1))
				if rng.Chance(1, 5) {
					latest += 100
				}
				if latest > uint64(height) {
					latest = uint64(height)
				}
				script = append(script, latest)
				roundsV = append(roundsV, U(latest))
			}
			n.script = script
			n.latest = script[0]
			cmd := exec.Command(connectorBin(), "-config", cfgFile)
			cmd.Env = append(os.Environ(), "VERIF_RELAY=1", "VERIF_STATUS="+statusFile, fmt.Sprintf("VERIF_ACK=%d", ack), fmt.Sprintf("VERIF_ROUNDS=%d", rounds))
			outb, err := cmd.Output()
			if err != nil {
				panic(fmt.Sprintf("connector run failed: %v\n%s", err, outb))
			}
			var resync V = L()
			var rv []V
			for _, line := range strings.Split(strings.TrimSpace(string(outb)), "\n") {
				f := strings.Fields(line)
				if len(f) < 5 {
					continue
				}
				switch f[0] {
				case "RESYNC":
					resync = cursorVal(f[1:5])
				case "ROUND":
					var cl []V
					for _, c := range f[5:] {
						cl = append(cl, claimVal(c))
						stats["claims"]++
					}
					rv = append(rv, L(cursorVal(f[1:5]), Set(cl...)))
				}
			}
			ops = append(ops, L(I(4), U(ack), U(script[0]), L(roundsV...)))
			outs = append(outs, L(resync, L(rv...), readStatus(statusFile)))
			stats["starts"]++
			stats["rounds"] += rounds
		case c < 9:
			if _, err := os.Stat(statusFile); err != nil {
				continue
			}
			ioutil.WriteFile(statusFile, []byte("{corrupt"), 0644)
			ops = append(ops, L(I(2)))
			outs = append(outs, L(L(), L(), readStatus(statusFile)))
		default:
			os.Remove(statusFile)
			ops = append(ops, L(I(3)))
			outs = append(outs, L(L(), L(), readStatus(statusFile)))
		}
	}
	return L(L(U(cfg.StartBlock), U(cfg.StartEventNonce), U(cfg.StartBatchNonce), U(cfg.StartValsetNonce)), L(chainV...), L(ops...)), L(outs...)
}
