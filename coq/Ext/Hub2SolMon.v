(* Monitor for the evm suite (C08): the property's predicates on the compiled contract's behaviour. *)
From V Require Import Base.Prelude Base.Val Num.Arith Gen.SrcFactsSol Ext.Hub2Sol.
From Coq Require String.
Import String.StringSyntax.
Local Open Scope Z_scope.

Definition k_c08_below := Eval vm_compute in VB (sby "C08/accepted-without-threshold-power").
Definition k_c08_ckpt := Eval vm_compute in VB (sby "C08/accepted-against-other-signer-set").
Definition k_c08_order := Eval vm_compute in VB (sby "C08/accepted-out-of-nonce-order-or-late").
Definition k_c08_refused := Eval vm_compute in VB (sby "C08/refused-despite-quorum").
Definition k_c08_event := Eval vm_compute in VB (sby "C08/event-nonce-step").
Definition k_c08_state := Eval vm_compute in VB (sby "C08/state-after-operation").

Record eobs := mkEobs { eo_ok : bool; eo_vnonce : Z; eo_bnonce : Z; eo_enonce : Z; eo_bal : Z }.
Definition dec_eobs (v : val) : eobs :=
  mkEobs (vgetbool (vnth 0 v)) (vI (vnth 1 v)) (vI (vnth 2 v)) (vI (vnth 3 v)) (vI (vnth 4 v)).

Definition vpower (members : list (bytes * Z)) (quals : list Z) : Z :=
  zsum (map (fun s : Z * Z => if snd s =? 1 then fst s else 0) (combine (map snd members) quals)).
Definition any_invalid (quals : list Z) : bool := existsb (fun q => negb ((q =? 0) || (q =? 1))) quals.

Definition eviol (key : val) (step : nat) (detail : list val) : val := VL (key :: VI (Z.of_nat step) :: detail).

Definition mon_evm_step (thr : Z) (step : nat) (o : sop) (members : list (bytes * Z)) (prev cur : eobs) : list val :=
  let ev_step := if eo_ok cur then 1 else 0 in
  match o with
  | SValset newm n quals mode exec =>
      let vp := vpower members quals in
      (if eo_ok cur then
         (if thr <? vp then [] else [eviol k_c08_below step [VI vp; VI thr]])
         ++ (if mode =? 0 then [] else [eviol k_c08_ckpt step [VI mode]])
         ++ (if eo_vnonce prev <? n then [] else [eviol k_c08_order step [VI (eo_vnonce prev); VI n]])
         ++ (if (eo_vnonce cur =? n) && (eo_bnonce cur =? eo_bnonce prev) && (eo_bal cur =? eo_bal prev) then [] else [eviol k_c08_state step []])
       else
         (if (mode =? 0) && negb (any_invalid quals) && Nat.eqb (List.length quals) (List.length members) && (thr <? vp) && (eo_vnonce prev <? n)
          then [eviol k_c08_refused step [VI vp; VI thr]] else [])
         ++ (if (eo_vnonce cur =? eo_vnonce prev) && (eo_bnonce cur =? eo_bnonce prev) && (eo_bal cur =? eo_bal prev) then [] else [eviol k_c08_state step []]))
      ++ (if eo_enonce cur =? eo_enonce prev + ev_step then [] else [eviol k_c08_event step [VI (eo_enonce prev); VI (eo_enonce cur)]])
  | SBatch trs n timeout quals mode exec =>
      let vp := vpower members quals in
      let total := zsum (map (fun t : Z * bytes * Z => fst (fst t)) trs) in
      (if eo_ok cur then
         (if thr <? vp then [] else [eviol k_c08_below step [VI vp; VI thr]])
         ++ (if mode =? 0 then [] else [eviol k_c08_ckpt step [VI mode]])
         ++ (if (eo_bnonce prev <? n) && (exec <? timeout) then [] else [eviol k_c08_order step [VI (eo_bnonce prev); VI n; VI exec; VI timeout]])
         ++ (if (eo_bnonce cur =? n) && (eo_vnonce cur =? eo_vnonce prev) && (eo_bal cur =? eo_bal prev - total) then [] else [eviol k_c08_state step []])
       else
         (if (mode =? 0) && negb (any_invalid quals) && Nat.eqb (List.length quals) (List.length members) && (thr <? vp) && (eo_bnonce prev <? n)
             && (exec <? timeout) && (total <=? eo_bal prev)
          then [eviol k_c08_refused step [VI vp; VI thr]] else [])
         ++ (if (eo_vnonce cur =? eo_vnonce prev) && (eo_bnonce cur =? eo_bnonce prev) && (eo_bal cur =? eo_bal prev) then [] else [eviol k_c08_state step []]))
      ++ (if eo_enonce cur =? eo_enonce prev + ev_step then [] else [eviol k_c08_event step [VI (eo_enonce prev); VI (eo_enonce cur)]])
  | SDeposit a exec =>
      (if eo_enonce cur =? eo_enonce prev + ev_step then [] else [eviol k_c08_event step [VI (eo_enonce prev); VI (eo_enonce cur)]])
      ++ (if (eo_vnonce cur =? eo_vnonce prev) && (eo_bnonce cur =? eo_bnonce prev) && (eo_bal cur =? eo_bal prev + (if eo_ok cur then a else 0)) then []
          else [eviol k_c08_state step []])
  | SMine _ =>
      if (eo_enonce cur =? eo_enonce prev) && (eo_vnonce cur =? eo_vnonce prev) && (eo_bnonce cur =? eo_bnonce prev) && (eo_bal cur =? eo_bal prev) then []
      else [eviol k_c08_state step []]
  end.

Fixpoint emon_fold (thr : Z) (step : nat) (ops outs : list val) (members : list (bytes * Z)) (prev : eobs) : list val :=
  match ops, outs with
  | ov :: ops', v :: outs' =>
      let o := dec_sop ov in
      let cur := dec_eobs v in
      let members' := match o with SValset newm _ _ _ _ => if eo_ok cur then newm else members | _ => members end in
      mon_evm_step thr step o members prev cur ++ emon_fold thr (S step) ops' outs' members' cur
  | _, _ => []
  end.

Definition mon_C08 (c impl : val) : val :=
  let cfg := vnth 0 c in
  VL (emon_fold (vI (vnth 0 cfg)) 0 (vL (vnth 1 c)) (vL impl) (dec_members (vnth 1 cfg))
                (mkEobs true (Z.of_N sol_initial_valset_nonce) 0 (Z.of_N sol_initial_event_nonce) 0)).
