(* Checkpoints (C07): the argument lists the hub packs in GetCheckpoint and the ones the Hub2
   contract hashes, tied to the CURRENT source text through the generated facts
   (Gen/SrcFactsGo.v, Gen/SrcFactsSol.v), the ABI encoder and Keccak. *)
From V Require Import Base.Prelude Base.Val Ext.Abi Ext.Keccak Gen.SrcFactsSol Gen.SrcFactsGo.
Local Open Scope Z_scope.

Definition str (l : list N) : bytes := l.
Definition s_checkpoint : bytes := [99;104;101;99;107;112;111;105;110;116]%N.                            (* "checkpoint" *)
Definition s_transactionBatch : bytes := [116;114;97;110;115;97;99;116;105;111;110;66;97;116;99;104]%N.  (* "transactionBatch" *)
Definition s_logicCall : bytes := [108;111;103;105;99;67;97;108;108]%N.                                   (* "logicCall" *)

(* ---------- hub side: types/outgoing_tx.go GetCheckpoint ---------- *)
Definition hub_valset_args (gid : bytes) (nonce : Z) (addrs : list bytes) (powers : list Z) : list abival :=
  [AB32 gid; AB32 s_checkpoint; AUint nonce; AArrAddr addrs; AArrUint powers].

Definition hub_batch_args (gid : bytes) (amounts : list Z) (dests : list bytes) (fees : list Z)
           (nonce : Z) (token : bytes) (timeout : Z) : list abival :=
  [AB32 gid; AB32 s_transactionBatch; AArrUint amounts; AArrAddr dests; AArrUint fees; AUint nonce; AAddr token; AUint timeout].

Definition hub_call_args (gid : bytes) (tamounts : list Z) (ttokens : list bytes) (famounts : list Z) (ftokens : list bytes)
           (logic : bytes) (payload : bytes) (timeout : Z) (scope : bytes) (inonce : Z) : list abival :=
  [AB32 gid; AB32 s_logicCall; AArrUint tamounts; AArrAddr ttokens; AArrUint famounts; AArrAddr ftokens;
   AAddr logic; ABytes payload; AUint timeout; AB32 scope; AUint inonce].

Definition hub_digest (args : list abival) : bytes := keccak256 (abi_encode args).

(* the expressions of the `args` slices, as the translator reads them from outgoing_tx.go *)
Definition exp_go_checkpoint_args : list bytes :=
  [ [103;114;97;118;105;116;121;73;68;70;105;120;101;100]%N;                               (* gravityIDFixed *)
    [99;104;101;99;107;112;111;105;110;116]%N;                                             (* checkpoint *)
    [98;105;103;46;78;101;119;73;110;116;40;105;110;116;54;52;40;117;46;78;111;110;99;101;41;41]%N;   (* big.NewInt(int64(u.Nonce)) *)
    [109;101;109;98;101;114;65;100;100;114;101;115;115;101;115]%N;                         (* memberAddresses *)
    [99;111;110;118;101;114;116;101;100;80;111;119;101;114;115]%N ].                       (* convertedPowers *)

Definition exp_go_batch_args : list bytes :=
  [ [103;114;97;118;105;116;121;73;68;70;105;120;101;100]%N;                               (* gravityIDFixed *)
    [98;97;116;99;104;77;101;116;104;111;100;78;97;109;101]%N;                             (* batchMethodName *)
    [116;120;65;109;111;117;110;116;115]%N;                                                (* txAmounts *)
    [116;120;68;101;115;116;105;110;97;116;105;111;110;115]%N;                             (* txDestinations *)
    [116;120;70;101;101;115]%N;                                                            (* txFees *)
    [98;105;103;46;78;101;119;73;110;116;40;105;110;116;54;52;40;98;46;66;97;116;99;104;78;111;110;99;101;41;41]%N;     (* big.NewInt(int64(b.BatchNonce)) *)
    [103;101;116;104;99;111;109;109;111;110;46;72;101;120;84;111;65;100;100;114;101;115;115;40;98;46;69;120;116;101;114;110;97;108;84;111;107;101;110;73;100;41]%N; (* gethcommon.HexToAddress(b.ExternalTokenId) *)
    [98;105;103;46;78;101;119;73;110;116;40;105;110;116;54;52;40;98;46;84;105;109;101;111;117;116;41;41]%N ].           (* big.NewInt(int64(b.Timeout)) *)

(* ---------- contract side: the values the relayer passes for the names in abi.encode ---------- *)
Definition env := list (bytes * abival).
Definition lookup (e : env) (name : bytes) : option abival := aget name e.
Definition sol_vals (e : env) (spec : list (bytes * abity)) : list (option abival) := map (fun p => lookup e (fst p)) spec.

Definition n_gravityId := [95;103;114;97;118;105;116;121;73;100]%N.
Definition n_state_gravityId := [115;116;97;116;101;95;103;114;97;118;105;116;121;73;100]%N.
Definition n_methodName := [109;101;116;104;111;100;78;97;109;101]%N.
Definition n_const := [60;99;111;110;115;116;62]%N.
Definition n_valsetNonce := [95;118;97;108;115;101;116;78;111;110;99;101]%N.
Definition n_validators := [95;118;97;108;105;100;97;116;111;114;115]%N.
Definition n_powers := [95;112;111;119;101;114;115]%N.
Definition n_amounts := [95;97;109;111;117;110;116;115]%N.
Definition n_destinations := [95;100;101;115;116;105;110;97;116;105;111;110;115]%N.
Definition n_fees := [95;102;101;101;115]%N.
Definition n_batchNonce := [95;98;97;116;99;104;78;111;110;99;101]%N.
Definition n_tokenContract := [95;116;111;107;101;110;67;111;110;116;114;97;99;116]%N.
Definition n_batchTimeout := [95;98;97;116;99;104;84;105;109;101;111;117;116]%N.

(* what the relayer (orchestrator: submit_batch / valset update) passes to the contract for a hub
   signer set / batch; the contract's own state_gravityId is the hub's gravity id *)
Definition relay_valset (gid : bytes) (nonce : Z) (addrs : list bytes) (powers : list Z) : env :=
  [ (n_gravityId, AB32 gid); (n_methodName, AB32 sol_checkpoint_encode_const0); (n_valsetNonce, AUint nonce);
    (n_validators, AArrAddr addrs); (n_powers, AArrUint powers) ].

Definition relay_batch (gid : bytes) (amounts : list Z) (dests : list bytes) (fees : list Z)
           (nonce : Z) (token : bytes) (timeout : Z) : env :=
  [ (n_state_gravityId, AB32 gid); (n_const, AB32 sol_batch_encode_const0); (n_amounts, AArrUint amounts);
    (n_destinations, AArrAddr dests); (n_fees, AArrUint fees); (n_batchNonce, AUint nonce);
    (n_tokenContract, AAddr token); (n_batchTimeout, AUint timeout) ].

(* ---------- signatures ---------- *)
Section Sig.
  (* ECDSA public-key recovery: digest -> (r || s || recovery id 0/1) -> address; abstract *)
  Variable recover : bytes -> bytes -> option bytes.

  Definition zero_addr : bytes := repeat 0%N 20.

  (* types/ethereum_signer.go ValidateEthereumSignature *)
  Definition hub_verify (hash sig addr : bytes) : bool :=
    if Nat.ltb (length sig) 65 then false
    else if negb (Nat.eqb (length sig) 65) then false    (* go-ethereum's RecoverPubkey: ErrInvalidSignatureLen *)
    else
      let v := nth 64 sig 0%N in
      let v' := if (N.eqb v 27 || N.eqb v 28)%bool then (v - 27)%N else v in
      let sig' := firstn 64 sig ++ [v'] ++ skipn 65 sig in
      match recover (keccak256 (go_sig_prefix ++ hash)) (firstn 65 sig') with
      | Some a => beqb a addr
      | None => false
      end.

  (* the EVM precompile: v must be 27 or 28, failure yields the zero address *)
  Definition ecrecover (digest : bytes) (v : N) (r s : bytes) : bytes :=
    if (N.eqb v 27 || N.eqb v 28)%bool then
      match recover digest (r ++ s ++ [(v - 27)%N]) with Some a => a | None => zero_addr end
    else zero_addr.

  (* Hub2.sol verifySig *)
  Definition sol_verify (signer theHash : bytes) (v : N) (r s : bytes) : bool :=
    beqb signer (ecrecover (keccak256 (sol_sig_prefix ++ theHash)) v r s).
End Sig.

(* ---------- codec for the correspondence ---------- *)
Definition dec_addrs (v : val) : list bytes := map vB (vL v).
Definition dec_ints (v : val) : list Z := map vI (vL v).

Definition ckpt_run (c : val) : val :=
  match vI (vnth 0 c) with
  | 1 => VB (hub_digest (hub_valset_args (vB (vnth 1 c)) (vI (vnth 2 c)) (dec_addrs (vnth 3 c)) (dec_ints (vnth 4 c))))
  | 2 => VB (hub_digest (hub_batch_args (vB (vnth 1 c)) (dec_ints (vnth 2 c)) (dec_addrs (vnth 3 c)) (dec_ints (vnth 4 c))
                                        (vI (vnth 5 c)) (vB (vnth 6 c)) (vI (vnth 7 c))))
  | _ => VB (hub_digest (hub_call_args (vB (vnth 1 c)) (dec_ints (vnth 2 c)) (dec_addrs (vnth 3 c)) (dec_ints (vnth 4 c))
                                       (dec_addrs (vnth 5 c)) (vB (vnth 6 c)) (vB (vnth 7 c)) (vI (vnth 8 c)) (vB (vnth 9 c)) (vI (vnth 10 c))))
  end.

(* signature cases: the recovery oracle is the table the harness computed with go-ethereum *)
Definition table_recover (tbl : list val) (digest sig : bytes) : option bytes :=
  match find (fun e => beqb (vB (vnth 0 e)) digest && beqb (vB (vnth 1 e)) sig) tbl with
  | Some e => match vB (vnth 2 e) with [] => None | a => Some a end
  | None => None
  end.
Definition sig_run (c : val) : val :=
  vbool (hub_verify (table_recover (vL (vnth 3 c))) (vB (vnth 0 c)) (vB (vnth 1 c)) (vB (vnth 2 c))).

(* monitors: a digest (or a signature verdict) that differs from the contract's computation is a
   concrete failing input of C07 *)
Definition cstr (l : list Z) : val := VB (map Z.to_N l).
Definition mon_C07_ckpt (c impl : val) : val :=
  if beqb (vB (ckpt_run c)) (vB impl) then VL []
  else VL [VL [cstr [67;48;55;47;100;105;103;101;115;116;45;100;105;102;102;101;114;115;45;102;114;111;109;45;99;111;110;116;114;97;99;116;45;101;110;99;111;100;105;110;103];
               VI 0; VI (vI (vnth 0 c)); ckpt_run c; impl]].     (* C07/digest-differs-from-contract-encoding *)
Definition mon_C07_sig (c impl : val) : val :=
  if Z.eqb (vI (sig_run c)) (vI impl) then VL []
  else VL [VL [cstr [67;48;55;47;115;105;103;110;97;116;117;114;101;45;115;99;104;101;109;101]; VI 0; sig_run c; impl]].   (* C07/signature-scheme *)
