(* Executable model of the external contract Hub2.sol (C08): updateValset, submitBatch,
   transferToChain and checkValidatorSignatures.  The comparisons and state updates are not written
   here: they are interpreted from the text that bin/gen_srcfacts.py extracts from the current
   Hub2.sol on every run (Gen/SrcFactsSol.v: the sol_requires, sol_assigns and sol_cvs definitions), by the small
   condition / assignment interpreter below.  Checkpoints are compared as values (the validator set
   and nonce they hash): keccak/ABI injectivity is the hypothesis, C07 ties the encodings. *)
From V Require Import Base.Prelude Base.Val Num.Arith Gen.SrcFactsSol.
From Coq Require Import String Ascii.
Local Open Scope Z_scope.

Fixpoint sby (s : string) : bytes := match s with EmptyString => [] | String a r => N_of_ascii a :: sby r end.
Local Notation length := List.length.
Definition t_gt := Eval vm_compute in sby ">".
Definition t_lt := Eval vm_compute in sby "<".
Definition t_ge := Eval vm_compute in sby ">=".
Definition t_le := Eval vm_compute in sby "<=".
Definition t_eq := Eval vm_compute in sby "==".
Definition t_ne := Eval vm_compute in sby "!=".
Definition t_and := Eval vm_compute in sby "&&".
Definition t_assign := Eval vm_compute in sby "=".

(* ---------- conditions ---------- *)
Inductive cmpop := OGt | OLt | OGe | OLe | OEq | ONe.
Definition eval_cmp (o : cmpop) (x y : Z) : bool :=
  match o with OGt => y <? x | OLt => x <? y | OGe => y <=? x | OLe => x <=? y | OEq => x =? y | ONe => negb (x =? y) end.

(* split on spaces *)
Fixpoint split_sp_aux (b : bytes) (cur : bytes) : list bytes :=
  match b with
  | [] => match cur with [] => [] | _ => [rev cur] end
  | c :: r => if N.eqb c 32 then match cur with [] => split_sp_aux r [] | _ => rev cur :: split_sp_aux r [] end
              else split_sp_aux r (c :: cur)
  end.
Definition split_sp (b : bytes) : list bytes := split_sp_aux b [].

Definition parse_op (t : bytes) : option cmpop :=
  if beqb t t_gt then Some OGt else if beqb t t_lt then Some OLt
  else if beqb t t_ge then Some OGe else if beqb t t_le then Some OLe
  else if beqb t t_eq then Some OEq else if beqb t t_ne then Some ONe else None.

(* a conjunction  A op B && C op D && ...  of comparisons between names / decimal literals *)
Fixpoint parse_conj (toks : list bytes) : option (list (bytes * cmpop * bytes)) :=
  match toks with
  | [a; o; b] => match parse_op o with Some op => Some [(a, op, b)] | None => None end
  | a :: o :: b :: amp :: rest =>
      if beqb amp t_and then
        match parse_op o, parse_conj rest with
        | Some op, Some l => Some ((a, op, b) :: l)
        | _, _ => None
        end
      else None
  | _ => None
  end.
Definition parse_cond (c : bytes) : option (list (bytes * cmpop * bytes)) := parse_conj (split_sp c).

Definition is_dig (c : N) : bool := (48 <=? c)%N && (c <=? 57)%N.
Definition lit_val (t : bytes) : option Z :=
  match t with
  | [] => None
  | _ => if forallb is_dig t then Some (fold_left (fun acc c => acc * 10 + (Z.of_N c - 48)) t 0) else None
  end.

(* Conditions are compiled against the list of names a function can see: a name becomes its index
   in that list, so that compilation is a closed computation on the extracted text and evaluation
   is a lookup in the vector of current values. *)
Inductive term := TVar (i : nat) | TLit (z : Z).
Fixpoint index_of (t : bytes) (names : list bytes) : option nat :=
  match names with
  | [] => None
  | n :: r => if beqb t n then Some O else option_map S (index_of t r)
  end.
Definition compile_term (names : list bytes) (t : bytes) : option term :=
  match index_of t names with
  | Some i => Some (TVar i)
  | None => option_map TLit (lit_val t)
  end.
Definition catom := (term * cmpop * term)%type.
Fixpoint compile_atoms (names : list bytes) (l : list (bytes * cmpop * bytes)) : option (list catom) :=
  match l with
  | [] => Some []
  | (a, o, b) :: r =>
      match compile_term names a, compile_term names b, compile_atoms names r with
      | Some x, Some y, Some rest => Some ((x, o, y) :: rest)
      | _, _, _ => None
      end
  end.
Definition compile_cond (names : list bytes) (c : bytes) : option (list catom) :=
  match parse_cond c with Some l => compile_atoms names l | None => None end.

Definition eval_term (vals : list Z) (t : term) : Z := match t with TVar i => nth i vals 0 | TLit z => z end.
Definition eval_catom (vals : list Z) (a : catom) : bool := eval_cmp (snd (fst a)) (eval_term vals (fst (fst a))) (eval_term vals (snd a)).
Definition eval_catoms (vals : list Z) (l : list catom) : bool := forallb (eval_catom vals) l.

(* the checkpoint comparison is recognised as a whole *)
Definition ckpt_cond : bytes :=
  Eval vm_compute in sby "makeCheckpoint( _currentValidators, _currentPowers, _currentValsetNonce, state_gravityId ) == state_lastValsetCheckpoint".

Inductive creq := RCkpt | RCond (l : list catom).
Fixpoint compile_requires (names : list bytes) (reqs : list bytes) : option (list creq) :=
  match reqs with
  | [] => Some []
  | c :: r =>
      match (if beqb c ckpt_cond then Some RCkpt else option_map RCond (compile_cond names c)), compile_requires names r with
      | Some x, Some rest => Some (x :: rest)
      | _, _ => None
      end
  end.
Definition eval_creq (vals : list Z) (ckpt_ok : bool) (r : creq) : bool :=
  match r with RCkpt => ckpt_ok | RCond l => eval_catoms vals l end.
Definition eval_creqs (vals : list Z) (ckpt_ok : bool) (l : list creq) : bool := forallb (eval_creq vals ckpt_ok) l.

(* ---------- assignments  x = y;  and  x = x.add(1); ---------- *)
Definition strip_semi (t : bytes) : bytes :=
  match rev t with 59%N :: r => rev r | _ => t end.
Definition add1_suffix : bytes := Eval vm_compute in sby ".add(1)".
Definition drop_suffix (t suf : bytes) : option bytes :=
  if Nat.ltb (length t) (length suf) then None
  else if beqb (skipn (length t - length suf) t) suf then Some (firstn (length t - length suf) t) else None.
Definition checkpoint_assign : bytes := Eval vm_compute in sby "state_lastValsetCheckpoint = newCheckpoint;".
(* AStore lhs rhs inc : vals[lhs] := rhs + inc;  ACkpt : the stored checkpoint is replaced *)
Inductive cassign := AStore (lhs : nat) (rhs : term) (inc : Z) | ACkpt.
Definition compile_assign (names : list bytes) (a : bytes) : option cassign :=
  if beqb a checkpoint_assign then Some ACkpt else
  match split_sp a with
  | [lhs; eq; rhs] =>
      if beqb eq t_assign then
        let r := strip_semi rhs in
        match index_of lhs names with
        | Some i =>
            match drop_suffix r add1_suffix with
            | Some base => option_map (fun t => AStore i t 1) (compile_term names base)
            | None => option_map (fun t => AStore i t 0) (compile_term names r)
            end
        | None => None
        end
      else None
  | _ => None
  end.
Fixpoint compile_assigns (names : list bytes) (l : list bytes) : option (list cassign) :=
  match l with
  | [] => Some []
  | a :: r => match compile_assign names a, compile_assigns names r with
              | Some x, Some rest => Some (x :: rest)
              | _, _ => None
              end
  end.
Fixpoint set_nth (i : nat) (v : Z) (l : list Z) : list Z :=
  match i, l with
  | O, _ :: r => v :: r
  | S i', x :: r => x :: set_nth i' v r
  | _, [] => []
  end.
(* returns the new values and whether the stored checkpoint is replaced *)
Fixpoint eval_cassigns (vals : list Z) (l : list cassign) : list Z * bool :=
  match l with
  | [] => (vals, false)
  | AStore i t inc :: r => eval_cassigns (set_nth i (eval_term vals t + inc) vals) r
  | ACkpt :: r => let (v, _) := eval_cassigns vals r in (v, true)
  end.

(* ---------- names ---------- *)
Definition n_vnonce := Eval vm_compute in sby "state_lastValsetNonce".
Definition n_enonce := Eval vm_compute in sby "state_lastEventNonce".
Definition n_bnonce := Eval vm_compute in sby "state_lastBatchNonces[_tokenContract]".
Definition n_new_vnonce := Eval vm_compute in sby "_newValsetNonce".
Definition n_cur_vnonce := Eval vm_compute in sby "_currentValsetNonce".
Definition n_batch_nonce := Eval vm_compute in sby "_batchNonce".
Definition n_timeout := Eval vm_compute in sby "_batchTimeout".
Definition n_block := Eval vm_compute in sby "block.number".
Definition n_cum := Eval vm_compute in sby "cumulativePower".
Definition n_thr := Eval vm_compute in sby "_powerThreshold".
Definition n_vi := Eval vm_compute in sby "_v[i]".
Definition len_names_cur : list bytes :=
  Eval vm_compute in map sby ["_currentValidators.length"; "_currentPowers.length"; "_v.length"; "_r.length"; "_s.length"]%string.
Definition len_names_new : list bytes := Eval vm_compute in map sby ["_newValidators.length"; "_newPowers.length"]%string.
Definition len_names_batch : list bytes := Eval vm_compute in map sby ["_amounts.length"; "_destinations.length"; "_fees.length"]%string.

(* the variables each function sees, in the order of its value vector *)
Definition names_state : list bytes := [n_vnonce; n_enonce; n_bnonce].
Definition names_uv : list bytes := names_state ++ [n_new_vnonce; n_cur_vnonce] ++ len_names_cur ++ len_names_new.
Definition names_sb : list bytes := names_state ++ [n_batch_nonce; n_timeout; n_block; n_cur_vnonce] ++ len_names_cur ++ len_names_batch.
Definition names_cvs : list bytes := [n_cum; n_thr; n_vi].

(* ---------- checkValidatorSignatures ---------- *)
(* a signature slot: power of the validator, quality 0 = none (v = 0), 1 = valid, 2 = invalid *)
Definition v_of_quality (q : Z) : Z := if q =? 0 then 0 else 27.
Definition cvs_final_cond : bytes := nth 1 sol_requires_checkValidatorSignatures [].
Definition ccond (names : list bytes) (c : bytes) : list catom :=
  match compile_cond names c with Some l => l | None => [(TLit 0, ONe, TLit 0)] end.   (* not understood: false *)
Definition c_skip : list catom := ccond names_cvs sol_cvs_skip_cond.
Definition c_break : list catom := ccond names_cvs sol_cvs_break_cond.
Definition c_final : list catom := ccond names_cvs cvs_final_cond.

(* None = a supplied signature did not verify (require fails inside the loop) *)
Fixpoint cvs_loop (thr : Z) (slots : list (Z * Z)) (cum : Z) : option Z :=
  match slots with
  | [] => Some cum
  | (p, q) :: r =>
      if eval_catoms [cum; thr; v_of_quality q] c_skip then
        if q =? 1 then
          let cum' := cum + p in
          if eval_catoms [cum'; thr; v_of_quality q] c_break then Some cum' else cvs_loop thr r cum'
        else None
      else cvs_loop thr r cum
  end.
Definition check_sigs (thr : Z) (slots : list (Z * Z)) : bool :=
  match cvs_loop thr slots 0 with
  | Some cum => eval_catoms [cum; thr; 0] c_final
  | None => false
  end.

(* ---------- contract state ---------- *)
Record sol := mkSol {
  so_thr : Z;
  so_members : list (bytes * Z);      (* the validator set behind the stored checkpoint *)
  so_vnonce : Z;
  so_bnonce : Z;                      (* state_lastBatchNonces[token] *)
  so_enonce : Z;
  so_bal : Z;                         (* token balance of the contract *)
  so_user : Z;                        (* token balance of the depositing user *)
  so_block : Z;                       (* head of the chain *)
  so_dests : list (bytes * Z)         (* balances of batch destinations, first-use order *)
}.

Definition state_vals (s : sol) : list Z := [so_vnonce s; so_enonce s; so_bnonce s].
Definition reqs_b (names : list bytes) (reqs : list bytes) (vals : list Z) (ckpt_ok : bool) : bool :=
  match compile_requires names reqs with Some l => eval_creqs vals ckpt_ok l | None => false end.
Definition assigns_of (names : list bytes) (l : list bytes) : list cassign :=
  match compile_assigns names l with Some x => x | None => [] end.

(* mode 0: the relayer passes the true current set and nonce; otherwise the checkpoint differs *)
Definition update_valset (s : sol) (new_members : list (bytes * Z)) (new_nonce : Z) (quals : list Z) (mode exec : Z) : sol * bool :=
  let n := Z.of_nat (length (so_members s)) in
  let k := Z.of_nat (length new_members) in
  let vals := state_vals s ++ [new_nonce; so_vnonce s; n; n; n; n; n; k; k] in
  let reverted := mkSol (so_thr s) (so_members s) (so_vnonce s) (so_bnonce s) (so_enonce s) (so_bal s) (so_user s) exec (so_dests s) in
  let ok := Nat.eqb (length quals) (length (so_members s))
            && reqs_b names_uv sol_requires_updateValset vals (mode =? 0)
            && check_sigs (so_thr s) (combine (map snd (so_members s)) quals) in
  if ok then
    let (vals', replaced) := eval_cassigns vals (assigns_of names_uv sol_assigns_updateValset) in
    (mkSol (so_thr s) (if replaced then new_members else so_members s)
           (nth 0 vals' 0) (nth 2 vals' 0) (nth 1 vals' 0) (so_bal s) (so_user s) exec (so_dests s), true)
  else (reverted, false).

Definition credit_dest (dests : list (bytes * Z)) (d : bytes) (a : Z) : list (bytes * Z) :=
  match aget d dests with
  | Some v => aset d (v + a) dests
  | None => dests ++ [(d, a)]
  end.
Definition touch_dests (dests : list (bytes * Z)) (trs : list (Z * bytes * Z)) : list (bytes * Z) :=
  fold_left (fun ds (t : Z * bytes * Z) => credit_dest ds (snd (fst t)) 0) trs dests.

Definition submit_batch (s : sol) (trs : list (Z * bytes * Z)) (bnonce timeout : Z) (quals : list Z) (mode exec : Z) : sol * bool :=
  let n := Z.of_nat (length (so_members s)) in
  let k := Z.of_nat (length trs) in
  let vals := state_vals s ++ [bnonce; timeout; exec; so_vnonce s; n; n; n; n; n; k; k; k] in
  let total := zsum (map (fun t : Z * bytes * Z => fst (fst t)) trs) in
  let dests0 := touch_dests (so_dests s) trs in       (* the harness lists a destination from its first appearance *)
  let reverted := mkSol (so_thr s) (so_members s) (so_vnonce s) (so_bnonce s) (so_enonce s) (so_bal s) (so_user s) exec dests0 in
  let ok := Nat.eqb (length quals) (length (so_members s))
            && reqs_b names_sb sol_requires_submitBatch vals (mode =? 0)
            && check_sigs (so_thr s) (combine (map snd (so_members s)) quals)
            && (total <=? so_bal s) in                (* ERC20 transfers revert when the balance runs out *)
  if ok then
    let (vals', _) := eval_cassigns vals (assigns_of names_sb sol_assigns_submitBatch) in
    (mkSol (so_thr s) (so_members s) (nth 0 vals' 0) (nth 2 vals' 0) (nth 1 vals' 0) (so_bal s - total) (so_user s) exec
           (fold_left (fun ds (t : Z * bytes * Z) => credit_dest ds (snd (fst t)) (fst (fst t))) trs (so_dests s)), true)
  else (reverted, false).

Definition transfer_to_chain (s : sol) (amount exec : Z) : sol * bool :=
  let reverted := mkSol (so_thr s) (so_members s) (so_vnonce s) (so_bnonce s) (so_enonce s) (so_bal s) (so_user s) exec (so_dests s) in
  if amount <=? so_user s then
    let (vals', _) := eval_cassigns (state_vals s) (assigns_of names_state sol_assigns_transferToChain) in
    (mkSol (so_thr s) (so_members s) (nth 0 vals' 0) (nth 2 vals' 0) (nth 1 vals' 0)
           (so_bal s + amount) (so_user s - amount) exec (so_dests s), true)
  else (reverted, false).

Inductive sop :=
| SValset (new_members : list (bytes * Z)) (nonce : Z) (quals : list Z) (mode exec : Z)
| SBatch (trs : list (Z * bytes * Z)) (nonce timeout : Z) (quals : list Z) (mode exec : Z)
| SDeposit (amount exec : Z)
| SMine (k : Z).

Definition sstep (s : sol) (o : sop) : sol * bool :=
  match o with
  | SValset m n q mode exec => update_valset s m n q mode exec
  | SBatch trs n t q mode exec => submit_batch s trs n t q mode exec
  | SDeposit a exec => transfer_to_chain s a exec
  | SMine k => (mkSol (so_thr s) (so_members s) (so_vnonce s) (so_bnonce s) (so_enonce s) (so_bal s) (so_user s)
                      (so_block s + k) (so_dests s), true)
  end.

(* ---------- codec ---------- *)
Definition dec_members (v : val) : list (bytes * Z) := map (fun m => (vB (vnth 0 m), vI (vnth 1 m))) (vL v).
Definition dec_sop (v : val) : sop :=
  match vI (vnth 0 v) with
  | 1 => SValset (dec_members (vnth 1 v)) (vI (vnth 2 v)) (map vI (vL (vnth 3 v))) (vI (vnth 4 v)) (vI (vnth 5 v))
  | 2 => SBatch (map (fun t => (vI (vnth 0 t), vB (vnth 1 t), vI (vnth 2 t))) (vL (vnth 1 v)))
                (vI (vnth 2 v)) (vI (vnth 3 v)) (map vI (vL (vnth 4 v))) (vI (vnth 5 v)) (vI (vnth 6 v))
  | 3 => SDeposit (vI (vnth 1 v)) (vI (vnth 2 v))
  | _ => SMine (vI (vnth 1 v))
  end.
Definition enc_sol (ok : bool) (s : sol) : val :=
  VL [vbool ok; VI (so_vnonce s); VI (so_bnonce s); VI (so_enonce s); VI (so_bal s); VI (so_block s);
      VL (map (fun d : bytes * Z => VI (snd d)) (so_dests s))].

Definition evm_run (c : val) : val :=
  let cfg := vnth 0 c in
  let s0 := mkSol (vI (vnth 0 cfg)) (dec_members (vnth 1 cfg)) (Z.of_N sol_initial_valset_nonce) 0
                  (Z.of_N sol_initial_event_nonce) 0 (vI (vnth 2 cfg)) (vI (vnth 3 cfg)) [] in
  VL (snd (fold_left (fun (acc : sol * list val) o =>
                        let (s', ok) := sstep (fst acc) o in (s', snd acc ++ [enc_sol ok s']))
                     (map dec_sop (vL (vnth 1 c))) (s0, []))).
