(* Keccak-256 (the original Keccak padding 0x01, as used by Ethereum), executable in Coq.
   State: 25 lanes of 64 bits as N, index x + 5*y. *)
From V Require Import Base.Prelude.
Local Open Scope N_scope.

Definition W64 : N := 18446744073709551616.   (* 2^64 *)
Definition mask64 (x : N) : N := x mod W64.
Definition rot64 (w : N) (n : N) : N :=
  if N.eqb n 0 then w else mask64 (N.lor (N.shiftl w n) (N.shiftr w (64 - n))).
Definition not64 (w : N) : N := N.lxor w (W64 - 1).

Definition lane (st : list N) (i : nat) : N := nth i st 0.

Definition RC : list N :=
  [ 0x0000000000000001; 0x0000000000008082; 0x800000000000808A; 0x8000000080008000;
    0x000000000000808B; 0x0000000080000001; 0x8000000080008081; 0x8000000000008009;
    0x000000000000008A; 0x0000000000000088; 0x0000000080008009; 0x000000008000000A;
    0x000000008000808B; 0x800000000000008B; 0x8000000000008089; 0x8000000000008003;
    0x8000000000008002; 0x8000000000000080; 0x000000000000800A; 0x800000008000000A;
    0x8000000080008081; 0x8000000000008080; 0x0000000080000001; 0x8000000080008008 ].

(* rotation offsets, index x + 5*y *)
Definition ROT : list N :=
  [ 0; 1; 62; 28; 27;
    36; 44; 6; 55; 20;
    3; 10; 43; 25; 39;
    41; 45; 15; 21; 8;
    18; 2; 61; 56; 14 ].

Definition idx5 : list nat := [0; 1; 2; 3; 4]%nat.
Definition idx25 : list nat := seq 0 25.

Definition keccak_round (st : list N) (rc : N) : list N :=
  (* theta *)
  let c := map (fun x => N.lxor (lane st x) (N.lxor (lane st (x + 5)) (N.lxor (lane st (x + 10))
                         (N.lxor (lane st (x + 15)) (lane st (x + 20)))))) idx5 in
  let d := map (fun x => N.lxor (nth ((x + 4) mod 5) c 0) (rot64 (nth ((x + 1) mod 5) c 0) 1)) idx5 in
  let a := map (fun i => N.lxor (lane st i) (nth (i mod 5) d 0)) idx25 in
  (* rho and pi: B[y, 2x+3y] = rot(A[x,y], r[x,y]) ; compute B by destination index *)
  let b := map (fun j =>
                  (* destination (X, Y) = (j mod 5, j / 5) comes from source x with y = X and 2x+3y = Y (mod 5):
                     x = (X + 3Y) mod 5 , y = X *)
                  let X := (j mod 5)%nat in let Y := (j / 5)%nat in
                  let x := ((X + 3 * Y) mod 5)%nat in let y := X in
                  let i := (x + 5 * y)%nat in
                  rot64 (nth i a 0) (nth i ROT 0)) idx25 in
  (* chi *)
  let e := map (fun j =>
                  let X := (j mod 5)%nat in let Y := (j / 5)%nat in
                  N.lxor (nth j b 0) (N.land (not64 (nth (((X + 1) mod 5) + 5 * Y) b 0)) (nth (((X + 2) mod 5) + 5 * Y) b 0)))
               idx25 in
  (* iota *)
  match e with
  | [] => []
  | e0 :: rest => N.lxor e0 rc :: rest
  end.

Definition keccak_f (st : list N) : list N := fold_left keccak_round RC st.

(* little-endian lane from 8 bytes *)
Fixpoint le_to_N (bs : bytes) : N :=
  match bs with
  | [] => 0
  | b :: rest => b + 256 * le_to_N rest
  end.
Fixpoint N_to_le (n : nat) (x : N) : bytes :=
  match n with
  | O => []
  | S k => (x mod 256) :: N_to_le k (x / 256)
  end.

Fixpoint chunks (n : nat) (fuel : nat) (l : bytes) : list bytes :=
  match fuel with
  | O => []
  | S f => match l with
           | [] => []
           | _ => firstn n l :: chunks n f (skipn n l)
           end
  end.

Definition RATE : nat := 136.

(* pad10*1 with the Keccak domain byte 0x01 *)
Definition pad (msg : bytes) : bytes :=
  let r := (RATE - (length msg mod RATE))%nat in
  if Nat.eqb r 1 then msg ++ [0x81]
  else msg ++ [0x01] ++ repeat 0 (r - 2) ++ [0x80].

Definition absorb_block (st : list N) (block : bytes) : list N :=
  let lanes := map le_to_N (chunks 8 17 block) in
  keccak_f (map (fun i => N.lxor (lane st i) (nth i lanes 0)) idx25).

Definition keccak256 (msg : bytes) : bytes :=
  let p := pad msg in
  let blocks := chunks RATE (S (length p / RATE)) p in
  let st := fold_left absorb_block blocks (repeat 0 25) in
  firstn 32 (flat_map (N_to_le 8) (firstn 4 st)).

(* test vectors *)
Definition hexbytes (l : list N) : bytes := l.
Example keccak_empty :
  keccak256 [] = [0xc5;0xd2;0x46;0x01;0x86;0xf7;0x23;0x3c;0x92;0x7e;0x7d;0xb2;0xdc;0xc7;0x03;0xc0;
                  0xe5;0x00;0xb6;0x53;0xca;0x82;0x27;0x3b;0x7b;0xfa;0xd8;0x04;0x5d;0x85;0xa4;0x70].
Proof. vm_compute. reflexivity. Qed.
Example keccak_abc :
  keccak256 [97;98;99] = [0x4e;0x03;0x65;0x7a;0xea;0x45;0xa9;0x4f;0xc7;0xd4;0x7b;0xa8;0x26;0xc8;0xd6;0x67;
                          0xc0;0xd1;0xe6;0xe3;0x3a;0x64;0xa0;0x36;0xec;0x44;0xf5;0x8f;0xa1;0x2d;0x6c;0x45].
Proof. vm_compute. reflexivity. Qed.
