(* Solidity ABI encoding (abi.encode) over the type universe the checkpoints use. *)
From V Require Import Base.Prelude.
Local Open Scope Z_scope.

Inductive abity := TUint | TAddr | TB32 | TArrUint | TArrAddr | TBytes | TArrUint8 | TArrB32.

Inductive abival :=
| AUint (z : Z)                    (* uint256 *)
| AAddr (a : bytes)                (* 20 bytes *)
| AB32 (b : bytes)                 (* up to 32 bytes, right padded *)
| AArrUint (l : list Z)
| AArrAddr (l : list bytes)
| ABytes (b : bytes).

Definition ty_of (v : abival) : abity :=
  match v with
  | AUint _ => TUint | AAddr _ => TAddr | AB32 _ => TB32
  | AArrUint _ => TArrUint | AArrAddr _ => TArrAddr | ABytes _ => TBytes
  end.

Fixpoint be_bytes (w : nat) (x : Z) : bytes :=
  match w with
  | O => []
  | S w' => Z.to_N ((x / 256 ^ Z.of_nat w') mod 256) :: be_bytes w' x
  end.

Definition word_uint (z : Z) : bytes := be_bytes 32 z.
Definition word_addr (a : bytes) : bytes := repeat 0%N (32 - length a) ++ a.
Definition word_b32 (b : bytes) : bytes := firstn 32 b ++ repeat 0%N (32 - length b).
Definition pad_right32 (b : bytes) : bytes :=
  let r := (length b mod 32)%nat in b ++ (if Nat.eqb r 0 then [] else repeat 0%N (32 - r)).

Definition is_dynamic (v : abival) : bool :=
  match v with AArrUint _ | AArrAddr _ | ABytes _ => true | _ => false end.

Definition head_static (v : abival) : bytes :=
  match v with
  | AUint z => word_uint z
  | AAddr a => word_addr a
  | AB32 b => word_b32 b
  | _ => []
  end.

Definition tail_of (v : abival) : bytes :=
  match v with
  | AArrUint l => word_uint (Z.of_nat (length l)) ++ flat_map word_uint l
  | AArrAddr l => word_uint (Z.of_nat (length l)) ++ flat_map word_addr l
  | ABytes b => word_uint (Z.of_nat (length b)) ++ pad_right32 b
  | _ => []
  end.

(* heads: static values in place, dynamic values as offsets from the start of the block *)
Fixpoint abi_go (args : list abival) (offset : Z) : bytes * bytes :=
  match args with
  | [] => ([], [])
  | v :: rest =>
      if is_dynamic v then
        let t := tail_of v in
        let (hs, ts) := abi_go rest (offset + Z.of_nat (length t)) in
        (word_uint offset ++ hs, t ++ ts)
      else
        let (hs, ts) := abi_go rest offset in
        (head_static v ++ hs, ts)
  end.

Definition abi_encode (args : list abival) : bytes :=
  let (hs, ts) := abi_go args (32 * Z.of_nat (length args)) in hs ++ ts.
