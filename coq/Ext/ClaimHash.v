(* Claim identifiers of external events (C14): the byte string hashed by the per-type Hash() of
   module/x/mhub2/types/external_event.go (after the fix: type tag, then every field with an
   8-byte big-endian length prefix). *)
From V Require Import Base.Prelude Base.Val Ext.Abi.
Local Open Scope Z_scope.

Definition u64 (n : Z) : bytes := be_bytes 8 n.                      (* sdk.Uint64ToBigEndian *)

(* big.Int.Bytes(): minimal big-endian magnitude, empty for zero *)
Definition byte_len (z : Z) : nat := if z <=? 0 then O else Z.to_nat (Z.log2 z / 8 + 1).
Definition mag_bytes (z : Z) : bytes := be_bytes (byte_len z) z.
(* intBytes: sign byte, then magnitude *)
Definition int_bytes (z : Z) : bytes := (if z <? 0 then 1%N else 0%N) :: mag_bytes (Z.abs z).

Definition frame (fields : list bytes) : bytes := flat_map (fun f => u64 (Z.of_nat (length f)) ++ f) fields.
Definition claim_enc (tag : N) (fields : list bytes) : bytes := tag :: frame fields.

Record member := mkMember { m_addr : bytes; m_power : Z }.

Inductive xevent :=
| XDeposit (nonce : Z) (coin : bytes) (amount : Z) (sender receiver : bytes) (height : Z) (txhash : bytes)
| XTransfer (nonce : Z) (coin : bytes) (amount fee : Z) (sender rchain receiver : bytes) (height : Z) (txhash : bytes)
| XBatch (coin : bytes) (nonce bnonce height : Z) (txhash : bytes) (feepaid : option Z) (payer : bytes)
| XCall (nonce : Z) (scope : bytes) (inonce : Z) (retdata : bytes) (height : Z) (txhash : bytes)
| XSigners (nonce snonce height : Z) (members : list member) (txhash : bytes).   (* members in canonical (sorted) order *)

Definition opt_int_bytes (o : option Z) : bytes := match o with Some z => int_bytes z | None => [] end.

Definition members_bytes (l : list member) : bytes :=
  flat_map (fun m => u64 (Z.of_nat (length (m_addr m))) ++ m_addr m ++ u64 (m_power m)) l.

Definition xfields (e : xevent) : N * list bytes :=
  match e with
  | XDeposit n c a s r h t => (1%N, [u64 n; c; int_bytes a; s; r; u64 h; t])
  | XTransfer n c a f s rc r h t => (2%N, [u64 n; c; int_bytes a; int_bytes f; s; rc; r; u64 h; t])
  | XBatch c n b h t fp p => (3%N, [c; u64 n; u64 b; u64 h; t; opt_int_bytes fp; p])
  | XCall n sc i rd h t => (4%N, [u64 n; sc; u64 i; rd; u64 h; t])
  | XSigners n sn h ms t => (5%N, [u64 n; u64 sn; u64 h; members_bytes ms; t])
  end.

Definition xenc (e : xevent) : bytes := claim_enc (fst (xfields e)) (snd (xfields e)).

(* ---------- codec ---------- *)
Definition dec_optint (v : val) : option Z := match vL v with [] => None | x :: _ => Some (vI x) end.
Definition dec_xevent (v : val) : xevent :=
  match vI (vnth 0 v) with
  | 1 => XDeposit (vI (vnth 1 v)) (vB (vnth 2 v)) (vI (vnth 3 v)) (vB (vnth 4 v)) (vB (vnth 5 v)) (vI (vnth 6 v)) (vB (vnth 7 v))
  | 2 => XTransfer (vI (vnth 1 v)) (vB (vnth 2 v)) (vI (vnth 3 v)) (vI (vnth 4 v)) (vB (vnth 5 v)) (vB (vnth 6 v)) (vB (vnth 7 v))
                   (vI (vnth 8 v)) (vB (vnth 9 v))
  | 3 => XBatch (vB (vnth 1 v)) (vI (vnth 2 v)) (vI (vnth 3 v)) (vI (vnth 4 v)) (vB (vnth 5 v)) (dec_optint (vnth 6 v)) (vB (vnth 7 v))
  | 4 => XCall (vI (vnth 1 v)) (vB (vnth 2 v)) (vI (vnth 3 v)) (vB (vnth 4 v)) (vI (vnth 5 v)) (vB (vnth 6 v))
  | _ => XSigners (vI (vnth 1 v)) (vI (vnth 2 v)) (vI (vnth 3 v))
                  (map (fun m => mkMember (vB (vnth 0 m)) (vI (vnth 1 m))) (vL (vnth 4 v))) (vB (vnth 5 v))
  end.

(* a case is a pair of events; the model's answer: do their hashed byte strings coincide, and the
   two byte strings themselves (the implementation reports what it fed into SHA-256 through the
   verif-tagged recording hasher) *)
Definition claim_run (c : val) : val :=
  let b1 := xenc (dec_xevent (vnth 0 c)) in
  let b2 := xenc (dec_xevent (vnth 1 c)) in
  VL [vbool (beqb b1 b2); VB b1; VB b2].

(* monitor: two events that differ in some field (different hashed strings in the model) but get
   the same claim id from the implementation are a concrete failing input *)
Definition mon_C14 (c impl : val) : val :=
  if negb (vgetbool (vnth 0 (claim_run c))) && vgetbool (vnth 0 impl) then
    VL [VL [VB (map Z.to_N [67;49;52;47;100;105;102;102;101;114;101;110;116;45;101;118;101;110;116;115;45;115;97;109;101;45;99;108;97;105;109;45;105;100]%Z);
            VI 0; vnth 0 c; vnth 1 c]]     (* C14/different-events-same-claim-id *)
  else VL [].
