(* C01 — bridge solvency, evaluated over hub histories together with a ledger of the external custody.
   The external world enters a hub history through its events: a deposit / transfer event means that the
   amount was locked in the chain's custody (contract or multisig) before; a batch-executed event means that
   the custody paid out the amounts of that batch.  Per denom D the potential
       Phi(D) = hub supply of D + hub value of every transfer of D in the pool or in a batch
   must never exceed the custody of D (all chains, in hub units), and may grow only by deposits. *)
From V Require Import Base.Prelude Base.Val Num.Arith Hub.Types Hub.Model Hub.Codec Hub.Monitor.
Local Open Scope Z_scope.

Definition entry_denom (toks : list token_info) (e : ste) : option bytes :=
  match id_to_token toks (s_tid e) with Some t => Some (ti_denom t) | None => None end.
Definition entry_value (toks : list token_info) (e : ste) : Z :=
  conv_from_ext toks (s_chain e) (s_ext e) (s_token e + s_fee e + s_comm e).
Definition inflight (toks : list token_info) (entries : list ste) (d : bytes) : Z :=
  zsum (map (fun e => match entry_denom toks e with
                      | Some d' => if beqb d d' then entry_value toks e else 0
                      | None => 0 end) entries).
(* on the model state *)
Definition phi (s : state) (d : bytes) : Z :=
  supply s d + inflight (st_tokens s) (st_pool s ++ concat (map b_txs (st_batches s))) d.
(* on an observation of the implementation *)
Definition phi_obs (toks : list token_info) (o : obs) (d : bytes) : Z :=
  obs_supply o d + inflight toks (all_entries o) d.

(* what the queued events of a block mean for the custody of denom d (hub units):
   locked by deposits / transfers (non-negative amounts only: a contract cannot lock a negative amount),
   paid out by executed batches (looked up in the batches pending before the block's EndBlocker) *)
Definition locked_by (toks : list token_info) (pending : list (bytes * event)) (d : bytes) : Z :=
  zsum (map (fun ce : bytes * event =>
               let chain := fst ce in
               match snd ce with
               | EvDeposit _ coin amount _ _ _ _ | EvTransfer _ coin amount _ _ _ _ _ _ _ =>
                   match ext_to_token toks chain coin with
                   | Some t => if beqb (ti_denom t) d && (0 <? amount) then to_hub (ti_dec t) amount else 0
                   | None => 0 end
               | _ => 0 end) pending).
(* an execution event counts when the hub handled it: the batch was pending before the block's EndBlocker, is gone
   afterwards, and every transfer of it has the fee record that batchTxExecuted writes (a batch that merely disappears
   -- released by the execution of a later batch of its token in the same block -- was not executed on the hub) *)
Definition handled (after : list batch) (feerec_after : list (bytes * (Z * Z))) (chain coin : bytes) (bn : N) (b : batch) : bool :=
  negb (existsb (batch_is chain coin bn) after)
  && forallb (fun e => existsb (fun r : bytes * (Z * Z) => beqb (fst r) (s_txhash e)) feerec_after) (b_txs b).

Definition paid_by (toks : list token_info) (batches after : list batch) (feerec_after : list (bytes * (Z * Z)))
           (pending : list (bytes * event)) (d : bytes) : Z :=
  zsum (map (fun ce : bytes * event =>
               let chain := fst ce in
               match snd ce with
               | EvBatchExecuted _ coin bn _ _ _ _ =>
                   match ext_to_token toks chain coin, find (batch_is chain coin bn) batches with
                   | Some t, Some b => if beqb (ti_denom t) d && handled after feerec_after chain coin bn b
                                       then to_hub (ti_dec t) (zsum (map s_token (b_txs b))) else 0
                   | _, _ => 0 end
               | _ => 0 end) pending).
(* execution events of batches that were pending and were not handled: the custody paid, the hub dropped the claim (its
   handling failed) and keeps the transfers in flight -- or releases and refunds them later *)
Definition dropped_executions (batches after : list batch) (feerec_after : list (bytes * (Z * Z)))
           (pending : list (bytes * event)) : list (bytes * bytes * N) :=
  flat_map (fun ce : bytes * event =>
              match snd ce with
              | EvBatchExecuted _ coin bn _ _ _ _ =>
                  match find (batch_is (fst ce) coin bn) batches with
                  | Some b => if handled after feerec_after (fst ce) coin bn b then [] else [(fst ce, coin, bn)]
                  | None => []
                  end
              | _ => [] end) pending.

(* the custody executes a batch once: a second execution event for the same batch in one block is not
   something the external chain can have emitted *)
Fixpoint dedup_exec (pending : list (bytes * event)) (seen : list (bytes * bytes * N)) : list (bytes * event) :=
  match pending with
  | [] => []
  | ce :: rest =>
      match snd ce with
      | EvBatchExecuted _ coin bn _ _ _ _ =>
          if existsb (fun x : bytes * bytes * N => beqb (fst (fst x)) (fst ce) && beqb (snd (fst x)) coin && N.eqb (snd x) bn) seen
          then dedup_exec rest seen
          else ce :: dedup_exec rest ((fst ce, coin, bn) :: seen)
      | _ => ce :: dedup_exec rest seen
      end
  end.

Definition k_c01_mint := str [67;48;49;47;118;111;117;99;104;101;114;115;45;99;114;101;97;116;101;100;45;119;105;116;104;111;117;116;45;108;111;99;107].  (* C01/vouchers-created-without-lock *)
Definition k_c01_insolvent := str [67;48;49;47;115;117;112;112;108;121;45;112;108;117;115;45;105;110;45;102;108;105;103;104;116;45;101;120;99;101;101;100;115;45;99;117;115;116;111;100;121]. (* C01/supply-plus-in-flight-exceeds-custody *)

Definition k_c01_dropped := str [67;48;49;47;101;120;101;99;117;116;105;111;110;45;101;118;101;110;116;45;100;114;111;112;112;101;100].  (* C01/execution-event-dropped *)

Definition denoms_of (toks : list token_info) : list bytes :=
  fold_left (fun acc t => if existsb (beqb (ti_denom t)) acc then acc else acc ++ [ti_denom t]) toks [].

(* acc: (track, custody ledger per denom) *)
Definition mon_C01_step (step : nat) (o : val) (prev cur : obs) (acc : track * list (bytes * Z)) : list val * (track * list (bytes * Z)) :=
  let (t, ledger) := acc in
  let kind := op_kind o in
  let toks := tr_tokens t in
  let t' := track_step o prev cur t in
  if kind =? 7 then ([], (t', ledger))     (* token list / oracle input change: no check across it *)
  else
    let ds := denoms_of toks in
    let at_end := kind =? 6 in
    let ledger' := if at_end then
                     fold_left (fun l d => aset d (agetd 0 d l + locked_by toks (tr_pending t) d - paid_by toks (ob_batches prev) (ob_batches cur) (ob_feerec cur) (dedup_exec (tr_pending t) []) d) l) ds ledger
                   else ledger in
    ((if at_end then map (fun x : bytes * bytes * N => viol k_c01_dropped step [VB (fst (fst x)); VB (snd (fst x)); vNat (snd x)])
                             (dropped_executions (ob_batches prev) (ob_batches cur) (ob_feerec cur) (tr_pending t)) else [])
     ++ flat_map (fun d =>
                 let grow := if at_end then locked_by toks (tr_pending t) d else 0 in
                 (if phi_obs toks cur d <=? phi_obs toks prev d + grow then []
                  else [viol k_c01_mint step [VB d; VI (phi_obs toks prev d); VI (phi_obs toks cur d); VI grow]])
                 ++ (if phi_obs toks cur d <=? agetd 0 d ledger' then []
                     else [viol k_c01_insolvent step [VB d; VI (phi_obs toks cur d); VI (agetd 0 d ledger')]])) ds,
     (t', ledger')).

Definition mon_C01 (c impl : val) : val :=
  VL (mon_fold mon_C01_step 0 (vL (vnth 2 c)) (vL impl) empty_obs (track0 (vI (vnth 5 (vnth 0 c))), [])).
