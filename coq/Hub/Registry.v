(* Delegate-key registry and signature confirmations (C16, C17).  Mirrors
   keeper/msg_server.go SetDelegateKeys / SubmitTxConfirmation / getSignerValidator,
   keeper/keeper.go (the three address maps, external signatures) and the relayer-facing queries
   of keeper/grpc_query.go.  All maps are keyed by the chain id as well. *)
From V Require Import Base.Prelude Base.Val Num.Arith.
Local Open Scope Z_scope.

(* keys: chain ++ [256] ++ x   (256 is not a byte: an unambiguous separator) *)
Definition ck (chain x : bytes) : bytes := chain ++ 256%N :: x.

Record rval := mkRval { rv_addr : bytes; rv_acc : bytes; rv_bonded : bool; rv_seq : Z }.

Record rstate := mkRs {
  rs_chains : list bytes;                 (* params.Chains *)
  rs_val_ext : list (bytes * bytes);      (* (chain, validator) -> external address (20 bytes) *)
  rs_orch_val : list (bytes * bytes);     (* (chain, orchestrator) -> validator *)
  rs_ext_orch : list (bytes * bytes);     (* (chain, external address) -> orchestrator *)
  rs_sigs : list (bytes * (bytes * bytes * bytes * bytes));   (* key (chain, index, validator) -> (chain, index, validator, signature) *)
  rs_otxs : list (bytes * bytes);         (* existing outgoing txs: (chain, store index) *)
  rs_vals : list rval;                    (* staking + account sequence input *)
  rs_log : list (bytes * bytes * bytes * bytes)   (* ghost: successful registrations (chain, validator, orchestrator, external) *)
}.

Definition zero20 : bytes := repeat 0%N 20.

Definition find_rval (s : rstate) (addr : bytes) : option rval := find (fun v => beqb (rv_addr v) addr) (rs_vals s).

Definition ext_of (s : rstate) (chain val : bytes) : bytes := agetd zero20 (ck chain val) (rs_val_ext s).

(* getValidatorsByExternalAddress / getExternalAddressesByOrchestrator: scans over current entries of the chain *)
Definition chain_of_key (k : bytes) : bytes :=
  (fix go (l : bytes) : bytes := match l with [] => [] | x :: r => if N.eqb x 256 then [] else x :: go r end) k.

Definition ext_in_use (s : rstate) (chain eth : bytes) : bool :=
  existsb (fun kv : bytes * bytes => beqb (chain_of_key (fst kv)) chain && beqb (snd kv) eth) (rs_val_ext s).
Definition orch_in_use (s : rstate) (chain orch : bytes) : bool :=
  existsb (fun kv : bytes * bytes => beqb (chain_of_key (fst kv)) chain && beqb (snd kv) orch) (rs_ext_orch s).

(* SetDelegateKeys.  [recovered]: the address recovered from the message's signature over
   keccak(proto(DelegateKeysSignMsg{validator, sequence-1})) (None: the signature does not verify at all) *)
Definition set_keys (s : rstate) (chain val orch eth : bytes) (recovered : option bytes) : res rstate :=
  match find_rval s val with
  | None => Err 1
  | Some v =>
      if ext_in_use s chain eth then Err 2
      else if orch_in_use s chain orch then Err 3
      else
        match recovered with
        | Some a =>
            if beqb a eth then
              Ok (mkRs (rs_chains s) (aset (ck chain val) eth (rs_val_ext s)) (aset (ck chain orch) val (rs_orch_val s))
                       (aset (ck chain eth) orch (rs_ext_orch s)) (rs_sigs s) (rs_otxs s) (rs_vals s)
                       (rs_log s ++ [(chain, val, orch, eth)]))
            else Err 4
        | None => Err 4
        end
  end.

(* getSignerValidator *)
Definition signer_val (s : rstate) (chain signer : bytes) : res bytes :=
  let cand := match aget (ck chain signer) (rs_orch_val s) with
              | Some v => find_rval s v
              | None => find (fun v => beqb (rv_acc v) signer) (rs_vals s)
              end in
  match cand with
  | None => Err 5
  | Some v => if rv_bonded v then Ok (rv_addr v) else Err 6
  end.

Definition sig_key (chain index val : bytes) : bytes := chain ++ 256%N :: index ++ 256%N :: val.

(* SubmitTxConfirmation (fix: a validator without a key cannot confirm) *)
Definition confirm (s : rstate) (chain signer index claimed signature : bytes) : res rstate :=
  if negb (existsb (beqb chain) (rs_chains s)) then Err 7
  else
    let* val := signer_val s chain signer in
    if negb (existsb (fun o : bytes * bytes => beqb (fst o) chain && beqb (snd o) index) (rs_otxs s)) then Err 8
    else
      let eth := ext_of s chain val in
      if beqb eth zero20 then Err 9
      else if negb (beqb eth claimed) then Err 10
      else if match aget (sig_key chain index val) (rs_sigs s) with Some _ => true | None => false end then Err 11
      else Ok (mkRs (rs_chains s) (rs_val_ext s) (rs_orch_val s) (rs_ext_orch s)
                    (aset (sig_key chain index val) (chain, index, val, signature) (rs_sigs s)) (rs_otxs s) (rs_vals s) (rs_log s)).

(* *TxConfirmations: the stored signatures of one store index, attributed to the validators'
   CURRENT external addresses *)
Definition confirmations (s : rstate) (chain index : bytes) : list (bytes * bytes) :=
  flat_map (fun kv : bytes * (bytes * bytes * bytes * bytes) =>
              let '(c, i, v, sg) := snd kv in
              if beqb c chain && beqb i index then [(ext_of s chain v, sg)] else []) (rs_sigs s).

(* Unsigned*Txs for an address: the outgoing txs of the type (first byte of the store index) the
   resolved validator has no stored signature for *)
Definition unsigned (s : rstate) (chain address : bytes) (ty : N) : res (list bytes) :=
  let* val := signer_val s chain address in
  Ok (map snd (filter (fun o : bytes * bytes =>
                         beqb (fst o) chain && N.eqb (hd 0%N (snd o)) ty
                         && match aget (sig_key chain (snd o) val) (rs_sigs s) with
                            | Some (_, _, _, sg) => match sg with [] => true | _ => false end
                            | None => true end) (rs_otxs s))).

Inductive rop :=
| RSetKeys (chain val orch eth : bytes) (recovered : option bytes)
| RConfirm (chain signer index claimed signature : bytes)
| RSetVals (vals : list rval)
| RSetOtxs (otxs : list (bytes * bytes)).

Definition rstep (s : rstate) (o : rop) : rstate * N :=
  match o with
  | RSetKeys c v o e r => match set_keys s c v o e r with Ok s' => (s', 0%N) | Err _ => (s, 1%N) | Panic _ => (s, 2%N) end
  | RConfirm c sg i cl sig => match confirm s c sg i cl sig with Ok s' => (s', 0%N) | Err _ => (s, 1%N) | Panic _ => (s, 2%N) end
  | RSetVals vals => (mkRs (rs_chains s) (rs_val_ext s) (rs_orch_val s) (rs_ext_orch s) (rs_sigs s) (rs_otxs s) vals (rs_log s), 0%N)
  | RSetOtxs otxs => (mkRs (rs_chains s) (rs_val_ext s) (rs_orch_val s) (rs_ext_orch s) (rs_sigs s) otxs (rs_vals s) (rs_log s), 0%N)
  end.

Definition rinit (chains : list bytes) : rstate := mkRs chains [] [] [] [] [] [] [].
Definition rrun (s : rstate) (ops : list rop) : rstate := fold_left (fun st o => fst (rstep st o)) ops s.

(* ---------- codec ---------- *)
Definition dec_rval (v : val) : rval := mkRval (vB (vnth 0 v)) (vB (vnth 1 v)) (vgetbool (vnth 2 v)) (vI (vnth 3 v)).
Definition dec_rop (v : val) : rop :=
  match vI (vnth 0 v) with
  | 1 => RSetKeys (vB (vnth 1 v)) (vB (vnth 2 v)) (vB (vnth 3 v)) (vB (vnth 4 v))
                  (match vL (vnth 5 v) with [] => None | a :: _ => Some (vB a) end)
  | 2 => RConfirm (vB (vnth 1 v)) (vB (vnth 2 v)) (vB (vnth 3 v)) (vB (vnth 4 v)) (vB (vnth 5 v))
  | 3 => RSetVals (map dec_rval (vL (vnth 1 v)))
  | _ => RSetOtxs (map (fun x => (vB (vnth 0 x), vB (vnth 1 x))) (vL (vnth 1 v)))
  end.

Definition rset (l : list val) : val := VL (VB [115;101;116]%N :: l).
Definition split_ck (k : bytes) : bytes * bytes :=
  (fix go (l acc : bytes) : bytes * bytes :=
     match l with [] => (rev acc, []) | x :: r => if N.eqb x 256 then (rev acc, r) else go r (x :: acc) end) k [].

(* observation: the three maps, and for every existing outgoing tx its confirmations and, for
   every validator account and registered orchestrator, the unsigned lists *)
Definition enc_rstate (s : rstate) (askers : list bytes) : val :=
  VL [ rset (map (fun kv : bytes * bytes => let (c, x) := split_ck (fst kv) in VL [VB c; VB x; VB (snd kv)]) (rs_val_ext s));
       rset (map (fun kv : bytes * bytes => let (c, x) := split_ck (fst kv) in VL [VB c; VB x; VB (snd kv)]) (rs_orch_val s));
       rset (map (fun kv : bytes * bytes => let (c, x) := split_ck (fst kv) in VL [VB c; VB x; VB (snd kv)]) (rs_ext_orch s));
       rset (map (fun o : bytes * bytes =>
                    VL [VB (fst o); VB (snd o);
                        rset (map (fun p : bytes * bytes => VL [VB (fst p); VB (snd p)]) (confirmations s (fst o) (snd o)))]) (rs_otxs s));
       rset (flat_map (fun c => flat_map (fun a => map (fun ty =>
                         VL [VB c; VB a; vNat ty;
                             match unsigned s c a ty with
                             | Ok l => rset (map VB l) | _ => VI (-1) end]) [1%N; 2%N; 3%N]) askers) (rs_chains s)) ].

Definition reg_run (c : val) : val :=
  let chains := map vB (vL (vnth 0 c)) in
  let askers := map vB (vL (vnth 1 c)) in
  (* op tag 11: a transaction that registers keys and fails afterwards (its cache branch is dropped): no effect, code 1 *)
  VL (snd (fold_left (fun (acc : rstate * list val) ov =>
                        let (s, out) := acc in
                        if vI (vnth 0 ov) =? 11 then (s, out ++ [VL [VI 1; enc_rstate s askers]])
                        else
                        let (s', code) := rstep s (dec_rop ov) in
                        (s', out ++ [VL [vNat code; enc_rstate s' askers]]))
                     (vL (vnth 2 c)) (rinit chains, []))).

(* ---------- monitors (C16, C17) over the implementation's observations ---------- *)
Definition rstr (l : list Z) : val := VB (map Z.to_N l).
Definition rviol (key : val) (step : nat) (detail : list val) : val := VL (key :: VI (Z.of_nat step) :: detail).
Definition k_c17_inj := rstr [67;49;55;47;97;100;100;114;101;115;115;45;98;111;117;110;100;45;116;119;105;99;101].          (* C17/address-bound-twice *)
Definition k_c17_unauth := rstr [67;49;55;47;117;110;97;117;116;104;111;114;105;115;101;100;45;98;105;110;100;105;110;103]. (* C17/unauthorised-binding *)
Definition k_c17_orch2 := rstr [67;49;55;47;111;114;99;104;101;115;116;114;97;116;111;114;45;98;111;117;110;100;45;116;119;105;99;101]. (* C17/orchestrator-bound-twice *)
Definition k_c17_orch := rstr [67;49;55;47;111;114;99;104;101;115;116;114;97;116;111;114;45;97;116;116;114;105;98;117;116;105;111;110]. (* C17/orchestrator-attribution *)
Definition k_c16_recorded := rstr [67;49;54;47;114;101;99;111;114;100;101;100;45;119;105;116;104;111;117;116;45;99;111;110;100;105;116;105;111;110;115]. (* C16/recorded-without-conditions *)
Definition k_c16_query := rstr [67;49;54;47;99;111;110;102;105;114;109;97;116;105;111;110;115;45;113;117;101;114;121].       (* C16/confirmations-query *)
Definition k_c16_attr := rstr [67;49;54;47;97;116;116;114;105;98;117;116;105;111;110;45;97;102;116;101;114;45;114;101;114;101;103;105;115;116;114;97;116;105;111;110]. (* C16/attribution-after-reregistration *)
Definition k_c16_unsigned := rstr [67;49;54;47;117;110;115;105;103;110;101;100;45;113;117;101;114;121].                     (* C16/unsigned-query *)

Definition triple (v : val) : bytes * bytes * bytes := (vB (vnth 0 v), vB (vnth 1 v), vB (vnth 2 v)).
Definition set_items (v : val) : list val := tl (vL v).

Record robs := mkRobs {
  ro_code : Z;
  ro_val_ext : list (bytes * bytes * bytes);       (* chain, validator, address *)
  ro_orch_val : list (bytes * bytes * bytes);      (* chain, orchestrator, validator *)
  ro_confs : list (bytes * bytes * list (bytes * bytes));
  ro_uns : list (bytes * bytes * Z * option (list bytes))
}.
Definition dec_robs (v : val) : robs :=
  let st := vnth 1 v in
  mkRobs (vI (vnth 0 v)) (map triple (set_items (vnth 0 st))) (map triple (set_items (vnth 1 st)))
         (map (fun x => (vB (vnth 0 x), vB (vnth 1 x), map (fun p => (vB (vnth 0 p), vB (vnth 1 p))) (set_items (vnth 2 x)))) (set_items (vnth 3 st)))
         (map (fun x => (vB (vnth 0 x), vB (vnth 1 x), vI (vnth 2 x),
                         match vnth 3 x with VI _ => None | l => Some (map vB (set_items l)) end)) (set_items (vnth 4 st))).

(* what the monitor remembers: successful registrations and successful confirmations (with the
   address that was claimed, i.e. that signed), current staking and outgoing txs *)
Record rtrack := mkRtrack {
  rt_vals : list rval;
  rt_otxs : list (bytes * bytes);
  rt_regs : list (bytes * bytes * bytes * bytes);                  (* chain, validator, orchestrator, address *)
  rt_confs : list (bytes * bytes * bytes * bytes * bytes)          (* chain, index, validator, claimed address, signature *)
}.

Definition lookup3 (l : list (bytes * bytes * bytes)) (c x : bytes) : option bytes :=
  match find (fun t : bytes * bytes * bytes => beqb (fst (fst t)) c && beqb (snd (fst t)) x) l with Some t => Some (snd t) | None => None end.

Definition resolve (prev : robs) (t : rtrack) (c signer : bytes) : option bytes :=
  let cand := match lookup3 (ro_orch_val prev) c signer with
              | Some v => find (fun r => beqb (rv_addr r) v) (rt_vals t)
              | None => find (fun r => beqb (rv_acc r) signer) (rt_vals t) end in
  match cand with Some r => if rv_bonded r then Some (rv_addr r) else None | None => None end.

Definition same_pairs (a b : list (bytes * bytes)) : bool :=
  Nat.eqb (length a) (length b) &&
  forallb (fun x => existsb (fun y => beqb (fst x) (fst y) && beqb (snd x) (snd y)) b) a &&
  forallb (fun x => existsb (fun y => beqb (fst x) (fst y) && beqb (snd x) (snd y)) a) b.
Definition same_set (a b : list bytes) : bool :=
  Nat.eqb (length a) (length b) && forallb (fun x => existsb (beqb x) b) a && forallb (fun x => existsb (beqb x) a) b.

Definition mon_reg_step (prop : Z) (step : nat) (o : rop) (prev cur : robs) (t : rtrack) (chains askers : list bytes) : list val :=
  (if prop =? 17 then
     (* one-to-one per chain *)
     flat_map (fun a : bytes * bytes * bytes =>
                 if Nat.ltb 1 (length (filter (fun b : bytes * bytes * bytes => beqb (fst (fst b)) (fst (fst a)) && beqb (snd b) (snd a)) (ro_val_ext cur)))
                 then [rviol k_c17_inj step [VB (fst (fst a)); VB (snd a)]] else []) (ro_val_ext cur)
     ++
     match o with
     | RSetKeys c v orch e rec =>
         if ro_code cur =? 0 then
           (match rec with Some a => if beqb a e then [] else [rviol k_c17_unauth step [VB v; VB e]] | None => [rviol k_c17_unauth step [VB v; VB e]] end)
           ++ (if existsb (fun r => beqb (rv_addr r) v) (rt_vals t) then [] else [rviol k_c17_unauth step [VB v]])
           (* the orchestrator account must not be serving another validator: one whose current address on this chain
              was (last) registered together with this orchestrator *)
           ++ (if existsb (fun b : bytes * bytes * bytes =>
                             beqb (fst (fst b)) c && negb (beqb (snd (fst b)) v)
                             && match find (fun r : bytes * bytes * bytes * bytes => beqb (fst (fst (fst r))) c && beqb (snd r) (snd b)) (rev (rt_regs t)) with
                                | Some r => beqb (snd (fst r)) orch
                                | None => false end)
                          (ro_val_ext prev)
               then [rviol k_c17_orch2 step [VB c; VB orch; VB v]] else [])
         else
           (* a refused registration leaves the maps alone *)
           if Nat.eqb (length (ro_val_ext prev)) (length (ro_val_ext cur)) && Nat.eqb (length (ro_orch_val prev)) (length (ro_orch_val cur)) then []
           else [rviol k_c17_unauth step [VB v; VI 1]]
     | RConfirm c signer index claimed sg =>
         (* a confirmation sent by a registered orchestrator is attributed to the validator that
            registered it: the accepted claimed signer is THAT validator's address *)
         if ro_code cur =? 0 then
           match resolve prev t c signer with
           | Some v => if beqb (match lookup3 (ro_val_ext prev) c v with Some a => a | None => zero20 end) claimed then []
                       else [rviol k_c17_orch step [VB c; VB signer; VB v]]
           | None => [rviol k_c17_orch step [VB c; VB signer]]
           end
         else []
     | _ => []
     end
     ++
     (* every orchestrator entry points to the validator that registered it last *)
     flat_map (fun x : bytes * bytes * bytes =>
                 let c := fst (fst x) in let orch := snd (fst x) in
                 let regs := match o with
                             | RSetKeys c' v' o' e' _ => if ro_code cur =? 0 then rt_regs t ++ [(c', v', o', e')] else rt_regs t
                             | _ => rt_regs t end in
                 match find (fun r : bytes * bytes * bytes * bytes => beqb (fst (fst (fst r))) c && beqb (snd (fst r)) orch) (rev regs) with
                 | Some r => if beqb (snd (fst (fst r))) (snd x) then [] else [rviol k_c17_orch step [VB c; VB orch; VB (snd x)]]
                 | None => [rviol k_c17_orch step [VB c; VB orch; VB (snd x)]]
                 end) (ro_orch_val cur)
   else
     match o with
     | RConfirm c signer index claimed sg =>
         if ro_code cur =? 0 then
           match resolve prev t c signer with
           | Some v =>
               let reg := match lookup3 (ro_val_ext prev) c v with Some a => a | None => zero20 end in
               if existsb (beqb c) chains
                  && existsb (fun x : bytes * bytes => beqb (fst x) c && beqb (snd x) index) (rt_otxs t)
                  && negb (beqb reg zero20) && beqb reg claimed
                  && negb (existsb (fun x : bytes * bytes * bytes * bytes * bytes =>
                                      beqb (fst (fst (fst (fst x)))) c && beqb (snd (fst (fst (fst x)))) index && beqb (snd (fst (fst x))) v) (rt_confs t))
               then [] else [rviol k_c16_recorded step [VB c; VB signer; VB index; VB claimed]]
           | None => [rviol k_c16_recorded step [VB c; VB signer]]
           end
         else []
     | _ => []
     end
     ++
     (* the queries: exactly the recorded confirmations, attributed to the address that signed *)
     (let confs := match o with
                   | RConfirm c signer index claimed sg =>
                       if ro_code cur =? 0 then
                         match resolve prev t c signer with Some v => rt_confs t ++ [(c, index, v, claimed, sg)] | None => rt_confs t end
                       else rt_confs t
                   | _ => rt_confs t end in
      flat_map (fun q : bytes * bytes * list (bytes * bytes) =>
                  let c := fst (fst q) in let index := snd (fst q) in
                  let mine := filter (fun x : bytes * bytes * bytes * bytes * bytes => beqb (fst (fst (fst (fst x)))) c && beqb (snd (fst (fst (fst x)))) index) confs in
                  let want := map (fun x : bytes * bytes * bytes * bytes * bytes => (snd (fst x), snd x)) mine in
                  if same_pairs want (snd q) then []
                  else
                    (* same signatures, but returned under the validator's current address? *)
                    let want_now := map (fun x : bytes * bytes * bytes * bytes * bytes =>
                                           (match lookup3 (ro_val_ext cur) c (snd (fst (fst x))) with Some a => a | None => zero20 end, snd x)) mine in
                    if same_pairs want_now (snd q) then [rviol k_c16_attr step [VB c; VB index]]
                    else [rviol k_c16_query step [VB c; VB index]]) (ro_confs cur)
      ++
      flat_map (fun u : bytes * bytes * Z * option (list bytes) =>
                  let c := fst (fst (fst u)) in let asker := snd (fst (fst u)) in let ty := snd (fst u) in
                  let t' := match o with RSetVals vs => mkRtrack vs (rt_otxs t) (rt_regs t) (rt_confs t)
                                       | RSetOtxs os => mkRtrack (rt_vals t) os (rt_regs t) (rt_confs t) | _ => t end in
                  match resolve cur t' c asker, snd u with
                  | Some v, Some got =>
                      let want := map snd (filter (fun x : bytes * bytes =>
                                     beqb (fst x) c && (Z.of_N (hd 0%N (snd x)) =? ty)
                                     && negb (existsb (fun y : bytes * bytes * bytes * bytes * bytes =>
                                                         beqb (fst (fst (fst (fst y)))) c && beqb (snd (fst (fst (fst y)))) (snd x) && beqb (snd (fst (fst y))) v) confs))
                                    (rt_otxs t')) in
                      if same_set want got then [] else [rviol k_c16_unsigned step [VB c; VB asker; VI ty]]
                  | None, None => []
                  | _, _ => [rviol k_c16_unsigned step [VB c; VB asker; VI ty; VI 0]]
                  end) (ro_uns cur))).

Definition rtrack_step (o : rop) (prev cur : robs) (t : rtrack) : rtrack :=
  match o with
  | RSetVals vs => mkRtrack vs (rt_otxs t) (rt_regs t) (rt_confs t)
  | RSetOtxs os => mkRtrack (rt_vals t) os (rt_regs t) (rt_confs t)
  | RSetKeys c v orch e _ => if ro_code cur =? 0 then mkRtrack (rt_vals t) (rt_otxs t) (rt_regs t ++ [(c, v, orch, e)]) (rt_confs t) else t
  | RConfirm c signer index claimed sg =>
      if ro_code cur =? 0 then
        match resolve prev t c signer with
        | Some v => mkRtrack (rt_vals t) (rt_otxs t) (rt_regs t) (rt_confs t ++ [(c, index, v, claimed, sg)])
        | None => t end
      else t
  end.

Fixpoint rmon_fold (prop : Z) (step : nat) (ops outs : list val) (prev : robs) (t : rtrack) (chains askers : list bytes) : list val :=
  match ops, outs with
  | ov :: ops', v :: outs' =>
      let o := dec_rop ov in
      let cur := dec_robs v in
      if vI (vnth 0 ov) =? 11 then
        (* a dropped transaction leaves the registry alone *)
        (if Nat.eqb (length (ro_val_ext prev)) (length (ro_val_ext cur)) && Nat.eqb (length (ro_orch_val prev)) (length (ro_orch_val cur))
            && forallb (fun a => existsb (fun b : bytes * bytes * bytes => beqb (fst (fst a)) (fst (fst b)) && beqb (snd (fst a)) (snd (fst b)) && beqb (snd a) (snd b)) (ro_val_ext prev)) (ro_val_ext cur)
         then [] else [rviol k_c17_unauth step [VI 11]])
        ++ rmon_fold prop (S step) ops' outs' cur t chains askers
      else
      mon_reg_step prop step o prev cur t chains askers
      ++ rmon_fold prop (S step) ops' outs' cur (rtrack_step o prev cur t) chains askers
  | _, _ => []
  end.

Definition mon_C16 (c impl : val) : val :=
  VL (rmon_fold 16 0 (vL (vnth 2 c)) (vL impl) (mkRobs 0 [] [] [] []) (mkRtrack [] [] [] []) (map vB (vL (vnth 0 c))) (map vB (vL (vnth 1 c)))).
Definition mon_C17 (c impl : val) : val :=
  VL (rmon_fold 17 0 (vL (vnth 2 c)) (vL impl) (mkRobs 0 [] [] [] []) (mkRtrack [] [] [] []) (map vB (vL (vnth 0 c))) (map vB (vL (vnth 1 c)))).


(* C08: what the relayer assembles comes from the confirmation queries; a confirmation the hub has recorded for a
   pending transaction must be served, whoever has unbonded since (the external signer set lags the hub's bonded
   set).  C16's query predicate, reported for C08. *)
Definition k_c08_query := rstr [67;48;56;47;115;116;111;114;101;100;45;99;111;110;102;105;114;109;97;116;105;111;110;45;110;111;116;45;115;101;114;118;101;100]. (* C08/stored-confirmation-not-served *)
Definition mon_C08_reg (c impl : val) : val :=
  VL (map (fun v => match v with VL (_ :: r) => VL (k_c08_query :: r) | _ => v end)
          (filter (fun v => veqb (vnth 0 v) k_c16_query) (vL (mon_C16 c impl)))).

(* ---------- genesis export / import (C15) on the registry state ---------- *)
(* delegate keys are exported from the validator->address index and re-imported into all three maps;
   outgoing txs are exported; confirmations are not *)
(* getDelegateKeys walks the validator->address index and looks the orchestrator up through the
   address; InitGenesis rebuilds the three maps from these triples.  Index entries left behind by an
   earlier registration of the same validator (its previous address and orchestrator) are not
   reachable that way and do not survive. *)
Definition rrestart (s : rstate) : rstate :=
  let triples := flat_map (fun kv : bytes * bytes =>
                             let (c, v) := split_ck (fst kv) in
                             match aget (ck c (snd kv)) (rs_ext_orch s) with
                             | Some o => [(c, v, o, snd kv)]
                             | None => []
                             end) (rs_val_ext s) in
  mkRs (rs_chains s)
       (fold_left (fun m (t : bytes * bytes * bytes * bytes) => let '(c, v, o, e) := t in aset (ck c v) e m) triples [])
       (fold_left (fun m (t : bytes * bytes * bytes * bytes) => let '(c, v, o, e) := t in aset (ck c o) v m) triples [])
       (fold_left (fun m (t : bytes * bytes * bytes * bytes) => let '(c, v, o, e) := t in aset (ck c e) o m) triples [])
       [] (rs_otxs s) (rs_vals s) (rs_log s).
Definition reggen_run (c : val) : val :=
  let chains := map vB (vL (vnth 0 c)) in
  let askers := map vB (vL (vnth 1 c)) in
  VL (snd (fold_left (fun (acc : rstate * list val) (ov : val) =>
                        let (s, out) := acc in
                        if vI (vnth 0 ov) =? 9 then (rrestart s, out ++ [VL [VI 0; enc_rstate (rrestart s) askers]])
                        else if vI (vnth 0 ov) =? 11 then (s, out ++ [VL [VI 1; enc_rstate s askers]])
                        else let (s', code) := rstep s (dec_rop ov) in (s', out ++ [VL [vNat code; enc_rstate s' askers]]))
                     (vL (vnth 2 c)) (rinit chains, []))).
Definition k_c15_keys := rstr [67;49;53;47;108;111;115;116;58;100;101;108;101;103;97;116;101;45;107;101;121;115].                       (* C15/lost:delegate-keys *)
Definition k_c15_confs := rstr [67;49;53;47;108;111;115;116;58;99;111;110;102;105;114;109;97;116;105;111;110;115].                     (* C15/lost:confirmations *)
Definition k_c15_keys_changed := rstr [67;49;53;47;99;104;97;110;103;101;100;58;99;117;114;114;101;110;116;45;100;101;108;101;103;97;116;101;45;107;101;121;115]. (* C15/changed:current-delegate-keys *)
Definition mon_C15_reg (c impl : val) : val :=
  let outs := vL impl in
  VL (snd (fold_left
    (fun (acc : nat * list val) (ov : val) =>
       let i := fst acc in
       (S i, snd acc ++
             (if (vI (vnth 0 ov) =? 9) && Nat.ltb 0 i then
                let b := vnth 1 (nth (i - 1) outs (VL [])) in
                let a := vnth 1 (nth i outs (VL [])) in
                let items k v := tl (vL (vnth k v)) in
                let seteq x y := forallb (fun e => existsb (veqb e) y) x && forallb (fun e => existsb (veqb e) x) y in
                (* the current bindings: every validator's address, and through it its orchestrator *)
                let cur_orch := flat_map (fun ve => filter (fun eo => veqb (vnth 0 eo) (vnth 0 ve) && veqb (vnth 1 eo) (vnth 2 ve)) (items 2%nat b)) (items 0%nat b) in
                let cur_orch_val := flat_map (fun ve => map (fun eo => VL [vnth 0 ve; vnth 2 eo; vnth 1 ve])
                                                            (filter (fun eo => veqb (vnth 0 eo) (vnth 0 ve) && veqb (vnth 1 eo) (vnth 2 ve)) (items 2%nat b))) (items 0%nat b) in
                (if seteq (items 0%nat b) (items 0%nat a) && seteq cur_orch (items 2%nat a) && seteq cur_orch_val (items 1%nat a) then
                   (* only index entries of replaced keys are gone *)
                   if seteq (items 1%nat b) (items 1%nat a) && seteq (items 2%nat b) (items 2%nat a) then [] else [VL [k_c15_keys; VI (Z.of_nat i)]]
                 else [VL [k_c15_keys_changed; VI (Z.of_nat i)]])
                ++ (if seteq (items 3%nat b) (items 3%nat a) then [] else [VL [k_c15_confs; VI (Z.of_nat i)]])
              else [])))
    (vL (vnth 2 c)) (O, []))).
