(* Hub model: types and state.  See DESIGN.md section 2.2. *)
From V Require Import Base.Prelude Base.Val Num.Arith.
Local Open Scope Z_scope.

Record token_info := mkTI {
  ti_id : N;            (* TokenInfo.Id *)
  ti_denom : bytes;
  ti_chain : bytes;
  ti_ext : bytes;       (* ExternalTokenId *)
  ti_dec : Z;           (* ExternalDecimals *)
  ti_comm : Z           (* Commission, sdk.Dec integer (x 10^18) *)
}.

(* SendToExternal (an entry of the unbatched pool / of a batch) *)
Record ste := mkSte {
  s_id : N;
  s_sender : bytes;
  s_recipient : bytes;
  s_chain : bytes;
  s_tid : N;            (* Token.TokenId *)
  s_ext : bytes;        (* Token.ExternalTokenId *)
  s_token : Z;          (* Token.Amount, external units *)
  s_fee : Z;            (* Fee.Amount, external units *)
  s_comm : Z;           (* ValCommission.Amount, external units *)
  s_txhash : bytes;
  s_created : Z;        (* CreatedAt, unix seconds *)
  s_refund_addr : bytes;
  s_refund_chain : bytes
}.

Record batch := mkBatch {
  b_chain : bytes;
  b_ext : bytes;
  b_nonce : N;
  b_timeout : N;
  b_txs : list ste;
  b_height : N;
  b_seq : N
}.

(* external events (the fields ExternalEventProcessor.Handle reads) *)
Inductive event :=
| EvDeposit (nonce : N) (coin : bytes) (amount : Z) (sender receiver : bytes) (height : N) (txhash : bytes)
| EvTransfer (nonce : N) (coin : bytes) (amount fee : Z) (sender rchain receiver : bytes) (height : N)
             (txhash : bytes) (receiver_hub : bytes)   (* receiver_hub: bech32 of the hex receiver, given by the harness *)
| EvBatchExecuted (nonce : N) (coin : bytes) (batch_nonce : N) (height : N) (txhash : bytes)
                  (fee_paid : Z) (fee_payer : bytes)
| EvOther (nonce : N) (height : N).      (* contract call / signer set executed: no pool or bank effect *)

Definition ev_nonce (e : event) : N :=
  match e with
  | EvDeposit n _ _ _ _ _ _ => n | EvTransfer n _ _ _ _ _ _ _ _ _ => n
  | EvBatchExecuted n _ _ _ _ _ _ => n | EvOther n _ => n
  end.
Definition ev_height (e : event) : N :=
  match e with
  | EvDeposit _ _ _ _ _ h _ => h | EvTransfer _ _ _ _ _ _ _ h _ _ => h
  | EvBatchExecuted _ _ _ h _ _ _ => h | EvOther _ h => h
  end.

(* tx status values (types.TxStatusType) *)
Definition ST_NOT_FOUND : N := 0.
Definition ST_DEPOSIT_RECEIVED : N := 1.
Definition ST_BATCH_CREATED : N := 2.
Definition ST_BATCH_EXECUTED : N := 3.
Definition ST_REFUNDED : N := 4.

Record params := mkParams {
  p_chains : list bytes;
  p_avg_block : N;          (* AverageBlockTime *)
  p_avg_eth : N;
  p_avg_bsc : N;
  p_target_timeout : N;     (* TargetEthTxTimeout *)
  p_out_timeout : Z;        (* OutgoingTxTimeout, ms *)
  p_temp : bytes            (* bech32 of types.TempAddress *)
}.

(* inputs the keeper reads from other modules *)
Record validator := mkVal {
  v_addr : bytes;           (* operator address (bech32 valoper) *)
  v_acc : bytes;            (* the same bytes as account address (bech32 acc) *)
  v_power : Z;              (* GetLastValidatorPower *)
  v_bonded : bool
}.

Record oracle_in := mkOracle {
  o_holders : list (bytes * Z);     (* lower-cased address (no 0x) -> value *)
  o_prices : list (bytes * Z)       (* denom -> price (sdk.Dec integer) *)
}.

Record state := mkState {
  st_params : params;
  st_tokens : list token_info;
  st_bal : list (bytes * Z);        (* key: account ++ [256] ++ denom *)
  st_supply : list (bytes * Z);     (* denom -> supply *)
  st_pool : list ste;               (* unbatched pool, ascending store-key order *)
  st_batches : list batch;          (* pending batches *)
  st_last_id : list (bytes * N);        (* LastSendToExternalID per chain *)
  st_last_batch_nonce : list (bytes * N);
  st_out_seq : list (bytes * N);        (* OutgoingSequence per chain *)
  st_obs_cosmos_h : list (bytes * N);   (* LastObservedExternalBlockHeight.CosmosHeight *)
  st_obs_ext_h : list (bytes * N);      (* .ExternalHeight *)
  st_status : list (bytes * (N * bytes));   (* in tx hash -> (status, out tx hash) *)
  st_feerec : list (bytes * (Z * Z));       (* in tx hash -> (ValCommission, ExternalFee) *)
  st_minter_signers : list (bytes * Z);     (* CurrentSignerSet("minter"): (external address, normalised power) *)
  st_oracle : oracle_in;
  st_height : N;                    (* ctx.BlockHeight *)
  st_time : Z;                      (* ctx.BlockTime, unix ms *)
  st_sigset_nonce : list (bytes * N);   (* LatestSignerSetTxNonce per chain *)
  st_pending : list (bytes * event)       (* (chain, event) claims that reach quorum in this block's EndBlocker;
                                           *)
}.

Definition set_bal s v := mkState (st_params s) (st_tokens s) v (st_supply s) (st_pool s) (st_batches s) (st_last_id s) (st_last_batch_nonce s) (st_out_seq s) (st_obs_cosmos_h s) (st_obs_ext_h s) (st_status s) (st_feerec s) (st_minter_signers s) (st_oracle s) (st_height s) (st_time s) (st_sigset_nonce s) (st_pending s).
Definition set_supply s v := mkState (st_params s) (st_tokens s) (st_bal s) v (st_pool s) (st_batches s) (st_last_id s) (st_last_batch_nonce s) (st_out_seq s) (st_obs_cosmos_h s) (st_obs_ext_h s) (st_status s) (st_feerec s) (st_minter_signers s) (st_oracle s) (st_height s) (st_time s) (st_sigset_nonce s) (st_pending s).
Definition set_pool s v := mkState (st_params s) (st_tokens s) (st_bal s) (st_supply s) v (st_batches s) (st_last_id s) (st_last_batch_nonce s) (st_out_seq s) (st_obs_cosmos_h s) (st_obs_ext_h s) (st_status s) (st_feerec s) (st_minter_signers s) (st_oracle s) (st_height s) (st_time s) (st_sigset_nonce s) (st_pending s).
Definition set_batches s v := mkState (st_params s) (st_tokens s) (st_bal s) (st_supply s) (st_pool s) v (st_last_id s) (st_last_batch_nonce s) (st_out_seq s) (st_obs_cosmos_h s) (st_obs_ext_h s) (st_status s) (st_feerec s) (st_minter_signers s) (st_oracle s) (st_height s) (st_time s) (st_sigset_nonce s) (st_pending s).
Definition set_last_id s v := mkState (st_params s) (st_tokens s) (st_bal s) (st_supply s) (st_pool s) (st_batches s) v (st_last_batch_nonce s) (st_out_seq s) (st_obs_cosmos_h s) (st_obs_ext_h s) (st_status s) (st_feerec s) (st_minter_signers s) (st_oracle s) (st_height s) (st_time s) (st_sigset_nonce s) (st_pending s).
Definition set_last_batch_nonce s v := mkState (st_params s) (st_tokens s) (st_bal s) (st_supply s) (st_pool s) (st_batches s) (st_last_id s) v (st_out_seq s) (st_obs_cosmos_h s) (st_obs_ext_h s) (st_status s) (st_feerec s) (st_minter_signers s) (st_oracle s) (st_height s) (st_time s) (st_sigset_nonce s) (st_pending s).
Definition set_out_seq s v := mkState (st_params s) (st_tokens s) (st_bal s) (st_supply s) (st_pool s) (st_batches s) (st_last_id s) (st_last_batch_nonce s) v (st_obs_cosmos_h s) (st_obs_ext_h s) (st_status s) (st_feerec s) (st_minter_signers s) (st_oracle s) (st_height s) (st_time s) (st_sigset_nonce s) (st_pending s).
Definition set_obs s c e := mkState (st_params s) (st_tokens s) (st_bal s) (st_supply s) (st_pool s) (st_batches s) (st_last_id s) (st_last_batch_nonce s) (st_out_seq s) c e (st_status s) (st_feerec s) (st_minter_signers s) (st_oracle s) (st_height s) (st_time s) (st_sigset_nonce s) (st_pending s).
Definition set_status s v := mkState (st_params s) (st_tokens s) (st_bal s) (st_supply s) (st_pool s) (st_batches s) (st_last_id s) (st_last_batch_nonce s) (st_out_seq s) (st_obs_cosmos_h s) (st_obs_ext_h s) v (st_feerec s) (st_minter_signers s) (st_oracle s) (st_height s) (st_time s) (st_sigset_nonce s) (st_pending s).
Definition set_feerec s v := mkState (st_params s) (st_tokens s) (st_bal s) (st_supply s) (st_pool s) (st_batches s) (st_last_id s) (st_last_batch_nonce s) (st_out_seq s) (st_obs_cosmos_h s) (st_obs_ext_h s) (st_status s) v (st_minter_signers s) (st_oracle s) (st_height s) (st_time s) (st_sigset_nonce s) (st_pending s).
Definition set_env s tokens signers oracle height time := mkState (st_params s) tokens (st_bal s) (st_supply s) (st_pool s) (st_batches s) (st_last_id s) (st_last_batch_nonce s) (st_out_seq s) (st_obs_cosmos_h s) (st_obs_ext_h s) (st_status s) (st_feerec s) signers oracle height time (st_sigset_nonce s) (st_pending s).
Definition set_sigset_nonce s v := mkState (st_params s) (st_tokens s) (st_bal s) (st_supply s) (st_pool s) (st_batches s) (st_last_id s) (st_last_batch_nonce s) (st_out_seq s) (st_obs_cosmos_h s) (st_obs_ext_h s) (st_status s) (st_feerec s) (st_minter_signers s) (st_oracle s) (st_height s) (st_time s) v (st_pending s).
Definition set_pending s v := mkState (st_params s) (st_tokens s) (st_bal s) (st_supply s) (st_pool s) (st_batches s) (st_last_id s) (st_last_batch_nonce s) (st_out_seq s) (st_obs_cosmos_h s) (st_obs_ext_h s) (st_status s) (st_feerec s) (st_minter_signers s) (st_oracle s) (st_height s) (st_time s) (st_sigset_nonce s) v.

(* token lookups (first match, as the keeper loops) *)
Definition denom_to_token (tokens : list token_info) (chain denom : bytes) : option token_info :=
  find (fun t => beqb (ti_denom t) denom && beqb (ti_chain t) chain) tokens.
Definition ext_to_token (tokens : list token_info) (chain ext : bytes) : option token_info :=
  find (fun t => beqb (ti_chain t) chain && beqb (ti_ext t) ext) tokens.
Definition id_to_token (tokens : list token_info) (id : N) : option token_info :=
  find (fun t => N.eqb (ti_id t) id) tokens.

(* ConvertFromExternalValue / ConvertToExternalValue: unconverted when the token is unknown *)
Definition conv_from_ext (tokens : list token_info) (chain ext : bytes) (a : Z) : Z :=
  match ext_to_token tokens chain ext with
  | Some t => to_hub (ti_dec t) a
  | None => a
  end.
Definition conv_to_ext (tokens : list token_info) (chain ext : bytes) (a : Z) : Z :=
  match ext_to_token tokens chain ext with
  | Some t => to_ext (ti_dec t) a
  | None => a
  end.

Definition chain_ok (p : params) (c : bytes) : bool := existsb (beqb c) (p_chains p).
