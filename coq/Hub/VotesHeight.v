(* The last observed external height (C13's clock): TryEventVoteRecord stores the external height of a claim
   when, and only when, the claim is applied (quorum reached, nonce = last observed + 1).  A wrapper around the
   vote model (Hub/Votes.v): the claims' heights travel beside the operations. *)
From V Require Import Base.Prelude Base.Val Num.Arith Hub.Votes Hub.VotesMon.
Local Open Scope Z_scope.

Record hstate := mkHs {
  hs_votes : vstate;
  hs_heights : list (N * bytes * N);     (* (nonce, claim hash) -> external height reported by the claim *)
  hs_observed : N                        (* LastObservedExternalBlockHeight.ExternalHeight *)
}.
Definition hinit : hstate := mkHs vinit [] 0.

Definition height_of (t : list (N * bytes * N)) (k : N * bytes) : N :=
  match find (fun x : N * bytes * N => N.eqb (fst (fst x)) (fst k) && beqb (snd (fst x)) (snd k)) t with
  | Some x => snd x | None => 0%N end.

(* one operation with the height its claim reports (ignored for the other operations) *)
Definition hstep (s : hstate) (o : vop) (h : N) : hstate * N :=
  let (v', code) := vstep (hs_votes s) o in
  match o with
  | VVote _ nonce hash _ =>
      (mkHs v' (if existsb (fun x : N * bytes * N => N.eqb (fst (fst x)) nonce && beqb (snd (fst x)) hash) (hs_heights s)
                then hs_heights s else (nonce, hash, h) :: hs_heights s) (hs_observed s), code)
  | VTally =>
      (* the claims applied by this tally, in order; each one stores its height *)
      let newly := skipn (length (vs_applied (hs_votes s))) (vs_applied v') in
      (mkHs v' (hs_heights s) (fold_left (fun _ k => height_of (hs_heights s) k) newly (hs_observed s)), code)
  | VSetStaking _ _ => (mkHs v' (hs_heights s) (hs_observed s), code)
  end.

Definition hrun (s : hstate) (ops : list (vop * N)) : hstate := fold_left (fun st oh => fst (hstep st (fst oh) (snd oh))) ops s.

(* ---------- codec ---------- *)
Definition dec_hop (v : val) : vop * N := (dec_vop v, match vI (vnth 0 v) with 1 => vN (vnth 5 v) | _ => 0%N end).
Definition enc_hstate (s : hstate) : val :=
  match enc_vstate (hs_votes s) with
  | VL items => VL (items ++ [vNat (hs_observed s)])
  | v => v
  end.
Definition votesh_run (c : val) : val :=
  VL (snd (fold_left (fun (acc : hstate * list val) ov =>
                        let (s, out) := acc in
                        let (o, h) := dec_hop ov in
                        let (s', code) := hstep s o h in
                        (s', out ++ [VL [vNat code; enc_hstate s']]))
                     (vL c) (hinit, []))).

(* ---------- monitor on the implementation ---------- *)
(* C13/height-from-unapplied-claim: the stored height is 0 or the height of the last claim the hub applied *)
Definition k_c13_height : val :=
  VB (map Z.to_N [67;49;51;47;104;101;105;103;104;116;45;102;114;111;109;45;117;110;97;112;112;108;105;101;100;45;99;108;97;105;109]).

Definition accepted_keys (v : val) : list (N * bytes) :=
  flat_map (fun x => if vgetbool (vnth 3 x) then [(vN (vnth 0 x), vB (vnth 1 x))] else []) (vL (vnth 0 (vnth 1 v))).

Fixpoint mon_height_fold (step : nat) (ops outs : list val) (table : list (N * bytes * N)) (prev_acc : list (N * bytes)) (expected : N)
  : list val :=
  match ops, outs with
  | ov :: ops', out :: outs' =>
      let table' := match vI (vnth 0 ov) with
                    | 1 => if existsb (fun x : N * bytes * N => N.eqb (fst (fst x)) (vN (vnth 2 ov)) && beqb (snd (fst x)) (vB (vnth 3 ov))) table
                           then table else (vN (vnth 2 ov), vB (vnth 3 ov), vN (vnth 5 ov)) :: table
                    | _ => table end in
      let acc := accepted_keys out in
      (* newly accepted records, by ascending nonce (the observation lists records in store order) *)
      let newly := filter (fun k => negb (existsb (fun k2 : N * bytes => N.eqb (fst k2) (fst k) && beqb (snd k2) (snd k)) prev_acc)) acc in
      let expected' := fold_left (fun _ k => height_of table' k) newly expected in
      let stored := vN (vnth 4 (vnth 1 out)) in
      (if N.eqb stored expected' then [] else [VL [k_c13_height; VI (Z.of_nat step); vNat stored; vNat expected']])
      ++ mon_height_fold (S step) ops' outs' table' acc expected'
  | _, _ => []
  end.
Definition mon_C13_votes (c impl : val) : val := VL (mon_height_fold 0 (vL c) (vL impl) [] [] 0%N).

(* the same predicate reported for C01: a batch the hub gives up on the strength of an unattested height is refunded
   while the custody can still pay it out *)
Definition k_c01_height : val :=
  VB (map Z.to_N [67;48;49;47;99;108;111;99;107;45;109;111;118;101;100;45;98;121;45;117;110;97;116;116;101;115;116;101;100;45;99;108;97;105;109]).
Definition mon_C01_votes (c impl : val) : val :=
  VL (map (fun v => match v with VL (_ :: r) => VL (k_c01_height :: r) | _ => v end) (vL (mon_C13_votes c impl))).
