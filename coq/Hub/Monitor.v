(* Monitors: the properties' predicates as executable checks over the IMPLEMENTATION's
   observation stream of a hub history (used to search for a concrete failing history when a
   proof obligation or the correspondence breaks, and to tag known findings).
   A monitor returns a list of violations  (key step detail...). *)
From V Require Import Base.Prelude Base.Val Num.Arith Hub.Types Hub.Model Hub.Codec.
Local Open Scope Z_scope.

Definition dec_ste (v : val) : ste :=
  mkSte (vN (vnth 0 v)) (vB (vnth 1 v)) (vB (vnth 2 v)) (vB (vnth 3 v)) (vN (vnth 4 v)) (vB (vnth 5 v))
        (vI (vnth 6 v)) (vI (vnth 7 v)) (vI (vnth 8 v)) (vB (vnth 9 v)) (vI (vnth 10 v)) (vB (vnth 11 v)) (vB (vnth 12 v)).

Definition dec_batch (v : val) : batch :=
  mkBatch (vB (vnth 0 v)) (vB (vnth 1 v)) (vN (vnth 2 v)) (vN (vnth 3 v)) (map dec_ste (vL (vnth 6 v)))
          (vN (vnth 4 v)) (vN (vnth 5 v)).

Definition set_items (v : val) : list val := tl (vL v).

Record obs := mkObs {
  ob_code : Z;
  ob_supply : list (bytes * Z);
  ob_bal : list (bytes * bytes * Z);
  ob_pool : list ste;
  ob_batches : list batch;
  ob_ctr : list (Z * bytes * N);
  ob_status : list (bytes * N);
  ob_feerec : list (bytes * (Z * Z))
}.

Definition dec_obs (v : val) : obs :=
  let st := vnth 1 v in
  mkObs (vI (vnth 0 v))
        (map (fun x => (vB (vnth 0 x), vI (vnth 1 x))) (set_items (vnth 0 st)))
        (map (fun x => (vB (vnth 0 x), vB (vnth 1 x), vI (vnth 2 x))) (set_items (vnth 1 st)))
        (map dec_ste (set_items (vnth 2 st)))
        (map dec_batch (set_items (vnth 3 st)))
        (map (fun x => (vI (vnth 0 x), vB (vnth 1 x), vN (vnth 2 x))) (set_items (vnth 4 st)))
        (map (fun x => (vB (vnth 0 x), vN (vnth 1 x))) (set_items (vnth 5 st)))
        (map (fun x => (vB (vnth 0 x), (vI (vnth 1 x), vI (vnth 2 x)))) (set_items (vnth 6 st))).

Definition empty_obs : obs := mkObs 0 [] [] [] [] [] [] [].

Definition ctr (o : obs) (tag : Z) (chain : bytes) : N :=
  match find (fun x : Z * bytes * N => (fst (fst x) =? tag) && beqb (snd (fst x)) chain) (ob_ctr o) with
  | Some x => snd x | None => 0%N end.

Definition obs_bal (o : obs) (acct denom : bytes) : Z :=
  match find (fun x : bytes * bytes * Z => beqb (fst (fst x)) acct && beqb (snd (fst x)) denom) (ob_bal o) with
  | Some x => snd x | None => 0 end.

Definition obs_supply (o : obs) (denom : bytes) : Z := agetd 0 denom (ob_supply o).

Definition all_entries (o : obs) : list ste := ob_pool o ++ concat (map b_txs (ob_batches o)).

Definition ek_eqb (a b : ste) : bool := same_entry a b.

Fixpoint has_dup (l : list ste) : option ste :=
  match l with
  | [] => None
  | x :: l' => if existsb (ek_eqb x) l' then Some x else has_dup l'
  end.

Definition in_entries (e : ste) (l : list ste) : bool := existsb (ek_eqb e) l.

Definition str (l : list Z) : val := VB (map Z.to_N l).
Definition viol (key : val) (step : nat) (detail : list val) : val :=
  VL (key :: VI (Z.of_nat step) :: detail).

(* names of violation classes *)
Definition k_dup := str [67;48;52;47;100;117;112;108;105;99;97;116;101].                 (* C04/duplicate *)
Definition k_lost := str [67;48;52;47;108;111;115;116].                                   (* C04/lost *)
Definition k_idreuse := str [67;48;52;47;105;100;45;114;101;117;115;101].                 (* C04/id-reuse *)
Definition k_status := str [67;48;52;47;115;116;97;116;117;115].                          (* C04/status *)
Definition k_status_shared := str [67;48;52;47;115;104;97;114;101;100;45;105;110;98;111;117;110;100;45;116;120;104;97;115;104].  (* C04/shared-inbound-txhash *)

Definition op_kind (o : val) : Z := vI (vnth 0 o).

(* how many entries (pool+batches+history) carry this inbound tx hash *)
Definition count_hash (h : bytes) (l : list ste) : nat := length (filter (fun e => beqb (s_txhash e) h) l).

(* C04: step-wise placement check.
   prev, cur: consecutive observations; o: the operation between them; seen: every entry ever
   observed (to recognise shared tx hashes). *)
Definition k_refunded_final := str [67;48;52;47;114;101;102;117;110;100;101;100;45;115;116;97;116;117;115;45;99;104;97;110;103;101;100]. (* C04/refunded-status-changed *)

Definition mon_C04_step (step : nat) (o : val) (prev cur : obs) (seen : list ste) : list val :=
  let cur_all := all_entries cur in
  let prev_all := all_entries prev in
  let kind := op_kind o in
  (match has_dup cur_all with
   | Some e => [viol k_dup step [VB (s_chain e); vNat (s_id e)]]
   | None => []
   end)
  ++
  (* an entry may leave pool and batches only by cancel (2), or in EndBlocker (6: refund / execution) *)
  (if (kind =? 2) || (kind =? 6) then []
   else flat_map (fun e => if in_entries e cur_all then [] else [viol k_lost step [VB (s_chain e); vNat (s_id e)]]) prev_all)
  ++
  (* a new entry must carry an id above the chain's previous counter, and within the new one *)
  flat_map (fun e => if in_entries e prev_all then []
                     else if (N.ltb (ctr prev 1 (s_chain e)) (s_id e) && N.leb (s_id e) (ctr cur 1 (s_chain e)))%bool then []
                     else [viol k_idreuse step [VB (s_chain e); vNat (s_id e)]]) cur_all
  ++
  (* status: an entry in the pool or a batch whose inbound hash is unique must not be reported
     executed or refunded; a batched one must be BATCH_CREATED *)
  flat_map (fun e =>
              let st := match find (fun x : bytes * N => beqb (fst x) (s_txhash e)) (ob_status cur) with
                        | Some x => snd x | None => 0%N end in
              let inbatch := existsb (fun b => in_entries e (b_txs b)) (ob_batches cur) in
              let bad := (N.eqb st ST_BATCH_EXECUTED || N.eqb st ST_REFUNDED || (inbatch && negb (N.eqb st ST_BATCH_CREATED)))%bool in
              if bad then
                [viol (if Nat.ltb 1 (count_hash (s_txhash e) seen) then k_status_shared else k_status) step
                      [VB (s_chain e); vNat (s_id e); vNat st]]
              else []) cur_all
  ++
  (* "refunded" is final: a hash reported as refunded stays reported as refunded (a restart loses the statuses: C15) *)
  (if kind =? 8 then []
   else flat_map (fun x : bytes * N =>
                    if N.eqb (snd x) ST_REFUNDED then
                      match find (fun y : bytes * N => beqb (fst y) (fst x)) (ob_status cur) with
                      | Some y => if N.eqb (snd y) ST_REFUNDED then [] else [viol k_refunded_final step [VB (fst x); vNat (snd y)]]
                      | None => [viol k_refunded_final step [VB (fst x)]]
                      end
                    else []) (ob_status prev)).

Fixpoint mon_fold {A} (f : nat -> val -> obs -> obs -> A -> list val * A) (step : nat) (ops : list val) (outs : list val)
         (prev : obs) (acc : A) : list val :=
  match ops, outs with
  | o :: ops', v :: outs' =>
      let cur := dec_obs v in
      let (r, acc') := f step o prev cur acc in
      r ++ mon_fold f (S step) ops' outs' cur acc'
  | _, _ => []
  end.

Definition mon_C04 (c impl : val) : val :=
  VL (mon_fold (fun step o prev cur (seen : list ste) =>
                  let seen' := seen ++ filter (fun e => negb (in_entries e seen)) (all_entries cur) in
                  (mon_C04_step step o prev cur seen', seen'))
               0 (vL (vnth 2 c)) (vL impl) empty_obs []).

(* ---------- C10 ---------- *)
Definition k_c10_empty := str [67;49;48;47;101;109;112;116;121;45;111;114;45;111;118;101;114;115;105;122;101].   (* C10/empty-or-oversize *)
Definition k_c10_foreign := str [67;49;48;47;102;111;114;101;105;103;110;45;116;120].                            (* C10/foreign-tx *)
Definition k_c10_nonce := str [67;49;48;47;110;111;110;99;101].                                                  (* C10/nonce *)
Definition k_c10_seq := str [67;49;48;47;115;101;113;117;101;110;99;101].                                        (* C10/sequence *)
Definition k_c10_choice := str [67;49;48;47;110;111;116;45;104;105;103;104;101;115;116;45;102;101;101].          (* C10/not-highest-fee *)

Definition batch_same (a b : batch) : bool :=
  beqb (b_chain a) (b_chain b) && N.eqb (b_nonce a) (b_nonce b) && beqb (b_ext a) (b_ext b).

(* descending (fee, id) order *)
Definition fee_id_ge (a b : ste) : bool := (s_fee b <? s_fee a) || ((s_fee a =? s_fee b) && N.leb (s_id b) (s_id a)).
Fixpoint insert_fee (e : ste) (l : list ste) : list ste :=
  match l with
  | [] => [e]
  | x :: l' => if fee_id_ge e x then e :: l else x :: insert_fee e l'
  end.
Definition sort_fee (l : list ste) : list ste := fold_right insert_fee [] l.

Fixpoint nseq (start : N) (len : nat) : list N :=
  match len with O => [] | S n => start :: nseq (start + 1)%N n end.
Definition n_in (x : N) (l : list N) : bool := existsb (N.eqb x) l.

Definition chains_of (bs : list batch) : list bytes :=
  fold_left (fun acc b => if existsb (beqb (b_chain b)) acc then acc else acc ++ [b_chain b]) bs [].

Definition mon_C10_step (step : nat) (o : val) (prev cur : obs) : list val :=
  let news := filter (fun b => negb (existsb (batch_same b) (ob_batches prev))) (ob_batches cur) in
  flat_map (fun b =>
              (if (Nat.leb 1 (length (b_txs b)) && Nat.leb (length (b_txs b)) 100)%bool then []
               else [viol k_c10_empty step [VB (b_chain b); vNat (b_nonce b); VI (Z.of_nat (length (b_txs b)))]])
              ++ flat_map (fun e => if (beqb (s_chain e) (b_chain b) && beqb (s_ext e) (b_ext b))%bool then []
                                    else [viol k_c10_foreign step [VB (b_chain b); vNat (b_nonce b); vNat (s_id e)]]) (b_txs b))
           (ob_batches cur)
  ++
  (* the new batches of a chain carry exactly the nonces prev+1 .. prev+k, and the counter ends at prev+k;
     their sequence numbers are distinct values in (prev_seq, cur_seq] *)
  flat_map (fun ch =>
              let nb := filter (fun b => beqb (b_chain b) ch) news in
              let k := length nb in
              let expected := nseq (ctr prev 2 ch + 1)%N k in
              (if (forallb (fun b => n_in (b_nonce b) expected) nb
                   && forallb (fun n => existsb (fun b => N.eqb (b_nonce b) n) nb) expected
                   && N.eqb (ctr cur 2 ch) (ctr prev 2 ch + N.of_nat k))%bool then []
               else [viol k_c10_nonce step [VB ch; vNat (ctr prev 2 ch); vNat (ctr cur 2 ch); VL (map (fun b => vNat (b_nonce b)) nb)]])
              ++
              (if forallb (fun b => (N.ltb (ctr prev 3 ch) (b_seq b) && N.leb (b_seq b) (ctr cur 3 ch)
                                     && Nat.eqb (length (filter (fun b' => N.eqb (b_seq b') (b_seq b)) nb)) 1)%bool) nb then []
               else [viol k_c10_seq step [VB ch; vNat (ctr prev 3 ch); vNat (ctr cur 3 ch); VL (map (fun b => vNat (b_seq b)) nb)]])
              ++
              (* gap-free: the chain's sequence counter advances by exactly the number of outgoing transactions created in
                 this step (new batches + new signer sets; nothing else is created in these histories) *)
              (if N.eqb (ctr cur 3 ch) (ctr prev 3 ch + N.of_nat k + (ctr cur 6 ch - ctr prev 6 ch)) then []
               else [viol k_c10_seq step [VB ch; vNat (ctr prev 3 ch); vNat (ctr cur 3 ch); VI (Z.of_nat k); vNat (ctr cur 6 ch - ctr prev 6 ch)]]))
           (fold_left (fun acc (x : Z * bytes * N) => if existsb (beqb (snd (fst x))) acc then acc else acc ++ [snd (fst x)])
                      (ob_ctr prev ++ ob_ctr cur) (chains_of news))
  ++
  (* on an explicit batch request the batch holds the highest-fee transfers of that token *)
  (if op_kind o =? 3 then
     flat_map (fun b =>
                 let cands := filter (fun e => beqb (s_chain e) (b_chain b) && beqb (s_ext e) (b_ext b)) (ob_pool prev) in
                 let want := firstn 100 (sort_fee cands) in
                 if (Nat.eqb (length want) (length (b_txs b))
                     && forallb (fun p : ste * ste => ek_eqb (fst p) (snd p)) (combine want (b_txs b)))%bool then []
                 else [viol k_c10_choice step [VB (b_chain b); vNat (b_nonce b)]]) news
   else []).

Definition mon_C10 (c impl : val) : val :=
  VL (mon_fold (fun step o prev cur (_ : unit) => (mon_C10_step step o prev cur, tt))
               0 (vL (vnth 2 c)) (vL impl) empty_obs tt).

(* ---------- shared: token list and block time tracked along the history ---------- *)
Record track := mkTrack {
  tr_tokens : list token_info;
  tr_time : Z;
  tr_timeout : Z;
  tr_pending : list (bytes * event);            (* claims voted since the last EndBlocker *)
  tr_taken : list (bytes * N * Z * bytes);      (* (chain, id, hub amount taken at send time, denom) *)
  tr_oracle : oracle_in;
  tr_signers : list (bytes * Z)
}.

Definition track_step (o : val) (prev cur : obs) (t : track) : track :=
  let kind := op_kind o in
  if kind =? 7 then mkTrack (map dec_token (vL (vnth 1 o))) (tr_time t) (tr_timeout t) (tr_pending t) (tr_taken t)
                            (mkOracle (map dec_pair_bz (vL (vnth 3 o))) (map dec_pair_bz (vL (vnth 4 o))))
                            (map dec_pair_bz (vL (vnth 2 o)))
  else if kind =? 5 then mkTrack (tr_tokens t) (vI (vnth 2 o)) (tr_timeout t) (tr_pending t) (tr_taken t) (tr_oracle t) (tr_signers t)
  else if kind =? 4 then mkTrack (tr_tokens t) (tr_time t) (tr_timeout t) (tr_pending t ++ [(vB (vnth 1 o), dec_event (vnth 2 o))]) (tr_taken t) (tr_oracle t) (tr_signers t)
  else if kind =? 6 then mkTrack (tr_tokens t) (tr_time t) (tr_timeout t) [] (tr_taken t) (tr_oracle t) (tr_signers t)
  else if (kind =? 1) && (ob_code cur =? 0) then
    (* the entry created by this send *)
    let chain := vB (vnth 2 o) in
    let news := filter (fun e => beqb (s_chain e) chain && negb (in_entries e (all_entries prev))) (ob_pool cur) in
    match news with
    | e :: _ => mkTrack (tr_tokens t) (tr_time t) (tr_timeout t) (tr_pending t)
                        ((chain, s_id e, vI (vnth 5 o) + vI (vnth 6 o), vB (vnth 4 o)) :: tr_taken t) (tr_oracle t) (tr_signers t)
    | [] => t
    end
  else t.

Definition track0 (timeout : Z) : track := mkTrack [] 0 timeout [] [] (mkOracle [] []) [].

Definition token_dec (toks : list token_info) (chain ext : bytes) : option Z :=
  match ext_to_token toks chain ext with Some ti => Some (ti_dec ti) | None => None end.

Definition taken_of (t : track) (e : ste) : option (Z * bytes) :=
  match find (fun x : bytes * N * Z * bytes => beqb (fst (fst (fst x))) (s_chain e) && N.eqb (snd (fst (fst x))) (s_id e)) (tr_taken t) with
  | Some x => Some (snd (fst x), snd x) | None => None end.

(* ---------- C12 ---------- *)
Definition k_c12_unauth := str [67;49;50;47;117;110;97;117;116;104;111;114;105;115;101;100;45;99;97;110;99;101;108].      (* C12/unauthorised-cancel *)
Definition k_c12_notremoved := str [67;49;50;47;110;111;116;45;114;101;109;111;118;101;100].                              (* C12/not-removed *)
Definition k_c12_amount := str [67;49;50;47;114;101;102;117;110;100;45;97;109;111;117;110;116].                           (* C12/refund-amount *)
Definition k_c12_dust := str [67;49;50;47;114;101;102;117;110;100;45;100;117;115;116;45;100;101;99;105;109;97;108;115;45;108;116;45;49;56]. (* C12/refund-dust-decimals-lt-18 *)
Definition k_c12_dest := str [67;49;50;47;114;101;102;117;110;100;45;100;101;115;116;105;110;97;116;105;111;110].       (* C12/refund-destination *)
Definition k_c12_early := str [67;49;50;47;101;97;114;108;121;45;111;114;45;115;116;114;97;121;45;114;101;109;111;118;97;108]. (* C12/early-or-stray-removal *)
Definition k_c12_expired := str [67;49;50;47;101;120;112;105;114;101;100;45;110;111;116;45;114;101;102;117;110;100;101;100]. (* C12/expired-not-refunded *)

Definition refund_check (step : nat) (t : track) (prev cur : obs) (e : ste) (single : bool) : list val :=
  (* e was refunded between prev and cur; single: no other refund touched the same account in this step *)
  match id_to_token (tr_tokens t) (s_tid e), token_dec (tr_tokens t) (s_chain e) (s_ext e) with
  | Some ti, Some d =>
      let total := to_hub d (s_token e + s_fee e + s_comm e) in
      if beqb (s_refund_chain e) b_hub then
        if single then
          let delta := obs_bal cur (s_sender e) (ti_denom ti) - obs_bal prev (s_sender e) (ti_denom ti) in
          (if delta =? total then [] else [viol k_c12_amount step [VB (s_chain e); vNat (s_id e); VI delta; VI total]])
          ++ match taken_of t e with
             | Some (taken, _) =>
                 if delta =? taken then []
                 else if (d <? 18) && (delta <? taken) && (taken - delta <? 3 * pow10 (18 - d)) then
                   [viol k_c12_dust step [VB (s_chain e); vNat (s_id e); VI taken; VI delta]]
                 else [viol k_c12_amount step [VB (s_chain e); vNat (s_id e); VI taken; VI delta]]
             | None => []
             end
        else []
      else if beqb (s_refund_chain e) [] then []
      else if total =? 0 then []
      else
        (* a new transfer to the originating address on the originating chain, for the full value in that chain's units *)
        let cands := filter (fun x => beqb (s_chain x) (s_refund_chain e) && beqb (s_recipient x) (s_refund_addr e)
                                      && (s_fee x =? 0) && (s_comm x =? 0) && negb (in_entries x (all_entries prev)))
                            (ob_pool cur) in
        match cands with
        | [] => [viol k_c12_dest step [VB (s_chain e); vNat (s_id e)]]
        | _ =>
            match denom_to_token (tr_tokens t) (s_refund_chain e) (ti_denom ti) with
            | Some rti =>
                let want := to_ext (ti_dec rti) total in
                if existsb (fun x => s_token x =? want) cands then []
                else [viol k_c12_amount step [VB (s_chain e); vNat (s_id e); VI want; VL (map (fun x => VI (s_token x)) cands)]]
            | None => []
            end
        end
  | _, _ => []
  end.

(* creation times are tracked by the monitor itself (block time at which a (chain, id) first appears): whether a
   transfer is past the outgoing-transfer timeout must not depend on what the implementation stored later *)
Definition cr_find (cr : list (bytes * N * Z)) (e : ste) : option (bytes * N * Z) :=
  find (fun x : bytes * N * Z => beqb (fst (fst x)) (s_chain e) && N.eqb (snd (fst x)) (s_id e)) cr.
Definition created_of (cr : list (bytes * N * Z)) (e : ste) : Z :=
  match cr_find cr e with Some x => snd x | None => s_created e end.
Definition note_created (time : Z) (cur : obs) (cr : list (bytes * N * Z)) : list (bytes * N * Z) :=
  fold_left (fun acc e => match cr_find acc e with Some _ => acc | None => (s_chain e, s_id e, time / 1000) :: acc end)
            (all_entries cur) cr.

(* a refund that has to be sent back to the originating chain fails (and is retried in the next block, nothing
   changed) when the token is no longer listed there, or not listed at all any more *)
Definition refund_may_fail (t : track) (e : ste) : bool :=
  match id_to_token (tr_tokens t) (s_tid e) with
  | None => true
  | Some ti =>
      if beqb (s_refund_chain e) [] || beqb (s_refund_chain e) b_hub then false
      else match denom_to_token (tr_tokens t) (s_refund_chain e) (ti_denom ti) with None => true | Some _ => false end
  end.

Definition mon_C12_step (step : nat) (o : val) (prev cur : obs) (t : track) (cr : list (bytes * N * Z)) : list val :=
  let kind := op_kind o in
  if kind =? 2 then
    if ob_code cur =? 0 then
      let sender := vB (vnth 1 o) in let chain := vB (vnth 2 o) in let id := vN (vnth 3 o) in
      match find (fun e => N.eqb (s_id e) id && is_prefix chain (pool_key e)) (ob_pool prev) with
      | None => [viol k_c12_unauth step [VB chain; vNat id]]
      | Some e =>
          (if beqb (s_sender e) sender then [] else [viol k_c12_unauth step [VB chain; vNat id; VB sender]])
          ++ (if in_entries e (all_entries cur) then [viol k_c12_notremoved step [VB chain; vNat id]] else [])
          ++ refund_check step t prev cur e true
      end
    else
      (* a failed cancel changes nothing *)
      if (Nat.eqb (length (ob_pool prev)) (length (ob_pool cur))) then [] else [viol k_c12_notremoved step []]
  else if kind =? 6 then
    let exp e := created_of cr e * 1000 + tr_timeout t <? tr_time t in
    let gone := filter (fun e => negb (in_entries e (all_entries cur))) (ob_pool prev) in
    (* unbatched entries leave in EndBlocker only by expiry *)
    flat_map (fun e => if exp e then [] else [viol k_c12_early step [VB (s_chain e); vNat (s_id e)]]) gone
    ++ flat_map (fun e => if exp e && in_entries e (ob_pool cur) && negb (refund_may_fail t e)
                          then [viol k_c12_expired step [VB (s_chain e); vNat (s_id e)]] else []) (ob_pool prev)
    ++ flat_map (fun e => refund_check step t prev cur e
                                       (Nat.eqb (length (filter (fun x => beqb (s_sender x) (s_sender e)) gone)) 1
                                        && Nat.eqb (length (tr_pending t)) 0)) gone
    (* with no event applied in this block, the supply of each denom grows by exactly the refunds
       that stay on the hub (hub-origin: to the sender; no refund chain: module account); a refund
       that is re-sent to the originating chain is minted and burned again *)
    ++ (if Nat.eqb (length (tr_pending t)) 0 then
          flat_map (fun ti =>
                      let d := ti_denom ti in
                      let expect := zsum (map (fun e =>
                                                 match id_to_token (tr_tokens t) (s_tid e), token_dec (tr_tokens t) (s_chain e) (s_ext e) with
                                                 | Some ti', Some dec =>
                                                     if beqb (ti_denom ti') d && (beqb (s_refund_chain e) b_hub || beqb (s_refund_chain e) [])
                                                     then to_hub dec (s_token e + s_fee e + s_comm e) else 0
                                                 | _, _ => 0 end) gone) in
                      if obs_supply cur d - obs_supply prev d =? expect then []
                      else [viol k_c12_amount step [VB d; VI (obs_supply cur d - obs_supply prev d); VI expect]])
                   (tr_tokens t)
        else [])
  else
    (* no other operation removes an unbatched entry except batching (then it is in a batch) *)
    [].

Definition mon_C12 (c impl : val) : val :=
  let timeout := vI (vnth 5 (vnth 0 c)) in
  VL (mon_fold (fun step o prev cur (tc : track * list (bytes * N * Z)) =>
                  let (t, cr) := tc in
                  let t1 := if (op_kind o =? 7) || (op_kind o =? 5) then track_step o prev cur t else t in
                  let r := mon_C12_step step o prev cur t1 cr in
                  (r, (if (op_kind o =? 7) || (op_kind o =? 5) then t1 else track_step o prev cur t1,
                       note_created (tr_time t1) cur cr)))
               0 (vL (vnth 2 c)) (vL impl) empty_obs (track0 timeout, [])).

(* ---------- C13 ---------- *)
Definition k_c13_alive := str [67;49;51;47;119;105;116;104;100;114;97;119;110;45;119;104;105;108;101;45;101;120;101;99;117;116;97;98;108;101]. (* C13/withdrawn-while-executable *)
Definition k_c13_minter := str [67;49;51;47;109;105;110;116;101;114;45;98;97;116;99;104;45;119;105;116;104;100;114;97;119;110].               (* C13/minter-batch-withdrawn *)
Definition k_c13_notremoved := str [67;49;51;47;101;120;101;99;117;116;101;100;45;110;111;116;45;114;101;109;111;118;101;100].               (* C13/executed-not-removed *)
Definition k_c13_lost := str [67;49;51;47;116;114;97;110;115;102;101;114;115;45;110;111;116;45;114;101;116;117;114;110;101;100].             (* C13/transfers-not-returned *)

Definition k_c13_older := str [67;49;51;47;111;108;100;101;114;45;98;97;116;99;104;45;110;111;116;45;114;101;108;101;97;115;101;100]. (* C13/older-batch-not-released *)

Definition exec_targets (t : track) : list (bytes * bytes * N) :=
  flat_map (fun ce : bytes * event => match snd ce with
                                      | EvBatchExecuted _ coin bn _ _ _ _ => [(fst ce, coin, bn)]
                                      | _ => [] end) (tr_pending t).

Definition mon_C13_step (step : nat) (o : val) (prev cur : obs) (t : track) : list val :=
  let kind := op_kind o in
  let gone := filter (fun b => negb (existsb (batch_same b) (ob_batches cur))) (ob_batches prev) in
  if kind =? 5 then
    flat_map (fun b =>
                if beqb (b_chain b) b_minter then [viol k_c13_minter step [vNat (b_nonce b)]]
                else if N.ltb (b_timeout b) (ctr prev 5 (b_chain b)) then
                  (* its transfers are back in the pool or batched again *)
                  flat_map (fun e => if in_entries e (all_entries cur) then [] else [viol k_c13_lost step [VB (b_chain b); vNat (s_id e)]]) (b_txs b)
                else [viol k_c13_alive step [VB (b_chain b); VB (b_ext b); vNat (b_nonce b); vNat (b_timeout b); vNat (ctr prev 5 (b_chain b))]])
             gone
  else if kind =? 6 then
    let targets := exec_targets t in
    let is_target b := existsb (fun x : bytes * bytes * N => beqb (fst (fst x)) (b_chain b) && beqb (snd (fst x)) (b_ext b) && N.eqb (snd x) (b_nonce b)) targets in
    let older b := existsb (fun x : bytes * bytes * N => beqb (fst (fst x)) (b_chain b) && beqb (snd (fst x)) (b_ext b) && N.ltb (b_nonce b) (snd x)
                                                          && existsb (fun b2 => beqb (b_chain b2) (b_chain b) && beqb (b_ext b2) (b_ext b) && N.eqb (b_nonce b2) (snd x)) (ob_batches prev)) targets in
    flat_map (fun b =>
                if is_target b then []
                else if beqb (b_chain b) b_minter then [viol k_c13_minter step [vNat (b_nonce b)]]
                else if older b then
                  (* back in the pool (or, if already past the transfer timeout, refunded by the same EndBlocker) *)
                  flat_map (fun e => if in_entries e (all_entries cur) || (s_created e * 1000 + tr_timeout t <? tr_time t) then []
                                     else [viol k_c13_lost step [VB (b_chain b); vNat (s_id e)]]) (b_txs b)
                else [viol k_c13_alive step [VB (b_chain b); VB (b_ext b); vNat (b_nonce b)]]) gone
    ++ flat_map (fun b => if is_target b && existsb (batch_same b) (ob_batches cur)
                          then [viol k_c13_notremoved step [VB (b_chain b); VB (b_ext b); vNat (b_nonce b)]] else []) (ob_batches prev)
    (* an execution that was applied (its batch is gone) releases every older batch of the same token on ethereum / bsc *)
    ++ flat_map (fun b => if negb (beqb (b_chain b) b_minter) && older b && existsb (batch_same b) (ob_batches cur)
                             && existsb (fun x : bytes * bytes * N =>
                                           beqb (fst (fst x)) (b_chain b) && beqb (snd (fst x)) (b_ext b) && N.ltb (b_nonce b) (snd x)
                                           && negb (existsb (fun b2 => beqb (b_chain b2) (b_chain b) && beqb (b_ext b2) (b_ext b) && N.eqb (b_nonce b2) (snd x)) (ob_batches cur)))
                                        targets
                          then [viol k_c13_older step [VB (b_chain b); VB (b_ext b); vNat (b_nonce b)]] else []) (ob_batches prev)
  else
    flat_map (fun b => [viol k_c13_alive step [VB (b_chain b); VB (b_ext b); vNat (b_nonce b)]]) gone.

Definition mon_C13_raw (c impl : val) : val :=
  VL (mon_fold (fun step o prev cur (t : track) => (mon_C13_step step o prev cur t, track_step o prev cur t))
               0 (vL (vnth 2 c)) (vL impl) empty_obs (track0 (vI (vnth 5 (vnth 0 c))))).

(* C13/execution-event-dropped: the observation "executed, not removed" in exactly the histories where the model of the
   current code (Hub/Model.v, run on the same history) keeps the batch as well, i.e. where the execution claim is dropped
   because its handling fails (missing price, delisted token, arithmetic failure on the reported fee-paid value, > 18
   decimals) -- the genuine defect recorded as a known finding.  Where the model removes the batch and the implementation
   does not, the key stays C13/executed-not-removed. *)
Definition k_c13_dropped := str [67;49;51;47;101;120;101;99;117;116;105;111;110;45;101;118;101;110;116;45;100;114;111;112;112;101;100]. (* C13/execution-event-dropped *)
Definition mon_C13 (c impl : val) : val :=
  let raw := vL (mon_C13_raw c impl) in
  if existsb (fun v => veqb (vnth 0 v) k_c13_notremoved) raw then
    let m := vL (hub_run c) in
    VL (map (fun v =>
               if veqb (vnth 0 v) k_c13_notremoved then
                 let mo := dec_obs (nth (Z.to_nat (vI (vnth 1 v))) m (VL [])) in
                 if existsb (fun b => beqb (b_chain b) (vB (vnth 2 v)) && beqb (b_ext b) (vB (vnth 3 v)) && N.eqb (b_nonce b) (vN (vnth 4 v)))
                            (ob_batches mo)
                 then match v with VL (_ :: r) => VL (k_c13_dropped :: r) | _ => v end
                 else v
               else v) raw)
  else VL raw.

(* ---------- C08 (hub side) ---------- *)
(* A batch for an external contract stays available to its signers and relayers until its timeout height has been
   OBSERVED on that chain: the contract accepts it up to then (block.number < timeout), so a hub that withdraws it
   earlier and refunds or re-batches its transfers is out of step with the contract. *)
Definition k_c08_withdrawn := str [67;48;56;47;99;111;110;102;105;114;109;101;100;45;98;97;116;99;104;45;119;105;116;104;100;114;97;119;110;45;98;101;102;111;114;101;45;105;116;115;45;116;105;109;101;111;117;116]. (* C08/confirmed-batch-withdrawn-before-its-timeout *)
Definition mon_C08_hub (c impl : val) : val :=
  VL (mon_fold (fun step o prev cur (t : track) =>
                  let gone := filter (fun b => negb (existsb (batch_same b) (ob_batches cur))) (ob_batches prev) in
                  ((if op_kind o =? 5 then
                      flat_map (fun b => if beqb (b_chain b) b_minter then []
                                         else if N.ltb (b_timeout b) (ctr prev 5 (b_chain b)) then []
                                         else [viol k_c08_withdrawn step [VB (b_chain b); VB (b_ext b); vNat (b_nonce b); vNat (b_timeout b); vNat (ctr prev 5 (b_chain b))]])
                               gone
                    else if op_kind o =? 6 then
                      (* likewise at an EndBlocker: a batch may go only because it was executed or because a later batch of
                         its own token was (the contract's nonce is per token); C13's predicate, reported for C08 *)
                      map (fun v => match v with VL (_ :: r) => VL (k_c08_withdrawn :: r) | _ => v end)
                          (filter (fun v => veqb (vnth 0 v) k_c13_alive) (mon_C13_step step o prev cur t))
                    else []), track_step o prev cur t))
               0 (vL (vnth 2 c)) (vL impl) empty_obs (track0 (vI (vnth 5 (vnth 0 c))))).

(* ---------- C11 ---------- *)
Definition k_c11_debit := str [67;49;49;47;100;101;98;105;116].                                        (* C11/debit *)
Definition k_c11_sched := str [67;49;49;47;115;99;104;101;100;117;108;101;100;45;97;109;111;117;110;116]. (* C11/scheduled-amount *)
Definition k_c11_failed := str [67;49;49;47;102;97;105;108;101;100;45;114;101;113;117;101;115;116;45;99;104;97;110;103;101;100;45;115;116;97;116;101]. (* C11/failed-request-changed-state *)
Definition k_c11_credit := str [67;49;49;47;100;101;112;111;115;105;116;45;99;114;101;100;105;116].      (* C11/deposit-credit *)

Definition track_holder_rate (t : track) (addrs : list bytes) (rate : Z) : Z :=
  let maxv := fold_left (fun m a => Z.max (agetd 0 (lower (strip0x a)) (o_holders (tr_oracle t))) m) addrs 0 in
  commission_rate rate maxv.

Definition same_lists {A} (f : A -> val) (a b : list A) : bool :=
  let pa := map f a in let pb := map f b in
  Nat.eqb (length pa) (length pb) && forallb (fun x => existsb (veqb x) pb) pa.

Definition mon_C11_step (step : nat) (o : val) (prev cur : obs) (t : track) : list val :=
  let kind := op_kind o in
  if kind =? 1 then
    let sender := vB (vnth 1 o) in let chain := vB (vnth 2 o) in let rcpt := vB (vnth 3 o) in
    let denom := vB (vnth 4 o) in let a := vI (vnth 5 o) in let f := vI (vnth 6 o) in
    if ob_code cur =? 0 then
      (if (obs_bal cur sender denom - obs_bal prev sender denom =? - (a + f))
          && (obs_supply cur denom - obs_supply prev denom =? - (a + f)) then []
       else [viol k_c11_debit step [VI (obs_bal cur sender denom - obs_bal prev sender denom); VI (- (a + f))]])
      ++
      match denom_to_token (tr_tokens t) chain denom with
      | Some ti =>
          let rate := track_holder_rate t [sender; rcpt] (ti_comm ti) in
          let comm := commission_of rate (a + f) in
          let news := filter (fun e => beqb (s_chain e) chain && negb (in_entries e (all_entries prev))) (ob_pool cur) in
          match news with
          | [e] =>
              if (s_token e =? to_ext (ti_dec ti) (a - comm)) && (s_fee e =? to_ext (ti_dec ti) f)
                 && (s_comm e =? to_ext (ti_dec ti) comm) && beqb (s_recipient e) rcpt && beqb (s_ext e) (ti_ext ti) then []
              else [viol k_c11_sched step [VI (s_token e); VI (to_ext (ti_dec ti) (a - comm)); VI (s_fee e); VI (s_comm e); VI comm]]
          | _ => [viol k_c11_sched step [VI (Z.of_nat (length news))]]
          end
      | None => [viol k_c11_sched step []]
      end
    else
      if same_lists (fun x : bytes * bytes * Z => VL [VB (fst (fst x)); VB (snd (fst x)); VI (snd x)]) (ob_bal prev) (ob_bal cur)
         && same_lists (fun x : bytes * Z => VL [VB (fst x); VI (snd x)]) (ob_supply prev) (ob_supply cur)
         && same_lists enc_ste (ob_pool prev) (ob_pool cur) then []
      else [viol k_c11_failed step []]
  else if kind =? 6 then
    (* a block whose only applied claim is a deposit (to a hub account), with no refund or batch
       movement: the recipient and the supply grow by exactly the converted amount *)
    match tr_pending t with
    | [(chain, EvDeposit _ coin amount _ recv _ _)] =>
        if same_lists enc_ste (ob_pool prev) (ob_pool cur) && same_lists enc_batch (ob_batches prev) (ob_batches cur) then
          match ext_to_token (tr_tokens t) chain coin with
          | Some ti =>
              let c := to_hub (ti_dec ti) amount in
              let dsup := obs_supply cur (ti_denom ti) - obs_supply prev (ti_denom ti) in
              let dbal := obs_bal cur recv (ti_denom ti) - obs_bal prev recv (ti_denom ti) in
              if fits256 (obs_supply prev (ti_denom ti) + c) && (0 <? c) then
                if (dsup =? c) && (dbal =? c) then [] else [viol k_c11_credit step [VI amount; VI c; VI dsup; VI dbal]]
              else if (dsup =? 0) && (dbal =? 0) then [] else [viol k_c11_credit step [VI amount; VI 0; VI dsup; VI dbal]]
          | None => if same_lists (fun x : bytes * Z => VL [VB (fst x); VI (snd x)]) (ob_supply prev) (ob_supply cur) then []
                    else [viol k_c11_credit step [VI amount]]
          end
        else []
    | [(chain, EvTransfer _ coin amount fee tsender rchain treceiver _ _ recv_hub)] =>
        if beqb rchain b_hub && same_lists enc_ste (ob_pool prev) (ob_pool cur) && same_lists enc_batch (ob_batches prev) (ob_batches cur) then
          match ext_to_token (tr_tokens t) chain coin with
          | Some ti =>
              let c := to_hub (ti_dec ti) amount in
              let dsup := obs_supply cur (ti_denom ti) - obs_supply prev (ti_denom ti) in
              let dbal := obs_bal cur recv_hub (ti_denom ti) - obs_bal prev recv_hub (ti_denom ti) in
              if fits256 (obs_supply prev (ti_denom ti) + c) && (0 <? c) && fits256 amount then
                if (dsup =? c) && (dbal =? c) then [] else [viol k_c11_credit step [VI amount; VI c; VI dsup; VI dbal]]
              else if (dsup =? 0) && (dbal =? 0) then [] else [viol k_c11_credit step [VI amount; VI 0; VI dsup; VI dbal]]
          | None => []
          end
        else if negb (beqb rchain b_hub) && same_lists enc_batch (ob_batches prev) (ob_batches cur) then
          (* a transfer to another chain that was applied (exactly one new entry on the destination chain): its
             amount, fee and commission are the source-chain values converted through hub units, the commission taken
             at the holder rate of (sender, receiver), the fee taken out of the rest *)
          let news := filter (fun e => beqb (s_chain e) rchain && negb (in_entries e (all_entries prev))) (ob_pool cur) in
          match news, ext_to_token (tr_tokens t) chain coin with
          | [e], Some sti =>
              match denom_to_token (tr_tokens t) rchain (ti_denom sti) with
              | Some rti =>
                  let ca := to_hub (ti_dec sti) amount in
                  let cf := to_hub (ti_dec sti) fee in
                  let comm := commission_of (track_holder_rate t [tsender; treceiver] (ti_comm rti)) ca in
                  if (s_token e =? to_ext (ti_dec rti) (ca - comm - cf)) && (s_fee e =? to_ext (ti_dec rti) cf)
                     && (s_comm e =? to_ext (ti_dec rti) comm) then []
                  else [viol k_c11_sched step [VI amount; VI fee; VI (s_token e); VI (s_fee e); VI (s_comm e)]]
              | None => []
              end
          | [], _ =>
              (* the event was not applied (no transfer was scheduled): then it changed no balance and no supply either *)
              if same_lists enc_ste (ob_pool prev) (ob_pool cur) then
                if same_lists (fun x : bytes * bytes * Z => VL [VB (fst (fst x)); VB (snd (fst x)); VI (snd x)]) (ob_bal prev) (ob_bal cur)
                   && same_lists (fun x : bytes * Z => VL [VB (fst x); VI (snd x)]) (ob_supply prev) (ob_supply cur) then []
                else [viol k_c11_failed step [VI amount; VI fee]]
              else []
          | _, _ => []
          end
        else []
    | _ => []
    end
  else [].

Definition mon_C11 (c impl : val) : val :=
  VL (mon_fold (fun step o prev cur (t : track) =>
                  let t1 := if (op_kind o =? 7) || (op_kind o =? 5) then track_step o prev cur t else t in
                  let r := mon_C11_step step o prev cur t1 in
                  (r, if (op_kind o =? 7) || (op_kind o =? 5) then t1 else track_step o prev cur t1))
               0 (vL (vnth 2 c)) (vL impl) empty_obs (track0 0)).

(* ---------- C19 ---------- *)
Definition k_c19_record := str [67;49;57;47;102;101;101;45;114;101;99;111;114;100].                         (* C19/fee-record *)
Definition k_c19_record_gt18 := str [67;49;57;47;114;101;102;117;110;100;45;101;120;99;101;101;100;115;45;102;101;101;45;100;101;99;105;109;97;108;115;45;103;116;45;49;56]. (* C19/refund-exceeds-fee-decimals-gt-18 *)
Definition k_c19_over := str [67;49;57;47;112;97;105;100;45;111;117;116;45;109;111;114;101;45;116;104;97;110;45;99;111;108;108;101;99;116;101;100]. (* C19/paid-out-more-than-collected *)
Definition k_c19_prop := str [67;49;57;47;99;111;109;109;105;115;115;105;111;110;45;110;111;116;45;112;114;111;112;111;114;116;105;111;110;97;108]. (* C19/commission-not-proportional *)

Definition c19_records (step : nat) (prev cur : obs) (t : track) (chain coin : bytes) (bn : N) : list val :=
  match find (fun b => beqb (b_chain b) chain && beqb (b_ext b) coin && N.eqb (b_nonce b) bn) (ob_batches prev),
        ext_to_token (tr_tokens t) chain coin with
  | Some b, Some ti =>
      if existsb (batch_same b) (ob_batches cur) then []      (* execution dropped: C13's monitor *)
      else
        flat_map (fun e =>
                    if Nat.ltb 1 (count_hash (s_txhash e) (all_entries prev)) then [] else
                    (* the batch was released (a later batch of its token was executed earlier in this block), not executed:
                       its transfers are back in the pool and carry no fee record *)
                    if in_entries e (all_entries cur) then [] else
                    match find (fun r : bytes * (Z * Z) => beqb (fst r) (s_txhash e)) (ob_feerec cur) with
                    | Some (_, (vc, ef)) =>
                        if (vc =? s_comm e) && (0 <=? ef) && (ef <=? s_fee e)
                           && (beqb (s_refund_chain e) b_minter || (ef =? s_fee e)) then []
                        else [viol (if 18 <? ti_dec ti then k_c19_record_gt18 else k_c19_record) step [VB (s_txhash e); VI ef; VI (s_fee e)]]
                    | None => [viol k_c19_record step [VB (s_txhash e)]]
                    end) (b_txs b)
  | _, _ => []
  end.

Definition mon_C19_step (step : nat) (o : val) (prev cur : obs) (t : track) : list val :=
  if op_kind o =? 6 then
    (* (a) fee records of every batch executed in this block *)
    flat_map (fun ce : bytes * event =>
                match snd ce with
                | EvBatchExecuted _ coin bn _ _ _ _ => c19_records step prev cur t (fst ce) coin bn
                | _ => []
                end) (tr_pending t)
    ++
    (* a block with exactly one execution (whatever else was attested in it): payouts tagged as commission / fee
       refund come from that execution only *)
    match filter (fun ce : bytes * event => match snd ce with EvBatchExecuted _ _ _ _ _ _ _ => true | _ => false end) (tr_pending t) with
    | [(chain, EvBatchExecuted _ coin bn _ _ _ payer)] =>
        match find (fun b => beqb (b_chain b) chain && beqb (b_ext b) coin && N.eqb (b_nonce b) bn) (ob_batches prev),
              ext_to_token (tr_tokens t) chain coin with
        | Some b, Some ti =>
            if existsb (batch_same b) (ob_batches cur) then []
            else
            let d := ti_dec ti in
            let total_fee := to_hub d (zsum (map s_fee (b_txs b))) in
            let total_comm := to_hub d (zsum (map s_comm (b_txs b))) in
            (* (b) what is paid out (new Minter transfers) stays within what was collected *)
            match denom_to_token (tr_tokens t) b_minter (ti_denom ti) with
            | Some mt =>
                let news := filter (fun e => beqb (s_chain e) b_minter && negb (in_entries e (all_entries prev))) (ob_pool cur) in
                let paid tag := zsum (map (fun e => if beqb (s_txhash e) tag then s_token e else 0) news) in
                (* amounts are in Minter units of the denom: compare in the fine unit 10^-24 *)
                (if (ext_val (ti_dec mt) (paid tag_commission) <=? hub_val total_comm)
                    && (ext_val (ti_dec mt) (paid tag_fee) <=? hub_val total_fee) then []
                 else [viol k_c19_over step [VI (paid tag_commission); VI total_comm; VI (paid tag_fee); VI total_fee]])
                ++
                (* (c) commission shares: floor(total * power / total power), converted to Minter units *)
                (if 0 <? total_comm then
                   let tp := zsum (map snd (tr_signers t)) in
                   let want := flat_map (fun v : bytes * Z =>
                                           let a := commission_share total_comm (snd v) tp in
                                           if 0 <? a then [(fst v, to_ext (ti_dec mt) a)] else []) (tr_signers t) in
                   let got := map (fun e => (s_recipient e, s_token e)) (filter (fun e => beqb (s_txhash e) tag_commission) news) in
                   if same_lists (fun x : bytes * Z => VL [VB (fst x); VI (snd x)]) want got then []
                   else [viol k_c19_prop step [VL (map (fun x : bytes * Z => VL [VB (fst x); VI (snd x)]) want);
                                               VL (map (fun x : bytes * Z => VL [VB (fst x); VI (snd x)]) got)]]
                 else [])
            | None => []
            end
        | _, _ => []
        end
    | _ => []
    end
  else [].

Definition mon_C19 (c impl : val) : val :=
  VL (mon_fold (fun step o prev cur (t : track) =>
                  let t1 := if (op_kind o =? 7) || (op_kind o =? 5) then track_step o prev cur t else t in
                  let r := mon_C19_step step o prev cur t1 in
                  (r, if (op_kind o =? 7) || (op_kind o =? 5) then t1 else track_step o prev cur t1))
               0 (vL (vnth 2 c)) (vL impl) empty_obs (track0 0)).
