(* Hub model: the keeper's pool / batch / bank / event-handler logic as executable functions.
   Mirrors module/x/mhub2/keeper/{pool,batch,external_event_handler,msg_server,keeper}.go and
   module/x/mhub2/abci.go of /repo (after the fix: commits listed in KNOWN_FINDINGS.json). *)
From V Require Import Base.Prelude Base.Val Num.Arith Hub.Types.
Local Open Scope Z_scope.

(* ---------- byte encodings used in store keys ---------- *)
(* specification: the w-byte big-endian encoding, byte by byte *)
Fixpoint be_spec (w : nat) (x : Z) : bytes :=
  match w with
  | O => []
  | S w' => Z.to_N ((x / 256 ^ Z.of_nat w') mod 256) :: be_spec w' x
  end.
(* the same bytes with one division by 256 per byte (Proofs/C10Order.v: be_eq); the model is executed on long
   histories with hundreds of pooled transfers, whose keys are compared when the pool is iterated *)
Fixpoint be_acc (w : nat) (x : Z) (acc : bytes) : bytes :=
  match w with
  | O => acc
  | S w' => be_acc w' (x / 256) (Z.to_N (x mod 256) :: acc)
  end.
Definition be (w : nat) (x : Z) : bytes := be_acc w x [].

(* MakeSendToExternalKey without the common prefix byte: chain | tokenId | fee(32) | id(8) *)
Definition pool_key (e : ste) : bytes :=
  s_chain e ++ s_ext e ++ be 32 (s_fee e) ++ be 8 (Z.of_N (s_id e)).

(* The pool is kept as an unordered list (a set of entries, ids unique per chain); the store's
   key order only matters when it is iterated, and is recomputed there by sorting on the keys. *)
Definition same_entry (a b : ste) : bool := beqb (s_chain a) (s_chain b) && N.eqb (s_id a) (s_id b).

Definition pool_insert (e : ste) (l : list ste) : list ste := e :: l.

Definition pool_delete (e : ste) (l : list ste) : list ste :=
  filter (fun x => negb (same_entry x e)) l.

(* insertion sort, descending by store key (= ReverseIterator order) *)
Fixpoint insert_desc (e : ste) (l : list ste) : list ste :=
  match l with
  | [] => [e]
  | x :: l' => match bcmp (pool_key e) (pool_key x) with
               | Lt => x :: insert_desc e l'
               | _ => e :: l
               end
  end.
Definition sort_desc (l : list ste) : list ste := fold_right insert_desc [] l.

(* IterateUnbatchedSendToExternals: reverse iteration over the chain prefix *)
Definition pool_of_chain (chain : bytes) (l : list ste) : list ste :=
  sort_desc (filter (fun e => is_prefix chain (pool_key e)) l).

(* iterateUnbatchedSendToExternalsByCoin: reverse iteration over chain|token prefix, skipping
   entries of other tokens (fix: batch only transfers of the requested token) *)
Definition pool_of_coin (chain ext : bytes) (l : list ste) : list ste :=
  filter (fun e => beqb (s_ext e) ext)
         (sort_desc (filter (fun e => is_prefix (chain ++ ext) (pool_key e)) l)).

(* ---------- bank ---------- *)
Definition bal_key (acct denom : bytes) : bytes := acct ++ 256%N :: denom.
Definition balance (s : state) (acct denom : bytes) : Z := agetd 0 (bal_key acct denom) (st_bal s).
Definition supply (s : state) (denom : bytes) : Z := agetd 0 denom (st_supply s).

(* MintCoins(module, {coin}) ; SendCoinsFromModuleToAccount(acct, {coin}) with a positive coin *)
Definition credit (s : state) (acct denom : bytes) (a : Z) : state :=
  set_supply (set_bal s (aset (bal_key acct denom) (balance s acct denom + a) (st_bal s)))
             (aset denom (supply s denom + a) (st_supply s)).

(* SendCoinsFromAccountToModule(acct, {coin}) ; BurnCoins(module, {coin}) *)
Definition debit (s : state) (acct denom : bytes) (a : Z) : res state :=
  if a <=? 0 then Err 1                                   (* invalid coins *)
  else if balance s acct denom <? a then Err 2            (* insufficient funds *)
  else Ok (set_supply (set_bal s (aset (bal_key acct denom) (balance s acct denom - a) (st_bal s)))
                      (aset denom (supply s denom - a) (st_supply s))).

(* ---------- tx status / fee records ---------- *)
Definition get_status (s : state) (h : bytes) : N :=
  match aget h (st_status s) with Some (x, _) => x | None => ST_NOT_FOUND end.

(* SetTxStatus: REFUNDED is sticky *)
Definition set_tx_status (s : state) (h : bytes) (status : N) (out : bytes) : state :=
  let st' := if N.eqb (get_status s h) ST_REFUNDED then ST_REFUNDED else status in
  set_status s (aset h (st', out) (st_status s)).

(* ---------- createSendToExternal ---------- *)
Definition create_send (s : state) (chain sender recipient denom : bytes) (amount fee comm : Z)
           (txhash refund_chain refund_addr : bytes) : res (state * N) :=
  let total := amount + fee + comm in
  match denom_to_token (st_tokens s) chain denom with
  | None => Err 3
  | Some ti =>
      let* s1 := debit s sender denom total in
      let id := (agetd 0%N chain (st_last_id s1) + 1)%N in
      let s2 := set_last_id s1 (aset chain id (st_last_id s1)) in
      let ca := conv_to_ext (st_tokens s) chain (ti_ext ti) amount in
      let cf := conv_to_ext (st_tokens s) chain (ti_ext ti) fee in
      let cc := conv_to_ext (st_tokens s) chain (ti_ext ti) comm in
      if negb (fits256 ca && fits256 cf && fits256 cc) then Panic 1
      else
        let e := mkSte id sender recipient chain (ti_id ti) (ti_ext ti) ca cf cc txhash
                       (st_time s / 1000) refund_addr refund_chain in
        Ok (set_pool s2 (pool_insert e (st_pool s2)), id)
  end.

(* ---------- cancelSendToExternal ---------- *)
Definition find_in_pool (s : state) (chain : bytes) (id : N) : option ste :=
  (* the loop does not break: the last match in iteration order wins *)
  fold_left (fun acc e => if N.eqb (s_id e) id then Some e else acc)
            (pool_of_chain chain (st_pool s)) None.

Fixpoint dec_digits (fuel : nat) (n : N) (acc : bytes) : bytes :=
  match fuel with
  | O => acc
  | S f => let acc' := (48 + n mod 10)%N :: acc in
           if N.ltb n 10 then acc' else dec_digits f (n / 10)%N acc'
  end.
Definition decimal (n : N) : bytes := dec_digits 40 n [].

Definition refund_denom (s : state) (e : ste) : bytes :=
  match id_to_token (st_tokens s) (s_tid e) with
  | Some t => ti_denom t
  | None => [116;111;107;101;110;47]%N ++ decimal (s_tid e)   (* "token/<id>" *)
  end.

Definition cancel_send (s : state) (chain : bytes) (id : N) (sender : bytes) : res state :=
  match find_in_pool s chain id with
  | None => Err 4
  | Some e =>
      if negb (beqb sender (s_sender e)) then Err 5
      else
        let denom := refund_denom s e in
        let total := conv_from_ext (st_tokens s) chain (s_ext e) (s_token e + s_fee e + s_comm e) in
        if negb (fits256 total) then Panic 2
        else if total <? 0 then Panic 3
        else
        (* MintCoins(NewCoins(total)): a zero coin is dropped, nothing is minted *)
        let* s1 :=
          if beqb (s_refund_chain e) [] then
            (* no refund chain: the minted coins stay in the module account *)
            Ok (if 0 <? total then credit s [109;104;117;98;50]%N denom total else s)
          else if beqb (s_refund_chain e) b_hub then
            Ok (if 0 <? total then credit s sender denom total else s)
          else if 0 <? total then
            let s' := credit s (p_temp (st_params s)) denom total in
            let* (s'', _) := create_send s' (s_refund_chain e) (p_temp (st_params s)) (s_refund_addr e)
                                         denom total 0 0 [35]%N [] [] in
            Ok s''
          else Ok s in      (* nothing to send back (fix: zero-value foreign-origin transfer) *)
        let s2 := set_tx_status s1 (s_txhash e) ST_REFUNDED [] in
        Ok (set_pool s2 (pool_delete e (st_pool s2)))
  end.

(* ---------- getBatchTimeoutHeight ---------- *)
Definition avg_block_time (p : params) (chain : bytes) : N :=
  if beqb chain b_ethereum then p_avg_eth p
  else if beqb chain b_bsc then p_avg_bsc p
  else if beqb chain b_minter then 5000%N
  else if beqb chain b_hub then p_avg_block p
  else 0%N.

Definition batch_timeout (s : state) (chain : bytes) : res N :=
  let ch := agetd 0%N chain (st_obs_cosmos_h s) in
  let eh := agetd 0%N chain (st_obs_ext_h s) in
  if (N.eqb ch 0 || N.eqb eh 0)%bool then Ok 0%N
  else
    let avg := avg_block_time (st_params s) chain in
    if N.eqb avg 0 then Panic 4          (* integer divide by zero *)
    else
      let projected := ((st_height s - ch) * p_avg_block (st_params s))%N in
      Ok ((projected / avg + eh) + p_target_timeout (st_params s) / avg)%N.

(* ---------- BuildBatchTx ---------- *)
Definition BATCH_SIZE : nat := 100.

Definition build_batch (s : state) (chain ext : bytes) : res (state * option batch) :=
  let selected := firstn BATCH_SIZE (pool_of_coin chain ext (st_pool s)) in
  match selected with
  | [] => Ok (s, None)
  | _ =>
      let pool' := fold_left (fun p e => pool_delete e p) selected (st_pool s) in
      let s1 := fold_left (fun st e => set_tx_status st (s_txhash e) ST_BATCH_CREATED []) selected
                          (set_pool s pool') in
      let nonce := (agetd 0%N chain (st_last_batch_nonce s1) + 1)%N in
      let s2 := set_last_batch_nonce s1 (aset chain nonce (st_last_batch_nonce s1)) in
      let* timeout := batch_timeout s2 chain in
      let seq := (agetd 0%N chain (st_out_seq s2) + 1)%N in
      let s3 := set_out_seq s2 (aset chain seq (st_out_seq s2)) in
      let b := mkBatch chain ext nonce timeout selected (st_height s) seq in
      Ok (set_batches s3 (st_batches s3 ++ [b]), Some b)
  end.

(* ---------- CancelBatchTx ---------- *)
Definition batch_is (chain ext : bytes) (nonce : N) (b : batch) : bool :=
  beqb (b_chain b) chain && beqb (b_ext b) ext && N.eqb (b_nonce b) nonce.

Definition cancel_batch (s : state) (b : batch) : state :=
  let pool' := fold_left (fun p e => pool_insert e p) (b_txs b) (st_pool s) in
  set_batches (set_pool s pool')
              (filter (fun x => negb (batch_is (b_chain b) (b_ext b) (b_nonce b) x)) (st_batches s)).

(* cleanupTimedOutBatchTxs *)
Definition cleanup_timed_out (s : state) (chain : bytes) : state :=
  let eh := agetd 0%N chain (st_obs_ext_h s) in
  fold_left (fun st b => if (beqb (b_chain b) chain && N.ltb (b_timeout b) eh)%bool
                         then cancel_batch st b else st)
            (st_batches s) s.

(* createBatchTxs: distinct token ids present in the chain's pool, sorted (sort.Strings) *)
Fixpoint insert_sorted (x : bytes) (l : list bytes) : list bytes :=
  match l with
  | [] => [x]
  | y :: l' => match bcmp x y with
               | Lt => x :: l
               | Eq => l
               | Gt => y :: insert_sorted x l'
               end
  end.
Definition coin_ids (s : state) (chain : bytes) : list bytes :=
  fold_left (fun acc e => insert_sorted (s_ext e) acc) (pool_of_chain chain (st_pool s)) [].

Definition create_batches (s : state) (chain : bytes) : res state :=
  if N.eqb (st_height s mod 2) 0 then
    fold_left (fun r ext => let* st := r in let* (st', _) := build_batch st chain ext in Ok st')
              (coin_ids s chain) (Ok s)
  else Ok s.

(* createSignerSetTxs as far as it touches the shared OutgoingSequence: a set is created when
   none exists yet, or when the signer-set logic (SignerSet.v; an input here: [force]) asks *)
Definition create_signer_set (s : state) (chain : bytes) (force : list bytes) : state :=
  let n := agetd 0%N chain (st_sigset_nonce s) in
  if (N.eqb n 0 || existsb (beqb chain) force)%bool then
    let s1 := set_sigset_nonce s (aset chain (n + 1)%N (st_sigset_nonce s)) in
    set_out_seq s1 (aset chain (agetd 0%N chain (st_out_seq s1) + 1)%N (st_out_seq s1))
  else s.

Definition begin_block (s : state) (force : list bytes) : res state :=
  fold_left (fun r chain =>
               let* st := r in
               if beqb chain b_hub then Ok st
               else
                 let st1 := if beqb chain b_minter then st else cleanup_timed_out st chain in
                 create_batches (create_signer_set st1 chain force) chain)
            (p_chains (st_params s)) (Ok s).

(* ---------- batchTxExecuted ---------- *)
Definition price (s : state) (name : bytes) : option Z := aget name (o_prices (st_oracle s)).

Definition holder_value (s : state) (addr : bytes) : Z := agetd 0 addr (o_holders (st_oracle s)).

(* one createSendToExternal(ctx,"minter",TempAddress, to, coin, 0, 0, tag,"","") that panics on error *)
Definition minter_send (s : state) (to denom : bytes) (a : Z) (tag : bytes) : res state :=
  match create_send s b_minter (p_temp (st_params s)) to denom a 0 0 tag [] [] with
  | Ok (s', _) => Ok s'
  | Err _ => Panic 5
  | Panic c => Panic c
  end.

Definition tag_commission : bytes := [35;99;111;109;109;105;115;115;105;111;110]%N.   (* "#commission" *)
Definition tag_fee : bytes := [35;102;101;101]%N.                                       (* "#fee" *)

(* shares *)
Definition commission_share (total power total_power : Z) : Z := (total * power) / total_power.
Definition refund_share (fee_left c good : Z) : Z := (fee_left * c) / good.
Definition reimb_fee (amount total_fee : Z) : Z := if total_fee <=? amount then total_fee else amount.

Definition pay_commissions (s : state) (denom : bytes) (total : Z) : res state :=
  if total <=? 0 then Ok s
  else
    let signers := st_minter_signers s in
    let total_power := zsum (map snd signers) in
    let s1 := credit s (p_temp (st_params s)) denom total in
    fold_left (fun r (v : bytes * Z) =>
                 let* st := r in
                 let (addr, power) := v in
                 if total_power =? 0 then Panic 6      (* division by zero *)
                 else if negb (fits256 (total * power)) then Panic 16
                 else
                   let a := commission_share total power total_power in
                   if a <=? 0 then Ok st else minter_send st addr denom a tag_commission)
              signers (Ok s1).

Definition reimbursement (fee_paid p_base p_tok : Z) : Z :=
  dec_truncate (dec_quo_int64 (dec_mul_int64 (dec_quo (dec_mul (dec_of_int fee_paid) p_base) p_tok) 150) 100).

Definition fee_refunds (s : state) (b : batch) (ti : token_info) (fee_left avg : Z) : res state :=
  let conv e := conv_from_ext (st_tokens s) (b_chain b) (ti_ext ti) (s_fee e) in
  let good := zsum (map conv (filter (fun e => avg <=? conv e) (b_txs b))) in
  if good <=? 0 then Ok s
  else
    fold_left (fun r e =>
                 let* st := r in
                 let c := conv e in
                 if c <? avg then Ok st
                 else
                   let to_refund := refund_share fee_left c good in
                   if negb (beqb (s_refund_chain e) b_minter) then Ok st
                   else if to_refund <=? 0 then Ok st
                   else
                     let* st1 := minter_send st (s_refund_addr e) (ti_denom ti) to_refund tag_fee in
                     match aget (s_txhash e) (st_feerec st1) with
                     | None => Panic 7                       (* nil record *)
                     | Some (vc, ef) =>
                         let ef' := ef - conv_to_ext (st_tokens s) (b_chain b) (ti_ext ti) to_refund in
                         Ok (set_feerec st1 (aset (s_txhash e) (vc, ef') (st_feerec st1)))
                     end)
              (b_txs b) (Ok s).

Definition pay_fees (s : state) (b : batch) (ti : token_info) (total_fee fee_paid : Z) (fee_payer : bytes) : res state :=
  if total_fee <=? 0 then Ok s
  else
    let base := if beqb (b_chain b) b_ethereum then Some b_eth
                else if beqb (b_chain b) b_bsc then Some b_bnb else None in
    match base with
    | None => Ok s
    | Some basecoin =>
        match price s basecoin, price s (ti_denom ti) with
        | Some pb, Some pt =>
            if pt =? 0 then Panic 8 else
            let amount := reimbursement fee_paid pb pt in
            if amount <? 0 then Panic 9 else       (* NewCoin: negative coin amount *)
            let fee := reimb_fee amount total_fee in
            if fee <=? 0 then Ok s
            else
              let temp := p_temp (st_params s) in
              let s1 := credit s temp (ti_denom ti) fee in
              let* s2 := minter_send s1 fee_payer (ti_denom ti) fee tag_fee in
              let fee_left := total_fee - fee in
              if fee_left <=? 0 then Ok s2
              else
                let s3 := credit s2 temp (ti_denom ti) fee_left in
                let n := Z.of_nat (length (b_txs b)) in
                let avg := quo_trunc fee n in
                fee_refunds s3 b ti fee_left avg
        | _, _ => Panic 10                          (* MustGetTokenPrice *)
        end
    end.

Definition batch_executed (s : state) (chain ext : bytes) (nonce : N) (txhash : bytes)
           (fee_paid : Z) (fee_payer : bytes) : res state :=
  match find (batch_is chain ext nonce) (st_batches s) with
  | None => Ok s
  | Some b =>
      (* cancel older batches of the same token (not on Minter) *)
      let s1 := if beqb chain b_minter then s
                else fold_left (fun st x =>
                                  if (beqb (b_chain x) chain && N.ltb (b_nonce x) (b_nonce b)
                                      && beqb (b_ext x) (b_ext b))%bool
                                  then cancel_batch st x else st)
                               (st_batches s) s in
      let s2 := set_batches s1 (filter (fun x => negb (batch_is chain ext nonce x)) (st_batches s1)) in
      match ext_to_token (st_tokens s) chain (b_ext b) with
      | None => Panic 11
      | Some ti =>
          let s3 := fold_left (fun st e =>
                                 let st' := set_tx_status st (s_txhash e) ST_BATCH_EXECUTED txhash in
                                 set_feerec st' (aset (s_txhash e) (s_comm e, s_fee e) (st_feerec st')))
                              (b_txs b) s2 in
          if negb (fits256 (zsum (map s_comm (b_txs b))) && fits256 (zsum (map s_fee (b_txs b)))) then Panic 16 else
          let total_comm := conv_from_ext (st_tokens s) chain (ti_ext ti) (zsum (map s_comm (b_txs b))) in
          let total_fee := conv_from_ext (st_tokens s) chain (ti_ext ti) (zsum (map s_fee (b_txs b))) in
          let* s4 := pay_commissions s3 (ti_denom ti) total_comm in
          pay_fees s4 b ti total_fee fee_paid fee_payer
      end
  end.

(* ---------- external events (ExternalEventProcessor.Handle) ---------- *)
(* lower-case / strip of "0x" is done by the harness when it builds o_holders; here the lookup
   key is the address with a leading "0x" removed *)
Definition strip0x (a : bytes) : bytes :=
  match a with
  | 48%N :: 120%N :: rest => match rest with [] => a | _ => rest end
  | _ => a
  end.
Definition lower (a : bytes) : bytes :=
  map (fun c => if (N.leb 65 c && N.leb c 90)%bool then (c + 32)%N else c) a.

Definition holder_rate (s : state) (addrs : list bytes) (rate : Z) : Z :=
  let maxv := fold_left (fun m a => Z.max (holder_value s (lower (strip0x a))) m) addrs 0 in
  commission_rate rate maxv.

Definition handle_deposit (s : state) (chain coin : bytes) (amount : Z) (receiver txhash : bytes) : res state :=
  match ext_to_token (st_tokens s) chain coin with
  | None => Err 6
  | Some ti =>
      let ca := conv_from_ext (st_tokens s) chain coin amount in
      if negb (fits256 ca) then Panic 12                 (* NewIntFromBigInt out of bound *)
      else if ca <? 0 then Panic 13                      (* NewCoin negative *)
      else if negb (fits256 (supply s (ti_denom ti) + ca)) then Err 7   (* DetectMaliciousSupply *)
      else if ca =? 0 then Err 8                         (* invalid (zero) coins *)
      else
        let s1 := credit s receiver (ti_denom ti) ca in
        Ok (set_tx_status s1 txhash ST_DEPOSIT_RECEIVED [])
  end.

Definition handle_event (s : state) (chain : bytes) (e : event) : res state :=
  match e with
  | EvDeposit _ coin amount _ receiver _ txhash => handle_deposit s chain coin amount receiver txhash
  | EvTransfer _ coin amount fee sender rchain receiver _ txhash receiver_hub =>
      if negb (chain_ok (st_params s) rchain) then Err 9
      else if beqb rchain b_hub then
        if negb (fits256 amount) then Panic 14 else
        handle_deposit s chain coin amount receiver_hub txhash
      else
        let temp := p_temp (st_params s) in
        let* s1 := handle_deposit s chain coin amount temp txhash in
        match ext_to_token (st_tokens s) chain coin with
        | None => Err 6
        | Some sti =>
            match denom_to_token (st_tokens s) rchain (ti_denom sti) with
            | None => Err 3
            | Some rti =>
                let ca := conv_from_ext (st_tokens s) chain coin amount in
                let cf := conv_from_ext (st_tokens s) chain coin fee in
                if negb (fits256 cf) then Panic 12 else
                let rate := holder_rate s [sender; receiver] (ti_comm rti) in
                let commission := commission_of rate ca in
                if cf <? 0 then Panic 13 else
                if commission <? 0 then Panic 13 else
                if ca - commission <? 0 then Panic 15 else       (* Coin.Sub negative *)
                let amount1 := ca - commission in
                if amount1 <? cf then Err 10                      (* amount is less than fee *)
                else
                  let amount2 := amount1 - cf in
                  let* (s2, _) := create_send s1 rchain temp receiver (ti_denom rti) amount2 cf commission
                                              txhash chain sender in
                  Ok s2
            end
        end
  | EvBatchExecuted _ coin bn _ txhash fee_paid fee_payer =>
      batch_executed s chain coin bn txhash fee_paid fee_payer
  | EvOther _ _ => Ok s
  end.

(* processExternalEvent: cache context; an error or (after the fix) a panic leaves the state
   unchanged.  SetLastObservedExternalBlockHeight happens before, in TryEventVoteRecord. *)
Definition apply_event (s : state) (chain : bytes) (e : event) : state * N :=
  let s0 := set_obs s (aset chain (st_height s) (st_obs_cosmos_h s)) (aset chain (ev_height e) (st_obs_ext_h s)) in
  match handle_event s0 chain e with
  | Ok s' => (s', 0%N)
  | Err _ => (s0, 1%N)
  | Panic _ => (s0, 2%N)
  end.

(* ---------- messages ---------- *)
Definition msg_send (s : state) (sender chain recipient denom : bytes) (amount fee : Z) (txhash : bytes) : res (state * N) :=
  if negb (chain_ok (st_params s) chain) then Err 9
  else
    match denom_to_token (st_tokens s) chain denom with
    | None => Err 3
    | Some ti =>
        let rate := holder_rate s [sender; recipient] (ti_comm ti) in
        let commission := commission_of rate (amount + fee) in
        if amount - commission <? 0 then Panic 15       (* Coin.SubAmount negative *)
        else create_send s chain sender recipient denom (amount - commission) fee commission txhash b_hub sender
    end.

Definition msg_cancel (s : state) (sender chain : bytes) (id : N) : res state :=
  if negb (chain_ok (st_params s) chain) then Err 9 else cancel_send s chain id sender.

Definition msg_request_batch (s : state) (chain denom : bytes) : res state :=
  if negb (chain_ok (st_params s) chain) then Err 9
  else match denom_to_token (st_tokens s) chain denom with
       | None => Err 3
       | Some ti => let* (s', _) := build_batch s chain (ti_ext ti) in Ok s'
       end.

(* refundExpiredTxs (after the fix: collect, then refund each on a cache context) *)
Definition expired (s : state) (e : ste) : bool :=
  s_created e * 1000 + p_out_timeout (st_params s) <? st_time s.

Definition refund_expired_chain (s : state) (chain : bytes) : res state :=
  fold_left (fun r e =>
               let* st := r in
               (* fix: a refund that panics is dropped like one that returns an error, nothing of it is committed.
                  MintCoins panics when the refunded total no longer fits the bank's 256-bit supply. *)
               let total := conv_from_ext (st_tokens st) chain (s_ext e) (s_token e + s_fee e + s_comm e) in
               if negb (fits256 (supply st (refund_denom st e) + total)) then Ok st
               else
               match cancel_send st chain (s_id e) (s_sender e) with
               | Ok st' => Ok st'
               | Err _ => Ok st
               | Panic _ => Ok st
               end)
            (filter (expired s) (pool_of_chain chain (st_pool s))) (Ok s).

(* EndBlocker: per chain, the tally applies the claims that reached quorum (in nonce order:
   Votes.v), then expired transfers are refunded *)
Definition apply_pending (s : state) (chain : bytes) : state :=
  fold_left (fun st (ce : bytes * event) =>
               if beqb (fst ce) chain then fst (apply_event st chain (snd ce)) else st)
            (st_pending s) s.

Definition end_block (s : state) : res state :=
  let* s1 := fold_left (fun r chain => let* st := r in refund_expired_chain (apply_pending st chain) chain)
                       (p_chains (st_params s)) (Ok s) in
  Ok (set_pending s1 []).

(* ---------- operations of a history ---------- *)
Inductive op :=
| OpSend (sender chain recipient denom : bytes) (amount fee : Z) (txhash : bytes)
| OpCancel (sender chain : bytes) (id : N)
| OpRequestBatch (chain denom : bytes)
| OpEvent (chain : bytes) (e : event)        (* a claim that reaches quorum: applied by this block's EndBlocker *)
| OpBeginBlock (height : N) (time : Z) (force : list bytes)
| OpEndBlock
| OpSetEnv (tokens : list token_info) (signers : list (bytes * Z)) (oracle : oracle_in).

(* outcome code: 0 ok, 1 err, 2 panic *)
Definition deliver {A} (s : state) (r : res A) (f : A -> state) : state * N :=
  match r with
  | Ok a => (f a, 0%N)
  | Err _ => (s, 1%N)
  | Panic _ => (s, 2%N)
  end.

Definition step (s : state) (o : op) : state * N :=
  match o with
  | OpSend sender chain recipient denom amount fee txhash =>
      deliver s (msg_send s sender chain recipient denom amount fee txhash) fst
  | OpCancel sender chain id => deliver s (msg_cancel s sender chain id) (fun x => x)
  | OpRequestBatch chain denom => deliver s (msg_request_batch s chain denom) (fun x => x)
  | OpEvent chain e => (set_pending s (st_pending s ++ [(chain, e)]), 0%N)
  | OpBeginBlock h t force =>
      let s0 := set_env s (st_tokens s) (st_minter_signers s) (st_oracle s) h t in
      deliver s0 (begin_block s0 force) (fun x => x)
  | OpEndBlock => deliver s (end_block s) (fun x => x)
  | OpSetEnv tokens signers oracle => (set_env s tokens signers oracle (st_height s) (st_time s), 0%N)
  end.

Definition init_state (p : params) (tokens : list token_info) : state :=
  mkState p tokens [] [] [] [] [] [] [] [] [] [] [] [] (mkOracle [] []) 0%N 0 [] [].

Definition run (s : state) (ops : list op) : state := fold_left (fun st o => fst (step st o)) ops s.
