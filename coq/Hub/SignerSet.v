(* Signer sets (C09): CurrentSignerSet (normalisation), ExternalSigners.Sort, PowerDiff,
   createSignerSetTxs.  Mirrors keeper/keeper.go CurrentSignerSet / CreateSignerSetTx,
   types/types.go Sort / PowerDiff / NewSignerSetTx and abci.go createSignerSetTxs. *)
From V Require Import Base.Prelude Base.Val Num.Arith.
Local Open Scope Z_scope.

Definition MAXU32 : Z := 4294967295.

(* staking input: bonded validators in the order GetBondedValidatorsByPower returns them, with
   LastValidatorPower and the external address registered for the chain (None: no key, i.e. the
   zero address) *)
Record bval := mkBval { bv_power : Z; bv_ext : option bytes }.

Record signer := mkSigner { sg_addr : bytes; sg_power : Z }.

Definition members (vals : list bval) : list signer :=
  flat_map (fun v => match bv_ext v with Some a => [mkSigner a (bv_power v)] | None => [] end) vals.

Definition total_of (l : list signer) : Z := zsum (map sg_power l).

(* sdk.NewUint(p).MulUint64(MaxUint32).QuoUint64(total): panics on a zero total when the set is
   not empty *)
Definition current_signer_set (vals : list bval) : res (list signer) :=
  let ms := members vals in
  let total := total_of ms in
  match ms with
  | [] => Ok []
  | _ => if total =? 0 then Panic 1
         else Ok (map (fun m => mkSigner (sg_addr m) (sg_power m * MAXU32 / total)) ms)
  end.

(* ExternalSigners.Sort: power descending, then address (bytes of the hex string) ascending *)
Definition sg_before (a b : signer) : bool :=
  if sg_power a =? sg_power b then bltb (sg_addr a) (sg_addr b) else sg_power b <? sg_power a.

Fixpoint sg_insert (x : signer) (l : list signer) : list signer :=
  match l with
  | [] => [x]
  | y :: l' => if sg_before y x then y :: sg_insert x l' else x :: l
  end.
Definition sg_sort (l : list signer) : list signer := fold_right sg_insert [] l.

(* PowerDiff as a rational test: sum of |b_i - c_i| over the union of addresses, compared with
   5% of MaxUint32.  (The code sums float64 values of integers below 2^33 -- exact -- divides by
   float64(MaxUint32) and compares with 0.05; the quotients of neighbouring integers differ by
   2.3e-10, far above one ulp, and no integer is within 0.25/MaxUint32 of 0.05*MaxUint32, so the
   float comparison equals 20 * sum > MaxUint32.) *)
Definition power_in (l : list signer) (a : bytes) : Z :=
  match find (fun s => beqb (sg_addr s) a) l with Some s => sg_power s | None => 0 end.

(* Go builds the map from b (later duplicates overwrite), then subtracts every element of c *)
Definition diff_sum (b c : list signer) : Z :=
  let addrs := fold_left (fun acc s => if existsb (beqb (sg_addr s)) acc then acc else acc ++ [sg_addr s]) (b ++ c) [] in
  zsum (map (fun a =>
               let pb := match find (fun s => beqb (sg_addr s) a) (rev b) with Some s => sg_power s | None => 0 end in
               let pc := zsum (map (fun s => if beqb (sg_addr s) a then sg_power s else 0) c) in
               Z.abs (pb - pc)) addrs).

Definition power_diff_exceeds (b c : list signer) : bool := MAXU32 <? 20 * diff_sum b c.

Record sstate := mkSs {
  ss_latest_nonce : N;
  ss_latest : option (N * N * list signer)      (* (nonce, height, signers) of the latest set *)
}.

(* CreateSignerSetTx *)
Definition create_set (s : sstate) (height : N) (vals : list bval) : res sstate :=
  let* cur := current_signer_set vals in
  let nonce := (ss_latest_nonce s + 1)%N in
  Ok (mkSs nonce (Some (nonce, height, sg_sort cur))).

(* createSignerSetTxs *)
Definition begin_block_sets (s : sstate) (height last_unbonding : N) (vals : list bval) : res sstate :=
  match ss_latest s with
  | None => create_set s height vals
  | Some (_, _, latest) =>
      let* cur := current_signer_set vals in
      if N.eqb last_unbonding height || power_diff_exceeds cur latest then create_set s height vals else Ok s
  end.

(* ---------- codec ---------- *)
Definition dec_bval (v : val) : bval :=
  mkBval (vI (vnth 0 v)) (match vL (vnth 1 v) with [] => None | a :: _ => Some (vB a) end).
Definition enc_signers (l : list signer) : val := VL (map (fun s => VL [VB (sg_addr s); VI (sg_power s)]) l).
Definition enc_sstate (s : sstate) : val :=
  VL [vNat (ss_latest_nonce s);
      match ss_latest s with Some (n, h, l) => VL [vNat n; vNat h; enc_signers l] | None => VL [] end].

(* a case: list of (height, vals) BeginBlocker steps; output per step: (code, current set or (), state) *)
Definition sigset_run (c : val) : val :=
  VL (snd (fold_left (fun (acc : sstate * list val) stepv =>
                        let (s, out) := acc in
                        let height := vN (vnth 0 stepv) in
                        let vals := map dec_bval (vL (vnth 1 stepv)) in
                        let cur := match current_signer_set vals with Ok l => VL [VI 0; enc_signers l] | _ => VL [VI 2] end in
                        match begin_block_sets s height 0 vals with
                        | Ok s' => (s', out ++ [VL [VI 0; cur; enc_sstate s']])
                        | _ => (s, out ++ [VL [VI 2; cur; enc_sstate s]])
                        end)
                     (vL c) (mkSs 0 None, []))).

(* ---------- monitor (C09) on the implementation's output of a sigset case ---------- *)
Definition sstr (l : list Z) : val := VB (map Z.to_N l).
Definition sviol (key : val) (step : nat) (detail : list val) : val := VL (key :: VI (Z.of_nat step) :: detail).
Definition k_c09_members := sstr [67;48;57;47;109;101;109;98;101;114;115].                       (* C09/members *)
Definition k_c09_power := sstr [67;48;57;47;110;111;114;109;97;108;105;115;97;116;105;111;110].   (* C09/normalisation *)
Definition k_c09_order := sstr [67;48;57;47;111;114;100;101;114].                                 (* C09/order *)
Definition k_c09_nonce := sstr [67;48;57;47;110;111;110;99;101].                                  (* C09/nonce *)
Definition k_c09_stale := sstr [67;48;57;47;115;116;97;108;101;45;115;101;116].                   (* C09/stale-set *)

Definition dec_signers (v : val) : list signer := map (fun x => mkSigner (vB (vnth 0 x)) (vI (vnth 1 x))) (vL v).

Fixpoint sorted_b (l : list signer) : bool :=
  match l with
  | [] => true
  | x :: l' => forallb (fun y => negb (sg_before y x)) l' && sorted_b l'
  end.

Definition same_multiset (a b : list signer) : bool :=
  Nat.eqb (length a) (length b) &&
  forallb (fun x => Nat.eqb (length (filter (fun y => beqb (sg_addr y) (sg_addr x) && (sg_power y =? sg_power x)) a))
                            (length (filter (fun y => beqb (sg_addr y) (sg_addr x) && (sg_power y =? sg_power x)) b))) a.

Fixpoint mon_c09_fold (step : nat) (steps outs : list val) (prev_nonce : N) : list val :=
  match steps, outs with
  | sv :: steps', ov :: outs' =>
      let height := vN (vnth 0 sv) in
      let vals := map dec_bval (vL (vnth 1 sv)) in
      let ms := members vals in
      let T := total_of ms in
      let curv := vnth 1 ov in
      let stv := vnth 2 ov in
      let nonce := vN (vnth 0 stv) in
      let latest := vnth 1 stv in
      let cur := dec_signers (vnth 1 curv) in
      (if vI (vnth 0 curv) =? 0 then
         (if beqb (concat (map sg_addr cur)) (concat (map sg_addr ms)) && Nat.eqb (length cur) (length ms) then []
          else [sviol k_c09_members step []])
         ++ (if forallb (fun mn : signer * signer =>
                           (sg_power (snd mn) * T <=? sg_power (fst mn) * MAXU32)
                           && (sg_power (fst mn) * MAXU32 <? (sg_power (snd mn) + 1) * T) && (0 <=? sg_power (snd mn)))
                        (combine ms cur) && (total_of cur <=? MAXU32) then []
             else [sviol k_c09_power step [VI (total_of cur)]])
       else [])
      ++ (match vL latest with
          | [] => [sviol k_c09_stale step []]           (* after BeginBlocker a set must exist *)
          | _ =>
              let ln := vN (vnth 0 latest) in
              let ls := dec_signers (vnth 2 latest) in
              (if sorted_b ls then [] else [sviol k_c09_order step []])
              ++ (if N.eqb ln nonce && (N.eqb nonce prev_nonce || N.eqb nonce (prev_nonce + 1)) then []
                  else [sviol k_c09_nonce step [vNat prev_nonce; vNat nonce; vNat ln]])
              ++ (if N.eqb nonce (prev_nonce + 1) then
                    if (vI (vnth 0 curv) =? 0) && negb (same_multiset ls cur && N.eqb (vN (vnth 1 latest)) height)
                    then [sviol k_c09_members step [vNat nonce]] else []
                  else [])
              ++ (if (vI (vnth 0 curv) =? 0) && power_diff_exceeds cur ls then [sviol k_c09_stale step [VI (diff_sum cur ls)]] else [])
          end)
      ++ mon_c09_fold (S step) steps' outs' nonce
  | _, _ => []
  end.

Definition mon_C09 (c impl : val) : val := VL (mon_c09_fold 0 (vL c) (vL impl) 0%N).

(* C08 preconditions on what the hub emits: a set the contract can work with has no zero-address
   member (ecrecover returns address(0) for a malformed signature, so anybody could "sign" for it) and
   is stored in the order in which its attestation will be stored (Sort order), since the relayer
   presents the attested set as the contract's current set. *)
Definition k_c08_zero := VB (map Z.to_N [67;48;56;47;122;101;114;111;45;97;100;100;114;101;115;115;45;109;101;109;98;101;114]%Z).            (* C08/zero-address-member *)
Definition k_c08_unsorted := VB (map Z.to_N [67;48;56;47;115;101;116;45;110;111;116;45;105;110;45;97;116;116;101;115;116;101;100;45;111;114;100;101;114]%Z). (* C08/set-not-in-attested-order *)
Definition is_zero_addr (a : bytes) : bool :=
  match a with
  | 48%N :: 120%N :: r => forallb (N.eqb 48) r
  | _ => forallb (N.eqb 0) a
  end.
Fixpoint mon_c08_sig_fold (step : nat) (outs : list val) : list val :=
  match outs with
  | [] => []
  | out :: outs' =>
      let latest := vnth 1 (vnth 2 out) in
      (match vL latest with
       | [] => []
       | _ =>
           let ls := dec_signers (vnth 2 latest) in
           (if existsb (fun m => is_zero_addr (sg_addr m)) ls then [VL [k_c08_zero; VI (Z.of_nat step)]] else [])
           ++ (if sorted_b ls then [] else [VL [k_c08_unsorted; VI (Z.of_nat step)]])
       end) ++ mon_c08_sig_fold (S step) outs'
  end.
Definition mon_C08_sigset (c impl : val) : val := VL (mon_c08_sig_fold 0 (vL impl)).
