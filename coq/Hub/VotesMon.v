(* Monitors for the votes suite: C02 and C03 predicates on the implementation's observations. *)
From V Require Import Base.Prelude Base.Val Num.Arith Hub.Votes.
Local Open Scope Z_scope.

Record vobs := mkVobs {
  vo_code : Z;
  vo_recs : list vrec;                 (* amount field unused *)
  vo_last : N;
  vo_lasts : list (bytes * N);
  vo_supply : Z
}.
Definition dec_vobs (v : val) : vobs :=
  let st := vnth 1 v in
  mkVobs (vI (vnth 0 v))
         (map (fun x => mkVrec (vN (vnth 0 x)) (vB (vnth 1 x)) (map vB (vL (vnth 2 x))) (vgetbool (vnth 3 x)) 0) (vL (vnth 0 st)))
         (vN (vnth 1 st))
         (map (fun x => (vB (vnth 0 x), vN (vnth 1 x))) (tl (vL (vnth 2 st))))
         (vI (vnth 3 st)).
Definition vobs0 : vobs := mkVobs 0 [] 0 [] 0.

Definition vstr (l : list Z) : val := VB (map Z.to_N l).
Definition vviol (key : val) (step : nat) (detail : list val) : val := VL (key :: VI (Z.of_nat step) :: detail).

Definition k_c02_quorum := vstr [67;48;50;47;97;112;112;108;105;101;100;45;98;101;108;111;119;45;54;54;45;112;101;114;99;101;110;116].   (* C02/applied-below-66-percent *)
Definition k_c02_double := vstr [67;48;50;47;100;111;117;98;108;101;45;118;111;116;101].                                            (* C02/double-vote *)
Definition k_c02_signer := vstr [67;48;50;47;118;111;116;101;45;102;114;111;109;45;110;111;110;45;118;97;108;105;100;97;116;111;114]. (* C02/vote-from-non-validator *)
Definition k_c03_order := vstr [67;48;51;47;110;111;110;99;101;45;111;114;100;101;114].                                             (* C03/nonce-order *)
Definition k_c03_twice := vstr [67;48;51;47;116;119;111;45;97;99;99;101;112;116;101;100;45;97;116;45;110;111;110;99;101].           (* C03/two-accepted-at-nonce *)
Definition k_c03_contig := vstr [67;48;51;47;118;97;108;105;100;97;116;111;114;45;110;111;116;45;99;111;110;116;105;103;117;111;117;115]. (* C03/validator-not-contiguous *)
Definition k_c03_effect := vstr [67;48;51;47;101;102;102;101;99;116;45;109;105;115;109;97;116;99;104].                             (* C03/effect-mismatch *)
Definition k_c03_unaccept := vstr [67;48;51;47;114;101;99;111;114;100;45;99;104;97;110;103;101;100].                               (* C03/record-changed *)

Fixpoint bytes_dup (l : list bytes) : bool :=
  match l with [] => false | x :: l' => existsb (beqb x) l' || bytes_dup l' end.

Record vtrack := mkVtrack { vt_staking : list sval; vt_orch : list (bytes * bytes); vt_amounts : list (N * bytes * Z) }.

Definition find_rec (l : list vrec) (n : N) (h : bytes) : option vrec := find (rec_is n h) l.

Definition mon_votes_step (prop : Z) (step : nat) (o : vop) (prev cur : vobs) (t : vtrack) (voted : list (bytes * N)) : list val :=
  let newly := filter (fun r => vr_accepted r && negb (match find_rec (vo_recs prev) (vr_nonce r) (vr_hash r) with
                                                       | Some p => vr_accepted p | None => false end)) (vo_recs cur) in
  match o with
  | VVote signer nonce hash amount =>
      if vo_code cur =? 0 then
        (* who was recorded: the one vote that the record gained *)
        let before := match find_rec (vo_recs prev) nonce hash with Some r => vr_votes r | None => [] end in
        let after := match find_rec (vo_recs cur) nonce hash with Some r => vr_votes r | None => [] end in
        let expected_val :=
            match (match aget signer (vt_orch t) with
                   | Some v => find_val (vt_staking t) v
                   | None => find (fun v => beqb (sv_acc v) signer) (vt_staking t) end) with
            | Some v => if sv_bonded v then Some (sv_addr v) else None
            | None => None end in
        (if prop =? 2 then
           match expected_val with
           | Some v => if Nat.eqb (length after) (S (length before)) && beqb (last after []) v then []
                       else [vviol k_c02_signer step [VB signer]]
           | None => [vviol k_c02_signer step [VB signer]]
           end
           ++ (if bytes_dup after then [vviol k_c02_double step [vNat nonce]] else [])
         else
           match expected_val with
           | Some v => match aget v (vo_lasts prev) with
                       | Some l => if N.eqb nonce (l + 1) then [] else [vviol k_c03_contig step [VB v; vNat l; vNat nonce]]
                       | None => []
                       end
                       (* the same against the monitor's own record of what this validator voted last (the stored position
                          must not be trusted: whatever rewrites it would also hide the repeated vote) *)
                       ++ match aget v voted with
                          | Some l => if N.eqb nonce (l + 1) then [] else [vviol k_c03_contig step [VB v; vNat l; vNat nonce; VI 1]]
                          | None => []
                          end
                       ++ (if N.eqb (agetd 0%N v (vo_lasts cur)) nonce then [] else [vviol k_c03_contig step [VB v; vNat nonce]])
           | None => []
           end)
        ++ (if Nat.eqb (length newly) 0 && N.eqb (vo_last cur) (vo_last prev) && (vo_supply cur =? vo_supply prev) then []
            else [vviol (if prop =? 2 then k_c02_quorum else k_c03_order) step [vNat (vo_last prev); vNat (vo_last cur)]])
      else
        if N.eqb (vo_last cur) (vo_last prev) && Nat.eqb (length (vo_recs cur)) (length (vo_recs prev)) then []
        else [vviol k_c03_unaccept step []]
  | VTally =>
      if prop =? 2 then
        flat_map (fun r =>
                    let total := total_power (vt_staking t) in
                    let vp := zsum (map (power_of (vt_staking t)) (vr_votes r)) in
                    (if bytes_dup (vr_votes r) then [vviol k_c02_double step [vNat (vr_nonce r)]] else [])
                    ++ (if 66 * total <=? 100 * vp then [] else [vviol k_c02_quorum step [vNat (vr_nonce r); VI vp; VI total]]))
                 newly
      else
        (* the newly accepted nonces are exactly prev+1 .. cur, one record each; nothing is un-accepted *)
        let k := length newly in
        (if N.eqb (vo_last cur) (vo_last prev + N.of_nat k)
            && forallb (fun r => N.ltb (vo_last prev) (vr_nonce r) && N.leb (vr_nonce r) (vo_last cur)
                                 && Nat.eqb (length (filter (fun r2 => N.eqb (vr_nonce r2) (vr_nonce r)) newly)) 1) newly then []
         else [vviol k_c03_order step [vNat (vo_last prev); vNat (vo_last cur); VL (map (fun r => vNat (vr_nonce r)) newly)]])
        ++ flat_map (fun r => if Nat.leb (length (filter (fun r2 => vr_accepted r2 && N.eqb (vr_nonce r2) (vr_nonce r)) (vo_recs cur))) 1 then []
                              else [vviol k_c03_twice step [vNat (vr_nonce r)]]) (vo_recs cur)
        ++ flat_map (fun p => if vr_accepted p && negb (match find_rec (vo_recs cur) (vr_nonce p) (vr_hash p) with
                                                        | Some c => vr_accepted c | None => false end)
                              then [vviol k_c03_unaccept step [vNat (vr_nonce p)]] else []) (vo_recs prev)
        (* effects are a function of the applied claims: the supply grows by exactly their amounts *)
        ++ (let want := zsum (map (fun r => match find (fun x : N * bytes * Z => N.eqb (fst (fst x)) (vr_nonce r) && beqb (snd (fst x)) (vr_hash r)) (vt_amounts t) with
                                            | Some x => snd x | None => 0 end) newly) in
            if vo_supply cur - vo_supply prev =? want then [] else [vviol k_c03_effect step [VI (vo_supply cur - vo_supply prev); VI want]])
  | VSetStaking _ _ => []
  end.

Definition vtrack_step (o : vop) (t : vtrack) : vtrack :=
  match o with
  | VSetStaking st orch => mkVtrack st orch (vt_amounts t)
  | VVote _ nonce hash amount =>
      if existsb (fun x : N * bytes * Z => N.eqb (fst (fst x)) nonce && beqb (snd (fst x)) hash) (vt_amounts t) then t
      else mkVtrack (vt_staking t) (vt_orch t) ((nonce, hash, amount) :: vt_amounts t)
  | VTally => t
  end.

Fixpoint vmon_fold (prop : Z) (step : nat) (ops : list val) (outs : list val) (prev : vobs) (t : vtrack) (voted : list (bytes * N)) : list val :=
  match ops, outs with
  | ov :: ops', v :: outs' =>
      let o := dec_vop ov in
      let cur := dec_vobs v in
      let t1 := vtrack_step o t in
      (* who voted: the vote the record gained *)
      let voted' := match o with
                    | VVote _ nonce hash _ =>
                        if vo_code cur =? 0 then
                          match find_rec (vo_recs cur) nonce hash with
                          | Some r => match rev (vr_votes r) with w :: _ => aset w nonce voted | [] => voted end
                          | None => voted end
                        else voted
                    | _ => voted end in
      mon_votes_step prop step o prev cur (match o with VSetStaking _ _ => t1 | _ => t end) voted
      ++ vmon_fold prop (S step) ops' outs' cur t1 voted'
  | _, _ => []
  end.

Definition mon_C02 (c impl : val) : val := VL (vmon_fold 2 0 (vL c) (vL impl) vobs0 (mkVtrack [] [] []) []).
Definition mon_C03 (c impl : val) : val := VL (vmon_fold 3 0 (vL c) (vL impl) vobs0 (mkVtrack [] [] []) []).
