(* Hub codec: decoding of harness cases into model operations and encoding of the model's
   observable state.  A value VL (VB "set" :: items) denotes an unordered collection: the
   driver sorts its items before comparing, so both sides may emit them in any order. *)
From V Require Import Base.Prelude Base.Val Num.Arith Hub.Types Hub.Model.
Local Open Scope Z_scope.

Definition vset (l : list val) : val := VL (VB [115;101;116]%N :: l).   (* "set" *)

Definition dec_token (v : val) : token_info :=
  mkTI (vN (vnth 0 v)) (vB (vnth 1 v)) (vB (vnth 2 v)) (vB (vnth 3 v)) (vI (vnth 4 v)) (vI (vnth 5 v)).

Definition dec_pair_bz (v : val) : bytes * Z := (vB (vnth 0 v), vI (vnth 1 v)).

(* (chains avg_block avg_eth avg_bsc target_timeout out_timeout temp) *)
Definition dec_params (v : val) : params :=
  mkParams (map vB (vL (vnth 0 v))) (vN (vnth 1 v)) (vN (vnth 2 v)) (vN (vnth 3 v)) (vN (vnth 4 v))
           (vI (vnth 5 v)) (vB (vnth 6 v)).

Definition dec_event (v : val) : event :=
  match vI (vnth 0 v) with
  | 1 => EvDeposit (vN (vnth 1 v)) (vB (vnth 2 v)) (vI (vnth 3 v)) (vB (vnth 4 v)) (vB (vnth 5 v))
                   (vN (vnth 6 v)) (vB (vnth 7 v))
  | 2 => EvTransfer (vN (vnth 1 v)) (vB (vnth 2 v)) (vI (vnth 3 v)) (vI (vnth 4 v)) (vB (vnth 5 v))
                    (vB (vnth 6 v)) (vB (vnth 7 v)) (vN (vnth 8 v)) (vB (vnth 9 v)) (vB (vnth 10 v))
  | 3 => EvBatchExecuted (vN (vnth 1 v)) (vB (vnth 2 v)) (vN (vnth 3 v)) (vN (vnth 4 v)) (vB (vnth 5 v))
                         (vI (vnth 6 v)) (vB (vnth 7 v))
  | _ => EvOther (vN (vnth 1 v)) (vN (vnth 2 v))
  end.

Definition dec_op (v : val) : op :=
  match vI (vnth 0 v) with
  | 1 => OpSend (vB (vnth 1 v)) (vB (vnth 2 v)) (vB (vnth 3 v)) (vB (vnth 4 v)) (vI (vnth 5 v))
                (vI (vnth 6 v)) (vB (vnth 7 v))
  | 2 => OpCancel (vB (vnth 1 v)) (vB (vnth 2 v)) (vN (vnth 3 v))
  | 3 => OpRequestBatch (vB (vnth 1 v)) (vB (vnth 2 v))
  | 4 => OpEvent (vB (vnth 1 v)) (dec_event (vnth 2 v))
  | 5 => OpBeginBlock (vN (vnth 1 v)) (vI (vnth 2 v)) (map vB (vL (vnth 3 v)))
  | 6 => OpEndBlock
  | _ => OpSetEnv (map dec_token (vL (vnth 1 v))) (map dec_pair_bz (vL (vnth 2 v)))
                  (mkOracle (map dec_pair_bz (vL (vnth 3 v))) (map dec_pair_bz (vL (vnth 4 v))))
  end.

Definition enc_ste (e : ste) : val :=
  VL [vNat (s_id e); VB (s_sender e); VB (s_recipient e); VB (s_chain e); vNat (s_tid e); VB (s_ext e);
      VI (s_token e); VI (s_fee e); VI (s_comm e); VB (s_txhash e); VI (s_created e);
      VB (s_refund_addr e); VB (s_refund_chain e)].

Definition enc_batch (b : batch) : val :=
  VL [VB (b_chain b); VB (b_ext b); vNat (b_nonce b); vNat (b_timeout b); vNat (b_height b); vNat (b_seq b);
      VL (map enc_ste (b_txs b))].

Definition nz_assoc_N (tag : Z) (m : list (bytes * N)) : list val :=
  map (fun kv : bytes * N => VL [VI tag; VB (fst kv); vNat (snd kv)])
      (filter (fun kv : bytes * N => negb (N.eqb (snd kv) 0)) m).

(* split a balance key acct ++ [256] ++ denom *)
Fixpoint split_bal_key (k : bytes) : bytes * bytes :=
  match k with
  | [] => ([], [])
  | x :: k' => if N.eqb x 256 then ([], k') else let (a, d) := split_bal_key k' in (x :: a, d)
  end.

Definition enc_state (s : state) : val :=
  VL [ vset (map (fun kv : bytes * Z => VL [VB (fst kv); VI (snd kv)])
                 (filter (fun kv : bytes * Z => negb (snd kv =? 0)) (st_supply s)));
       vset (map (fun kv : bytes * Z => let (a, d) := split_bal_key (fst kv) in VL [VB a; VB d; VI (snd kv)])
                 (filter (fun kv : bytes * Z => negb (snd kv =? 0)) (st_bal s)));
       vset (map enc_ste (st_pool s));
       vset (map enc_batch (st_batches s));
       vset (nz_assoc_N 1 (st_last_id s) ++ nz_assoc_N 2 (st_last_batch_nonce s) ++ nz_assoc_N 3 (st_out_seq s)
             ++ nz_assoc_N 4 (st_obs_cosmos_h s) ++ nz_assoc_N 5 (st_obs_ext_h s) ++ nz_assoc_N 6 (st_sigset_nonce s));
       vset (map (fun kv : bytes * (N * bytes) => VL [VB (fst kv); vNat (fst (snd kv)); VB (snd (snd kv))]) (st_status s));
       vset (map (fun kv : bytes * (Z * Z) => VL [VB (fst kv); VI (fst (snd kv)); VI (snd (snd kv))]) (st_feerec s));
       vset (map (fun t : token_info => VL [vNat (ti_id t); VB (ti_denom t); VB (ti_chain t); VB (ti_ext t); VI (ti_dec t); VI (ti_comm t)])
                 (st_tokens s)) ].

(* a case: (params tokens (op ...)) ; the model's answer: list of (code state) per op *)
(* op tag 11: a transaction that requests a batch and fails afterwards (DeliverTx drops its cache branch): no
   effect, code 1 *)
Definition hub_run (c : val) : val :=
  let p := dec_params (vnth 0 c) in
  let tokens := map dec_token (vL (vnth 1 c)) in
  VL (snd (fold_left (fun (acc : state * list val) ov =>
                        let (s, out) := acc in
                        if vI (vnth 0 ov) =? 11 then (s, out ++ [VL [VI 1; enc_state s]])
                        else
                        let (s', code) := step s (dec_op ov) in
                        (s', out ++ [VL [vNat code; enc_state s']]))
                     (vL (vnth 2 c)) (init_state p tokens, []))).

(* blocks suite (C05): inside a block nothing reads the stores between two transactions, so the harness observes the
   state only after Begin/EndBlockers, environment changes and restarts; transactions report their code alone *)
Definition blocks_run (c : val) : val :=
  let p := dec_params (vnth 0 c) in
  let tokens := map dec_token (vL (vnth 1 c)) in
  VL (snd (fold_left (fun (acc : state * list val) ov =>
                        let (s, out) := acc in
                        let k := vI (vnth 0 ov) in
                        if k =? 11 then (s, out ++ [VL [VI 1; VL []]])
                        else
                        let (s', code) := step s (dec_op ov) in
                        (s', out ++ [VL [vNat code; if (k =? 1) || (k =? 2) || (k =? 3) || (k =? 4) then VL [] else enc_state s']]))
                     (vL (vnth 2 c)) (init_state p tokens, []))).
