(* Genesis export / import of the bridge module (C15) on the hub model's state.
   Mirrors x/mhub2/keeper/genesis.go (after the fix: commit that exports the pool, the outgoing txs
   and the vote records): what ExportGenesis writes and InitGenesis reads back. *)
From V Require Import Base.Prelude Base.Val Num.Arith Hub.Types Hub.Model Hub.Codec Hub.Votes.
Local Open Scope Z_scope.

(* the state a chain initialised from the exported genesis starts with.  Bank balances and supply
   travel through x/bank's own genesis; staking, prices and holders are inputs. *)
Definition restart (s : state) : state :=
  mkState (st_params s) (st_tokens s) (st_bal s) (st_supply s)
          (st_pool s)                    (* UnbatchedSendToExternalTxs *)
          (st_batches s)                 (* OutgoingTxs, stored with their sequence numbers *)
          []                             (* LastSendToExternalID: no genesis field *)
          (st_last_batch_nonce s)        (* LastOutgoingBatchTxNonce *)
          (st_out_seq s)                 (* Sequence *)
          []                             (* LatestBlockHeight.CosmosHeight is re-stamped with the height of InitGenesis (0 here) *)
          (st_obs_ext_h s)               (* LatestBlockHeight.ExternalHeight *)
          []                             (* transaction statuses: no genesis field *)
          []                             (* fee records: no genesis field *)
          (st_minter_signers s) (st_oracle s) (st_height s) (st_time s)
          []                             (* LatestSignerSetTxNonce: no genesis field *)
          (st_pending s).

(* op tag 8 = restart; everything else is the hub model's step *)
Definition genesis_run (c : val) : val :=
  let p := dec_params (vnth 0 c) in
  let tokens := map dec_token (vL (vnth 1 c)) in
  VL (snd (fold_left (fun (acc : state * list val) (ov : val) =>
                        let (s, out) := acc in
                        if vI (vnth 0 ov) =? 8 then (restart s, out ++ [VL [VI 0; enc_state (restart s)]])
                        else if vI (vnth 0 ov) =? 11 then (s, out ++ [VL [VI 1; enc_state s]])
                        else let (s', code) := step s (dec_op ov) in (s', out ++ [VL [vNat code; enc_state s']]))
                     (vL (vnth 2 c)) (init_state p tokens, []))).

(* ---------- monitor: which observed components survive the round trip ---------- *)
Definition k15 (l : list Z) : val := VB (map Z.to_N l).
(* "C15/lost:" ++ component *)
Definition k_c15_prefix : list Z := [67;49;53;47;108;111;115;116;58].
Definition comp_names : list (list Z) :=
  [ [115;117;112;112;108;121];                                  (* supply *)
    [98;97;108;97;110;99;101;115];                              (* balances *)
    [112;111;111;108];                                          (* pool *)
    [98;97;116;99;104;101;115];                                 (* batches *)
    [99;111;117;110;116;101;114;115];                           (* counters (refined below) *)
    [115;116;97;116;117;115;101;115];                           (* statuses *)
    [102;101;101;45;114;101;99;111;114;100;115];                (* fee-records *)
    [116;111;107;101;110;45;108;105;115;116] ].                  (* token-list *)
Definition counter_names : list (Z * list Z) :=
  [ (1, [108;97;115;116;45;115;101;110;100;45;105;100]);                                   (* last-send-id *)
    (2, [108;97;115;116;45;98;97;116;99;104;45;110;111;110;99;101]);                       (* last-batch-nonce *)
    (3, [111;117;116;103;111;105;110;103;45;115;101;113;117;101;110;99;101]);              (* outgoing-sequence *)
    (4, [111;98;115;101;114;118;101;100;45;104;117;98;45;104;101;105;103;104;116]);        (* observed-hub-height *)
    (5, [111;98;115;101;114;118;101;100;45;101;120;116;45;104;101;105;103;104;116]);       (* observed-ext-height *)
    (6, [115;105;103;110;101;114;45;115;101;116;45;110;111;110;99;101]) ].                 (* signer-set-nonce *)

(* compare two unordered collections printed as ("set" ...) *)
Definition set_items (v : val) : list val := tl (vL v).
Definition subset_b (a b : list val) : bool := forallb (fun x => existsb (veqb x) b) a.
Definition same_set (a b : val) : bool :=
  subset_b (set_items a) (set_items b) && subset_b (set_items b) (set_items a).

Definition mon_C15_hub (c impl : val) : val :=
  let ops := vL (vnth 2 c) in
  let outs := vL impl in
  VL (snd (fold_left
    (fun (acc : nat * list val) (ov : val) =>
       let i := fst acc in
       (S i,
        snd acc ++
        (if (vI (vnth 0 ov) =? 8) && Nat.ltb 0 i then
           let before := vnth 1 (nth (i - 1) outs (VL [])) in
           let after := vnth 1 (nth i outs (VL [])) in
           flat_map (fun kn : nat * list Z =>
                       let k := fst kn in
                       if Nat.eqb k 4 then
                         (* counters one by one *)
                         flat_map (fun cn : Z * list Z =>
                                     let sel v := filter (fun x => vI (vnth 0 x) =? fst cn) (set_items (vnth 4 v)) in
                                     if subset_b (sel before) (sel after) && subset_b (sel after) (sel before) then []
                                     else [VL [k15 (k_c15_prefix ++ snd cn); VI (Z.of_nat i)]]) counter_names
                       else if same_set (vnth k before) (vnth k after) then []
                       else [VL [k15 (k_c15_prefix ++ snd kn); VI (Z.of_nat i)]])
                    (combine (seq 0 8) comp_names)
         else [])))
    ops (O, []))).

(* ---------- vote state over a restart ---------- *)
(* vote records, the last observed nonce, the validators' last nonces and the delegate keys all have
   genesis fields: the round trip is the identity on the votes model's state *)
Definition vrestart (s : vstate) : vstate := s.
Definition votesgen_run (c : val) : val :=
  VL (snd (fold_left (fun (acc : vstate * list val) (ov : val) =>
                        let (s, out) := acc in
                        if vI (vnth 0 ov) =? 4 then (vrestart s, out ++ [VL [VI 0; enc_vstate (vrestart s)]])
                        else let (s', code) := vstep s (dec_vop ov) in (s', out ++ [VL [vNat code; enc_vstate s']]))
                     (vL c) (vinit, []))).
Definition k_c15_votes : val := k15 (k_c15_prefix ++ [118;111;116;101;45;115;116;97;116;101]).   (* C15/lost:vote-state *)
Definition mon_C15_votes (c impl : val) : val :=
  let outs := vL impl in
  VL (snd (fold_left
    (fun (acc : nat * list val) (ov : val) =>
       let i := fst acc in
       (S i, snd acc ++
             (if (vI (vnth 0 ov) =? 4) && Nat.ltb 0 i then
                if veqb (vnth 1 (nth (i - 1) outs (VL []))) (vnth 1 (nth i outs (VL []))) && (vI (vnth 0 (nth i outs (VL []))) =? 0) then []
                else [VL [k_c15_votes; VI (Z.of_nat i)]]
              else [])))
    (vL c) (O, []))).

(* ---------- determinism suite (C06) ---------- *)
(* op 9: a transaction that rewrites the token list and then fails: no effect (code 1);
   op 10: all keeper objects are rebuilt over the same stores: no effect *)
Definition det_run (c : val) : val :=
  let p := dec_params (vnth 0 c) in
  let tokens := map dec_token (vL (vnth 1 c)) in
  VL (snd (fold_left (fun (acc : state * list val) (ov : val) =>
                        let (s, out) := acc in
                        if (vI (vnth 0 ov) =? 9) || (vI (vnth 0 ov) =? 11) then (s, out ++ [VL [VI 1; enc_state s]])
                        else if vI (vnth 0 ov) =? 10 then (s, out ++ [VL [VI 0; enc_state s]])
                        else let (s', code) := step s (dec_op ov) in (s', out ++ [VL [vNat code; enc_state s']]))
                     (vL (vnth 2 c)) (init_state p tokens, []))).

(* ---------- C05: block processing must return normally ---------- *)
(* outcome codes of the harness: 0 ok, 1 error, 2 panic, 3 did not return (watchdog) *)
Definition k_c05_begin : val := k15 [67;48;53;47;98;101;103;105;110;45;98;108;111;99;107;45;100;105;100;45;110;111;116;45;99;111;109;112;108;101;116;101].   (* C05/begin-block-did-not-complete *)
Definition k_c05_end : val := k15 [67;48;53;47;101;110;100;45;98;108;111;99;107;45;100;105;100;45;110;111;116;45;99;111;109;112;108;101;116;101].           (* C05/end-block-did-not-complete *)
Definition mon_block_codes (begin_tag end_tag : Z) (ops outs : list val) : val :=
  VL (snd (fold_left
    (fun (acc : nat * list val) (ov : val) =>
       let i := fst acc in
       let code := vI (vnth 0 (nth i outs (VL []))) in
       (S i, snd acc ++
             (if (vI (vnth 0 ov) =? begin_tag) && negb (code =? 0) then [VL [k_c05_begin; VI (Z.of_nat i); VI code]]
              else if (vI (vnth 0 ov) =? end_tag) && negb (code =? 0) then [VL [k_c05_end; VI (Z.of_nat i); VI code]]
              else [])))
    ops (O, []))).
Definition mon_C05_hub (c impl : val) : val := mon_block_codes 5 6 (vL (vnth 2 c)) (vL impl).
Definition mon_C05_votes (c impl : val) : val := mon_block_codes (-1) 2 (vL c) (vL impl).
Definition mon_C05_oracle (c impl : val) : val := mon_block_codes (-1) 3 (vL (vnth 1 c)) (vL impl).
