(* Votes model: claims of external events by validators, the per-validator contiguity rule and
   the EndBlocker tally.  Mirrors keeper/external_event_vote.go (recordEventVote,
   TryEventVoteRecord, getLastEventNonceByValidator), keeper/msg_server.go (getSignerValidator)
   and abci.go (eventVoteRecordTally) for ONE external chain (the store keys of different chains
   are disjoint).  The claim hash is an input (types/external_event.go Hash(), see C14); applying
   an event is abstracted to appending it to the log vs_applied and crediting its amount. *)
From V Require Import Base.Prelude Base.Val Num.Arith.
Local Open Scope Z_scope.

Record vrec := mkVrec {
  vr_nonce : N;
  vr_hash : bytes;
  vr_votes : list bytes;        (* validator operator addresses, in arrival order *)
  vr_accepted : bool;
  vr_amount : Z                 (* payload of the first claim that created the record *)
}.

Record sval := mkSval { sv_addr : bytes; sv_acc : bytes; sv_power : Z; sv_bonded : bool }.

Record vstate := mkVs {
  vs_records : list vrec;               (* ascending store-key order: nonce (8 bytes BE), then hash *)
  vs_last_observed : N;
  vs_last_by_val : list (bytes * N);
  vs_applied : list (N * bytes);        (* log of applied claims, oldest first *)
  vs_credited : Z;                      (* sum of the amounts of the applied claims *)
  vs_staking : list sval;               (* current staking snapshot (input) *)
  vs_orch : list (bytes * bytes)        (* orchestrator account -> validator operator (input, C17) *)
}.

Definition vinit : vstate := mkVs [] 0 [] [] 0 [] [].

(* staking reads *)
Definition find_val (st : list sval) (addr : bytes) : option sval := find (fun v => beqb (sv_addr v) addr) st.
Definition power_of (st : list sval) (addr : bytes) : Z :=
  match find_val st addr with Some v => if sv_bonded v then sv_power v else 0 | None => 0 end.
Definition total_power (st : list sval) : Z := zsum (map (fun v => if sv_bonded v then sv_power v else 0) st).

(* getSignerValidator: the orchestrator registry first, then the signer's own validator *)
Definition signer_validator (s : vstate) (signer : bytes) : res bytes :=
  let cand := match aget signer (vs_orch s) with
              | Some v => find_val (vs_staking s) v
              | None => find (fun v => beqb (sv_acc v) signer) (vs_staking s)
              end in
  match cand with
  | None => Err 1
  | Some v => if sv_bonded v then Ok (sv_addr v) else Err 2
  end.

(* getLastEventNonceByValidator *)
Definition last_nonce_of (s : vstate) (val : bytes) : N :=
  match aget val (vs_last_by_val s) with
  | Some n => n
  | None =>
      match vs_records s with
      | [] => vs_last_observed s
      | _ =>
          let lowest := fold_left (fun low r => if (vr_accepted r && N.ltb (vr_nonce r) low)%bool then vr_nonce r else low)
                                  (vs_records s) (vs_last_observed s) in
          if N.ltb 0 lowest then (lowest - 1)%N else 0%N
      end
  end.

Definition rec_is (nonce : N) (hash : bytes) (r : vrec) : bool := N.eqb (vr_nonce r) nonce && beqb (vr_hash r) hash.

(* The records are kept as an unordered collection with unique (nonce, hash) keys; the store's
   key order (nonce, then hash bytes) matters only when the tally iterates, and is recomputed
   there by sorting. *)
Fixpoint rec_update (r : vrec) (l : list vrec) : list vrec :=
  match l with
  | [] => [r]
  | x :: l' => if rec_is (vr_nonce r) (vr_hash r) x then r :: l' else x :: rec_update r l'
  end.

Definition rec_lt (a b : vrec) : bool :=
  N.ltb (vr_nonce a) (vr_nonce b) || (N.eqb (vr_nonce a) (vr_nonce b) && bltb (vr_hash a) (vr_hash b)).
Fixpoint rec_insert_sorted (r : vrec) (l : list vrec) : list vrec :=
  match l with
  | [] => [r]
  | x :: l' => if rec_lt r x then r :: l else x :: rec_insert_sorted r l'
  end.
Definition sort_recs (l : list vrec) : list vrec := fold_right rec_insert_sorted [] l.

(* recordEventVote *)
Definition vote (s : vstate) (signer : bytes) (nonce : N) (hash : bytes) (amount : Z) : res vstate :=
  let* val := signer_validator s signer in
  let last := last_nonce_of s val in
  if (negb (N.eqb nonce (last + 1)) && negb (N.eqb last 0))%bool then Err 3
  else
    let r := match find (rec_is nonce hash) (vs_records s) with
             | Some r => r
             | None => mkVrec nonce hash [] false amount
             end in
    let r' := mkVrec (vr_nonce r) (vr_hash r) (vr_votes r ++ [val]) (vr_accepted r) (vr_amount r) in
    Ok (mkVs (rec_update r' (vs_records s)) (vs_last_observed s) (aset val nonce (vs_last_by_val s))
             (vs_applied s) (vs_credited s) (vs_staking s) (vs_orch s)).

(* EventVoteRecordPowerThreshold (fix: rounded up) *)
Definition threshold (total : Z) : Z := (66 * total + 99) / 100.

(* power of the votes counted until the threshold is reached: Some (sum) if reached *)
Fixpoint count_votes (st : list sval) (required : Z) (votes : list bytes) (acc : Z) : option Z :=
  match votes with
  | [] => None
  | v :: rest => let acc' := acc + power_of st v in
                 if required <=? acc' then Some acc' else count_votes st required rest acc'
  end.

(* TryEventVoteRecord *)
Definition try_record (s : vstate) (r : vrec) : res vstate :=
  if vr_accepted r then Panic 1
  else
    match count_votes (vs_staking s) (threshold (total_power (vs_staking s))) (vr_votes r) 0 with
    | None => Ok s
    | Some _ =>
        if negb (N.eqb (vr_nonce r) (vs_last_observed s + 1)) then Panic 2
        else
          let r' := mkVrec (vr_nonce r) (vr_hash r) (vr_votes r) true (vr_amount r) in
          Ok (mkVs (rec_update r' (vs_records s)) (vr_nonce r) (vs_last_by_val s)
                   (vs_applied s ++ [(vr_nonce r, vr_hash r)]) (vs_credited s + vr_amount r)
                   (vs_staking s) (vs_orch s))
    end.

(* eventVoteRecordTally: the records as read at the start of the sweep, in (nonce, hash) order;
   a record is tried iff its nonce is lastObserved+1 at that moment *)
Definition tally (s : vstate) : res vstate :=
  fold_left (fun r rec0 =>
               let* st := r in
               if N.eqb (vr_nonce rec0) (vs_last_observed st + 1) then try_record st rec0 else Ok st)
            (sort_recs (vs_records s)) (Ok s).

Inductive vop :=
| VVote (signer : bytes) (nonce : N) (hash : bytes) (amount : Z)
| VTally
| VSetStaking (st : list sval) (orch : list (bytes * bytes)).

Definition vstep (s : vstate) (o : vop) : vstate * N :=
  match o with
  | VVote signer nonce hash amount =>
      match vote s signer nonce hash amount with
      | Ok s' => (s', 0%N) | Err _ => (s, 1%N) | Panic _ => (s, 2%N) end
  | VTally =>
      match tally s with
      | Ok s' => (s', 0%N) | Err _ => (s, 1%N) | Panic _ => (s, 2%N) end
  | VSetStaking st orch =>
      (mkVs (vs_records s) (vs_last_observed s) (vs_last_by_val s) (vs_applied s) (vs_credited s) st orch, 0%N)
  end.

Definition vrun (s : vstate) (ops : list vop) : vstate := fold_left (fun st o => fst (vstep st o)) ops s.

(* ---------- codec ---------- *)
Definition dec_sval (v : val) : sval := mkSval (vB (vnth 0 v)) (vB (vnth 1 v)) (vI (vnth 2 v)) (vgetbool (vnth 3 v)).
Definition dec_vop (v : val) : vop :=
  match vI (vnth 0 v) with
  | 1 => VVote (vB (vnth 1 v)) (vN (vnth 2 v)) (vB (vnth 3 v)) (vI (vnth 4 v))
  | 2 => VTally
  | _ => VSetStaking (map dec_sval (vL (vnth 1 v))) (map (fun x => (vB (vnth 0 x), vB (vnth 1 x))) (vL (vnth 2 v)))
  end.
Definition vset (l : list val) : val := VL (VB [115;101;116]%N :: l).
Definition enc_vstate (s : vstate) : val :=
  VL [ VL (map (fun r => VL [vNat (vr_nonce r); VB (vr_hash r); VL (map VB (vr_votes r)); vbool (vr_accepted r)]) (sort_recs (vs_records s)));
       vNat (vs_last_observed s);
       vset (map (fun kv : bytes * N => VL [VB (fst kv); vNat (snd kv)]) (vs_last_by_val s));
       VI (vs_credited s) ].
Definition votes_run (c : val) : val :=
  VL (snd (fold_left (fun (acc : vstate * list val) o =>
                        let (s, out) := acc in
                        let (s', code) := vstep s o in
                        (s', out ++ [VL [vNat code; enc_vstate s']]))
                     (map dec_vop (vL c)) (vinit, []))).
