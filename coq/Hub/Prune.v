(* Signer-set retention (C08, hub side of "in nonce order"): createSignerSetTxs followed by
   pruneSignerSetTxs in the BeginBlocker of one chain, and the attested SignerSetTxExecutedEvent
   (external_event_handler.go: setLastObservedSignerSetTx) applied by the EndBlocker.
   A signer set may leave the store only when a set with a HIGHER nonce has been observed as executed on
   the external side: until then a relayer (and, on Minter, the multisig's strictly consecutive nonce)
   still needs it. *)
From V Require Import Base.Prelude Base.Val Num.Arith Hub.SignerSet.
Local Open Scope Z_scope.

Record pstate := mkPs {
  ps_sets : sstate;                    (* latest nonce / latest set: createSignerSetTxs (C09) *)
  ps_stored : list (N * N);            (* (nonce, creation height) of the stored signer sets, ascending *)
  ps_observed : option N               (* nonce of the last observed (executed) signer set *)
}.

Definition pinit : pstate := mkPs (mkSs 0 None) [] None.

(* pruneSignerSetTxs at block `height` with SignedSignerSetTxsWindow = w *)
Definition prune (w height : N) (observed : option N) (stored : list (N * N)) : list (N * N) :=
  match observed with
  | None => stored
  | Some o =>
      if N.ltb height w then stored
      else filter (fun nh : N * N => negb (N.ltb (fst nh) o && N.ltb (snd nh) (height - w))) stored
  end.

(* BeginBlocker of one chain: createSignerSetTxs, then pruneSignerSetTxs.  GetLatestSignerSetTx reads the store:
   when every stored set has been pruned (possible only after an execution with a nonce above the latest one was
   attested) there is no latest set and a new one is created whatever the powers are. *)
Definition visible (s : pstate) : sstate :=
  match ps_stored s with
  | [] => mkSs (ss_latest_nonce (ps_sets s)) None
  | _ => ps_sets s
  end.

Definition pbegin (w : N) (s : pstate) (height : N) (vals : list bval) : res pstate :=
  let* ss' := begin_block_sets (visible s) height 0 vals in
  let stored1 := if N.eqb (ss_latest_nonce ss') (ss_latest_nonce (ps_sets s)) then ps_stored s
                 else ps_stored s ++ [(ss_latest_nonce ss', height)] in
  Ok (mkPs ss' (prune w height (ps_observed s) stored1) (ps_observed s)).

(* EndBlocker: the attested executions of this block, in nonce order of the events *)
Definition pend (s : pstate) (executed : list N) : pstate :=
  mkPs (ps_sets s) (ps_stored s) (fold_left (fun _ n => Some n) executed (ps_observed s)).

(* one block: (height, vals, executed signer-set nonces attested in this block) *)
Definition pblock (w : N) (s : pstate) (b : N * list bval * list N) : pstate * Z :=
  let '(height, vals, executed) := b in
  match pbegin w s height vals with
  | Ok s1 => (pend s1 executed, 0)
  | _ => (pend s executed, 2)
  end.

Definition prun (w : N) (blocks : list (N * list bval * list N)) : pstate :=
  fold_left (fun s b => fst (pblock w s b)) blocks pinit.

(* ---------- codec / co-execution ---------- *)
Definition enc_pstate (s : pstate) : val :=
  VL [vNat (ss_latest_nonce (ps_sets s));
      VL (map (fun nh : N * N => VL [vNat (fst nh); vNat (snd nh)]) (ps_stored s));
      match ps_observed s with Some o => VL [vNat o] | None => VL [] end].

Definition dec_pblock (v : val) : N * list bval * list N :=
  (vN (vnth 0 v), map dec_bval (vL (vnth 1 v)), map vN (vL (vnth 2 v))).

(* a case: (window (block ...)); output per block: (code state) *)
Definition prune_run (c : val) : val :=
  let w := vN (vnth 0 c) in
  VL (snd (fold_left (fun (acc : pstate * list val) bv =>
                        let (s, out) := acc in
                        let (s', code) := pblock w s (dec_pblock bv) in
                        (s', out ++ [VL [VI code; enc_pstate s']]))
                     (vL (vnth 1 c)) (pinit, []))).

(* ---------- monitor on the implementation's output ---------- *)
(* C08/unexecuted-signer-set-pruned *)
Definition k_c08_pruned : val :=
  VB (map Z.to_N [67;48;56;47;117;110;101;120;101;99;117;116;101;100;45;115;105;103;110;101;114;45;115;101;116;45;112;114;117;110;101;100]).

Fixpoint nseq (fuel : nat) (from : N) : list N :=
  match fuel with O => [] | S f => from :: nseq f (from + 1)%N end.

(* every nonce above the highest nonce ever observed as executed, up to the latest one, is still stored *)
Fixpoint mon_prune_fold (step : nat) (blocks outs : list val) (maxobs : N) : list val :=
  match blocks, outs with
  | b :: blocks', o :: outs' =>
      let st := vnth 1 o in
      let latest := vN (vnth 0 st) in
      let stored := map (fun x => vN (vnth 0 x)) (vL (vnth 1 st)) in
      (* the requirement is evaluated on the state after BeginBlocker + EndBlocker of this block, against the
         executions observed up to and including this block *)
      let maxobs' := fold_left N.max (map vN (vL (vnth 2 b))) maxobs in
      let need := nseq (N.to_nat (latest - maxobs')) (maxobs' + 1)%N in
      flat_map (fun n => if existsb (N.eqb n) stored then [] else [VL [k_c08_pruned; VI (Z.of_nat step); vNat n]]) need
      ++ mon_prune_fold (S step) blocks' outs' maxobs'
  | _, _ => []
  end.
Definition mon_C08_prune (c impl : val) : val := VL (mon_prune_fold 0 (vL (vnth 1 c)) (vL impl) 0%N).

(* C09/nonce on the same observations: the latest nonce never decreases, and every stored set carries its own nonce once *)
Definition k_c09_prune_nonce : val := VB (map Z.to_N [67;48;57;47;110;111;110;99;101]).
Fixpoint mon_c09_prune_fold (step : nat) (outs : list val) (prev_latest : N) : list val :=
  match outs with
  | [] => []
  | o :: outs' =>
      let st := vnth 1 o in
      let latest := vN (vnth 0 st) in
      let stored := map (fun x => vN (vnth 0 x)) (vL (vnth 1 st)) in
      (if N.ltb latest prev_latest then [VL [k_c09_prune_nonce; VI (Z.of_nat step); vNat prev_latest; vNat latest]] else [])
      ++ (if forallb (fun n => Nat.eqb (length (filter (N.eqb n) stored)) 1 && N.leb n latest) stored then []
          else [VL [k_c09_prune_nonce; VI (Z.of_nat step); VL (map vNat stored); vNat latest]])
      ++ mon_c09_prune_fold (S step) outs' latest
  end.
Definition mon_C09_prune (c impl : val) : val := VL (mon_c09_prune_fold 0 (vL impl) 0%N).
