(* Prelude: common imports, byte strings, association lists, result type. *)
From Coq Require Export List ZArith NArith Arith Bool Lia.
From Coq Require Export ZifyBool ZifyNat ZifyN.
Export ListNotations.

Ltac Zify.zify_post_hook ::= Z.div_mod_to_equations.

(* Byte strings are lists of N (each < 256 for real bytes).  Identifiers (denoms, accounts,
   chain ids, hashes) are byte strings compared by equality; store keys additionally by
   lexicographic order. *)
Definition bytes := list N.

Fixpoint beqb (a b : bytes) : bool :=
  match a, b with
  | [], [] => true
  | x :: a', y :: b' => N.eqb x y && beqb a' b'
  | _, _ => false
  end.

Lemma beqb_eq a b : beqb a b = true <-> a = b.
Proof.
  revert b; induction a as [|x a IH]; intros [|y b]; simpl; split; intro H;
    try reflexivity; try discriminate.
  - apply andb_true_iff in H as [H1 H2]. apply N.eqb_eq in H1. apply IH in H2. congruence.
  - inversion H; subst. rewrite N.eqb_refl. simpl. apply IH. reflexivity.
Qed.

Lemma beqb_refl a : beqb a a = true.
Proof. apply beqb_eq. reflexivity. Qed.

Lemma beqb_neq a b : beqb a b = false <-> a <> b.
Proof.
  split; intro H.
  - intro E. apply beqb_eq in E. congruence.
  - destruct (beqb a b) eqn:E; [apply beqb_eq in E; contradiction | reflexivity].
Qed.

Lemma beqb_sym a b : beqb a b = beqb b a.
Proof.
  destruct (beqb a b) eqn:E.
  - apply beqb_eq in E. subst. symmetry. apply beqb_refl.
  - symmetry. apply beqb_neq. apply beqb_neq in E. congruence.
Qed.

(* lexicographic comparison, shorter string first on a common prefix (bytes.Compare) *)
Fixpoint bcmp (a b : bytes) : comparison :=
  match a, b with
  | [], [] => Eq
  | [], _ :: _ => Lt
  | _ :: _, [] => Gt
  | x :: a', y :: b' =>
      match N.compare x y with
      | Eq => bcmp a' b'
      | c => c
      end
  end.

Definition bltb (a b : bytes) : bool := match bcmp a b with Lt => true | _ => false end.
Definition bleb (a b : bytes) : bool := match bcmp a b with Gt => false | _ => true end.

Lemma bcmp_eq a b : bcmp a b = Eq <-> a = b.
Proof.
  revert b; induction a as [|x a IH]; intros [|y b]; simpl; split; intro H;
    try reflexivity; try discriminate.
  - destruct (N.compare x y) eqn:C; try discriminate.
    apply N.compare_eq in C. apply IH in H. congruence.
  - inversion H; subst. rewrite N.compare_refl. apply IH. reflexivity.
Qed.

Lemma bcmp_antisym a b : bcmp b a = CompOpp (bcmp a b).
Proof.
  revert b; induction a as [|x a IH]; intros [|y b]; simpl; try reflexivity.
  rewrite (N.compare_antisym x y). destruct (N.compare x y); simpl; auto.
Qed.

Fixpoint is_prefix (p s : bytes) : bool :=
  match p, s with
  | [], _ => true
  | x :: p', y :: s' => N.eqb x y && is_prefix p' s'
  | _ :: _, [] => false
  end.

Lemma is_prefix_app p s : is_prefix p (p ++ s) = true.
Proof. induction p as [|x p IH]; simpl; [reflexivity|]. rewrite N.eqb_refl. exact IH. Qed.

Lemma is_prefix_spec p s : is_prefix p s = true <-> exists t, s = p ++ t.
Proof.
  revert s; induction p as [|x p IH]; intros s; simpl.
  - split; [intros _; exists s; reflexivity | reflexivity].
  - destruct s as [|y s]; split; intro H; try discriminate.
    + destruct H as [t Ht]. discriminate.
    + apply andb_true_iff in H as [H1 H2]. apply N.eqb_eq in H1. apply IH in H2 as [t Ht].
      exists t. subst. reflexivity.
    + destruct H as [t Ht]. inversion Ht; subst. rewrite N.eqb_refl. simpl. apply IH.
      exists t. reflexivity.
Qed.

(* ASCII helpers: string literals are written as lists of character codes by the harness;
   in the model a few fixed identifiers are needed. *)
Definition b_hub : bytes := [104;117;98]%N.                       (* "hub" *)
Definition b_minter : bytes := [109;105;110;116;101;114]%N.        (* "minter" *)
Definition b_ethereum : bytes := [101;116;104;101;114;101;117;109]%N. (* "ethereum" *)
Definition b_bsc : bytes := [98;115;99]%N.                         (* "bsc" *)
Definition b_eth : bytes := [101;116;104]%N.                       (* "eth" *)
Definition b_bnb : bytes := [98;110;98]%N.                         (* "bnb" *)

(* Association lists keyed by byte strings *)
Section Assoc.
  Context {V : Type}.
  Fixpoint aget (k : bytes) (m : list (bytes * V)) : option V :=
    match m with
    | [] => None
    | (k', v) :: m' => if beqb k k' then Some v else aget k m'
    end.
  Fixpoint aset (k : bytes) (v : V) (m : list (bytes * V)) : list (bytes * V) :=
    match m with
    | [] => [(k, v)]
    | (k', v') :: m' => if beqb k k' then (k, v) :: m' else (k', v') :: aset k v m'
    end.
  Fixpoint adel (k : bytes) (m : list (bytes * V)) : list (bytes * V) :=
    match m with
    | [] => []
    | (k', v') :: m' => if beqb k k' then m' else (k', v') :: adel k m'
    end.

  Lemma aget_aset_same k v m : aget k (aset k v m) = Some v.
  Proof.
    induction m as [|[k' v'] m IH]; simpl.
    - rewrite beqb_refl. reflexivity.
    - destruct (beqb k k') eqn:E; simpl; [rewrite beqb_refl; reflexivity | rewrite E; exact IH].
  Qed.

  Lemma aget_aset_other k k' v m : k <> k' -> aget k' (aset k v m) = aget k' m.
  Proof.
    intro Hne. induction m as [|[k2 v2] m IH]; simpl.
    - assert (beqb k' k = false) as -> by (apply beqb_neq; congruence). reflexivity.
    - destruct (beqb k k2) eqn:E; simpl.
      + apply beqb_eq in E. subst k2.
        assert (beqb k' k = false) as -> by (apply beqb_neq; congruence). reflexivity.
      + destruct (beqb k' k2); [reflexivity | exact IH].
  Qed.
End Assoc.

Definition agetd {V} (d : V) (k : bytes) (m : list (bytes * V)) : V :=
  match aget k m with Some v => v | None => d end.

(* Outcome of a handler.  Err = returned error; Panic = Go panic. *)
Inductive res (A : Type) : Type :=
| Ok (a : A)
| Err (code : N)
| Panic (code : N).
Arguments Ok {A} a.
Arguments Err {A} code.
Arguments Panic {A} code.

Definition bind {A B} (r : res A) (f : A -> res B) : res B :=
  match r with
  | Ok a => f a
  | Err c => Err c
  | Panic c => Panic c
  end.
Notation "'let*' x ':=' r 'in' k" := (bind r (fun x => k))
  (at level 200, x pattern, r at level 100, k at level 200).

Definition is_ok {A} (r : res A) : bool := match r with Ok _ => true | _ => false end.

(* sum of a list of integers *)
Definition zsum (l : list Z) : Z := fold_right Z.add 0%Z l.

Lemma zsum_app l1 l2 : zsum (l1 ++ l2) = (zsum l1 + zsum l2)%Z.
Proof. induction l1 as [|x l1 IH]; simpl; [reflexivity | rewrite IH; lia]. Qed.

Lemma zsum_nonneg l : Forall (fun x => (0 <= x)%Z) l -> (0 <= zsum l)%Z.
Proof. induction 1; simpl; lia. Qed.
