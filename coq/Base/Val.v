(* Val: the generic value type exchanged between the Go harness, the extracted model and
   the monitors.  Text syntax (written by harness/sexp.go, read by Extract/driver.ml):
     integer            123  -5
     byte string        "abc" (printable, no quote/backslash/space/paren)  or  x68656c (hex)
     list               ( v1 v2 ... )                                                     *)
From V Require Import Base.Prelude.

Inductive val : Type :=
| VI (z : Z)
| VB (b : bytes)
| VL (l : list val).

Definition vI (v : val) : Z := match v with VI z => z | _ => 0%Z end.
Definition vN (v : val) : N := Z.to_N (vI v).
Definition vB (v : val) : bytes := match v with VB b => b | _ => [] end.
Definition vL (v : val) : list val := match v with VL l => l | _ => [] end.
Definition vnth (n : nat) (v : val) : val := nth n (vL v) (VL []).
Definition vbool (b : bool) : val := VI (if b then 1 else 0)%Z.
Definition vgetbool (v : val) : bool := negb (Z.eqb (vI v) 0).
Definition vNat (n : N) : val := VI (Z.of_N n).

Fixpoint veqb (a b : val) {struct a} : bool :=
  match a, b with
  | VI x, VI y => Z.eqb x y
  | VB x, VB y => beqb x y
  | VL x, VL y =>
      (fix go (l1 l2 : list val) {struct l1} : bool :=
         match l1, l2 with
         | [], [] => true
         | u :: l1', w :: l2' => veqb u w && go l1' l2'
         | _, _ => false
         end) x y
  | _, _ => false
  end.

Definition vres {A} (f : A -> val) (r : res A) : val :=
  match r with
  | Ok a => VL [VB [111;107]%N; f a]                (* "ok" *)
  | Err _ => VL [VB [101;114;114]%N]                 (* "err" *)
  | Panic _ => VL [VB [112;97;110;105;99]%N]         (* "panic" *)
  end.
