(* C01 — the history theorem: along every history without token-list changes the potential of every asset
   is bounded by what the attested deposits locked. *)
From V Require Import Base.Prelude Base.Val Num.Arith Hub.Types Hub.Model Hub.Codec Hub.Monitor Hub.World
     Proofs.ListX Proofs.HubInv Proofs.C11Proofs Proofs.C12Proofs Proofs.C01Proofs Proofs.C01Moves Proofs.C01Ok.
Local Open Scope Z_scope.

Definition le18 (toks : list token_info) : Prop := forall t, In t toks -> ti_dec t <= 18.

(* the hub invariant, a consistent token table with at most 18 external decimals, well-formed entries *)
Definition Good (p : params) (toks : list token_info) (s : state) : Prop :=
  InvP p s /\ st_tokens s = toks /\ AllOk s.

Section Run.
Variable p : params.
Variable toks : list token_info.
Hypothesis Htoks : tokens_ok toks.
Hypothesis H18 : le18 toks.
Hypothesis Hcomm : forall t, In t toks -> 0 <= ti_comm t.
Hypothesis Hnd : NoDup (p_chains p).

Lemma good_sub s s' : Good p toks s -> InvP p s' -> Sub s s' -> Good p toks s'.
Proof.
  intros [_ [T A]] HI HS. split; [exact HI|]. split; [destruct HS as [T' _]; congruence | eapply AllOk_Sub; eauto].
Qed.

Lemma good_exec_ok s chain e : Good p toks s -> exec_ok s chain e.
Proof.
  intros [[HI _] [T A]]. destruct e; simpl; auto.
  intros b ti Hf Hext. apply find_some in Hf as [Hb Hbis].
  assert (Hkey : chain = b_chain b /\ coin = b_ext b).
  { unfold batch_is in Hbis. apply andb_true_iff in Hbis as [X3 _]. apply andb_true_iff in X3 as [X1 X2]. apply beqb_eq in X1, X2. auto. }
  destruct Hkey as [Kc Ke]. split.
  - apply H18. rewrite <- T. apply find_some in Hext. tauto.
  - intros x Hx. destruct (inv_batch_own s HI b x Hb Hx) as [B C].
    destruct (A x) as [t [I1 [I2 [N1 [N2 N3]]]]]; [unfold entries; apply in_or_app; right; apply in_batch_txs; exists b; auto|].
    rewrite B, C, <- Kc in I2. rewrite Hext in I2. inversion I2; subst t.
    unfold entry_denom. rewrite I1. auto.
Qed.

Definition dep_pos (chain : bytes) (e : event) (d : bytes) : Z := Z.max 0 (dep_value toks chain e d).

Lemma phi_set_obs s a b d : phi (set_obs s a b) d = phi s d.
Proof. reflexivity. Qed.

Lemma apply_event_good s chain e d : Good p toks s -> In chain (p_chains p) ->
  Good p toks (fst (apply_event s chain e)) /\ phi (fst (apply_event s chain e)) d <= phi s d + dep_pos chain e d /\
  st_pending (fst (apply_event s chain e)) = st_pending s.
Proof.
  intros HG Hch. pose proof HG as [[HI Hp] [T A]].
  assert (HIP : InvP p (fst (apply_event s chain e))).
  { split; [apply apply_event_inv; [exact HI | rewrite Hp; exact Hch] | rewrite apply_event_params; exact Hp]. }
  unfold apply_event in *. set (s0 := set_obs s _ _) in *.
  assert (HG0 : Good p toks s0).
  { split; [split; [eapply Inv_core; [|exact HI]; reflexivity | exact Hp]|]. split; [exact T | exact A]. }
  destruct (handle_event s0 chain e) as [s'|?|?] eqn:Hh; cbn [fst] in *.
  - pose proof HG0 as [[HI0 _] [T0 A0]].
    pose proof (handle_event_sub s0 chain e s' HI0 ltac:(rewrite T0; exact Htoks) Hh) as HS.
    split; [|split; [|destruct HS as [_ [Pn _]]; exact Pn]].
    + eapply good_sub; [exact HG0 | exact HIP | exact HS].
    + pose proof (handle_event_phi s0 chain e s' d HI0 ltac:(rewrite T0; exact Htoks) (good_exec_ok s0 chain e HG0) Hh) as Hle.
      rewrite T0 in Hle. unfold dep_pos. change (phi s0 d) with (phi s d) in Hle. lia.
  - split; [exact HG0 | split; [unfold dep_pos; change (phi s0 d) with (phi s d); lia | reflexivity]].
  - split; [exact HG0 | split; [unfold dep_pos; change (phi s0 d) with (phi s d); lia | reflexivity]].
Qed.

Definition pending_value (chain : bytes) (l : list (bytes * event)) (d : bytes) : Z :=
  zsum (map (fun ce : bytes * event => if beqb (fst ce) chain then dep_pos chain (snd ce) d else 0) l).

Lemma pending_value_nonneg chain l d : 0 <= pending_value chain l d.
Proof.
  unfold pending_value. apply zsum_nonneg. apply Forall_forall. intros x Hx. apply in_map_iff in Hx as [ce [<- _]].
  destruct (beqb (fst ce) chain); [unfold dep_pos; lia | lia].
Qed.

Lemma apply_list_good chain d l : forall s, Good p toks s -> In chain (p_chains p) ->
  let s' := fold_left (fun st (ce : bytes * event) => if beqb (fst ce) chain then fst (apply_event st chain (snd ce)) else st) l s in
  Good p toks s' /\ phi s' d <= phi s d + pending_value chain l d /\ st_pending s' = st_pending s.
Proof.
  induction l as [|[c e] l IH]; intros s HG Hch; cbn [fold_left]; [split; [exact HG | split; [unfold pending_value; simpl; lia | reflexivity]]|].
  unfold pending_value. cbn [map zsum fold_right fst snd]. change (fold_right Z.add 0) with zsum. fold (pending_value chain l d).
  destruct (beqb c chain).
  - destruct (apply_event_good s chain e d HG Hch) as [G1 [P1 Q1]]. destruct (IH _ G1 Hch) as [G2 [P2 Q2]]. split; [exact G2 | split; [lia | congruence]].
  - destruct (IH _ HG Hch) as [G2 [P2 Q2]]. split; [exact G2 | split; [lia | exact Q2]].
Qed.

(* one refund (cancel or expiry) in a good state *)
Lemma cancel_send_good s chain id sender s' d : Good p toks s -> In chain (KC s) ->
  cancel_send s chain id sender = Ok s' -> Good p toks s' /\ phi s' d <= phi s d /\ st_pending s' = st_pending s.
Proof.
  intros HG Hch H. pose proof HG as [[HI Hp] [T A]].
  assert (HIP : InvP p s') by (split; [eapply cancel_send_inv; eauto | rewrite (cancel_send_params _ _ _ _ _ H); exact Hp]).
  pose proof (cancel_send_sub s chain id sender s' ltac:(rewrite T; exact Htoks) H) as HS.
  split; [eapply good_sub; [exact HG | exact HIP | exact HS]|].
  split; [|destruct HS as [_ [Pn _]]; exact Pn].
  destruct (find_in_pool s chain id) as [e|] eqn:Hf; [|unfold cancel_send in H; rewrite Hf in H; discriminate].
  destruct (find_in_pool_prefix _ _ _ _ Hf) as [Hin [_ Hpre]].
  destruct (A e ltac:(unfold entries; apply in_or_app; left; exact Hin)) as [t [I1 _]].
  assert (Hce : s_chain e = chain).
  { destruct (inv_chains s HI e ltac:(apply in_or_app; left; exact Hin)) as [Hk _].
    apply is_prefix_spec in Hpre as [r Hr]. unfold pool_key in Hr.
    destruct (app_eq_prefix _ _ _ _ Hr) as [Hq|Hq]; [apply (inv_prefix_free s HI); auto | symmetry; apply (inv_prefix_free s HI); auto]. }
  eapply cancel_send_phi; [exact HI | rewrite T; exact Htoks | exact Hf | exact Hce | exact I1 | exact H].
Qed.

Lemma refund_expired_good s chain s' d : Good p toks s -> In chain (p_chains p) ->
  refund_expired_chain s chain = Ok s' -> Good p toks s' /\ phi s' d <= phi s d /\ st_pending s' = st_pending s.
Proof.
  intros HG Hch H. unfold refund_expired_chain in H. revert H.
  apply (fold_res_inv (fun st => Good p toks st /\ phi st d <= phi s d /\ st_pending st = st_pending s)).
  - intros st e st' [Hst [Hle Hpn]] Hf.
    destruct (negb (fits256 _)); [inversion Hf; subst st'; split; [assumption | split; assumption]|].
    destruct (cancel_send st chain (s_id e) (s_sender e)) as [st2|?|?] eqn:Hc; [| |inversion Hf; subst st'; split; [assumption | split; assumption]].
    + inversion Hf; subst st'.
      assert (Hk : In chain (KC st)) by (destruct Hst as [[_ Hp] _]; unfold KC; rewrite Hp; right; exact Hch).
      destruct (cancel_send_good st chain (s_id e) (s_sender e) st2 d Hst Hk Hc) as [G2 [P2 Q2]]. split; [exact G2 | split; [lia | congruence]].
    + inversion Hf; subst st'. split; [assumption | split; assumption].
  - intros s0 E. inversion E; subst s0. split; [exact HG | split; [lia | reflexivity]].
Qed.

Definition pending_total (l : list (bytes * event)) (d : bytes) : Z :=
  zsum (map (fun ce : bytes * event => dep_pos (fst ce) (snd ce) d) l).

Lemma apply_pending_good s chain d : Good p toks s -> In chain (p_chains p) ->
  Good p toks (apply_pending s chain) /\ phi (apply_pending s chain) d <= phi s d + pending_value chain (st_pending s) d /\
  st_pending (apply_pending s chain) = st_pending s.
Proof. intros HG Hch. unfold apply_pending. apply (apply_list_good chain d (st_pending s) s HG Hch). Qed.

(* ---------- EndBlocker ---------- *)
Lemma dep_pos_nonneg c e d : 0 <= dep_pos c e d.
Proof. unfold dep_pos. lia. Qed.

Lemma pending_total_nonneg l d : 0 <= pending_total l d.
Proof.
  unfold pending_total. apply zsum_nonneg. apply Forall_forall. intros x Hx. apply in_map_iff in Hx as [ce [<- _]]. apply dep_pos_nonneg.
Qed.

Lemma indicator_sum_le (x : bytes) (f : bytes -> Z) (l : list bytes) : NoDup l -> (forall c, 0 <= f c) ->
  zsum (map (fun c => if beqb x c then f c else 0) l) <= f x.
Proof.
  induction l as [|c l IH]; intros Hn Hf; simpl; [apply Hf|]. inversion Hn as [|? ? Hnot Hn']; subst.
  destruct (beqb x c) eqn:E.
  - apply beqb_eq in E. subst c.
    assert (zsum (map (fun c => if beqb x c then f c else 0) l) = 0) as ->; [|lia].
    clear IH Hn Hn'. induction l as [|c l IH]; simpl; [reflexivity|].
    destruct (beqb x c) eqn:E; [apply beqb_eq in E; subst; exfalso; apply Hnot; left; reflexivity|].
    rewrite IH; [reflexivity | intro K; apply Hnot; right; exact K].
  - specialize (IH Hn' Hf). lia.
Qed.

Lemma chains_sum_le l d : forall chains, NoDup chains ->
  zsum (map (fun c => pending_value c l d) chains) <= pending_total l d.
Proof.
  induction l as [|[c0 e] l IH]; intros chains Hn.
  - unfold pending_value, pending_total. cbn [map zsum fold_right]. induction chains as [|c chains IHc]; cbn [map zsum fold_right]; [lia|]. inversion Hn; subst. change (fold_right Z.add 0) with zsum in *. specialize (IHc ltac:(assumption)). lia.
  - specialize (IH chains Hn).
    assert (E : zsum (map (fun c => pending_value c ((c0, e) :: l) d) chains) =
                zsum (map (fun c => if beqb c0 c then dep_pos c e d else 0) chains) + zsum (map (fun c => pending_value c l d) chains)).
    { clear. induction chains as [|c chains IHc]; simpl; [reflexivity|].
      rewrite IHc. unfold pending_value at 1. cbn [map zsum fold_right fst snd]. change (fold_right Z.add 0) with zsum.
      fold (pending_value c l d). lia. }
    rewrite E. pose proof (indicator_sum_le c0 (fun c => dep_pos c e d) chains Hn (fun c => dep_pos_nonneg c e d)) as Hi.
    unfold pending_total in *. cbn [map zsum fold_right fst snd]. change (fold_right Z.add 0) with zsum. lia.
Qed.

Lemma end_block_good s s' d : Good p toks s -> end_block s = Ok s' ->
  Good p toks s' /\ phi s' d <= phi s d + pending_total (st_pending s) d /\ st_pending s' = [].
Proof.
  intros HG H. pose proof HG as [[HI Hp] [T A]].
  assert (HIP : InvP p s') by (eapply end_block_inv; [split; [exact HI | exact Hp] | exact H]).
  unfold end_block in H.
  match type of H with bind ?r _ = _ => destruct r as [s1|?|?] eqn:Hr; simpl in H; try discriminate end.
  inversion H; subst s'. clear H.
  set (L := st_pending s) in *.
  assert (G : forall l, (forall c, In c l -> In c (p_chains p)) -> forall r s2 B,
              (forall s0, r = Ok s0 -> Good p toks s0 /\ phi s0 d <= B /\ st_pending s0 = L) ->
              fold_left (fun r chain => bind r (fun st => refund_expired_chain (apply_pending st chain) chain)) l r = Ok s2 ->
              Good p toks s2 /\ phi s2 d <= B + zsum (map (fun c => pending_value c L d) l) /\ st_pending s2 = L).
  { induction l as [|c l IH]; cbn [fold_left map zsum fold_right]; intros Hl r s2 B Hr0 Hf.
    - destruct (Hr0 s2 Hf) as [X1 [X2 X3]]. split; [exact X1 | split; [lia | exact X3]].
    - change (fold_right Z.add 0) with zsum.
      assert (Hstep : forall s0, bind r (fun st => refund_expired_chain (apply_pending st c) c) = Ok s0 ->
                Good p toks s0 /\ phi s0 d <= B + pending_value c L d /\ st_pending s0 = L).
      { intros s0 E. destruct r as [st|?|?]; simpl in E; try discriminate.
        destruct (Hr0 st eq_refl) as [X1 [X2 X3]].
        assert (Hc : In c (p_chains p)) by (apply Hl; left; reflexivity).
        destruct (apply_pending_good st c d X1 Hc) as [A1 [A2 A3]].
        destruct (refund_expired_good _ c s0 d A1 Hc E) as [R1 [R2 R3]].
        split; [exact R1 | split; [rewrite X3 in A2; lia | congruence]]. }
      destruct (IH ltac:(intros c' Hc'; apply Hl; right; exact Hc') _ s2 (B + pending_value c L d) Hstep Hf) as [Y1 [Y2 Y3]].
      split; [exact Y1 | split; [lia | exact Y3]]. }
  destruct (G (p_chains p) ltac:(auto) (Ok s) s1 (phi s d)) as [Z1 [Z2 Z3]].
  - intros s0 E. inversion E; subst s0. split; [exact HG | split; [lia | reflexivity]].
  - rewrite <- Hp. exact Hr.
  - destruct Z1 as [_ [T1 A1]].
    split; [split; [exact HIP | split; [exact T1 | exact A1]]|].
    split; [|reflexivity].
    change (phi (set_pending s1 []) d) with (phi s1 d).
    pose proof (chains_sum_le L d (p_chains p) Hnd). lia.
Qed.

(* ---------- one operation ---------- *)
Definition Psi (s : state) (d : bytes) : Z := phi s d + pending_total (st_pending s) d.

(* what a history may contain: non-negative coins in a withdrawal request (ValidateBasic), and an
   environment change that leaves the token list alone *)
Definition op_wf (o : op) : Prop :=
  match o with
  | OpSend _ _ _ _ amount fee _ => 0 <= amount /\ 0 <= fee
  | OpSetEnv tokens _ _ => tokens = toks
  | _ => True
  end.

Definition op_dep (o : op) (d : bytes) : Z :=
  match o with OpEvent chain e => dep_pos chain e d | _ => 0 end.

Lemma good_same s s' : Good p toks s -> InvP p s' -> st_tokens s' = st_tokens s -> entries s' = entries s -> Good p toks s'.
Proof.
  intros [_ [T A]] HI T' E. split; [exact HI|]. split; [congruence|]. unfold AllOk in *. rewrite T', E. exact A.
Qed.

Lemma step_good s o d : Good p toks s -> op_wf o ->
  Good p toks (fst (step s o)) /\ Psi (fst (step s o)) d <= Psi s d + op_dep o d.
Proof.
  intros HG Hwf. pose proof HG as [[HI Hp] [T A]].
  pose proof (step_inv p s o (conj HI Hp)) as HIP. unfold Psi.
  destruct o as [sender chain rcpt denom a f h|sender chain id|chain denom|chain e|hh tt force| |tokens signers oracle];
    cbn [step op_dep] in *.
  - destruct Hwf as [Ha Hf].
    destruct (msg_send s sender chain rcpt denom a f h) as [[s' id]|?|?] eqn:H; cbn [deliver fst] in *; [|split; [exact HG | lia]..].
    assert (Hc : forall ti, In ti (st_tokens s) -> 0 <= commission_of (holder_rate s [sender; rcpt] (ti_comm ti)) (a + f)).
    { intros ti Hti. rewrite T in Hti. apply commission_of_bounds; [|lia]. unfold holder_rate. apply commission_rate_bounds. apply Hcomm. exact Hti. }
    pose proof (msg_send_phi s sender chain rcpt denom a f h s' id d ltac:(rewrite T; exact Htoks) Hf Hc H) as Hle.
    assert (HS : Sub s s').
    { unfold msg_send in H. destruct (negb _); [discriminate|].
      destruct (denom_to_token (st_tokens s) chain denom) as [ti|] eqn:Ht; [|discriminate].
      destruct (denom_to_token_spec _ _ _ _ Ht) as [Hin _].
      destruct (_ <? 0) eqn:En; [discriminate|]. apply Z.ltb_ge in En.
      eapply create_send_sub; [rewrite T; exact Htoks | exact En | exact Hf | apply Hc; exact Hin | exact H]. }
    split; [eapply good_sub; eauto|]. destruct HS as [_ [Pn _]]. rewrite Pn. lia.
  - unfold msg_cancel in *. destruct (negb (chain_ok (st_params s) chain)) eqn:Ec; cbn [deliver fst] in *; [split; [exact HG | lia]|].
    apply negb_false_iff in Ec. apply chain_ok_in in Ec.
    destruct (cancel_send s chain id sender) as [s'|?|?] eqn:H; cbn [deliver fst] in *; [|split; [exact HG | lia]..].
    destruct (cancel_send_good s chain id sender s' d HG ltac:(unfold KC; right; exact Ec) H) as [G1 [P1 Q1]].
    split; [exact G1 | rewrite Q1; lia].
  - destruct (msg_request_batch s chain denom) as [s'|?|?] eqn:H; cbn [deliver fst] in *; [|split; [exact HG | lia]..].
    pose proof (msg_request_batch_phi s chain denom s' d HI H) as Hphi.
    assert (HS : Sub s s').
    { unfold msg_request_batch in H. destruct (negb _); [discriminate|].
      destruct (denom_to_token _ _ _) as [ti|]; [|discriminate].
      destruct (build_batch s chain (ti_ext ti)) as [[s2 ob]|?|?] eqn:Hb; simpl in H; try discriminate.
      inversion H; subst s2. eapply build_batch_sub; exact Hb. }
    split; [eapply good_sub; eauto|]. destruct HS as [_ [Pn _]]. rewrite Pn. lia.
  - cbn [fst] in *. split; [eapply good_same; [exact HG | exact HIP | reflexivity | reflexivity]|].
    cbn [st_pending set_pending]. change (phi (set_pending s (st_pending s ++ [(chain, e)])) d) with (phi s d).
    unfold pending_total. rewrite map_app, zsum_app. simpl. lia.
  - set (s0 := set_env s (st_tokens s) (st_minter_signers s) (st_oracle s) hh tt) in *.
    assert (HI0 : InvP p s0) by (split; [eapply Inv_core; [|exact HI]; reflexivity | exact Hp]).
    assert (HG0 : Good p toks s0) by (eapply good_same; [exact HG | exact HI0 | reflexivity | reflexivity]).
    destruct (begin_block s0 force) as [s'|?|?] eqn:H; cbn [deliver fst] in *;
      [|split; [exact HG0 | change (phi s0 d) with (phi s d); change (st_pending s0) with (st_pending s); lia]..].
    pose proof (begin_block_phi p s0 force s' d HI0 H) as Hphi.
    pose proof (begin_block_sub p s0 force s' HI0 H) as HS.
    split; [eapply good_sub; eauto|]. destruct HS as [_ [Pn _]]. rewrite Pn, Hphi.
    change (phi s0 d) with (phi s d); change (st_pending s0) with (st_pending s); lia.
  - destruct (end_block s) as [s'|?|?] eqn:H; cbn [deliver fst] in *; [|split; [exact HG | lia]..].
    destruct (end_block_good s s' d HG H) as [G1 [P1 Q1]]. split; [exact G1|]. rewrite Q1. unfold pending_total at 1. simpl. lia.
  - cbn [op_wf] in Hwf. subst tokens. cbn [fst] in *. split; [|apply Z.eq_le_incl; rewrite Z.add_0_r].
    + destruct HG as [_ [T0 A0]]. split; [exact HIP|]. split; [reflexivity|]. unfold AllOk in *. cbn [st_tokens set_env]. rewrite <- T0. exact A0.
    + unfold phi, supply. cbn [st_tokens st_pool st_batches st_supply st_pending set_env]. rewrite T. reflexivity.
Qed.

(* ---------- every history ---------- *)
Definition deposits (ops : list op) (d : bytes) : Z := zsum (map (fun o => op_dep o d) ops).

Lemma run_good ops d : forall s, Good p toks s -> Forall op_wf ops ->
  Good p toks (run s ops) /\ Psi (run s ops) d <= Psi s d + deposits ops d.
Proof.
  induction ops as [|o ops IH]; intros s HG Hwf; cbn [run fold_left].
  - split; [exact HG | unfold deposits; simpl; lia].
  - inversion Hwf as [|? ? Ho Hrest]; subst. destruct (step_good s o d HG Ho) as [G1 P1].
    destruct (IH _ G1 Hrest) as [G2 P2]. split; [exact G2|].
    unfold run in *. unfold deposits in *. cbn [map zsum fold_right]. change (fold_right Z.add 0) with zsum. lia.
Qed.

Lemma init_good : prefix_free (b_minter :: p_chains p) -> Good p toks (init_state p toks).
Proof.
  intro Hpf. split; [apply init_inv; exact Hpf|]. split; [reflexivity|]. intros e He. unfold entries in He. simpl in He. contradiction.
Qed.

(* the hub never owes more of an asset than the attested deposits of it brought in *)
Theorem history_solvent ops d : prefix_free (b_minter :: p_chains p) -> Forall op_wf ops ->
  phi (run (init_state p toks) ops) d <= deposits ops d.
Proof.
  intros Hpf Hwf. destruct (run_good ops d _ (init_good Hpf) Hwf) as [_ Hle].
  unfold Psi in Hle. pose proof (pending_total_nonneg (st_pending (run (init_state p toks) ops)) d).
  assert (phi (init_state p toks) d = 0) as E0 by reflexivity.
  assert (pending_total (st_pending (init_state p toks)) d = 0) as E1 by reflexivity.
  lia.
Qed.
End Run.
