(* C18 — oracle: outputs change only at epoch boundaries, on a distinct-validator quorum; stored
   prices are weighted medians; holders need more than two thirds of the stake on one list. *)
From V Require Import Base.Prelude Base.Val Num.Arith Oracle.Oracle Proofs.ListX Proofs.RegistryInv.
From Coq Require Import Sorting.Sorted.
Local Open Scope Z_scope.
Ltac Zify.zify_post_hook ::= Z.div_mod_to_equations.

(* ---------- outputs change only at an epoch boundary ---------- *)
Definition boundary (o : oop) : bool := match o with OEndBlock h => N.eqb (h mod 5) 0 | _ => false end.
Definition outputs (s : ostate) : N * option (list (bytes * Z)) * option (list (bytes * Z)) :=
  (os_epoch s, os_prices s, os_holders s).

Lemma step_outputs s o : boundary o = false -> outputs (fst (ostep s o)) = outputs s.
Proof.
  destruct o as [a e p|a e h|h|vals]; simpl; intro Hb.
  - unfold price_claim. destruct (negb (is_val s a)); [reflexivity|].
    destruct (negb (N.eqb (os_epoch s) e)); [reflexivity|]. destruct (negb (has_required s p)); reflexivity.
  - unfold holders_claim. destruct (negb (is_val s a)); [reflexivity|].
    destruct (negb (N.eqb (os_epoch s) e)); reflexivity.
  - rewrite Hb. reflexivity.
  - reflexivity.
Qed.

Lemma run_outputs ops : forall s, Forall (fun o => boundary o = false) ops -> outputs (orun s ops) = outputs s.
Proof.
  induction ops as [|o ops IH]; intros s H; [reflexivity|]. inversion H as [|? ? Ho Hr]; subst.
  unfold orun in *. simpl. rewrite IH by exact Hr. apply step_outputs. exact Ho.
Qed.

Lemma step_boundary s o : boundary o = true -> fst (ostep s o) = process_epoch s.
Proof. destruct o as [a e p|a e h|h|vals]; simpl; try discriminate. intro H. rewrite H. reflexivity. Qed.

(* ---------- claims: who counts, and with what ---------- *)
Lemma existsb_beqb v l : existsb (beqb v) l = true <-> In v l.
Proof.
  rewrite existsb_exists. split.
  - intros [x [Hx E]]. apply beqb_eq in E. subst. exact Hx.
  - intro H. exists v. split; [exact H | apply beqb_refl].
Qed.

Lemma add_vote_in votes v x : In x (add_vote votes v) <-> x = v \/ In x votes.
Proof.
  unfold add_vote. destruct (existsb (beqb v) votes) eqn:E.
  - apply existsb_beqb in E. split; [auto | intros [->|H]; auto].
  - rewrite in_app_iff. simpl. intuition.
Qed.

Lemma add_vote_nodup votes v : NoDup votes -> NoDup (add_vote votes v).
Proof.
  unfold add_vote. intro H. destruct (existsb (beqb v) votes) eqn:E; [exact H|].
  apply NoDup_app_iff. repeat split; [exact H | constructor; [intros [] | constructor] |].
  intros x Hx [<-|[]]. apply existsb_beqb in Hx. congruence.
Qed.

Record OInv (s : ostate) : Prop := mkOInv {
  oi_pvotes : NoDup (os_price_votes s);
  oi_hvotes : NoDup (os_holder_votes s);
  oi_pkeys : ukeys (os_price_claims s);
  oi_hkeys : ukeys (os_holder_claims s);
  (* the voters are exactly the validators with a stored report of this epoch *)
  oi_pdom : forall v, In v (os_price_votes s) <-> In v (map fst (os_price_claims s));
  oi_hdom : forall v, In v (os_holder_votes s) <-> In v (map fst (os_holder_claims s))
}.

Lemma oinit_inv r : OInv (oinit r).
Proof. split; simpl; try constructor; tauto. Qed.

Lemma process_epoch_inv s : OInv (process_epoch s).
Proof. split; simpl; try constructor; tauto. Qed.

Lemma price_claim_inv s a e p s' : OInv s -> price_claim s a e p = Ok s' -> OInv s'.
Proof.
  intros [H1 H2 H3 H4 H5 H6]. unfold price_claim.
  destruct (negb (is_val s a)); [discriminate|]. destruct (negb (N.eqb (os_epoch s) e)).
  { intro E. inversion E; subst. split; assumption. }
  destruct (negb (has_required s p)); [discriminate|]. intro E. inversion E; subst; clear E.
  destruct (aset_ukeys a p _ H3) as [K1 K2].
  split; simpl; auto.
  - apply add_vote_nodup. exact H1.
  - intro v. rewrite add_vote_in, K2, H5. tauto.
Qed.

Lemma holders_claim_inv s a e h s' : OInv s -> holders_claim s a e h = Ok s' -> OInv s'.
Proof.
  intros [H1 H2 H3 H4 H5 H6]. unfold holders_claim.
  destruct (negb (is_val s a)); [discriminate|]. destruct (negb (N.eqb (os_epoch s) e)).
  { intro E. inversion E; subst. split; assumption. }
  intro E. inversion E; subst; clear E.
  destruct (aset_ukeys a h _ H4) as [K1 K2].
  split; simpl; auto.
  - apply add_vote_nodup. exact H2.
  - intro v. rewrite add_vote_in, K2, H6. tauto.
Qed.

Lemma ostep_inv s o : OInv s -> OInv (fst (ostep s o)).
Proof.
  intro H. destruct o as [a e p|a e h|h|vals]; simpl.
  - destruct (price_claim s a e p) eqn:E; simpl; auto. eapply price_claim_inv; eauto.
  - destruct (holders_claim s a e h) eqn:E; simpl; auto. eapply holders_claim_inv; eauto.
  - destruct (N.eqb (h mod 5) 0); [apply process_epoch_inv | exact H].
  - destruct H as [H1 H2 H3 H4 H5 H6]. split; assumption.
Qed.

Lemma orun_inv ops : forall s, OInv s -> OInv (orun s ops).
Proof.
  induction ops as [|o ops IH]; intros s H; [exact H|]. unfold orun in *. simpl. apply IH. apply ostep_inv. exact H.
Qed.

(* the accepted report replaces the validator's earlier one and nobody else's; reports for another
   epoch change nothing; strangers and incomplete price lists are refused *)
Lemma price_claim_latest s a e p s' :
  price_claim s a e p = Ok s' -> e = os_epoch s ->
  aget a (os_price_claims s') = Some p /\ In a (os_price_votes s') /\
  (forall b, b <> a -> aget b (os_price_claims s') = aget b (os_price_claims s)) /\
  is_val s a = true /\ has_required s p = true.
Proof.
  unfold price_claim. intros H ->. destruct (is_val s a); [|discriminate]. simpl in H.
  rewrite N.eqb_refl in H. simpl in H. destruct (has_required s p); [|discriminate]. simpl in H.
  inversion H; subst; clear H. simpl. repeat split.
  - apply aget_aset_same.
  - apply add_vote_in. auto.
  - intros b Hb. apply aget_aset_other. congruence.
Qed.

Lemma price_claim_other_epoch s a e p s' : price_claim s a e p = Ok s' -> e <> os_epoch s -> s' = s.
Proof.
  unfold price_claim. intros H Hne. destruct (negb (is_val s a)); [discriminate|].
  destruct (N.eqb (os_epoch s) e) eqn:E; simpl in H.
  - apply N.eqb_eq in E. congruence.
  - inversion H. reflexivity.
Qed.

Lemma holders_claim_latest s a e h s' :
  holders_claim s a e h = Ok s' -> e = os_epoch s ->
  aget a (os_holder_claims s') = Some h /\ In a (os_holder_votes s') /\
  (forall b, b <> a -> aget b (os_holder_claims s') = aget b (os_holder_claims s)) /\
  is_val s a = true.
Proof.
  unfold holders_claim. intros H ->. destruct (is_val s a); [|discriminate]. simpl in H.
  rewrite N.eqb_refl in H. simpl in H.
  inversion H; subst; clear H. simpl. repeat split.
  - apply aget_aset_same.
  - apply add_vote_in. auto.
  - intros b Hb. apply aget_aset_other. congruence.
Qed.

Lemma holders_claim_other_epoch s a e h s' : holders_claim s a e h = Ok s' -> e <> os_epoch s -> s' = s.
Proof.
  unfold holders_claim. intros H Hne. destruct (negb (is_val s a)); [discriminate|].
  destruct (N.eqb (os_epoch s) e) eqn:E; simpl in H.
  - apply N.eqb_eq in E. congruence.
  - inversion H. reflexivity.
Qed.

Lemma claim_by_stranger s a e p h :
  is_val s a = false -> price_claim s a e p = Err 1 /\ holders_claim s a e h = Err 1.
Proof. intro H. unfold price_claim, holders_claim. rewrite H. auto. Qed.

(* ---------- quorum ---------- *)
Definition vals_ok (s : ostate) : Prop := Forall (fun v => 0 <= ov_power v) (os_vals s).

Lemma bonded_power_nonneg v : 0 <= ov_power v -> 0 <= bonded_power v.
Proof. unfold bonded_power. destruct (ov_bonded v); lia. Qed.

Lemma power_raw_nonneg s : vals_ok s -> forall v, 0 <= power_raw s v.
Proof.
  intros H v. unfold power_raw. destruct (find _ (os_vals s)) as [x|] eqn:E; [|lia].
  apply find_some in E as [Hin _]. apply bonded_power_nonneg. unfold vals_ok in H. rewrite Forall_forall in H. auto.
Qed.

Lemma total_raw_nonneg s : vals_ok s -> 0 <= total_raw s.
Proof.
  intro H. unfold total_raw. apply zsum_nonneg. apply Forall_forall. intros x Hx.
  apply in_map_iff in Hx as [v [<- Hv]]. apply bonded_power_nonneg. unfold vals_ok in H. rewrite Forall_forall in H. auto.
Qed.

Definition votes_power (s : ostate) (votes : list bytes) : Z := zsum (map (power_raw s) votes).

Lemma votes_power_nonneg s votes : vals_ok s -> 0 <= votes_power s votes.
Proof.
  intro H. apply zsum_nonneg. apply Forall_forall. intros x Hx. apply in_map_iff in Hx as [v [<- _]].
  apply power_raw_nonneg. exact H.
Qed.

Lemma reaches_iff s r : vals_ok s -> forall votes acc,
  reaches s r votes acc = true <-> votes <> [] /\ r <= acc + votes_power s votes.
Proof.
  intros Hok. induction votes as [|v rest IH]; intro acc; simpl.
  - split; [discriminate | intros [H _]; congruence].
  - pose proof (power_raw_nonneg s Hok v) as Hv. pose proof (votes_power_nonneg s rest Hok) as Hr.
    unfold votes_power in *. simpl. destruct (r <=? acc + power_raw s v) eqn:E.
    + split; [intros _; split; [discriminate | lia] | reflexivity].
    + rewrite IH. split.
      * intros [_ H]. split; [discriminate | lia].
      * intros [_ H]. split; [|lia]. intro Hn. subst rest. simpl in H. lia.
Qed.

(* the decision does not depend on the order of the votes: it is "voters hold at least 66%" *)
Lemma quorum_iff s votes : vals_ok s ->
  quorum s votes = true <-> votes <> [] /\ 66 * total_raw s <= 100 * votes_power s votes.
Proof.
  intro Hok. unfold quorum. rewrite reaches_iff by exact Hok. unfold required_power.
  split; intros [H1 H2]; (split; [exact H1|]); lia.
Qed.

Lemma process_prices s :
  os_prices (process_epoch s) <> os_prices s ->
  quorum s (os_price_votes s) = true /\ os_prices (process_epoch s) = Some (price_handler s).
Proof.
  unfold process_epoch. simpl. destruct (os_price_votes s) as [|v l] eqn:E; [congruence|].
  destruct (quorum s (v :: l)); [auto | congruence].
Qed.

Lemma process_holders s :
  os_holders (process_epoch s) <> os_holders s ->
  quorum s (os_holder_votes s) = true /\
  exists h, holders_handler s = Some h /\ os_holders (process_epoch s) = Some h.
Proof.
  unfold process_epoch. simpl. destruct (os_holder_votes s) as [|v l] eqn:E; [congruence|].
  destruct (quorum s (v :: l)); [|congruence]. destruct (holders_handler s) as [h|]; [|congruence].
  intros _. split; [reflexivity | exists h; auto].
Qed.

(* ---------- normalised power ---------- *)
Lemma norm_power_bounds s id : vals_ok s -> 0 < total_raw s ->
  norm_power s id * total_raw s <= 65535 * power_raw s id < (norm_power s id + 1) * total_raw s.
Proof.
  intros Hok HT. unfold norm_power. destruct (total_raw s =? 0) eqn:E; [lia|].
  pose proof (power_raw_nonneg s Hok id). nia.
Qed.

Lemma norm_power_zero_total s id : total_raw s = 0 -> norm_power s id = 0.
Proof. intro H. unfold norm_power. rewrite H. reflexivity. Qed.

Lemma norm_power_nonneg s id : vals_ok s -> 0 <= norm_power s id.
Proof.
  intro Hok. unfold norm_power. destruct (total_raw s =? 0) eqn:E; [lia|].
  pose proof (power_raw_nonneg s Hok id). pose proof (total_raw_nonneg s Hok). apply Z.div_pos; lia.
Qed.

(* ---------- holders: more than two thirds of the stake on one identical list ---------- *)
Lemma hsame_eq a : forall b, hsame a b = true <-> a = b.
Proof.
  unfold hsame. induction a as [|[x1 y1] a IH]; intros [|[x2 y2] b]; simpl; try (split; [discriminate | congruence]).
  - tauto.
  - specialize (IH b). rewrite !andb_true_iff in *. rewrite Nat.eqb_eq in *. rewrite Z.eqb_eq, beqb_eq.
    split.
    + intros [Hl [[E1 E2] Hf]]. subst. f_equal. apply IH. split; [lia | exact Hf].
    + intro E. inversion E; subst. destruct IH as [_ IH]. destruct (IH eq_refl) as [Hl Hf]. auto.
Qed.

Definition agree_stake (s : ostate) (h : list (bytes * Z)) : Z :=
  zsum (map (fun id => match aget id (os_holder_claims s) with
                       | Some h' => if hsame h h' then power_raw s id else 0
                       | None => 0 end) (os_holder_votes s)).

Lemma agree_weight_stake s h : vals_ok s -> 0 < total_raw s ->
  agree_weight s h * total_raw s <= 65535 * agree_stake s h.
Proof.
  intros Hok HT. unfold agree_weight, agree_stake, hclaims.
  induction (os_holder_votes s) as [|id l IH]; [simpl; lia|].
  cbn [flat_map map]. rewrite map_app, zsum_app. cbn [zsum fold_right].
  destruct (aget id (os_holder_claims s)) as [h'|]; cbn [map zsum fold_right fst snd];
    change (fold_right Z.add 0) with zsum in *; [|lia].
  destruct (hsame h h'); [|lia]. pose proof (norm_power_bounds s id Hok HT). nia.
Qed.

Lemma holders_handler_spec s h :
  holders_handler s = Some h -> (exists w, In (h, w) (hclaims s)) /\ TWO_THIRDS < agree_weight s h.
Proof.
  unfold holders_handler. destruct (find _ (rev (hclaims s))) as [c|] eqn:E; [|discriminate].
  intro H. inversion H; subst; clear H. apply find_some in E as [Hin Hp]. apply in_rev in Hin.
  split; [exists (snd c); destruct c; exact Hin | apply Z.ltb_lt in Hp; exact Hp].
Qed.

Lemma hclaims_in s h w :
  In (h, w) (hclaims s) -> exists id, In id (os_holder_votes s) /\ aget id (os_holder_claims s) = Some h /\ w = norm_power s id.
Proof.
  unfold hclaims. intro H. apply in_flat_map in H as [id [Hid Hx]]. exists id. split; [exact Hid|].
  destruct (aget id (os_holder_claims s)) as [h'|]; simpl in Hx; [|contradiction].
  destruct Hx as [E|[]]. inversion E; subst. auto.
Qed.

Lemma agree_weight_zero_total s h : total_raw s = 0 -> agree_weight s h = 0.
Proof.
  intro HT. unfold agree_weight, hclaims. induction (os_holder_votes s) as [|id l IH]; simpl; [reflexivity|].
  rewrite map_app, zsum_app, IH. destruct (aget id (os_holder_claims s)); simpl; [|reflexivity].
  rewrite (norm_power_zero_total s id HT). destruct (hsame h _); reflexivity.
Qed.

Lemma holders_two_thirds s h : vals_ok s ->
  holders_handler s = Some h ->
  (exists id, In id (os_holder_votes s) /\ aget id (os_holder_claims s) = Some h) /\
  2 * total_raw s < 3 * agree_stake s h.
Proof.
  intros Hok H. apply holders_handler_spec in H as [[w Hin] Hw]. split.
  - apply hclaims_in in Hin as [id [H1 [H2 _]]]. exists id. auto.
  - pose proof (total_raw_nonneg s Hok) as HT. unfold TWO_THIRDS in Hw.
    destruct (Z.eq_dec (total_raw s) 0) as [E|E].
    + rewrite (agree_weight_zero_total s h E) in Hw. lia.
    + pose proof (agree_weight_stake s h Hok ltac:(lia)). nia.
Qed.

(* ---------- the weighted median ---------- *)
Definition wlt (l : list (Z * Z)) (v : Z) : Z := zsum (map (fun p : Z * Z => if fst p <? v then snd p else 0) l).
Definition wle (l : list (Z * Z)) (v : Z) : Z := zsum (map (fun p : Z * Z => if fst p <=? v then snd p else 0) l).
Definition wgt (l : list (Z * Z)) (v : Z) : Z := zsum (map (fun p : Z * Z => if v <? fst p then snd p else 0) l).
Definition wpos (l : list (Z * Z)) : Prop := Forall (fun p : Z * Z => 0 < snd p) l.
Definition sorted_vw (l : list (Z * Z)) : Prop := StronglySorted (fun a b : Z * Z => fst a <= fst b) l.

Lemma wle_wgt l v : wle l v + wgt l v = wtotal l.
Proof.
  unfold wle, wgt, wtotal. induction l as [|[x w] l IH]; simpl; [reflexivity|].
  destruct (x <=? v) eqn:E1, (v <? x) eqn:E2; lia.
Qed.

Lemma zsum_insert (f : Z * Z -> Z) x l : zsum (map f (insert_vw x l)) = f x + zsum (map f l).
Proof.
  induction l as [|y l IH]; simpl; [reflexivity|]. destruct (fst x <=? fst y); simpl; [reflexivity | rewrite IH; lia].
Qed.

Lemma zsum_sort (f : Z * Z -> Z) l : zsum (map f (sort_vw l)) = zsum (map f l).
Proof. induction l as [|x l IH]; simpl; [reflexivity|]. rewrite zsum_insert, IH. reflexivity. Qed.

Lemma insert_in x l y : In y (insert_vw x l) <-> y = x \/ In y l.
Proof.
  induction l as [|z l IH]; simpl; [intuition|]. destruct (fst x <=? fst z); simpl; [intuition|]. rewrite IH. intuition.
Qed.

Lemma sort_in l y : In y (sort_vw l) <-> In y l.
Proof. induction l as [|x l IH]; simpl; [tauto|]. rewrite insert_in, IH. intuition. Qed.

Lemma insert_sorted x l : sorted_vw l -> sorted_vw (insert_vw x l).
Proof.
  unfold sorted_vw. induction l as [|y l IH]; simpl; intro H; [constructor; constructor|].
  inversion H as [|? ? Hs Hf]; subst. destruct (fst x <=? fst y) eqn:E.
  - constructor; [exact H|]. constructor; [lia|]. rewrite Forall_forall in *. intros z Hz. specialize (Hf z Hz). lia.
  - constructor; [apply IH; exact Hs|]. apply Forall_forall. intros z Hz. apply insert_in in Hz as [->|Hz]; [lia|].
    rewrite Forall_forall in Hf. auto.
Qed.

Lemma sort_sorted l : sorted_vw (sort_vw l).
Proof. induction l as [|x l IH]; simpl; [constructor | apply insert_sorted; exact IH]. Qed.

Lemma wlt_zero l v : Forall (fun b : Z * Z => v <= fst b) l -> wlt l v = 0.
Proof.
  unfold wlt. induction 1 as [|[x w] l Hx _ IH]; simpl; [reflexivity|]. simpl in Hx.
  destruct (x <? v) eqn:E; lia.
Qed.

Lemma wle_nonneg l v : wpos l -> 0 <= wle l v.
Proof.
  unfold wle. induction 1 as [|[x w] l Hx _ IH]; simpl; [lia|]. simpl in Hx. destruct (x <=? v); lia.
Qed.

Lemma wle_le_wlt l a b : wpos l -> a < b -> wle l a <= wlt l b.
Proof.
  unfold wle, wlt. induction 1 as [|[x w] l Hx _ IH]; simpl; intro Hab; [lia|]. simpl in Hx. specialize (IH Hab).
  destruct (x <=? a) eqn:E1, (x <? b) eqn:E2; lia.
Qed.

Lemma at_pos_spec l : sorted_vw l -> wpos l -> forall k, 0 <= k < wtotal l ->
  In (at_pos l k) (map fst l) /\ wlt l (at_pos l k) <= k < wle l (at_pos l k).
Proof.
  unfold sorted_vw, wpos. induction l as [|[v0 w0] rest IH]; intros Hs Hp k Hk.
  - unfold wtotal in Hk. simpl in Hk. lia.
  - inversion Hs as [|? ? Hs' Hf]; subst. inversion Hp as [|? ? Hw Hp']; subst. simpl in Hw, Hf.
    unfold wtotal in Hk. simpl in Hk. simpl at_pos. destruct (k <? w0) eqn:E.
    + split; [left; reflexivity|]. unfold wlt, wle. simpl.
      fold (wlt rest v0). fold (wle rest v0). rewrite (wlt_zero rest v0 Hf).
      pose proof (wle_nonneg rest v0 Hp'). rewrite Z.ltb_irrefl, Z.leb_refl. lia.
    + destruct (IH Hs' Hp' (k - w0)) as [Hin [H1 H2]]; [unfold wtotal; lia|].
      split; [right; exact Hin|].
      assert (v0 <= at_pos rest (k - w0)) as Hle.
      { apply in_map_iff in Hin as [p [E2 Hin]]. rewrite Forall_forall in Hf. specialize (Hf p Hin). lia. }
      unfold wlt, wle. simpl. fold (wlt rest (at_pos rest (k - w0))). fold (wle rest (at_pos rest (k - w0))).
      destruct (v0 <? at_pos rest (k - w0)) eqn:E3, (v0 <=? at_pos rest (k - w0)) eqn:E4; lia.
Qed.

Lemma filter_wpos pairs : wpos (filter positive_weight pairs).
Proof.
  apply Forall_forall. intros p Hp. apply filter_In in Hp as [_ Hp]. unfold positive_weight in Hp. lia.
Qed.

(* The stored value is the weighted median of the positively weighted reports: m = (lo + hi) quo 2
   for two reported values lo <= hi such that the weight strictly below lo and the weight strictly
   above hi are both at most half of the total; lo = hi when the total is odd. *)
Lemma wmedian_spec pairs m :
  wmedian pairs = Some m ->
  let l := filter positive_weight pairs in
  let W := wtotal l in
  0 < W /\
  exists lo hi, In lo (map fst l) /\ In hi (map fst l) /\ lo <= hi /\ m = quo_trunc (lo + hi) 2 /\
                2 * wlt l lo <= W /\ 2 * wgt l hi <= W /\ (Z.even W = false -> lo = hi).
Proof.
  intros H l W. unfold wmedian in H. set (L := sort_vw (filter positive_weight pairs)) in *.
  assert (HW : wtotal L = W) by (unfold L, W, wtotal, l; apply zsum_sort).
  assert (HsL : sorted_vw L) by apply sort_sorted.
  assert (HpL : wpos L).
  { apply Forall_forall. intros p Hp. unfold L in Hp. apply (proj1 (sort_in _ _)) in Hp. pose proof (filter_wpos pairs) as Hf. unfold wpos in Hf.
    rewrite Forall_forall in Hf. exact (Hf p Hp). }
  assert (Hpl : wpos l) by apply filter_wpos.
  assert (Hin : forall v, In v (map fst L) -> In v (map fst l)).
  { intros v Hv. apply in_map_iff in Hv as [p [<- Hp]]. unfold L in Hp. apply (proj1 (sort_in _ _)) in Hp. apply in_map. exact Hp. }
  assert (Hlt : forall v, wlt L v = wlt l v) by (intro v; unfold wlt, L, l; apply zsum_sort).
  assert (Hle : forall v, wle L v = wle l v) by (intro v; unfold wle, L, l; apply zsum_sort).
  rewrite HW in H.
  assert (0 <= W) as Hnn.
  { unfold W, wtotal. apply zsum_nonneg. apply Forall_forall. intros x Hx. apply in_map_iff in Hx as [p [<- Hp]].
    unfold wpos in Hpl. rewrite Forall_forall in Hpl. specialize (Hpl p Hp). lia. }
  destruct (W =? 0) eqn:E0; [discriminate|]. apply Z.eqb_neq in E0. split; [lia|].
  destruct (Z.even W) eqn:Ev.
  - inversion H; subst m; clear H.
    assert (exists h, W = 2 * h) as [h Hh] by (apply Z.even_spec in Ev; destruct Ev as [h Hh]; exists h; lia).
    assert (W / 2 = h) as Hd by lia. rewrite Hd.
    destruct (at_pos_spec L HsL HpL (h - 1)) as [I1 [A1 B1]]; [lia|].
    destruct (at_pos_spec L HsL HpL h) as [I2 [A2 B2]]; [lia|].
    set (lo := at_pos L (h - 1)) in *. set (hi := at_pos L h) in *.
    exists lo, hi. rewrite Hlt in A1, A2. rewrite Hle in B1, B2.
    pose proof (wle_wgt l hi) as Hs. fold W in Hs.
    repeat split; auto.
    + destruct (Z_lt_le_dec hi lo) as [Hc|Hc]; [|exact Hc]. pose proof (wle_le_wlt l hi lo Hpl Hc). lia.
    + f_equal. lia.
    + lia.
    + lia.
    + discriminate.
  - inversion H; subst m; clear H.
    assert (exists h, W = 2 * h + 1) as [h Hh].
    { assert (Z.odd W = true) as Ho by (rewrite <- Z.negb_even, Ev; reflexivity). apply Z.odd_spec in Ho. destruct Ho as [h Hh]. exists h. lia. }
    assert (W / 2 = h) as Hd by lia. rewrite Hd.
    destruct (at_pos_spec L HsL HpL h) as [I2 [A2 B2]]; [lia|].
    set (v := at_pos L h) in *. exists v, v. rewrite Hlt in A2. rewrite Hle in B2.
    pose proof (wle_wgt l v) as Hs. fold W in Hs.
    repeat split; auto; try lia.
    unfold quo_trunc. replace (v + v) with (v * 2) by lia. symmetry. apply Z.quot_mul. lia.
Qed.

Lemma quo_between lo hi : 0 <= lo -> lo <= hi -> lo <= quo_trunc (lo + hi) 2 <= hi.
Proof.
  intros H0 H1. unfold quo_trunc. rewrite Z.quot_div_nonneg by lia. lia.
Qed.

(* what the price handler stores *)
Lemma price_handler_in s n m : In (n, m) (price_handler s) -> wmedian (reports_of s n) = Some m.
Proof.
  unfold price_handler. intro H. apply in_flat_map in H as [n' [_ H]].
  destruct (wmedian (reports_of s n')) as [m'|] eqn:E; simpl in H; [|contradiction].
  destruct H as [H|[]]. inversion H; subst. exact E.
Qed.

Lemma reports_of_in s n x w :
  In (x, w) (reports_of s n) <->
  exists id prices, In id (os_price_votes s) /\ aget id (os_price_claims s) = Some prices /\
                    In (n, x) prices /\ w = norm_power s id.
Proof.
  unfold reports_of, psamples. rewrite in_map_iff. split.
  - intros [[n' [x' w']] [E H]]. simpl in E. inversion E; subst. apply filter_In in H as [H Hn]. simpl in Hn.
    apply beqb_eq in Hn. subst n'. apply in_flat_map in H as [id [Hid H]]. exists id.
    destruct (aget id (os_price_claims s)) as [prices|]; [|contradiction]. exists prices.
    apply in_map_iff in H as [[n2 x2] [E2 H2]]. simpl in E2. inversion E2; subst. auto.
  - intros [id [prices [H1 [H2 [H3 ->]]]]]. exists (n, (x, norm_power s id)). split; [reflexivity|].
    apply filter_In. split; [|simpl; apply beqb_refl]. apply in_flat_map. exists id. split; [exact H1|].
    rewrite H2. apply in_map_iff. exists (n, x). auto.
Qed.

(* ---------- well-formed staking input along histories ---------- *)
Definition wf_oop (o : oop) : Prop :=
  match o with OSetVals vals => Forall (fun v => 0 <= ov_power v) vals | _ => True end.

Lemma ostep_vals_ok s o : vals_ok s -> wf_oop o -> vals_ok (fst (ostep s o)).
Proof.
  unfold vals_ok. intros H Hw. destruct o as [a e p|a e h|h|vals]; simpl.
  - unfold price_claim. destruct (negb (is_val s a)); [exact H|].
    destruct (negb (N.eqb (os_epoch s) e)); [exact H|]. destruct (negb (has_required s p)); exact H.
  - unfold holders_claim. destruct (negb (is_val s a)); [exact H|].
    destruct (negb (N.eqb (os_epoch s) e)); exact H.
  - destruct (N.eqb (h mod 5) 0); exact H.
  - exact Hw.
Qed.

Lemma orun_vals_ok ops : forall s, vals_ok s -> Forall wf_oop ops -> vals_ok (orun s ops).
Proof.
  induction ops as [|o ops IH]; intros s H Hw; [exact H|]. inversion Hw as [|? ? Ho Hr]; subst.
  unfold orun in *. simpl. apply IH; [apply ostep_vals_ok; assumption | exact Hr].
Qed.

Lemma oinit_vals_ok r : vals_ok (oinit r).
Proof. constructor. Qed.

Lemma in_keys_aget {V} k (m : list (bytes * V)) : In k (map fst m) <-> exists v, aget k m = Some v.
Proof.
  induction m as [|[k' v'] m IH]; simpl.
  - split; [intros [] | intros [v H]; discriminate].
  - destruct (beqb k k') eqn:E.
    + apply beqb_eq in E. subst. split; [intros _; exists v'; reflexivity | auto].
    + apply beqb_neq in E. rewrite <- IH. split; [intros [H|H]; [congruence | exact H] | auto].
Qed.

(* every reachable state: distinct voters, who are exactly the validators with a stored report *)
Lemma reachable_votes required ops :
  let s := orun (oinit required) ops in
  NoDup (os_price_votes s) /\ NoDup (os_holder_votes s) /\
  (forall v, In v (os_price_votes s) <-> exists p, aget v (os_price_claims s) = Some p) /\
  (forall v, In v (os_holder_votes s) <-> exists h, aget v (os_holder_claims s) = Some h).
Proof.
  intro s. destruct (orun_inv ops (oinit required) (oinit_inv required)) as [H1 H2 H3 H4 H5 H6]. fold s in H1, H2, H5, H6.
  repeat split; auto.
  - intro H. apply in_keys_aget. apply H5. exact H.
  - intro H. apply H5. apply in_keys_aget. exact H.
  - intro H. apply in_keys_aget. apply H6. exact H.
  - intro H. apply H6. apply in_keys_aget. exact H.
Qed.

Lemma epoch_boundary_prices s : vals_ok s ->
  os_prices (process_epoch s) <> os_prices s ->
  66 * total_raw s <= 100 * votes_power s (os_price_votes s) /\
  os_prices (process_epoch s) = Some (price_handler s).
Proof.
  intros Hok H. apply process_prices in H as [Hq Hp]. split; [|exact Hp].
  apply (quorum_iff s _ Hok) in Hq as [_ Hq]. exact Hq.
Qed.

Lemma epoch_boundary_holders s : vals_ok s ->
  os_holders (process_epoch s) <> os_holders s ->
  66 * total_raw s <= 100 * votes_power s (os_holder_votes s) /\
  exists h, os_holders (process_epoch s) = Some h /\
            (exists id, In id (os_holder_votes s) /\ aget id (os_holder_claims s) = Some h) /\
            2 * total_raw s < 3 * agree_stake s h.
Proof.
  intros Hok H. apply process_holders in H as [Hq [h [Hh Hs]]]. split.
  - apply (quorum_iff s _ Hok) in Hq as [_ Hq]. exact Hq.
  - exists h. split; [exact Hs|]. apply holders_two_thirds; assumption.
Qed.

Lemma process_epoch_epoch s : os_epoch (process_epoch s) = (os_epoch s + 1)%N.
Proof. reflexivity. Qed.
