From V Require Import Base.Prelude Base.Val Num.Arith Hub.Types Hub.Model Proofs.ListX Proofs.HubInv.
Local Open Scope Z_scope.

Lemma c04_one_place :
  forall p tokens ops,
    prefix_free (b_minter :: p_chains p) ->
    let s := run (init_state p tokens) ops in
    NoDup (map ekey (st_pool s ++ batch_txs (st_batches s))) /\
    (forall e, In e (st_pool s ++ batch_txs (st_batches s)) ->
               (1 <= s_id e <= agetd 0 (s_chain e) (st_last_id s))%N) /\
    NoDup (map bkey (st_batches s)).
Proof.
  intros p tokens ops Hpf s.
  destruct (run_inv p (init_state p tokens) ops (init_inv p tokens Hpf)) as [HI _]. fold s in HI.
  destruct HI as [H1 H2 H3 H4 H5 H6 H7 H8 H9 H10]. split; [|split; [exact H4 | exact H8]].
  rewrite map_app. apply NoDup_app_iff. split; [exact H1|]. split; [exact H2|].
  intros k Hk1 Hk2. apply in_map_ekey_inv in Hk1 as [x [Hx Ex]]. apply in_map_ekey_inv in Hk2 as [y [Hy Ey]].
  apply (H3 x y); auto. congruence.
Qed.

Lemma c04_fresh_ids :
  forall s chain sender rcpt denom a f c h rc ra s' id,
    create_send s chain sender rcpt denom a f c h rc ra = Ok (s', id) ->
    id = (agetd 0 chain (st_last_id s) + 1)%N /\ agetd 0%N chain (st_last_id s') = id.
Proof.
  intros s chain sender rcpt denom a f c h rc ra s' id H. unfold create_send in H.
  destruct (denom_to_token _ _ _); [|discriminate].
  destruct (debit s sender denom _) as [s1|?|?] eqn:Hd; simpl in H; try discriminate.
  match type of H with (if ?g then _ else _) = _ => destruct g; [discriminate|] end.
  inversion H; subst. simpl. apply core_debit in Hd. unfold core in Hd. inversion Hd as [[E1 E2 E3 E4 E5]].
  rewrite E3. split; [reflexivity | apply agetd_aset_same].
Qed.

(* ---- witness for the status clause ---- *)
Definition c04_user : bytes := [65]%N.
Definition c04_denom : bytes := b_hub.
Definition c04_tok : bytes := [48;120;84]%N.
Definition c04_params : params := mkParams [b_ethereum; b_hub] 5000 15000 5000 60001 60001 [84]%N.
Definition c04_tokens : list token_info := [mkTI 1 b_hub b_ethereum c04_tok 18 0].
Definition c04_hash : bytes := [72]%N.
Definition c04_ops : list op :=
  [ OpBeginBlock 3 1000000 [];
    OpEvent b_ethereum (EvDeposit 1 c04_tok 1000 [120]%N c04_user 10 [100]%N);
    OpEndBlock;
    OpBeginBlock 5 1005000 [];
    OpSend c04_user b_ethereum [114]%N b_hub 100 0 c04_hash;
    OpSend c04_user b_ethereum [114]%N b_hub 200 0 c04_hash;
    OpCancel c04_user b_ethereum 1;
    OpRequestBatch b_ethereum b_hub;
    OpEvent b_ethereum (EvBatchExecuted 2 c04_tok 1 11 [101]%N 0 [112]%N);
    OpEndBlock ].

Lemma c04_status_refuted :
  exists p tokens ops h,
    let s := run (init_state p tokens) ops in
    st_pool s = [] /\ st_batches s = [] /\ get_status s h = ST_REFUNDED /\
    balance s c04_user c04_denom = 1000 - 200.
Proof.
  exists c04_params, c04_tokens, c04_ops, c04_hash. vm_compute. repeat split; reflexivity.
Qed.

Lemma c04_real_chains_prefix_free : prefix_free (b_minter :: [b_ethereum; b_minter; b_bsc; b_hub]).
Proof.
  intros a b Ha Hb Hp. simpl in Ha, Hb.
  repeat (destruct Ha as [<-|Ha]; [repeat (destruct Hb as [<-|Hb]; [first [reflexivity | discriminate]|]); try contradiction|]);
    contradiction.
Qed.
