(* C13's clock: the last observed external height is only ever the height reported by a claim that the tally
   applied (which, by C02, had the quorum; by C03, in nonce order). *)
From V Require Import Base.Prelude Base.Val Num.Arith Hub.Votes Hub.VotesMon Hub.VotesHeight Proofs.ListX.
Local Open Scope N_scope.

Lemma fold_last_choice {A B} (f : A -> B) (l : list A) (a : B) :
  fold_left (fun _ k => f k) l a = a /\ l = [] \/ exists k, In k l /\ fold_left (fun _ k => f k) l a = f k.
Proof.
  revert a. induction l as [|x l IH]; intro a; simpl; [left; auto|]. right.
  destruct (IH (f x)) as [[E El]|[k [Hk E]]].
  - exists x. split; [left; reflexivity | exact E].
  - exists k. split; [right; exact Hk | exact E].
Qed.

(* a vote or a staking change never moves the observed height; a tally moves it only to the height of a claim
   it has just applied *)
Theorem observed_height_only_from_applied s o h :
  let s' := fst (hstep s o h) in
  hs_observed s' = hs_observed s \/
  (o = VTally /\ exists k, In k (skipn (length (vs_applied (hs_votes s))) (vs_applied (hs_votes s'))) /\
                           hs_observed s' = height_of (hs_heights s) k).
Proof.
  unfold hstep. destruct (vstep (hs_votes s) o) as [v' code] eqn:Hv.
  destruct o as [signer nonce hash amount| |st orch]; cbn [fst hs_observed hs_votes]; [left; reflexivity| |left; reflexivity].
  destruct (fold_last_choice (height_of (hs_heights s)) (skipn (length (vs_applied (hs_votes s))) (vs_applied v')) (hs_observed s))
    as [[E _]|[k [Hk E]]].
  - left. exact E.
  - right. split; [reflexivity|]. exists k. split; [exact Hk | exact E].
Qed.

(* in particular: as long as nothing has been applied the stored height stays what it was *)
Corollary height_unchanged_without_application s o h :
  vs_applied (hs_votes (fst (hstep s o h))) = vs_applied (hs_votes s) -> hs_observed (fst (hstep s o h)) = hs_observed s.
Proof.
  intro E. destruct (observed_height_only_from_applied s o h) as [H|[_ [k [Hk _]]]]; [exact H|].
  rewrite E, skipn_all in Hk. contradiction.
Qed.
