(* C05 — block processing neither panics nor deadlocks.
   (1) lock skeleton: a structural theorem about iterator nesting + the generated fact that the
       current keepers contain no nested-iterator-after-write site;
   (2) panic freedom of BeginBlocker on the hub model; the EndBlocker's event application is contained;
   (3) oracle and tally never panic. *)
From V Require Import Base.Prelude Base.Val Num.Arith Hub.Types Hub.Model Hub.Votes Oracle.Oracle Gen.IterFacts
     Proofs.ListX Proofs.HubInv Proofs.VotesInv.
Local Open Scope Z_scope.

(* ================= (1) lock skeleton ================= *)
(* A cache-wrapped KV store: an open iterator (over more than ~65 dirty entries) holds the read lock of
   the sorted dirty-entry index; opening an iterator after a write first moves the unsorted dirty keys
   into that index, which needs the write lock.  Worst case: every open iterator holds the lock. *)
Inductive act := AOpen | AClose | AWrite.
(* (number of open iterators, a write happened since the last iterator was opened) *)
Definition lstate := (nat * bool)%type.
Definition lstep (st : lstate) (a : act) : option lstate :=
  let (d, pend) := st in
  match a with
  | AOpen => if (Nat.ltb 0 d && pend)%bool then None (* blocks forever *) else Some (S d, false)
  | AClose => Some (Nat.pred d, pend)
  | AWrite => Some (d, true)
  end.
Fixpoint lrun (st : lstate) (t : list act) : option lstate :=
  match t with
  | [] => Some st
  | a :: r => match lstep st a with Some st' => lrun st' r | None => None end
  end.

(* the shape of keeper code as far as the store is concerned *)
Inductive prog := PWrite | PRead | PSeq (a b : prog) | PIter (body : prog).
(* every execution: an iterator body runs any number of times, each time along any of its traces *)
Inductive traces : prog -> list act -> Prop :=
| T_write : traces PWrite [AWrite]
| T_read : traces PRead []
| T_seq a b t1 t2 : traces a t1 -> traces b t2 -> traces (PSeq a b) (t1 ++ t2)
| T_iter body t : reps body t -> traces (PIter body) (AOpen :: t ++ [AClose])
with reps : prog -> list act -> Prop :=
| R_nil body : reps body []
| R_cons body t1 t2 : traces body t1 -> reps body t2 -> reps body (t1 ++ t2).
Scheme traces_mut := Induction for traces Sort Prop
  with reps_mut := Induction for reps Sort Prop.
Combined Scheme traces_reps_ind from traces_mut, reps_mut.

Fixpoint writes (p : prog) : bool :=
  match p with PWrite => true | PRead => false | PSeq a b => writes a || writes b | PIter b => writes b end.
Fixpoint iterates (p : prog) : bool :=
  match p with PIter _ => true | PSeq a b => iterates a || iterates b | _ => false end.
(* no iterator body both writes and opens another iterator *)
Fixpoint nest_ok (p : prog) : bool :=
  match p with
  | PIter b => nest_ok b && negb (writes b && iterates b)
  | PSeq a b => nest_ok a && nest_ok b
  | _ => true
  end.

Lemma lrun_app st t1 t2 : lrun st (t1 ++ t2) = match lrun st t1 with Some st' => lrun st' t2 | None => None end.
Proof. revert st. induction t1 as [|a r IH]; intro st; simpl; [reflexivity|]. destruct (lstep st a); [apply IH | reflexivity]. Qed.

(* code that opens no iterator cannot block *)
Lemma no_iter_safe :
  (forall p t, traces p t -> iterates p = false -> forall d pend, exists pend', lrun (d, pend) t = Some (d, pend')) /\
  (forall p t, reps p t -> iterates p = false -> forall d pend, exists pend', lrun (d, pend) t = Some (d, pend')).
Proof.
  apply traces_reps_ind; simpl.
  - intros _ d pend. exists true. reflexivity.
  - intros _ d pend. exists pend. reflexivity.
  - intros a b t1 t2 _ IH1 _ IH2 Hi d pend. apply orb_false_iff in Hi as [Ha Hb].
    destruct (IH1 Ha d pend) as [p1 E1]. destruct (IH2 Hb d p1) as [p2 E2]. exists p2. rewrite lrun_app, E1. exact E2.
  - intros body t _ _ Hi. discriminate.
  - intros body _ d pend. exists pend. reflexivity.
  - intros body t1 t2 _ IH1 _ IH2 Hi d pend.
    destruct (IH1 Hi d pend) as [p1 E1]. destruct (IH2 Hi d p1) as [p2 E2]. exists p2. rewrite lrun_app, E1. exact E2.
Qed.

(* code that does not write keeps "nothing pending" and cannot block, at any nesting depth *)
Lemma no_write_safe :
  (forall p t, traces p t -> writes p = false -> forall d, lrun (d, false) t = Some (d, false)) /\
  (forall p t, reps p t -> writes p = false -> forall d, lrun (d, false) t = Some (d, false)).
Proof.
  apply traces_reps_ind; simpl.
  - discriminate.
  - reflexivity.
  - intros a b t1 t2 _ IH1 _ IH2 Hw d. apply orb_false_iff in Hw as [Ha Hb]. rewrite lrun_app, (IH1 Ha d). apply IH2. exact Hb.
  - intros body t _ IH Hw d. rewrite andb_false_r. rewrite lrun_app, (IH Hw (S d)). reflexivity.
  - reflexivity.
  - intros body t1 t2 _ IH1 _ IH2 Hw d. rewrite lrun_app, (IH1 Hw d). apply IH2. exact Hw.
Qed.

(* the theorem: code without a write-and-iterate iterator body never blocks, however often its loops
   run and however many dirty entries there are *)
Lemma nest_ok_safe p t : traces p t -> nest_ok p = true -> forall pend, exists pend', lrun (0%nat, pend) t = Some (0%nat, pend').
Proof.
  induction 1 as [| |a b t1 t2 _ IH1 _ IH2|body t Hr]; simpl; intros Hok pend.
  - exists true. reflexivity.
  - exists pend. reflexivity.
  - apply andb_true_iff in Hok as [Ha Hb]. destruct (IH1 Ha pend) as [p1 E1]. destruct (IH2 Hb p1) as [p2 E2].
    exists p2. rewrite lrun_app, E1. exact E2.
  - apply andb_true_iff in Hok as [_ Hn]. apply negb_true_iff in Hn. apply andb_false_iff in Hn.
    rewrite lrun_app. destruct Hn as [Hw|Hi].
    + rewrite (proj2 no_write_safe body t Hr Hw 1%nat). simpl. exists false. reflexivity.
    + destruct (proj2 no_iter_safe body t Hr Hi 1%nat false) as [p1 E1]. rewrite E1. simpl. exists p1. reflexivity.
Qed.

(* and the converse is a real deadlock: one write and one nested iterator inside an open iterator *)
Lemma nested_write_blocks : exists t, traces (PIter (PSeq PWrite (PIter PRead))) t /\ lrun (0%nat, false) t = None.
Proof.
  exists (AOpen :: (([AWrite] ++ (AOpen :: [] ++ [AClose])) ++ []) ++ [AClose]). split.
  - apply (T_iter _ (([AWrite] ++ (AOpen :: [] ++ [AClose])) ++ [])). apply R_cons; [|apply R_nil].
    apply T_seq; [apply T_write | apply (T_iter PRead []); apply R_nil].
  - reflexivity.
Qed.

(* the current keepers contain no site where an open iterator's body writes to the store and opens
   another iterator (regenerated from the source on every run) *)
Lemma no_nested_iterator_sites : iter_write_sites = [].
Proof. reflexivity. Qed.

(* ================= (2) hub model: BeginBlocker ================= *)
Definition known_chain (c : bytes) : bool := beqb c b_ethereum || beqb c b_bsc || beqb c b_minter || beqb c b_hub.
Definition params_ok (p : params) : Prop :=
  forallb known_chain (p_chains p) = true /\ p_avg_eth p <> 0%N /\ p_avg_bsc p <> 0%N /\ p_avg_block p <> 0%N.

Lemma avg_nonzero p c : params_ok p -> In c (p_chains p) -> avg_block_time p c <> 0%N.
Proof.
  intros [Hk [H1 [H2 H3]]] Hin. rewrite forallb_forall in Hk. specialize (Hk c Hin). unfold known_chain in Hk. unfold avg_block_time.
  destruct (beqb c b_ethereum); [exact H1|]. destruct (beqb c b_bsc); [exact H2|]. destruct (beqb c b_minter); [discriminate|].
  destruct (beqb c b_hub); [exact H3 | discriminate].
Qed.

Lemma batch_timeout_ok s c : params_ok (st_params s) -> In c (p_chains (st_params s)) -> exists n, batch_timeout s c = Ok n.
Proof.
  intros Hp Hin. unfold batch_timeout. destruct (_ || _)%bool; [eexists; reflexivity|].
  destruct (N.eqb (avg_block_time (st_params s) c) 0) eqn:E; [|eexists; reflexivity].
  apply N.eqb_eq in E. exfalso. exact (avg_nonzero _ _ Hp Hin E).
Qed.

Lemma build_batch_ok s c ext : params_ok (st_params s) -> In c (p_chains (st_params s)) ->
  exists s' ob, build_batch s c ext = Ok (s', ob) /\ st_params s' = st_params s.
Proof.
  intros Hp Hin. destruct (build_batch s c ext) as [[s' ob]|e|e] eqn:E.
  - exists s', ob. split; [reflexivity | eapply build_batch_params; exact E].
  - exfalso. unfold build_batch in E. destruct (firstn BATCH_SIZE (pool_of_coin c ext (st_pool s))) as [|e0 sel]; [discriminate|].
    match type of E with bind (batch_timeout ?s2 c) _ = _ =>
      assert (st_params s2 = st_params s) as Ep;
        [simpl; match goal with |- st_params (fold_left ?f ?l ?b) = _ => pose proof (fold_status_core l b) as Hc end;
         apply params_of_core in Hc; rewrite Hc; reflexivity|];
      destruct (batch_timeout_ok s2 c) as [n En]; [rewrite Ep; exact Hp | rewrite Ep; exact Hin|]; rewrite En in E end.
    simpl in E. discriminate.
  - exfalso. unfold build_batch in E. destruct (firstn BATCH_SIZE (pool_of_coin c ext (st_pool s))) as [|e0 sel]; [discriminate|].
    match type of E with bind (batch_timeout ?s2 c) _ = _ =>
      assert (st_params s2 = st_params s) as Ep;
        [simpl; match goal with |- st_params (fold_left ?f ?l ?b) = _ => pose proof (fold_status_core l b) as Hc end;
         apply params_of_core in Hc; rewrite Hc; reflexivity|];
      destruct (batch_timeout_ok s2 c) as [n En]; [rewrite Ep; exact Hp | rewrite Ep; exact Hin|]; rewrite En in E end.
    simpl in E. discriminate.
Qed.

Lemma create_batches_ok s c : params_ok (st_params s) -> In c (p_chains (st_params s)) ->
  exists s', create_batches s c = Ok s' /\ st_params s' = st_params s.
Proof.
  intros Hp Hin. unfold create_batches. destruct (N.eqb _ 0); [|exists s; auto].
  generalize (coin_ids s c) as l. 
  assert (G : forall l st, st_params st = st_params s ->
            exists s', fold_left (fun r ext => let* st := r in let* (st', _) := build_batch st c ext in Ok st') l (Ok st) = Ok s'
                       /\ st_params s' = st_params s).
  { induction l as [|ext l IH]; intros st Est; simpl; [exists st; auto|].
    destruct (build_batch_ok st c ext) as [st2 [ob [Eb Ep]]]; [rewrite Est; exact Hp | rewrite Est; exact Hin|].
    rewrite Eb. simpl. apply IH. rewrite Ep. exact Est. }
  intro l. apply G. reflexivity.
Qed.

Lemma begin_block_no_panic s force : params_ok (st_params s) -> exists s', begin_block s force = Ok s'.
Proof.
  intro Hp. unfold begin_block.
  assert (G : forall l, (forall c, In c l -> In c (p_chains (st_params s))) -> forall st, st_params st = st_params s ->
            exists s', fold_left (fun r chain => let* st := r in
                 if beqb chain b_hub then Ok st
                 else create_batches (create_signer_set (if beqb chain b_minter then st else cleanup_timed_out st chain) chain force) chain)
                 l (Ok st) = Ok s').
  { induction l as [|c l IH]; intros Hl st Est; cbn [fold_left bind]; [exists st; reflexivity|].
    destruct (beqb c b_hub); [apply IH; [intros c0 H0; apply Hl; right; exact H0 | exact Est]|].
    set (st1 := create_signer_set (if beqb c b_minter then st else cleanup_timed_out st c) c force).
    assert (st_params st1 = st_params s) as E1.
    { unfold st1. rewrite <- (params_of_core _ _ (eq_sym (create_signer_set_core _ c force))).
      destruct (beqb c b_minter); [exact Est | rewrite cleanup_timed_out_params; exact Est]. }
    destruct (create_batches_ok st1 c) as [s2 [E2 E3]]; [rewrite E1; exact Hp | rewrite E1; apply Hl; left; reflexivity|].
    rewrite E2. apply IH; [intros c0 H0; apply Hl; right; exact H0 | rewrite E3; exact E1]. }
  apply G; auto.
Qed.

(* the EndBlocker applies claims through apply_event, which contains errors and (after the fix:) panics:
   whatever the event, the outcome is a state *)
Lemma apply_pending_total s chain : exists s', apply_pending s chain = s'.
Proof. eexists. reflexivity. Qed.

Lemma apply_event_contains s chain e :
  let (s', code) := apply_event s chain e in
  (code = 0%N \/ (st_pool s' = st_pool s /\ st_batches s' = st_batches s /\ st_bal s' = st_bal s /\ st_supply s' = st_supply s)).
Proof.
  unfold apply_event. destruct (handle_event _ chain e); simpl; auto.
Qed.

(* ================= (3) oracle and tally ================= *)
Lemma oracle_never_panics s o : snd (ostep s o) <> 2%N.
Proof.
  destruct o as [a e p|a e h|h|vals]; simpl; try discriminate.
  - unfold price_claim. destruct (negb (is_val s a)); simpl; [discriminate|].
    destruct (negb (N.eqb (os_epoch s) e)); simpl; [discriminate|]. destruct (negb (has_required s p)); simpl; discriminate.
  - unfold holders_claim. destruct (negb (is_val s a)); simpl; [discriminate|].
    destruct (negb (N.eqb (os_epoch s) e)); simpl; discriminate.
Qed.

Lemma tally_never_panics s : VInv s -> powers_nonneg (vs_staking s) -> exists s', tally s = Ok s'.
Proof. intros HI Hp. destruct (tally_spec s HI Hp) as [s' [new [E _]]]. exists s'. exact E. Qed.

(* ---------- EndBlocker: the expiry refunds cannot make it fail (after the fix: a refund that panics is dropped) ---------- *)
Lemma refund_expired_list_ok chain l : forall st, exists s',
  fold_left (fun r e =>
               bind r (fun st =>
               let total := conv_from_ext (st_tokens st) chain (s_ext e) (s_token e + s_fee e + s_comm e) in
               if negb (fits256 (supply st (refund_denom st e) + total)) then Ok st
               else
               match cancel_send st chain (s_id e) (s_sender e) with
               | Ok st' => Ok st'
               | Err _ => Ok st
               | Panic _ => Ok st
               end)) l (Ok st) = Ok s'.
Proof.
  induction l as [|e l IH]; intro st; cbn [fold_left]; [exists st; reflexivity|].
  cbn [bind]. cbv zeta. destruct (negb (fits256 _)); [apply IH|].
  destruct (cancel_send st chain (s_id e) (s_sender e)); apply IH.
Qed.

Lemma refund_expired_chain_ok s chain : exists s', refund_expired_chain s chain = Ok s'.
Proof. unfold refund_expired_chain. apply refund_expired_list_ok. Qed.

Theorem end_block_never_fails s : exists s', end_block s = Ok s'.
Proof.
  unfold end_block.
  assert (G : forall l st, exists s1,
            fold_left (fun r chain => bind r (fun st => refund_expired_chain (apply_pending st chain) chain)) l (Ok st) = Ok s1).
  { induction l as [|c l IH]; intro st; cbn [fold_left]; [exists st; reflexivity|].
    cbn [bind]. destruct (refund_expired_chain_ok (apply_pending st c) c) as [s2 E]. rewrite E. apply IH. }
  destruct (G (p_chains (st_params s)) s) as [s1 E]. rewrite E. cbn [bind]. eexists. reflexivity.
Qed.
