From V Require Import Base.Prelude Base.Val Num.Arith Hub.Votes Proofs.ListX Proofs.VotesInv.
Local Open Scope Z_scope.

Lemma c02_quorum ops :
  Forall wf_vop ops ->
  let s := vrun vinit ops in
  exists s' new,
    tally s = Ok s' /\ vs_applied s' = vs_applied s ++ new /\
    forall k, In k new ->
      exists r, In r (vs_records s) /\ rkey r = k /\ NoDup (vr_votes r) /\
                66 * total_power (vs_staking s) <= 100 * vote_power (vs_staking s) (vr_votes r).
Proof.
  intros Hw s. destruct (vrun_inv vinit ops vinit_VI Hw) as [HI Hp]. fold s in HI, Hp.
  destruct (tally_spec s HI Hp) as [s' [new [Et [_ [_ [_ [_ [Ha Hj]]]]]]]].
  exists s', new. repeat split; auto.
Qed.

Lemma c02_no_double ops :
  Forall wf_vop ops -> forall r, In r (vs_records (vrun vinit ops)) -> NoDup (vr_votes r).
Proof. intros Hw r Hr. destruct (vrun_inv vinit ops vinit_VI Hw) as [HI _]. apply (vi_votes_nodup _ HI r Hr). Qed.

Lemma c02_vote_cast_by_validator s signer nonce hash amount s' :
  vote s signer nonce hash amount = Ok s' ->
  exists v, In v (vs_staking s) /\ sv_bonded v = true /\
            (aget signer (vs_orch s) = Some (sv_addr v) \/ (aget signer (vs_orch s) = None /\ sv_acc v = signer)) /\
            exists r, In r (vs_records s') /\ rkey r = (nonce, hash) /\ last (vr_votes r) [] = sv_addr v.
Proof.
  intro H. unfold vote in H. unfold signer_validator in H.
  destruct (aget signer (vs_orch s)) as [va|] eqn:Eo.
  - destruct (find_val (vs_staking s) va) as [v|] eqn:Ef; simpl in H; [|discriminate].
    destruct (sv_bonded v) eqn:Eb; simpl in H; [|discriminate].
    destruct (_ && _)%bool; [discriminate|]. inversion H; subst s'; clear H.
    unfold find_val in Ef. apply find_some in Ef as [Hin Ea]. apply beqb_eq in Ea.
    exists v. repeat split; auto. { left. congruence. }
    eexists. split; [apply rec_update_in_r|]. simpl. split.
    + destruct (find (rec_is nonce hash) (vs_records s)) as [r0|] eqn:E0; [|reflexivity].
      apply find_some in E0 as [_ E0]. apply rec_is_iff in E0. exact E0.
    + apply last_last.
  - destruct (find (fun v => beqb (sv_acc v) signer) (vs_staking s)) as [v|] eqn:Ef; simpl in H; [|discriminate].
    destruct (sv_bonded v) eqn:Eb; simpl in H; [|discriminate].
    destruct (_ && _)%bool; [discriminate|]. inversion H; subst s'; clear H.
    apply find_some in Ef as [Hin Ea]. apply beqb_eq in Ea.
    exists v. repeat split; auto.
    eexists. split; [apply rec_update_in_r|]. simpl. split.
    + destruct (find (rec_is nonce hash) (vs_records s)) as [r0|] eqn:E0; [|reflexivity].
      apply find_some in E0 as [_ E0]. apply rec_is_iff in E0. exact E0.
    + apply last_last.
Qed.

(* ---------- C03 ---------- *)
Lemma nseq1_nodup k start : NoDup (nseq1 k start).
Proof.
  revert start. induction k as [|k IH]; intro start; simpl; constructor; auto.
  rewrite nseq1_in. lia.
Qed.

Lemma c03_consecutive ops :
  Forall wf_vop ops ->
  let s := vrun vinit ops in
  map fst (vs_applied s) = nseq1 (length (vs_applied s)) 1 /\
  vs_last_observed s = N.of_nat (length (vs_applied s)) /\
  NoDup (map fst (vs_applied s)) /\
  (forall r, In r (vs_records s) -> (vr_accepted r = true <-> In (rkey r) (vs_applied s))).
Proof.
  intros Hw s. destruct (vrun_inv vinit ops vinit_VI Hw) as [HI _]. fold s in HI.
  split; [apply (vi_applied_nonces s HI)|]. split; [apply (vi_last_observed s HI)|].
  split; [rewrite (vi_applied_nonces s HI); apply nseq1_nodup|].
  intros r Hr. apply (vi_accepted s HI r Hr).
Qed.

Lemma c03_tally_appends ops :
  Forall wf_vop ops ->
  let s := vrun vinit ops in
  exists s' new, tally s = Ok s' /\ vs_applied s' = vs_applied s ++ new /\ vs_last_by_val s' = vs_last_by_val s.
Proof.
  intros Hw s. destruct (vrun_inv vinit ops vinit_VI Hw) as [HI Hp]. fold s in HI, Hp.
  destruct (tally_spec s HI Hp) as [s' [new [Et [_ [_ [_ [Hl [Ha _]]]]]]]]. exists s', new. auto.
Qed.

Lemma c03_validator_contiguous s signer nonce hash amount s' :
  vote s signer nonce hash amount = Ok s' ->
  exists val, signer_validator s signer = Ok val /\
              aget val (vs_last_by_val s') = Some nonce /\
              (forall l, aget val (vs_last_by_val s) = Some l -> l <> 0%N -> nonce = (l + 1)%N).
Proof.
  intro H. unfold vote in H. destruct (signer_validator s signer) as [val|?|?] eqn:Es; simpl in H; try discriminate.
  destruct (negb (N.eqb nonce (last_nonce_of s val + 1)) && negb (N.eqb (last_nonce_of s val) 0))%bool eqn:Eg; [discriminate|].
  inversion H; subst s'; clear H. exists val. split; auto. simpl. split; [apply aget_aset_same|].
  intros l Hl Hnz. unfold last_nonce_of in Eg. rewrite Hl in Eg.
  apply andb_false_iff in Eg as [Eg|Eg]; apply negb_false_iff in Eg; apply N.eqb_eq in Eg; [exact Eg | contradiction].
Qed.
