From V Require Import Base.Prelude Base.Val Num.Arith Hub.SignerSet Proofs.ListX.
From Coq Require Import Permutation.
Local Open Scope Z_scope.
Local Arguments Z.mul : simpl never.
Local Arguments Z.add : simpl never.
Local Arguments Z.div : simpl never.

(* ---------- membership ---------- *)
Lemma members_spec vals a p :
  In (mkSigner a p) (members vals) <-> exists v, In v vals /\ bv_ext v = Some a /\ bv_power v = p.
Proof.
  unfold members. rewrite in_flat_map. split.
  - intros [v [Hv Hin]]. destruct (bv_ext v) as [a'|] eqn:E; [|contradiction].
    destruct Hin as [Hin|[]]. inversion Hin; subst. exists v. auto.
  - intros [v [Hv [E Hp]]]. exists v. split; auto. rewrite E. left. congruence.
Qed.

Lemma current_addrs vals l :
  current_signer_set vals = Ok l -> map sg_addr l = map sg_addr (members vals).
Proof.
  unfold current_signer_set. destruct (members vals) as [|m ms] eqn:E.
  - intro H. inversion H. reflexivity.
  - destruct (_ =? 0); [discriminate|]. intro H. inversion H; subst. simpl. f_equal. rewrite map_map. reflexivity.
Qed.

(* ---------- normalisation ---------- *)
Definition norm (T : Z) (m : signer) : signer := mkSigner (sg_addr m) (sg_power m * MAXU32 / T).

Lemma norm_forall2 T ms :
  0 < T -> (forall m, In m ms -> 0 <= sg_power m) ->
  Forall2 (fun m n => sg_addr n = sg_addr m /\ sg_power n = sg_power m * MAXU32 / T /\
                      sg_power n * T <= sg_power m * MAXU32 < (sg_power n + 1) * T /\ 0 <= sg_power n)
          ms (map (norm T) ms).
Proof.
  intros HT. induction ms as [|m ms IH]; simpl; intro Hm; constructor.
  - simpl. pose proof (Hm m (or_introl eq_refl)). unfold MAXU32.
    pose proof (Z.mul_div_le (sg_power m * 4294967295) T HT).
    pose proof (Z.mul_succ_div_gt (sg_power m * 4294967295) T HT).
    repeat split; try lia. apply Z.div_pos; lia.
  - apply IH. intros x Hx. apply Hm. right. exact Hx.
Qed.

Lemma norm_sum T ms :
  0 < T -> (forall m, In m ms -> 0 <= sg_power m) ->
  total_of (map (norm T) ms) * T <= MAXU32 * total_of ms.
Proof.
  intros HT. unfold total_of. induction ms as [|m ms IH]; simpl; intro Hm; [lia|].
  pose proof (Z.mul_div_le (sg_power m * MAXU32) T HT) as Hd. specialize (IH (fun x Hx => Hm x (or_intror Hx))).
  set (x := sg_power m * MAXU32 / T) in *. clearbody x.
  set (S1 := zsum (map sg_power (map (norm T) ms))) in *. clearbody S1.
  set (S2 := zsum (map sg_power ms)) in *. clearbody S2. nia.
Qed.

Lemma current_powers vals l :
  (forall v, In v vals -> 0 <= bv_power v) ->
  current_signer_set vals = Ok l ->
  let T := total_of (members vals) in
  (members vals = [] /\ l = []) \/
  (0 < T /\
   Forall2 (fun m n => sg_addr n = sg_addr m /\ sg_power n = sg_power m * MAXU32 / T /\
                       sg_power n * T <= sg_power m * MAXU32 < (sg_power n + 1) * T /\ 0 <= sg_power n)
           (members vals) l /\
   total_of l <= MAXU32).
Proof.
  intros Hpos H T.
  assert (Hm : forall m, In m (members vals) -> 0 <= sg_power m).
  { intros [a p] Hin. apply members_spec in Hin as [v [Hv [_ <-]]]. simpl. auto. }
  assert (Hl : members vals = [] /\ l = [] \/ (T <> 0 /\ l = map (norm T) (members vals))).
  { unfold current_signer_set in H. fold T in H. destruct (members vals) as [|m0 ms0].
    - left. inversion H. auto.
    - right. destruct (T =? 0) eqn:ET; [discriminate|]. apply Z.eqb_neq in ET. inversion H. split; auto. }
  destruct Hl as [Hl|[HT0 ->]]; [left; exact Hl|]. right.
  assert (HT : 0 < T).
  { assert (0 <= T) by (unfold T, total_of; apply zsum_nonneg; apply Forall_forall; intros x Hx;
      apply in_map_iff in Hx as [m [<- Hin]]; apply Hm; exact Hin). lia. }
  split; [exact HT|]. split; [apply norm_forall2; auto|].
  pose proof (norm_sum T (members vals) HT Hm) as K. fold T in K. unfold MAXU32 in *. nia.
Qed.

(* ---------- sorting ---------- *)
Definition sg_le (a b : signer) : Prop := sg_before b a = false.   (* a is not after b *)

Lemma bltb_false_iff a b : bltb a b = false <-> bcmp a b <> Lt.
Proof. unfold bltb. destruct (bcmp a b); split; congruence. Qed.

Lemma sg_le_total a b : sg_le a b \/ sg_le b a.
Proof.
  unfold sg_le, sg_before. rewrite (Z.eqb_sym (sg_power a) (sg_power b)).
  destruct (sg_power b =? sg_power a) eqn:E.
  - rewrite !bltb_false_iff. rewrite (bcmp_antisym (sg_addr a) (sg_addr b)).
    destruct (bcmp (sg_addr a) (sg_addr b)); simpl; [left|left|right]; congruence.
  - apply Z.eqb_neq in E. destruct (Z.ltb_spec (sg_power a) (sg_power b)); [right|left]; lia.
Qed.

Lemma bcmp_le_trans a b c : bcmp a b <> Gt -> bcmp b c <> Gt -> bcmp a c <> Gt.
Proof.
  intros H1 H2. intro E.
  assert (A : bcmp c b <> Lt) by (rewrite bcmp_antisym; destruct (bcmp b c); simpl; congruence).
  assert (B : bcmp b a <> Lt) by (rewrite bcmp_antisym; destruct (bcmp a b); simpl; congruence).
  pose proof (bcmp_trans_ge c b a A B) as C. rewrite bcmp_antisym, E in C. simpl in C. congruence.
Qed.

Lemma sg_le_trans a b c : sg_le a b -> sg_le b c -> sg_le a c.
Proof.
  unfold sg_le, sg_before. intros H1 H2.
  destruct (Z.eqb_spec (sg_power b) (sg_power a)) as [E1|E1];
  destruct (Z.eqb_spec (sg_power c) (sg_power b)) as [E2|E2];
  destruct (Z.eqb_spec (sg_power c) (sg_power a)) as [E3|E3];
  try (apply Z.ltb_ge in H1); try (apply Z.ltb_ge in H2); try (apply Z.ltb_ge); try lia.
  apply bltb_false_iff in H1, H2. apply bltb_false_iff.
  (* a <= b <= c on addresses *)
  assert (A : bcmp (sg_addr a) (sg_addr b) <> Gt) by (rewrite bcmp_antisym; destruct (bcmp (sg_addr b) (sg_addr a)); simpl; congruence).
  assert (B : bcmp (sg_addr b) (sg_addr c) <> Gt) by (rewrite bcmp_antisym; destruct (bcmp (sg_addr c) (sg_addr b)); simpl; congruence).
  pose proof (bcmp_le_trans _ _ _ A B) as C. rewrite bcmp_antisym. destruct (bcmp (sg_addr a) (sg_addr c)); simpl; congruence.
Qed.

Lemma sg_le_antisym a b : sg_le a b -> sg_le b a -> a = b.
Proof.
  unfold sg_le, sg_before. intros H1 H2. rewrite (Z.eqb_sym (sg_power a) (sg_power b)) in H2.
  destruct (sg_power b =? sg_power a) eqn:E.
  - apply Z.eqb_eq in E. apply bltb_false_iff in H1, H2. rewrite bcmp_antisym in H2.
    destruct (bcmp (sg_addr b) (sg_addr a)) eqn:C; simpl in *; try congruence.
    apply bcmp_eq in C. destruct a, b; simpl in *; congruence.
  - apply Z.eqb_neq in E. apply Z.ltb_ge in H1, H2. lia.
Qed.

Fixpoint sg_sorted (l : list signer) : Prop :=
  match l with
  | [] => True
  | x :: l' => (forall y, In y l' -> sg_le x y) /\ sg_sorted l'
  end.

Lemma sg_insert_perm x l : Permutation (sg_insert x l) (x :: l).
Proof.
  induction l as [|y l IH]; simpl; [reflexivity|]. destruct (sg_before y x); [|reflexivity].
  rewrite IH. apply perm_swap.
Qed.
Lemma sg_sort_perm l : Permutation (sg_sort l) l.
Proof. induction l as [|x l IH]; simpl; [reflexivity|]. rewrite sg_insert_perm. constructor. exact IH. Qed.

Lemma sg_insert_sorted x l : sg_sorted l -> sg_sorted (sg_insert x l).
Proof.
  induction l as [|y l IH]; simpl; intro H; [split; [intros ? []|exact I]|].
  destruct H as [Hy Hl]. destruct (sg_before y x) eqn:E; simpl.
  - split; [|apply IH; exact Hl]. intros z Hz. apply (Permutation_in _ (sg_insert_perm x l)) in Hz.
    destruct Hz as [<-|Hz]; [|apply Hy; exact Hz].
    destruct (sg_le_total y x) as [A|A]; [exact A|]. unfold sg_le in A. congruence.
  - split; [|split; auto]. intros z [<-|Hz]; [exact E|].
    apply (sg_le_trans x y z); [exact E | apply Hy; exact Hz].
Qed.
Lemma sg_sort_sorted l : sg_sorted (sg_sort l).
Proof. induction l as [|x l IH]; simpl; [exact I | apply sg_insert_sorted; exact IH]. Qed.

(* the sorted order is unique: any sorted permutation of the same signers is this list *)
Lemma sorted_perm_unique l1 : forall l2, Permutation l1 l2 -> sg_sorted l1 -> sg_sorted l2 -> l1 = l2.
Proof.
  induction l1 as [|x t1 IH]; intros l2 Hp H1 H2.
  - apply Permutation_nil in Hp. congruence.
  - destruct l2 as [|y t2]; [apply Permutation_sym, Permutation_nil in Hp; discriminate|].
    destruct H1 as [Hx S1]. destruct H2 as [Hy S2].
    assert (x = y).
    { assert (In y (x :: t1)) by (eapply Permutation_in; [symmetry; exact Hp | left; reflexivity]).
      assert (In x (y :: t2)) by (eapply Permutation_in; [exact Hp | left; reflexivity]).
      destruct H as [->|Hyt]; [reflexivity|]. destruct H0 as [->|Hxt]; [reflexivity|].
      apply sg_le_antisym; auto. }
    subst y. f_equal. apply IH; auto. eapply Permutation_cons_inv; eauto.
Qed.

(* ---------- nonces and freshness ---------- *)
Lemma create_set_spec s height vals s' :
  create_set s height vals = Ok s' ->
  exists cur, current_signer_set vals = Ok cur /\
              ss_latest_nonce s' = (ss_latest_nonce s + 1)%N /\
              ss_latest s' = Some (ss_latest_nonce s', height, sg_sort cur).
Proof.
  unfold create_set. destruct (current_signer_set vals) as [cur|?|?]; simpl; try discriminate.
  intro H. inversion H; subst. exists cur. auto.
Qed.

Lemma begin_block_sets_spec s height lu vals s' :
  begin_block_sets s height lu vals = Ok s' ->
  exists cur, current_signer_set vals = Ok cur /\
    ((ss_latest_nonce s' = (ss_latest_nonce s + 1)%N /\ ss_latest s' = Some (ss_latest_nonce s', height, sg_sort cur)) \/
     (s' = s /\ exists n h latest, ss_latest s = Some (n, h, latest) /\ 20 * diff_sum cur latest <= MAXU32 /\ lu <> height)).
Proof.
  unfold begin_block_sets. destruct (ss_latest s) as [[[n h] latest]|] eqn:E.
  - destruct (current_signer_set vals) as [cur|?|?] eqn:Ec; simpl; try discriminate.
    destruct (N.eqb lu height || power_diff_exceeds cur latest)%bool eqn:Eg.
    + intro H. apply create_set_spec in H as [cur' [Ec' [A B]]]. exists cur. rewrite Ec in Ec'. inversion Ec'; subst. auto.
    + intro H. inversion H; subst. exists cur. split; auto. right. split; auto.
      apply orb_false_iff in Eg as [E1 E2]. apply N.eqb_neq in E1. unfold power_diff_exceeds in E2. apply Z.ltb_ge in E2.
      exists n, h, latest. auto.
  - intro H. apply create_set_spec in H as [cur [Ec [A B]]]. exists cur. auto.
Qed.
