(* List lemmas used by the hub invariants. *)
From V Require Import Base.Prelude.
From Coq Require Import Permutation.

Lemma NoDup_map_inv_in {A B} (f : A -> B) l x y :
  NoDup (map f l) -> In x l -> In y l -> f x = f y -> x = y.
Proof.
  induction l as [|a l IH]; simpl; intros Hnd Hx Hy E; [contradiction|].
  inversion Hnd as [|? ? Hnotin Hnd']; subst.
  destruct Hx as [->|Hx], Hy as [->|Hy]; auto.
  - exfalso. apply Hnotin. rewrite E. apply in_map. exact Hy.
  - exfalso. apply Hnotin. rewrite <- E. apply in_map. exact Hx.
Qed.

Lemma filter_incl_in {A} (p : A -> bool) l x : In x (filter p l) -> In x l.
Proof. intro H. apply filter_In in H. tauto. Qed.

Lemma NoDup_filter_map {A B} (f : A -> B) (p : A -> bool) l :
  NoDup (map f l) -> NoDup (map f (filter p l)).
Proof.
  induction l as [|a l IH]; simpl; intro H; [constructor|].
  inversion H as [|? ? Hn Hd]; subst. destruct (p a); simpl; auto.
  constructor; auto. intro Hin. apply Hn. apply in_map_iff in Hin as [x [E Hx]].
  apply in_map_iff. exists x. split; auto. apply filter_In in Hx. tauto.
Qed.

Lemma firstn_incl {A} n (l : list A) x : In x (firstn n l) -> In x l.
Proof.
  revert l; induction n as [|n IH]; intros [|a l]; simpl; try tauto.
  intros [->|H]; auto.
Qed.

Lemma NoDup_firstn {A} n (l : list A) : NoDup l -> NoDup (firstn n l).
Proof.
  revert l; induction n as [|n IH]; intros [|a l]; simpl; intro H; try constructor.
  - inversion H; subst. intro Hin. apply firstn_incl in Hin. contradiction.
  - inversion H; subst. auto.
Qed.

Lemma firstn_length_le {A} n (l : list A) : length (firstn n l) <= n.
Proof. rewrite firstn_length. lia. Qed.

Lemma NoDup_app_iff {A} (l1 l2 : list A) :
  NoDup (l1 ++ l2) <-> NoDup l1 /\ NoDup l2 /\ (forall x, In x l1 -> In x l2 -> False).
Proof.
  induction l1 as [|a l1 IH]; simpl.
  - split; [intro H; repeat split; auto; constructor | tauto].
  - split.
    + intro H. inversion H as [|? ? Hn Hd]; subst. apply IH in Hd as [H1 [H2 H3]].
      repeat split; auto.
      * constructor; auto. intro Hin. apply Hn. apply in_or_app. auto.
      * intros x [->|Hx] Hx2; [apply Hn; apply in_or_app; auto | eapply H3; eauto].
    + intros [H1 [H2 H3]]. inversion H1 as [|? ? Hn Hd]; subst. constructor.
      * intro Hin. apply in_app_or in Hin as [Hin|Hin]; [contradiction | eapply H3; eauto].
      * apply IH. repeat split; auto. intros x Hx. apply H3. auto.
Qed.

(* generic lemma for folds in the res monad *)
Lemma fold_res_inv {S X} (P : S -> Prop) (f : S -> X -> res S) (l : list X) :
  (forall st x st', P st -> f st x = Ok st' -> P st') ->
  forall r s', (forall s, r = Ok s -> P s) ->
  fold_left (fun r x => bind r (fun st => f st x)) l r = Ok s' -> P s'.
Proof.
  intro Hstep. induction l as [|x l IH]; simpl; intros r s' Hr H.
  - apply Hr. exact H.
  - eapply IH; [|exact H]. intros s Hs. destruct r as [s0|c|c]; simpl in Hs; try discriminate.
    eapply Hstep; [apply Hr; reflexivity | exact Hs].
Qed.

Lemma fold_left_inv {S X} (P : S -> Prop) (f : S -> X -> S) (l : list X) s :
  (forall st x, P st -> P (f st x)) -> P s -> P (fold_left f l s).
Proof. intro H. revert s. induction l as [|x l IH]; simpl; intros s Hs; auto. Qed.

Lemma fold_left_inv_in {S X} (P : S -> Prop) (f : S -> X -> S) (l : list X) s :
  (forall st x, In x l -> P st -> P (f st x)) -> P s -> P (fold_left f l s).
Proof.
  revert s. induction l as [|x l IH]; simpl; intros s H Hs; [exact Hs|].
  apply IH; [intros st y Hy; apply H; right; exact Hy | apply H; [left; reflexivity | exact Hs]].
Qed.

(* ---------- byte-string order ---------- *)
Lemma bcmp_refl a : bcmp a a = Eq.
Proof. apply bcmp_eq. reflexivity. Qed.

Lemma bcmp_trans_ge a b c : bcmp a b <> Lt -> bcmp b c <> Lt -> bcmp a c <> Lt.
Proof.
  revert b c. induction a as [|x a IH]; intros [|y b] [|z c]; simpl; intros H1 H2; try congruence.
  destruct (N.compare x y) eqn:E1; try congruence.
  - apply N.compare_eq in E1. subst y. destruct (N.compare x z) eqn:E2; try congruence. eapply IH; eauto.
  - destruct (N.compare y z) eqn:E2; try congruence.
    + apply N.compare_eq in E2. subst z. rewrite E1. congruence.
    + assert (N.compare x z = Gt) as ->; [|congruence].
      apply N.compare_gt_iff. apply N.compare_gt_iff in E1, E2. lia.
Qed.

