(* C20 — Minter connector: the persisted cursor is always a whole-block cursor of the chain, so
   event nonces do not depend on where the connector was stopped; command validity. *)
From V Require Import Base.Prelude Base.Val Num.Arith Conn.Connector Proofs.ListX.
Local Open Scope Z_scope.

(* ---------- commands ---------- *)
Lemma cmd_valid_spec ty rcpt fee amount bech_ok :
  cmd_valid ty rcpt fee amount bech_ok = true <->
  ((beqb ty t_send_to_eth || beqb ty t_send_to_bsc = true /\ is_hex_address rcpt = true) \/
   (beqb ty t_send_to_eth || beqb ty t_send_to_bsc = false /\ ty = t_send_to_hub /\ bech_ok = true)) /\
  exists f, parse_sdk_int fee = Some f /\ 0 <= f < amount - quo_trunc amount 100.
Proof.
  unfold cmd_valid. rewrite andb_true_iff. split.
  - intros [H1 H2]. split.
    + destruct (beqb ty t_send_to_eth || beqb ty t_send_to_bsc) eqn:E; [left; auto|].
      destruct (beqb ty t_send_to_hub) eqn:E2; [|discriminate]. apply beqb_eq in E2. right. auto.
    + destruct (parse_sdk_int fee) as [f|]; [|discriminate]. exists f. split; [reflexivity|].
      apply andb_true_iff in H2 as [A B]. lia.
  - intros [H1 [f [Hf Hb]]]. split.
    + destruct H1 as [[E H]|[E [-> H]]]; rewrite E; [exact H|]. rewrite beqb_refl. exact H.
    + rewrite Hf. apply andb_true_iff. split; lia.
Qed.

(* ---------- whole-block scans ---------- *)
Definition nevents (txs : list mtx) : Z := Z.of_nat (length (filter is_event txs)).
Definition count_events (blocks : list (list mtx)) : Z := zsum (map nevents blocks).

Fixpoint full_blocks (c : cursor) (h : Z) (blocks : list (list mtx)) : cursor :=
  match blocks with
  | [] => c
  | txs :: rest => full_blocks (at_block (scan_txs c txs) h) (h + 1) rest
  end.

Lemma at_block_same c : at_block c (cu_block c) = c.
Proof. destruct c; reflexivity. Qed.

Lemma apply_ev_block c e : cu_block (apply_ev c e) = cu_block c.
Proof. destruct e; reflexivity. Qed.

Lemma apply_ev_nonce c t : cu_nonce (apply_ev c (classify t)) = cu_nonce c + (if is_event t then 1 else 0).
Proof. unfold is_event. destruct (classify t); simpl; lia. Qed.

Lemma scan_txs_block txs : forall c, cu_block (scan_txs c txs) = cu_block c.
Proof.
  unfold scan_txs. induction txs as [|t r IH]; intro c; simpl; [reflexivity|]. rewrite IH. apply apply_ev_block.
Qed.

Lemma scan_txs_nonce txs : forall c, cu_nonce (scan_txs c txs) = cu_nonce c + nevents txs.
Proof.
  unfold scan_txs, nevents. induction txs as [|t r IH]; intro c; simpl; [lia|].
  rewrite IH, apply_ev_nonce. destruct (is_event t); simpl; lia.
Qed.

Lemma scan_until_some ack txs : forall c c', scan_until ack c txs = Some c' -> c' = scan_txs c txs.
Proof.
  unfold scan_txs. induction txs as [|t r IH]; intros c c' H; simpl in *; [congruence|].
  destruct (is_event t) eqn:E.
  - destruct ((0 <? ack) && (ack <? cu_nonce c)); [discriminate|]. apply IH. exact H.
  - assert (apply_ev c (classify t) = c) as ->; [|apply IH; exact H].
    unfold is_event in E. destruct (classify t); try discriminate. reflexivity.
Qed.

Lemma full_blocks_app a : forall c h b,
  full_blocks c h (a ++ b) = full_blocks (full_blocks c h a) (h + Z.of_nat (length a)) b.
Proof.
  induction a as [|x a IH]; intros c h b; simpl; [f_equal; lia|].
  rewrite IH. f_equal. lia.
Qed.

Lemma full_blocks_block blocks : forall c h, cu_block c = h - 1 ->
  cu_block (full_blocks c h blocks) = h - 1 + Z.of_nat (length blocks).
Proof.
  induction blocks as [|txs rest IH]; intros c h Hc; simpl; [lia|].
  rewrite IH; [lia | simpl; lia].
Qed.

Lemma full_blocks_nonce blocks : forall c h,
  cu_nonce (full_blocks c h blocks) = cu_nonce c + count_events blocks.
Proof.
  unfold count_events. induction blocks as [|txs rest IH]; intros c h; simpl; [lia|].
  rewrite IH. simpl. rewrite scan_txs_nonce. lia.
Qed.

(* the resync ends on a whole number of the offered blocks *)
Lemma resync_blocks_prefix ack blocks : forall c h com, cu_block c = h - 1 ->
  exists k, (k <= length blocks)%nat /\ fst (resync_blocks ack c h blocks com) = full_blocks c h (firstn k blocks).
Proof.
  induction blocks as [|txs rest IH]; intros c h com Hc; simpl.
  - exists 0%nat. split; [lia | reflexivity].
  - destruct (scan_until ack c txs) as [c'|] eqn:E.
    + apply scan_until_some in E. subst c'.
      destruct (IH (at_block (scan_txs c txs) h) (h + 1) true) as [k [Hk Hr]]; [simpl; lia|].
      exists (S k). split; [lia|]. simpl. exact Hr.
    + exists 0%nat. split; [lia|]. simpl. rewrite <- Hc. apply at_block_same.
Qed.

(* ---------- consistency with the chain ---------- *)
Definition blocks_after (chain : list (list mtx)) (start : cursor) : list (list mtx) :=
  skipn (Z.to_nat (cu_block start)) chain.

(* c is the cursor obtained by scanning, from the configured start, the first k blocks after the
   start block completely *)
Definition consistent (start : cursor) (chain : list (list mtx)) (c : cursor) : Prop :=
  exists k, (k <= length (blocks_after chain start))%nat /\
            c = full_blocks start (cu_block start + 1) (firstn k (blocks_after chain start)).

Lemma consistent_start start chain : consistent start chain start.
Proof. exists 0%nat. split; [lia | reflexivity]. Qed.

Lemma consistent_facts start chain c : 0 <= cu_block start -> consistent start chain c ->
  exists k, (k <= length (blocks_after chain start))%nat /\
            cu_block c = cu_block start + Z.of_nat k /\
            cu_nonce c = cu_nonce start + count_events (firstn k (blocks_after chain start)).
Proof.
  intros H0 [k [Hk ->]]. exists k. split; [exact Hk|]. split.
  - rewrite full_blocks_block by lia. rewrite List.firstn_length_le by exact Hk. lia.
  - apply full_blocks_nonce.
Qed.

Lemma skipn_skipn_add {A} (l : list A) : forall a b, skipn a (skipn b l) = skipn (b + a) l.
Proof.
  induction l as [|x l IH]; intros a b; [destruct a, b; reflexivity|].
  destruct b as [|b]; simpl; [reflexivity|]. apply IH.
Qed.

Lemma firstn_add_split {A} (l : list A) k m : firstn (k + m) l = firstn k l ++ firstn m (skipn k l).
Proof.
  revert l. induction k as [|k IH]; intro l; simpl; [reflexivity|].
  destruct l as [|x l]; simpl; [destruct m; reflexivity|]. rewrite IH. reflexivity.
Qed.

Lemma blocks_between_spec chain first latest : 0 <= first ->
  blocks_between chain first latest = firstn (Z.to_nat latest - Z.to_nat first) (skipn (Z.to_nat first) chain).
Proof.
  intro H. unfold blocks_between.
  destruct (le_lt_dec (Z.to_nat first) (Z.to_nat latest)) as [Hle|Hlt].
  - replace (Z.to_nat latest) with (Z.to_nat first + (Z.to_nat latest - Z.to_nat first))%nat at 1 by lia.
    symmetry. apply firstn_skipn_comm.
  - replace (Z.to_nat latest - Z.to_nat first)%nat with 0%nat by lia. simpl.
    apply skipn_all2. rewrite firstn_length. lia.
Qed.

Lemma extend_consistent start chain c j k2 : 0 <= cu_block start ->
  consistent start chain c ->
  consistent start chain
    (full_blocks c (cu_block c + 1) (firstn k2 (firstn j (skipn (Z.to_nat (cu_block c)) chain)))).
Proof.
  intros H0 Hc. destruct (consistent_facts start chain c H0 Hc) as [k [Hk [Hb _]]].
  destruct Hc as [k' [Hk' Hc]].
  assert (k' = k) as ->.
  { subst c. rewrite full_blocks_block in Hb by lia. rewrite List.firstn_length_le in Hb by exact Hk'. lia. }
  set (rest := skipn (Z.to_nat (cu_block c)) chain).
  assert (rest = skipn k (blocks_after chain start)) as Hrest.
  { unfold rest, blocks_after. rewrite skipn_skipn_add. f_equal. lia. }
  rewrite firstn_firstn. set (m := Nat.min k2 j).
  exists (k + Nat.min m (length rest))%nat. split.
  - rewrite Hrest, skipn_length. lia.
  - rewrite firstn_add_split, full_blocks_app, <- Hc, <- Hrest.
    rewrite List.firstn_length_le by exact Hk. rewrite Hb.
    replace (cu_block start + 1 + Z.of_nat k) with (cu_block start + Z.of_nat k + 1) by lia.
    f_equal. destruct (le_lt_dec m (length rest)) as [Hm|Hm].
    + rewrite Nat.min_l by exact Hm. reflexivity.
    + rewrite Nat.min_r by lia. rewrite !firstn_all2 by lia. reflexivity.
Qed.

(* the resync of any consistent cursor, with any acknowledged nonce and any node height, is consistent *)
Lemma resync_consistent start chain c ack latest : 0 <= cu_block start ->
  consistent start chain c -> consistent start chain (fst (resync chain c ack latest)).
Proof.
  intros H0 Hc. unfold resync.
  destruct (consistent_facts start chain c H0 Hc) as [k [_ [Hb _]]].
  rewrite blocks_between_spec by lia.
  destruct (resync_blocks_prefix ack (firstn (Z.to_nat latest - Z.to_nat (cu_block c))
                                             (skipn (Z.to_nat (cu_block c)) chain)) c (cu_block c + 1) false) as [k2 [_ Hr]]; [lia|].
  rewrite Hr. apply extend_consistent; assumption.
Qed.

(* ---------- the status file over any restart history ---------- *)
Definition file_ok (start : cursor) (chain : list (list mtx)) (f : sfile) : Prop :=
  match f with FOk c => consistent start chain c | _ => True end.

Lemma load_consistent start chain f : file_ok start chain f -> consistent start chain (load start f).
Proof. destruct f; simpl; auto using consistent_start. Qed.

Lemma cstep_file_ok start chain f o : 0 <= cu_block start ->
  file_ok start chain f -> file_ok start chain (fst (cstep start chain f o)) /\
  (forall c, snd (cstep start chain f o) = Some c -> consistent start chain c).
Proof.
  intros H0 Hf. destruct o as [ack latest| |]; simpl; try (split; [exact I | discriminate]).
  pose proof (resync_consistent start chain (load start f) ack latest H0 (load_consistent _ _ _ Hf)) as Hr.
  destruct (resync chain (load start f) ack latest) as [c com]. simpl in *. split.
  - destruct com; [exact Hr | exact Hf].
  - intros c' E. inversion E; subst. exact Hr.
Qed.

Lemma crun_file_ok start chain ops : 0 <= cu_block start -> forall f,
  file_ok start chain f -> file_ok start chain (fold_left (fun f o => fst (cstep start chain f o)) ops f).
Proof.
  intro H0. induction ops as [|o ops IH]; intros f Hf; simpl; [exact Hf|].
  apply IH. apply cstep_file_ok; assumption.
Qed.

(* ---------- relay: claims carry canonical nonces ---------- *)
Fixpoint zseq (a : Z) (n : nat) : list Z := match n with O => [] | S n' => a :: zseq (a + 1) n' end.

Lemma zseq_app a n m : zseq a (n + m) = zseq a n ++ zseq (a + Z.of_nat n) m.
Proof.
  revert a. induction n as [|n IH]; intro a.
  - simpl. replace (a + 0) with a by lia. reflexivity.
  - cbn [zseq Nat.add app]. f_equal. rewrite IH. f_equal. f_equal. lia.
Qed.

Lemma relay_block_spec txs : forall c claims0,
  let r := fold_left (fun (acc : cursor * list (Z * bev)) t =>
               match classify t with
               | BNone => acc
               | e => (apply_ev (fst acc) e, snd acc ++ [(cu_nonce (fst acc), e)])
               end) txs (c, claims0) in
  fst r = scan_txs c txs /\
  map fst (snd r) = map fst claims0 ++ zseq (cu_nonce c) (length (filter is_event txs)).
Proof.
  unfold scan_txs. induction txs as [|t rest IH]; intros c claims0; simpl.
  - split; [reflexivity | rewrite app_nil_r; reflexivity].
  - unfold is_event at 1. destruct (classify t) eqn:E; simpl;
      try (specialize (IH (apply_ev c (classify t)) (claims0 ++ [(cu_nonce c, classify t)]));
           rewrite E in IH; simpl in IH; destruct IH as [A B]; split; [exact A|];
           rewrite B, map_app, <- app_assoc; simpl; reflexivity).
    specialize (IH c claims0). simpl in IH. exact IH.
Qed.

Lemma relay_blocks_spec blocks : forall c h,
  fst (relay_blocks c h blocks) = full_blocks c h blocks /\
  map fst (snd (relay_blocks c h blocks)) = zseq (cu_nonce c) (Z.to_nat (count_events blocks)).
Proof.
  unfold count_events. induction blocks as [|txs rest IH]; intros c h; simpl; [split; reflexivity|].
  unfold relay_block. destruct (relay_block_spec txs (at_block c h) []) as [A B]. simpl in A, B.
  destruct (fold_left _ txs (at_block c h, [])) as [c1 claims1] eqn:E1. simpl in A, B.
  destruct (IH c1 (h + 1)) as [A2 B2]. destruct (relay_blocks c1 (h + 1) rest) as [c2 claims2]. simpl in *.
  split.
  - rewrite A2. subst c1. f_equal. unfold scan_txs.
    (* scanning commutes with the block label *)
    clear. revert c. induction txs as [|t r IH]; intro c; simpl; [reflexivity|].
    rewrite <- IH. f_equal. destruct (classify t); reflexivity.
  - rewrite map_app, B, B2. subst c1. rewrite scan_txs_nonce. simpl.
    assert (0 <= zsum (map nevents rest)) as Hnn.
    { apply zsum_nonneg. apply Forall_forall. intros x Hx. apply in_map_iff in Hx as [y [<- _]]. unfold nevents. lia. }
    assert (nevents txs = Z.of_nat (length (filter is_event txs))) as Hn by reflexivity.
    rewrite Hn. rewrite Z2Nat.inj_add by lia. rewrite Nat2Z.id.
    rewrite zseq_app. reflexivity.
Qed.

Lemma zseq_length a n : length (zseq a n) = n.
Proof. revert a. induction n as [|n IH]; intro a; simpl; [reflexivity | rewrite IH; reflexivity]. Qed.

(* a relay round from a consistent cursor ends on a consistent cursor and numbers the events it
   claims consecutively from the cursor's next nonce *)
Lemma relay_consistent start chain c latest : 0 <= cu_block start ->
  consistent start chain c ->
  consistent start chain (fst (relay chain c latest)) /\
  map fst (snd (relay chain c latest)) = zseq (cu_nonce c) (length (snd (relay chain c latest))).
Proof.
  intros H0 Hc. unfold relay.
  destruct (consistent_facts start chain c H0 Hc) as [k [_ [Hb _]]].
  rewrite blocks_between_spec by lia.
  set (L := firstn (Z.to_nat (Z.min latest (cu_block c + 100)) - Z.to_nat (cu_block c))
                   (skipn (Z.to_nat (cu_block c)) chain)).
  destruct (relay_blocks_spec L c (cu_block c + 1)) as [A B]. split.
  - rewrite A. rewrite <- (firstn_all L). unfold L at 2. apply extend_consistent; assumption.
  - rewrite B. f_equal. rewrite <- (map_length fst), B, zseq_length. reflexivity.
Qed.

(* executable form of consistency, used by the monitor *)
Definition cursor_consistentb (start : cursor) (chain : list (list mtx)) (c : cursor) : bool :=
  let blocks := blocks_between chain (cu_block start) (cu_block c) in
  (cu_block start <=? cu_block c) && (cu_block c <=? cu_block start + Z.of_nat (length (blocks_after chain start)))
  && (cu_nonce c =? cu_nonce start + count_events blocks).

Lemma consistent_checks start chain c : 0 <= cu_block start ->
  consistent start chain c -> cursor_consistentb start chain c = true.
Proof.
  intros H0 Hc. destruct (consistent_facts start chain c H0 Hc) as [k [Hk [Hb Hn]]].
  unfold cursor_consistentb. rewrite blocks_between_spec by lia.
  replace (Z.to_nat (cu_block c) - Z.to_nat (cu_block start))%nat with k by lia.
  fold (blocks_after chain start). rewrite Hn. rewrite Z.eqb_refl. rewrite andb_true_r.
  apply andb_true_iff. split; lia.
Qed.

(* ---------- the co-executed form of a relay round (claims with heights) agrees with `relay` ---------- *)
Definition claim_nonce (v : val) : Z := vI (vnth 1 v).

Lemma claims_block_relay_block txs : forall c h l0 r0,
  map claim_nonce l0 = map fst r0 ->
  let a := fold_left (fun (acc : cursor * list val) t =>
               let e := classify t in (apply_ev (fst acc) e, snd acc ++ enc_claim (fst acc) h e)) txs (c, l0) in
  let b := fold_left (fun (acc : cursor * list (Z * bev)) t =>
               match classify t with
               | BNone => acc
               | e => (apply_ev (fst acc) e, snd acc ++ [(cu_nonce (fst acc), e)])
               end) txs (c, r0) in
  fst a = fst b /\ map claim_nonce (snd a) = map fst (snd b).
Proof.
  induction txs as [|t rest IH]; intros c h l0 r0 H0; cbn [fold_left]; [split; [reflexivity | exact H0]|].
  cbn [fst snd]. destruct (classify t) eqn:E; cbn [apply_ev enc_claim].
  - apply IH. rewrite !map_app, H0. reflexivity.
  - apply IH. rewrite !map_app, H0. reflexivity.
  - apply IH. rewrite !map_app, H0. reflexivity.
  - rewrite app_nil_r. destruct c; cbn. apply IH. exact H0.
Qed.

Lemma claims_blocks_relay_blocks blocks : forall c h,
  fst (claims_blocks c h blocks) = fst (relay_blocks c h blocks) /\
  map claim_nonce (snd (claims_blocks c h blocks)) = map fst (snd (relay_blocks c h blocks)).
Proof.
  induction blocks as [|txs rest IH]; intros c h; cbn [claims_blocks relay_blocks]; [split; reflexivity|].
  unfold claims_block, relay_block.
  destruct (claims_block_relay_block txs (at_block c h) h [] [] eq_refl) as [A B]. cbv zeta in A, B.
  destruct (fold_left _ txs (at_block c h, @nil val)) as [c1 l1].
  destruct (fold_left _ txs (at_block c h, @nil (Z * bev))) as [c1' r1].
  cbn [fst snd] in A, B. subst c1'.
  destruct (IH c1 (h + 1)) as [A2 B2].
  destruct (claims_blocks c1 (h + 1) rest) as [c2 l2]. destruct (relay_blocks c1 (h + 1) rest) as [c2' r2].
  cbn [fst snd] in *. split; [exact A2 | rewrite !map_app, B, B2; reflexivity].
Qed.

(* the claims a round hands to the committer: whole-block cursor afterwards, event nonces consecutive from the
   cursor's next nonce *)
Theorem relay_claims_consistent start chain c latest : 0 <= cu_block start ->
  consistent start chain c ->
  consistent start chain (fst (relay_claims chain c latest)) /\
  map claim_nonce (snd (relay_claims chain c latest)) = zseq (cu_nonce c) (length (snd (relay_claims chain c latest))).
Proof.
  intros H0 Hc. destruct (relay_consistent start chain c latest H0 Hc) as [A B].
  unfold relay_claims, relay in *.
  destruct (claims_blocks_relay_blocks (blocks_between chain (cu_block c) (Z.min latest (cu_block c + 100))) c (cu_block c + 1)) as [E1 E2].
  rewrite E1. split; [exact A|].
  rewrite E2, B. f_equal. rewrite <- (map_length claim_nonce), E2, map_length. reflexivity.
Qed.
