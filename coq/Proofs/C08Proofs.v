(* C08 — the external contract accepts a signer-set update or batch exactly when validators of its
   current set holding more than the threshold signed it (in nonce order, before the timeout), and
   its event nonces advance by one per accepted operation.  The contract model (Ext/Hub2Sol.v) is
   interpreted from text extracted from the current Hub2.sol; the lemmas of the first section
   re-check, on every run, that the extracted text compiles to the conditions the proofs use. *)
From V Require Import Base.Prelude Base.Val Num.Arith Gen.SrcFactsSol Gen.SrcFactsGo Ext.Hub2Sol Proofs.ListX.
From Coq Require String.
Import String.StringSyntax.
Local Open Scope Z_scope.
Ltac Zify.zify_post_hook ::= Z.div_mod_to_equations.

(* ---------- what the current source compiles to ---------- *)
Lemma c_skip_eq : c_skip = [(TVar 2, ONe, TLit 0)].
Proof. vm_compute. reflexivity. Qed.
Lemma c_break_eq : c_break = [(TVar 0, OGt, TVar 1)].
Proof. vm_compute. reflexivity. Qed.
Lemma c_final_eq : c_final = [(TVar 0, OGt, TVar 1)].
Proof. vm_compute. reflexivity. Qed.

(* the loop around the three comparisons: slot skipped when the first fails, signature required,
   power added, early exit, final require *)
Definition expected_cvs_skeleton : bytes := Eval vm_compute in Hub2Sol.sby
  "{ uint256 cumulativePower = 0; for (uint256 i = 0; i < _currentValidators.length; i++) { if (<C>) { require( verifySig(_currentValidators[i], _theHash, _v[i], _r[i], _s[i]), ""Validator signature does not match."" ); cumulativePower = cumulativePower + _currentPowers[i]; if (<C>) { break; } } } require( <C>, ""Submitted validator set signatures do not have enough power."" ); }".
Lemma cvs_skeleton_ok : sol_cvs_skeleton = expected_cvs_skeleton.
Proof. vm_compute. reflexivity. Qed.

Lemma reqs_uv_eq :
  compile_requires names_uv sol_requires_updateValset =
  Some [RCond [(TVar 3, OGt, TVar 4)]; RCond [(TVar 10, OEq, TVar 11)];
        RCond [(TVar 5, OEq, TVar 6); (TVar 5, OEq, TVar 7); (TVar 5, OEq, TVar 8); (TVar 5, OEq, TVar 9)]; RCkpt].
Proof. vm_compute. reflexivity. Qed.
Lemma assigns_uv_eq : assigns_of names_uv sol_assigns_updateValset = [ACkpt; AStore 0 (TVar 3) 0; AStore 1 (TVar 1) 1].
Proof. vm_compute. reflexivity. Qed.
Lemma reqs_sb_eq :
  compile_requires names_sb sol_requires_submitBatch =
  Some [RCond [(TVar 2, OLt, TVar 3)]; RCond [(TVar 5, OLt, TVar 4)];
        RCond [(TVar 7, OEq, TVar 8); (TVar 7, OEq, TVar 9); (TVar 7, OEq, TVar 10); (TVar 7, OEq, TVar 11)]; RCkpt;
        RCond [(TVar 12, OEq, TVar 13); (TVar 12, OEq, TVar 14)]].
Proof. vm_compute. reflexivity. Qed.
Lemma assigns_sb_eq : assigns_of names_sb sol_assigns_submitBatch = [AStore 2 (TVar 3) 0; AStore 1 (TVar 1) 1].
Proof. vm_compute. reflexivity. Qed.
Lemma assigns_ttc_eq : assigns_of names_state sol_assigns_transferToChain = [AStore 1 (TVar 1) 1].
Proof. vm_compute. reflexivity. Qed.
Lemma initial_nonces : sol_initial_event_nonce = 1%N /\ sol_initial_valset_nonce = 0%N.
Proof. split; reflexivity. Qed.

(* ---------- checkValidatorSignatures ---------- *)
Lemma cvs_loop_cons thr p q r cum :
  cvs_loop thr ((p, q) :: r) cum =
  if negb (q =? 0) then
    if q =? 1 then if thr <? cum + p then Some (cum + p) else cvs_loop thr r (cum + p) else None
  else cvs_loop thr r cum.
Proof.
  cbn [cvs_loop]. rewrite c_skip_eq, c_break_eq. unfold eval_catoms, eval_catom, eval_term, v_of_quality. cbn [forallb fst snd nth eval_cmp].
  destruct (q =? 0) eqn:E0.
  - cbn. reflexivity.
  - cbn. destruct (q =? 1); [|reflexivity]. rewrite andb_true_r. reflexivity.
Qed.

Lemma check_sigs_unfold thr slots :
  check_sigs thr slots = match cvs_loop thr slots 0 with Some cum => thr <? cum | None => false end.
Proof.
  unfold check_sigs. rewrite c_final_eq. destruct (cvs_loop thr slots 0); [|reflexivity].
  unfold eval_catoms, eval_catom, eval_term. cbn. rewrite andb_true_r. reflexivity.
Qed.

(* the power behind the valid signatures *)
Definition valid_power (slots : list (Z * Z)) : Z := zsum (map (fun s : Z * Z => if snd s =? 1 then fst s else 0) slots).
Definition powers_nonneg (slots : list (Z * Z)) : Prop := Forall (fun s : Z * Z => 0 <= fst s) slots.
Definition no_invalid (slots : list (Z * Z)) : Prop := Forall (fun s : Z * Z => snd s = 0 \/ snd s = 1) slots.

Lemma valid_power_nonneg slots : powers_nonneg slots -> 0 <= valid_power slots.
Proof.
  intro H. apply zsum_nonneg. apply Forall_forall. intros x Hx. apply in_map_iff in Hx as [s [<- Hs]].
  unfold powers_nonneg in H. rewrite Forall_forall in H. specialize (H s Hs). destruct (snd s =? 1); lia.
Qed.

Lemma cvs_loop_le thr slots : powers_nonneg slots -> forall cum c,
  cvs_loop thr slots cum = Some c -> cum <= c <= cum + valid_power slots.
Proof.
  induction slots as [|[p q] r IH]; intros Hp cum c H.
  - simpl in H. inversion H. unfold valid_power. simpl. lia.
  - inversion Hp as [|? ? Hp0 Hpr]; subst. simpl in Hp0. pose proof (valid_power_nonneg r Hpr) as Hnn.
    rewrite cvs_loop_cons in H. unfold valid_power in *. cbn [map zsum fold_right fst snd].
    change (fold_right Z.add 0) with zsum in *.
    destruct (q =? 0) eqn:E0; cbn [negb] in H.
    + apply Z.eqb_eq in E0. subst q. cbn. apply IH in H; [lia | exact Hpr].
    + destruct (q =? 1) eqn:E1; [|discriminate].
      destruct (thr <? cum + p); [inversion H; lia|]. apply IH in H; [lia | exact Hpr].
Qed.

(* soundness: whatever is supplied, acceptance needs valid signatures of more than the threshold *)
Lemma check_sigs_sound thr slots : powers_nonneg slots -> check_sigs thr slots = true -> thr < valid_power slots.
Proof.
  intros Hp H. rewrite check_sigs_unfold in H. destruct (cvs_loop thr slots 0) as [c|] eqn:E; [|discriminate].
  apply Z.ltb_lt in H. apply cvs_loop_le in E; [lia | exact Hp].
Qed.

Lemma cvs_loop_complete thr slots : powers_nonneg slots -> no_invalid slots -> forall cum,
  exists c, cvs_loop thr slots cum = Some c /\ (thr < c \/ c = cum + valid_power slots).
Proof.
  induction slots as [|[p q] r IH]; intros Hp Hv cum.
  - exists cum. split; [reflexivity|]. right. unfold valid_power. simpl. lia.
  - inversion Hp as [|? ? Hp0 Hpr]; subst. inversion Hv as [|? ? Hv0 Hvr]; subst. simpl in Hp0, Hv0.
    rewrite cvs_loop_cons. unfold valid_power in *. cbn [map zsum fold_right fst snd].
    change (fold_right Z.add 0) with zsum in *.
    destruct Hv0 as [->| ->]; cbn.
    + destruct (IH Hpr Hvr cum) as [c [Hc Hd]]. exists c. split; [exact Hc | lia].
    + destruct (thr <? cum + p) eqn:E.
      * exists (cum + p). split; [reflexivity|]. left. lia.
      * destruct (IH Hpr Hvr (cum + p)) as [c [Hc Hd]]. exists c. split; [exact Hc | lia].
Qed.

(* completeness: when only valid signatures are supplied, more than the threshold suffices *)
Lemma check_sigs_complete thr slots :
  powers_nonneg slots -> no_invalid slots -> thr < valid_power slots -> check_sigs thr slots = true.
Proof.
  intros Hp Hv H. rewrite check_sigs_unfold. destruct (cvs_loop_complete thr slots Hp Hv 0) as [c [Hc Hd]].
  rewrite Hc. apply Z.ltb_lt. lia.
Qed.

Lemma check_sigs_iff thr slots : powers_nonneg slots -> no_invalid slots ->
  (check_sigs thr slots = true <-> thr < valid_power slots).
Proof. intros Hp Hv. split; [apply check_sigs_sound; exact Hp | apply check_sigs_complete; assumption]. Qed.

(* ---------- updateValset ---------- *)
Definition slots_of (s : sol) (quals : list Z) : list (Z * Z) := combine (map snd (so_members s)) quals.

Lemma reqs_uv_spec s (new_members : list (bytes * Z)) new_nonce mode :
  let n := Z.of_nat (length (so_members s)) in
  let k := Z.of_nat (length new_members) in
  reqs_b names_uv sol_requires_updateValset (state_vals s ++ [new_nonce; so_vnonce s; n; n; n; n; n; k; k]) (mode =? 0)
  = (so_vnonce s <? new_nonce) && (mode =? 0).
Proof.
  intros n k. unfold reqs_b. rewrite reqs_uv_eq. unfold state_vals, eval_creqs, eval_creq, eval_catoms, eval_catom, eval_term.
  cbn [app forallb fst snd nth eval_cmp]. rewrite !Z.eqb_refl. cbn [andb]. rewrite !andb_true_r. reflexivity.
Qed.

Lemma update_valset_spec s new_members new_nonce quals mode exec :
  update_valset s new_members new_nonce quals mode exec =
  if Nat.eqb (length quals) (length (so_members s)) && ((so_vnonce s <? new_nonce) && (mode =? 0)) && check_sigs (so_thr s) (slots_of s quals)
  then (mkSol (so_thr s) new_members new_nonce (so_bnonce s) (so_enonce s + 1) (so_bal s) (so_user s) exec (so_dests s), true)
  else (mkSol (so_thr s) (so_members s) (so_vnonce s) (so_bnonce s) (so_enonce s) (so_bal s) (so_user s) exec (so_dests s), false).
Proof.
  unfold update_valset. rewrite reqs_uv_spec. fold (slots_of s quals).
  destruct (Nat.eqb (length quals) (length (so_members s)) && ((so_vnonce s <? new_nonce) && (mode =? 0)) && check_sigs (so_thr s) (slots_of s quals)); [|reflexivity].
  rewrite assigns_uv_eq. unfold state_vals. cbn. rewrite ?Z.add_0_r. reflexivity.
Qed.

(* ---------- submitBatch ---------- *)
Lemma reqs_sb_spec s bnonce timeout exec k mode :
  let n := Z.of_nat (length (so_members s)) in
  reqs_b names_sb sol_requires_submitBatch (state_vals s ++ [bnonce; timeout; exec; so_vnonce s; n; n; n; n; n; k; k; k]) (mode =? 0)
  = (so_bnonce s <? bnonce) && ((exec <? timeout) && (mode =? 0)).
Proof.
  intros n. unfold reqs_b. rewrite reqs_sb_eq. unfold state_vals, eval_creqs, eval_creq, eval_catoms, eval_catom, eval_term.
  cbn [app forallb fst snd nth eval_cmp]. rewrite !Z.eqb_refl. cbn [andb]. rewrite !andb_true_r. reflexivity.
Qed.

Definition batch_total (trs : list (Z * bytes * Z)) : Z := zsum (map (fun t : Z * bytes * Z => fst (fst t)) trs).
Definition pay_out (dests : list (bytes * Z)) (trs : list (Z * bytes * Z)) : list (bytes * Z) :=
  fold_left (fun ds (t : Z * bytes * Z) => credit_dest ds (snd (fst t)) (fst (fst t))) trs dests.

Lemma submit_batch_spec s trs bnonce timeout quals mode exec :
  submit_batch s trs bnonce timeout quals mode exec =
  if Nat.eqb (length quals) (length (so_members s)) && ((so_bnonce s <? bnonce) && ((exec <? timeout) && (mode =? 0)))
     && check_sigs (so_thr s) (slots_of s quals) && (batch_total trs <=? so_bal s)
  then (mkSol (so_thr s) (so_members s) (so_vnonce s) bnonce (so_enonce s + 1) (so_bal s - batch_total trs) (so_user s) exec
              (pay_out (so_dests s) trs), true)
  else (mkSol (so_thr s) (so_members s) (so_vnonce s) (so_bnonce s) (so_enonce s) (so_bal s) (so_user s) exec
              (touch_dests (so_dests s) trs), false).
Proof.
  unfold submit_batch. rewrite reqs_sb_spec. fold (slots_of s quals). fold (batch_total trs).
  destruct (Nat.eqb (length quals) (length (so_members s)) && ((so_bnonce s <? bnonce) && ((exec <? timeout) && (mode =? 0)))
            && check_sigs (so_thr s) (slots_of s quals) && (batch_total trs <=? so_bal s)); [|reflexivity].
  rewrite assigns_sb_eq. unfold state_vals. cbn. rewrite ?Z.add_0_r. reflexivity.
Qed.

Lemma transfer_to_chain_spec s amount exec :
  transfer_to_chain s amount exec =
  if amount <=? so_user s
  then (mkSol (so_thr s) (so_members s) (so_vnonce s) (so_bnonce s) (so_enonce s + 1) (so_bal s + amount) (so_user s - amount) exec (so_dests s), true)
  else (mkSol (so_thr s) (so_members s) (so_vnonce s) (so_bnonce s) (so_enonce s) (so_bal s) (so_user s) exec (so_dests s), false).
Proof.
  unfold transfer_to_chain. destruct (amount <=? so_user s); [|reflexivity].
  rewrite assigns_ttc_eq. unfold state_vals. cbn. rewrite ?Z.add_0_r. reflexivity.
Qed.

(* ---------- consequences ---------- *)
Definition members_nonneg (s : sol) : Prop := Forall (fun m : bytes * Z => 0 <= snd m) (so_members s).

Lemma slots_nonneg s quals : members_nonneg s -> powers_nonneg (slots_of s quals).
Proof.
  unfold members_nonneg, powers_nonneg, slots_of. intro H. apply Forall_forall. intros [p q] Hin.
  apply in_combine_l in Hin. apply in_map_iff in Hin as [m [E Hm]]. rewrite Forall_forall in H. specialize (H m Hm). simpl. lia.
Qed.

(* accepted => the current set's validators with VALID signatures hold more than the threshold, the
   relayer presented the true current set, and the nonce moves forward *)
Lemma update_valset_accepts s new_members new_nonce quals mode exec : members_nonneg s ->
  snd (update_valset s new_members new_nonce quals mode exec) = true ->
  so_thr s < valid_power (slots_of s quals) /\ mode = 0 /\ so_vnonce s < new_nonce /\ length quals = length (so_members s).
Proof.
  intros Hm H. rewrite update_valset_spec in H.
  destruct (Nat.eqb (length quals) (length (so_members s))) eqn:E1; [|discriminate].
  destruct (so_vnonce s <? new_nonce) eqn:E2; [|discriminate].
  destruct (mode =? 0) eqn:E3; [|discriminate].
  destruct (check_sigs (so_thr s) (slots_of s quals)) eqn:E4; [|discriminate].
  repeat split; [apply check_sigs_sound; [apply slots_nonneg; exact Hm | exact E4] | lia | lia | apply Nat.eqb_eq; exact E1].
Qed.

(* enough valid confirmations, nothing invalid, true current set, next nonce => accepted *)
Lemma update_valset_accepted s new_members new_nonce quals exec : members_nonneg s ->
  length quals = length (so_members s) -> no_invalid (slots_of s quals) ->
  so_thr s < valid_power (slots_of s quals) -> so_vnonce s < new_nonce ->
  update_valset s new_members new_nonce quals 0 exec =
  (mkSol (so_thr s) new_members new_nonce (so_bnonce s) (so_enonce s + 1) (so_bal s) (so_user s) exec (so_dests s), true).
Proof.
  intros Hm Hl Hv Hp Hn. rewrite update_valset_spec.
  rewrite (proj2 (Nat.eqb_eq _ _) Hl), (proj2 (Z.ltb_lt _ _) Hn).
  rewrite (check_sigs_complete _ _ (slots_nonneg s quals Hm) Hv Hp). reflexivity.
Qed.

Lemma submit_batch_accepts s trs bnonce timeout quals mode exec : members_nonneg s ->
  snd (submit_batch s trs bnonce timeout quals mode exec) = true ->
  so_thr s < valid_power (slots_of s quals) /\ mode = 0 /\ so_bnonce s < bnonce /\ exec < timeout /\ batch_total trs <= so_bal s.
Proof.
  intros Hm H. rewrite submit_batch_spec in H.
  destruct (Nat.eqb (length quals) (length (so_members s))) eqn:E1; [|discriminate].
  destruct (so_bnonce s <? bnonce) eqn:E2; [|discriminate].
  destruct (exec <? timeout) eqn:E5; [|discriminate].
  destruct (mode =? 0) eqn:E3; [|discriminate].
  destruct (check_sigs (so_thr s) (slots_of s quals)) eqn:E4; [|discriminate].
  destruct (batch_total trs <=? so_bal s) eqn:E6; [|discriminate].
  repeat split; [apply check_sigs_sound; [apply slots_nonneg; exact Hm | exact E4] | lia | lia | lia | lia].
Qed.

Lemma submit_batch_accepted s trs bnonce timeout quals exec : members_nonneg s ->
  length quals = length (so_members s) -> no_invalid (slots_of s quals) ->
  so_thr s < valid_power (slots_of s quals) -> so_bnonce s < bnonce -> exec < timeout -> batch_total trs <= so_bal s ->
  submit_batch s trs bnonce timeout quals 0 exec =
  (mkSol (so_thr s) (so_members s) (so_vnonce s) bnonce (so_enonce s + 1) (so_bal s - batch_total trs) (so_user s) exec
         (pay_out (so_dests s) trs), true).
Proof.
  intros Hm Hl Hv Hp Hn Ht Hb. rewrite submit_batch_spec.
  rewrite (proj2 (Nat.eqb_eq _ _) Hl), (proj2 (Z.ltb_lt _ _) Hn), (proj2 (Z.ltb_lt _ _) Ht), (proj2 (Z.leb_le _ _) Hb).
  rewrite (check_sigs_complete _ _ (slots_nonneg s quals Hm) Hv Hp). reflexivity.
Qed.

(* every operation: the event nonce advances by exactly one when it is accepted and not at all when it
   is refused; a refused operation leaves nonces, signer set and balances as they were; nonces never
   go back *)
Lemma sstep_nonces s o :
  let (s', ok) := sstep s o in
  (match o with SMine _ => so_enonce s' = so_enonce s | _ => so_enonce s' = so_enonce s + (if ok then 1 else 0) end) /\
  (ok = false -> so_members s' = so_members s /\ so_vnonce s' = so_vnonce s /\ so_bnonce s' = so_bnonce s /\
                 so_bal s' = so_bal s /\ so_user s' = so_user s) /\
  so_vnonce s <= so_vnonce s' /\ so_bnonce s <= so_bnonce s' /\ so_thr s' = so_thr s.
Proof.
  destruct o as [m n q mode exec|trs n t q mode exec|a exec|k]; cbn [sstep].
  - rewrite update_valset_spec.
    destruct (Nat.eqb (length q) (length (so_members s))); cbn [andb]; [|cbn; repeat split; lia].
    destruct (so_vnonce s <? n) eqn:E; cbn [andb]; [|cbn; repeat split; lia].
    destruct (mode =? 0); cbn [andb]; [|cbn; repeat split; lia].
    destruct (check_sigs (so_thr s) (slots_of s q)); cbn; repeat split; try lia; discriminate.
  - rewrite submit_batch_spec.
    destruct (Nat.eqb (length q) (length (so_members s))); cbn [andb]; [|cbn; repeat split; lia].
    destruct (so_bnonce s <? n) eqn:E; cbn [andb]; [|cbn; repeat split; lia].
    destruct (exec <? t); cbn [andb]; [|cbn; repeat split; lia].
    destruct (mode =? 0); cbn [andb]; [|cbn; repeat split; lia].
    destruct (check_sigs (so_thr s) (slots_of s q)); cbn [andb]; [|cbn; repeat split; lia].
    destruct (batch_total trs <=? so_bal s); cbn; repeat split; try lia; discriminate.
  - rewrite transfer_to_chain_spec. destruct (a <=? so_user s); cbn; repeat split; try lia; discriminate.
  - cbn. repeat split; lia.
Qed.

(* ---------- the Minter multisig as the connector configures it ---------- *)
(* weights floor(1000 * p / total), threshold conn_threshold (extracted from the connector source);
   Minter executes a multisig transaction when the signers' weights reach the threshold *)
Definition msig_weight (p total : Z) : Z := 1000 * p / total.
Definition msig_accepts (signed_weights : list Z) : bool := conn_threshold <=? zsum signed_weights.

Lemma conn_threshold_value : conn_threshold = 667.
Proof. reflexivity. Qed.

Lemma msig_sound total powers : 0 < total -> Forall (fun p => 0 <= p) powers ->
  msig_accepts (map (fun p => msig_weight p total) powers) = true -> 667 * total <= 1000 * zsum powers.
Proof.
  intros HT Hp H. unfold msig_accepts in H. rewrite conn_threshold_value in H. apply Z.leb_le in H.
  assert (zsum (map (fun p => msig_weight p total) powers) * total <= 1000 * zsum powers) as Hs.
  { clear H. induction Hp as [|p l Hp0 _ IH]; cbn [map zsum fold_right]; [lia|].
    change (fold_right Z.add 0) with zsum in *. unfold msig_weight at 1. nia. }
  nia.
Qed.
