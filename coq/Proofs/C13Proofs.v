From V Require Import Base.Prelude Base.Val Num.Arith Hub.Types Hub.Model Proofs.ListX Proofs.HubInv.
Local Open Scope Z_scope.

(* a timeout sweep removes a batch only if it belongs to the swept chain and its timeout height is
   strictly below the last observed external height; everything else stays *)
Lemma c13_timeout_only_if_dead s chain x :
  Inv s -> In x (st_batches s) ->
  (In x (st_batches (cleanup_timed_out s chain)) <->
   ~ (b_chain x = chain /\ (b_timeout x < agetd 0 chain (st_obs_ext_h s))%N)).
Proof.
  intros HI Hx. unfold cleanup_timed_out.
  destruct (fold_cancel_inv (fun b => (beqb (b_chain b) chain && N.ltb (b_timeout b) (agetd 0%N chain (st_obs_ext_h s)))%bool)
                            (st_batches s) s HI (inv_bkeys s HI) ltac:(auto)) as [_ G].
  rewrite G. rewrite andb_true_iff, beqb_eq, N.ltb_lt. tauto.
Qed.

(* Minter batches are never withdrawn by BeginBlocker *)
Lemma create_batches_keeps p s chain s' x :
  InvP p s -> In chain (p_chains p) -> create_batches s chain = Ok s' -> In x (st_batches s) -> In x (st_batches s').
Proof.
  intros HI Hch H Hx. unfold create_batches in H. destruct (N.eqb _ 0); [|inversion H; subst; exact Hx].
  revert H. apply (fold_res_inv (fun st => InvP p st /\ In x (st_batches st))).
  - intros st ext st' [[Hst Hp] Hin] Hf.
    destruct (build_batch st chain ext) as [[st2 ob]|?|?] eqn:Hb; simpl in Hf; try discriminate.
    inversion Hf; subst st'.
    assert (Hk : In chain (KC st)) by (unfold KC; rewrite Hp; right; exact Hch).
    destruct (build_batch_inv st chain ext st2 ob Hst Hk Hb) as [HI2 G]. split.
    + split; [exact HI2 | rewrite (build_batch_params _ _ _ _ _ Hb); exact Hp].
    + destruct ob as [b|]; [|subst; exact Hin].
      destruct G as [_ [_ [_ [_ [_ [_ [_ E]]]]]]]. rewrite E. apply in_or_app. left. exact Hin.
  - intros s0 E. inversion E; subst s0. split; auto.
Qed.

Lemma c13_minter_never_withdrawn p s force s' x :
  InvP p s -> begin_block s force = Ok s' -> In x (st_batches s) -> b_chain x = b_minter -> In x (st_batches s').
Proof.
  intros [HI0 Hp0] H Hx Hm. unfold begin_block in H.
  assert (G : forall l, (forall c, In c l -> In c (p_chains p)) -> forall r s2,
              (forall s0, r = Ok s0 -> InvP p s0 /\ In x (st_batches s0)) ->
              fold_left (fun r chain => bind r (fun st =>
                 if beqb chain b_hub then Ok st
                 else create_batches (create_signer_set (if beqb chain b_minter then st else cleanup_timed_out st chain) chain force) chain))
                 l r = Ok s2 -> InvP p s2 /\ In x (st_batches s2)).
  { induction l as [|c l IH]; simpl; intros Hl r s2 Hr Hf; [apply Hr; exact Hf|].
    eapply IH; [auto| |exact Hf]. intros s0 E. destruct r as [st|?|?]; simpl in E; try discriminate.
    destruct (Hr st eq_refl) as [[Hst Hp] Hin]. destruct (beqb c b_hub); [inversion E; subst s0; split; [split|]; auto|].
    set (st1 := if beqb c b_minter then st else cleanup_timed_out st c) in *.
    assert (H1 : InvP p st1 /\ In x (st_batches st1)).
    { unfold st1. destruct (beqb c b_minter) eqn:Ec; [split; [split|]; auto|].
      split; [split; [apply cleanup_timed_out_inv; exact Hst | rewrite cleanup_timed_out_params; exact Hp]|].
      apply c13_timeout_only_if_dead; auto. intros [Hq _]. apply beqb_neq in Ec. congruence. }
    destruct H1 as [[Hst1 Hp1] Hin1].
    assert (HI2 : InvP p (create_signer_set st1 c force)).
    { split; [eapply Inv_core; [symmetry; apply create_signer_set_core | exact Hst1]|].
      rewrite <- (params_of_core _ _ (eq_sym (create_signer_set_core st1 c force))). exact Hp1. }
    split; [eapply create_batches_inv; [exact HI2 | auto | exact E]|].
    eapply create_batches_keeps; [exact HI2 | auto | exact E|].
    pose proof (create_signer_set_core st1 c force) as Hc. injection Hc as _ Eb _ _ _. rewrite Eb. exact Hin1. }
  eapply G; [| |exact H]; [rewrite <- Hp0; auto|].
  intros s0 E. inversion E; subst s0. split; [split|]; auto.
Qed.

(* ---- batches are untouched by the payouts of an execution ---- *)
Lemma create_send_batches s chain sender rcpt denom a f c h rc ra s' id :
  create_send s chain sender rcpt denom a f c h rc ra = Ok (s', id) -> st_batches s' = st_batches s.
Proof.
  intro H. unfold create_send in H. destruct (denom_to_token _ _ _); [|discriminate].
  destruct (debit s sender denom _) as [s1|?|?] eqn:Hd; simpl in H; try discriminate.
  match type of H with (if ?g then _ else _) = _ => destruct g; [discriminate|] end.
  inversion H; subst. simpl. apply core_debit in Hd. injection Hd as _ E _ _ _. exact E.
Qed.

Lemma minter_send_batches s to denom a tag s' :
  minter_send s to denom a tag = Ok s' -> st_batches s' = st_batches s.
Proof.
  intro H. unfold minter_send in H.
  destruct (create_send s b_minter _ to denom a 0 0 tag [] []) as [[s2 i]|?|?] eqn:Hc; try discriminate.
  inversion H; subst. eapply create_send_batches; eauto.
Qed.

Lemma pay_commissions_batches s denom total s' :
  pay_commissions s denom total = Ok s' -> st_batches s' = st_batches s.
Proof.
  intro H. unfold pay_commissions in H. destruct (total <=? 0); [inversion H; reflexivity|].
  revert H. apply (fold_res_inv (fun st => st_batches st = st_batches s)).
  - intros st [addr power] st' Hst Hf. destruct (_ =? 0); [discriminate|].
    destruct (negb _); [discriminate|]. destruct (_ <=? 0); [inversion Hf; subst st'; exact Hst|].
    rewrite (minter_send_batches _ _ _ _ _ _ Hf). exact Hst.
  - intros s0 E. inversion E. reflexivity.
Qed.

Lemma fee_refunds_batches s b ti fl avg s' :
  fee_refunds s b ti fl avg = Ok s' -> st_batches s' = st_batches s.
Proof.
  intro H. unfold fee_refunds in H. destruct (_ <=? 0); [inversion H; reflexivity|].
  revert H. apply (fold_res_inv (fun st => st_batches st = st_batches s)).
  - intros st e st' Hst Hf. destruct (_ <? avg); [inversion Hf; subst st'; exact Hst|].
    destruct (negb (beqb _ b_minter)); [inversion Hf; subst st'; exact Hst|].
    destruct (_ <=? 0); [inversion Hf; subst st'; exact Hst|].
    destruct (minter_send st _ _ _ _) as [st1|?|?] eqn:Hm; simpl in Hf; try discriminate.
    destruct (aget _ (st_feerec st1)) as [[vc ef]|]; [|discriminate].
    inversion Hf; subst st'. simpl. rewrite (minter_send_batches _ _ _ _ _ _ Hm). exact Hst.
  - intros s0 E. inversion E. reflexivity.
Qed.

Lemma pay_fees_batches s b ti tf fp payer s' :
  pay_fees s b ti tf fp payer = Ok s' -> st_batches s' = st_batches s.
Proof.
  intro H. unfold pay_fees in H. destruct (tf <=? 0); [inversion H; reflexivity|].
  destruct (if beqb (b_chain b) b_ethereum then Some b_eth else if beqb (b_chain b) b_bsc then Some b_bnb else None)
    as [base|]; [|inversion H; reflexivity].
  destruct (price s base) as [pb|]; [|discriminate].
  destruct (price s (ti_denom ti)) as [pt|]; [|discriminate].
  destruct (pt =? 0); [discriminate|]. destruct (_ <? 0); [discriminate|].
  match type of H with (if ?g then _ else _) = _ => destruct g; [inversion H; reflexivity|] end.
  match type of H with bind ?r _ = _ => destruct r as [s2|?|?] eqn:Hm; simpl in H; try discriminate end.
  pose proof (minter_send_batches _ _ _ _ _ _ Hm) as E2. simpl in E2.
  match type of H with (if ?g then _ else _) = _ => destruct g; [inversion H; subst s'; exact E2|] end.
  rewrite (fee_refunds_batches _ _ _ _ _ _ H). simpl. exact E2.
Qed.

Lemma fold_exec_status_batches txs h s :
  st_batches (fold_left (fun st e => let st' := set_tx_status st (s_txhash e) ST_BATCH_EXECUTED h in
                               set_feerec st' (aset (s_txhash e) (s_comm e, s_fee e) (st_feerec st'))) txs s) = st_batches s.
Proof. pose proof (fold_exec_status_core txs h s) as Hc. injection Hc as _ E _ _ _. exact E. Qed.

(* An observed execution removes exactly the executed batch and, except on Minter, exactly the
   older batches of the same chain and token; every other batch stays. *)
Lemma c13_executed_exact s chain ext nonce h fp payer s' b x :
  Inv s -> find (batch_is chain ext nonce) (st_batches s) = Some b ->
  batch_executed s chain ext nonce h fp payer = Ok s' ->
  In x (st_batches s) ->
  (In x (st_batches s') <->
   ~ (batch_is chain ext nonce x = true \/
      (chain <> b_minter /\ b_chain x = chain /\ b_ext x = b_ext b /\ (b_nonce x < b_nonce b)%N))).
Proof.
  intros HI Hf H Hx. unfold batch_executed in H. rewrite Hf in H.
  destruct (ext_to_token (st_tokens s) chain (b_ext b)) as [ti|]; [|discriminate].
  destruct (negb _); [discriminate|].
  match type of H with bind ?r _ = _ => destruct r as [s4|?|?] eqn:Hp; simpl in H; try discriminate end.
  rewrite (pay_fees_batches _ _ _ _ _ _ _ H), (pay_commissions_batches _ _ _ _ Hp).
  rewrite fold_exec_status_batches. simpl. rewrite filter_In, negb_true_iff.
  destruct (beqb chain b_minter) eqn:Em.
  - apply beqb_eq in Em. split.
    + intros [_ Hn] [Hb|[Hne _]]; [congruence | contradiction].
    + intro Hn. split; auto. destruct (batch_is chain ext nonce x) eqn:E; auto. exfalso. apply Hn. auto.
  - apply beqb_neq in Em.
    destruct (fold_cancel_inv (fun x0 => (beqb (b_chain x0) chain && N.ltb (b_nonce x0) (b_nonce b) && beqb (b_ext x0) (b_ext b))%bool)
                              (st_batches s) s HI (inv_bkeys s HI) ltac:(auto)) as [_ G].
    rewrite G. rewrite !andb_true_iff, !beqb_eq, N.ltb_lt. split.
    + intros [[_ Hn] Hb] [Hq|[_ [A [B C]]]]; [congruence|]. apply Hn. auto.
    + intro Hn. split; [split; auto|].
      * intros [_ [[A C] B]]. apply Hn. right. auto.
      * destruct (batch_is chain ext nonce x) eqn:E; auto. exfalso. apply Hn. auto.
Qed.
