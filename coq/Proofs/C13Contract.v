(* C13 composed with the contract model of C08: a batch the hub's timeout sweep withdraws can no longer be executed
   by the contract, at any block at or after the height the hub has observed. *)
From V Require Import Base.Prelude Base.Val Num.Arith Hub.Types Hub.Model Gen.SrcFactsSol Ext.Hub2Sol
     Proofs.ListX Proofs.HubInv Proofs.C13Proofs Proofs.C08Proofs.
Local Open Scope Z_scope.

Theorem withdrawn_batch_is_dead_on_the_contract s chain x sol trs bnonce quals mode exec :
  Inv s -> In x (st_batches s) -> ~ In x (st_batches (cleanup_timed_out s chain)) ->
  members_nonneg sol ->
  (* the contract's chain has reached at least the height the hub has observed from it *)
  Z.of_N (agetd 0%N chain (st_obs_ext_h s)) <= exec ->
  snd (submit_batch sol trs bnonce (Z.of_N (b_timeout x)) quals mode exec) = false.
Proof.
  intros HI Hin Hout Hm Hh.
  destruct (snd (submit_batch sol trs bnonce (Z.of_N (b_timeout x)) quals mode exec)) eqn:E; [|reflexivity].
  exfalso. destruct (submit_batch_accepts sol trs bnonce (Z.of_N (b_timeout x)) quals mode exec Hm E) as [_ [_ [_ [Ht _]]]].
  pose proof (c13_timeout_only_if_dead s chain x HI Hin) as Hiff.
  assert (Hdead : b_chain x = chain /\ (b_timeout x < agetd 0 chain (st_obs_ext_h s))%N).
  { destruct (beqb (b_chain x) chain) eqn:Ec.
    - apply beqb_eq in Ec. destruct (N.ltb (b_timeout x) (agetd 0%N chain (st_obs_ext_h s))) eqn:El.
      + apply N.ltb_lt in El. auto.
      + exfalso. apply Hout. apply Hiff. intros [_ Hlt]. apply N.ltb_ge in El. lia.
    - exfalso. apply Hout. apply Hiff. intros [Hc _]. apply beqb_neq in Ec. contradiction. }
  destruct Hdead as [_ Hlt]. lia.
Qed.
