(* Invariants of the votes model (C02, C03). *)
From V Require Import Base.Prelude Base.Val Num.Arith Hub.Votes Proofs.ListX.
From Coq Require Import Permutation.
Local Open Scope Z_scope.

Definition rkey (r : vrec) : N * bytes := (vr_nonce r, vr_hash r).

Lemma rec_is_iff n h r : rec_is n h r = true <-> rkey r = (n, h).
Proof.
  unfold rec_is, rkey. rewrite andb_true_iff, N.eqb_eq, beqb_eq. split.
  - intros [-> ->]. reflexivity.
  - intro E. inversion E. auto.
Qed.
Lemma rec_is_false n h r : rec_is n h r = false <-> rkey r <> (n, h).
Proof.
  split; intro H.
  - intro E. apply rec_is_iff in E. congruence.
  - destruct (rec_is n h r) eqn:E; auto. apply rec_is_iff in E. contradiction.
Qed.

(* ---------- rec_update ---------- *)
Lemma rec_update_in r l x : In x (rec_update r l) -> x = r \/ (In x l /\ (NoDup (map rkey l) -> rkey x <> rkey r)).
Proof.
  induction l as [|y l IH]; simpl.
  - intros [<-|[]]. auto.
  - destruct (rec_is (vr_nonce r) (vr_hash r) y) eqn:E.
    + intros [<-|Hx]; auto. right. split; auto. intros Hnd K.
      apply rec_is_iff in E. inversion Hnd as [|? ? Hn _]; subst. apply Hn. fold (rkey r) in E. rewrite E, <- K.
      apply in_map. exact Hx.
    + intros [<-|Hx].
      * right. split; auto. intros _. apply rec_is_false in E. exact E.
      * destruct (IH Hx) as [->|[Hin Hk]]; auto. right. split; auto. intro Hnd. inversion Hnd; subst. auto.
Qed.

Lemma rec_update_in_r r l : In r (rec_update r l).
Proof.
  induction l as [|y l IH]; simpl; auto. destruct (rec_is _ _ y); simpl; auto.
Qed.

Lemma rec_update_keep r l x : In x l -> rkey x <> rkey r -> In x (rec_update r l).
Proof.
  induction l as [|y l IH]; simpl; intros Hx Hk; [contradiction|].
  destruct (rec_is (vr_nonce r) (vr_hash r) y) eqn:E.
  - destruct Hx as [<-|Hx]; [|right; exact Hx]. apply rec_is_iff in E. fold (rkey r) in E. congruence.
  - destruct Hx as [<-|Hx]; [left; reflexivity | right; auto].
Qed.

Lemma rec_update_keys r l :
  NoDup (map rkey l) -> NoDup (map rkey (rec_update r l)) /\
  (forall k, In k (map rkey (rec_update r l)) <-> k = rkey r \/ In k (map rkey l)).
Proof.
  induction l as [|y l IH]; simpl; intro Hnd.
  - split; [constructor; [intros []|constructor] | intro k; simpl; intuition].
  - inversion Hnd as [|? ? Hn Hnd']; subst.
    destruct (rec_is (vr_nonce r) (vr_hash r) y) eqn:E; simpl.
    + apply rec_is_iff in E. fold (rkey r) in E. split.
      * constructor; [rewrite <- E; exact Hn | exact Hnd'].
      * intro k. rewrite E. intuition.
    + apply rec_is_false in E. fold (rkey r) in E. destruct (IH Hnd') as [A B]. split.
      * constructor; auto. rewrite B. intros [K|K]; [congruence | contradiction].
      * intro k. rewrite B. intuition.
Qed.

Lemma find_rec_update_same r l : find (rec_is (vr_nonce r) (vr_hash r)) (rec_update r l) = Some r.
Proof.
  induction l as [|y l IH]; simpl.
  - assert (rec_is (vr_nonce r) (vr_hash r) r = true) as -> by (apply rec_is_iff; reflexivity). reflexivity.
  - destruct (rec_is (vr_nonce r) (vr_hash r) y) eqn:E; simpl.
    + assert (rec_is (vr_nonce r) (vr_hash r) r = true) as -> by (apply rec_is_iff; reflexivity). reflexivity.
    + rewrite E. exact IH.
Qed.

Lemma find_rec_update_other r l n h :
  (n, h) <> rkey r -> find (rec_is n h) (rec_update r l) = find (rec_is n h) l.
Proof.
  intro Hk. induction l as [|y l IH]; simpl.
  - assert (rec_is n h r = false) as -> by (apply rec_is_false; congruence). reflexivity.
  - destruct (rec_is (vr_nonce r) (vr_hash r) y) eqn:E; simpl.
    + apply rec_is_iff in E. fold (rkey r) in E.
      assert (rec_is n h r = false) as -> by (apply rec_is_false; congruence).
      assert (rec_is n h y = false) as -> by (apply rec_is_false; congruence). reflexivity.
    + destruct (rec_is n h y); auto.
Qed.

Lemma find_in_unique l r : NoDup (map rkey l) -> In r l -> find (rec_is (vr_nonce r) (vr_hash r)) l = Some r.
Proof.
  induction l as [|y l IH]; simpl; intros Hnd Hin; [contradiction|].
  inversion Hnd as [|? ? Hn Hnd']; subst.
  destruct Hin as [->|Hin].
  - assert (rec_is (vr_nonce r) (vr_hash r) r = true) as -> by (apply rec_is_iff; reflexivity). reflexivity.
  - destruct (rec_is (vr_nonce r) (vr_hash r) y) eqn:E; [|auto].
    apply rec_is_iff in E. exfalso. apply Hn. rewrite E. fold (rkey r). apply in_map. exact Hin.
Qed.

(* sorting *)
Lemma rec_insert_sorted_in r l x : In x (rec_insert_sorted r l) <-> x = r \/ In x l.
Proof.
  induction l as [|y l IH]; simpl; [intuition|]. destruct (rec_lt r y); simpl; rewrite ?IH; intuition.
Qed.
Lemma sort_recs_in l x : In x (sort_recs l) <-> In x l.
Proof. induction l as [|y l IH]; simpl; [tauto|]. rewrite rec_insert_sorted_in, IH. intuition. Qed.

(* ---------- the invariant ---------- *)
Fixpoint nseq1 (len : nat) (start : N) : list N :=
  match len with O => [] | S k => start :: nseq1 k (start + 1)%N end.

Record VInv (s : vstate) : Prop := mkVInv {
  vi_keys : NoDup (map rkey (vs_records s));
  vi_votes_nodup : forall r, In r (vs_records s) -> NoDup (vr_votes r);
  vi_votes_last : forall r v, In r (vs_records s) -> In v (vr_votes r) ->
                              exists l, aget v (vs_last_by_val s) = Some l /\ (vr_nonce r <= l)%N;
  vi_last_pos : forall v l, aget v (vs_last_by_val s) = Some l -> (1 <= l)%N;
  vi_applied_nonces : map fst (vs_applied s) = nseq1 (length (vs_applied s)) 1;
  vi_last_observed : vs_last_observed s = N.of_nat (length (vs_applied s));
  vi_accepted : forall r, In r (vs_records s) -> (vr_accepted r = true <-> In (rkey r) (vs_applied s));
  vi_applied_rec : forall k, In k (vs_applied s) -> In k (map rkey (vs_records s))
}.

Lemma vinit_inv : VInv vinit.
Proof. constructor; simpl; try constructor; try (intros; contradiction); try discriminate; auto. Qed.

Lemma nseq1_app k start : nseq1 (S k) start = nseq1 k start ++ [(start + N.of_nat k)%N].
Proof.
  revert start. induction k as [|k IH]; intro start.
  - simpl. f_equal. lia.
  - change (nseq1 (S (S k)) start) with (start :: nseq1 (S k) (start + 1)%N). rewrite IH. simpl.
    f_equal. f_equal. f_equal. lia.
Qed.

Lemma nseq1_in k start n : In n (nseq1 k start) <-> (start <= n < start + N.of_nat k)%N.
Proof.
  revert start. induction k as [|k IH]; intro start; simpl; [lia|]. rewrite IH. lia.
Qed.

(* every applied key carries a nonce between 1 and the last observed one *)
Lemma applied_nonce_bound s k : VInv s -> In k (vs_applied s) -> (1 <= fst k <= vs_last_observed s)%N.
Proof.
  intros HI Hk. apply (in_map fst) in Hk. rewrite (vi_applied_nonces s HI) in Hk.
  apply nseq1_in in Hk. rewrite (vi_last_observed s HI). lia.
Qed.

(* ---------- vote ---------- *)
Lemma vote_inv s signer nonce hash amount s' :
  VInv s -> (1 <= nonce)%N -> vote s signer nonce hash amount = Ok s' -> VInv s'.
Proof.
  intros HI Hn H. unfold vote in H.
  destruct (signer_validator s signer) as [val|?|?] eqn:Hs; simpl in H; try discriminate.
  destruct (negb (N.eqb nonce (last_nonce_of s val + 1)) && negb (N.eqb (last_nonce_of s val) 0))%bool eqn:Eg; [discriminate|].
  inversion H; subst s'; clear H.
  destruct HI as [H1 H2 H3 H4 H5 H6 H7 H8].
  set (r := match find (rec_is nonce hash) (vs_records s) with Some r => r | None => mkVrec nonce hash [] false amount end) in *.
  assert (Hrk : rkey r = (nonce, hash)).
  { unfold r. destruct (find (rec_is nonce hash) (vs_records s)) as [r0|] eqn:Ef; [|reflexivity].
    apply find_some in Ef as [_ Ef]. apply rec_is_iff. exact Ef. }
  assert (Hr_in : In r (vs_records s) \/ (vr_votes r = [] /\ vr_accepted r = false /\ forall x, In x (vs_records s) -> rkey x <> (nonce, hash))).
  { unfold r. destruct (find (rec_is nonce hash) (vs_records s)) as [r0|] eqn:Ef.
    - left. apply find_some in Ef. tauto.
    - right. repeat split; auto. intros x Hx K. apply rec_is_iff in K.
      eapply find_none in Ef; eauto. congruence. }
  (* the voter has not voted in this record *)
  assert (Hfresh : ~ In val (vr_votes r)).
  { destruct Hr_in as [Hin|[Hv _]]; [|rewrite Hv; auto]. intro Hv.
    destruct (H3 r val Hin Hv) as [l [Hl Hle]].
    unfold last_nonce_of in Eg. rewrite Hl in Eg.
    assert (Hrn : vr_nonce r = nonce) by (inversion Hrk; auto). rewrite Hrn in Hle.
    specialize (H4 val l Hl).
    apply andb_false_iff in Eg as [Eg|Eg]; apply negb_false_iff in Eg; apply N.eqb_eq in Eg; lia. }
  set (r' := mkVrec (vr_nonce r) (vr_hash r) (vr_votes r ++ [val]) (vr_accepted r) (vr_amount r)).
  assert (Hrk' : rkey r' = rkey r) by reflexivity.
  destruct (rec_update_keys r' (vs_records s) H1) as [K1 K2].
  constructor; simpl.
  - exact K1.
  - intros x Hx. apply rec_update_in in Hx as [->|[Hx _]]; [|auto].
    simpl. apply NoDup_app_iff. repeat split.
    + destruct Hr_in as [Hin|[Hv _]]; [auto | rewrite Hv; constructor].
    + constructor; [intros []|constructor].
    + intros y Hy [<-|[]]. contradiction.
  - intros x v Hx Hv. apply rec_update_in in Hx as [->|[Hx _]].
    + simpl in Hv. apply in_app_or in Hv as [Hv|[<-|[]]].
      * destruct Hr_in as [Hin|[Hvv _]]; [|rewrite Hvv in Hv; contradiction].
        destruct (H3 r v Hin Hv) as [l [Hl Hle]].
        destruct (beqb val v) eqn:Ev.
        -- apply beqb_eq in Ev. subst v. contradiction.
        -- apply beqb_neq in Ev. exists l. rewrite aget_aset_other by exact Ev. auto.
      * exists nonce. rewrite aget_aset_same. split; auto. simpl. inversion Hrk. lia.
    + destruct (H3 x v Hx Hv) as [l [Hl Hle]].
      destruct (beqb val v) eqn:Ev.
      * apply beqb_eq in Ev. subst v. exists nonce. rewrite aget_aset_same. split; auto.
        unfold last_nonce_of in Eg. rewrite Hl in Eg. specialize (H4 val l Hl).
        apply andb_false_iff in Eg as [Eg|Eg]; apply negb_false_iff in Eg; apply N.eqb_eq in Eg; lia.
      * apply beqb_neq in Ev. exists l. rewrite aget_aset_other by exact Ev. auto.
  - intros v l Hl. destruct (beqb val v) eqn:Ev.
    + apply beqb_eq in Ev. subst v. rewrite aget_aset_same in Hl. inversion Hl; subst. exact Hn.
    + apply beqb_neq in Ev. rewrite aget_aset_other in Hl by exact Ev. eauto.
  - exact H5.
  - exact H6.
  - intros x Hx. apply rec_update_in in Hx as [->|[Hx _]]; [|auto].
    rewrite Hrk'. simpl. destruct Hr_in as [Hin|[_ [Ha Hnone]]]; [auto|].
    rewrite Ha. split; [discriminate|]. intro Hap.
    exfalso. apply H8 in Hap. apply in_map_iff in Hap as [x [Ex Hx]]. apply (Hnone x Hx). congruence.
  - intros k Hk. apply K2. right. auto.
Qed.

(* ---------- quorum arithmetic ---------- *)
Definition powers_nonneg (st : list sval) : Prop := forall v, In v st -> 0 <= sv_power v.
Definition vote_power (st : list sval) (votes : list bytes) : Z := zsum (map (power_of st) votes).

Lemma power_of_nonneg st v : powers_nonneg st -> 0 <= power_of st v.
Proof.
  intro H. unfold power_of, find_val. destruct (find _ st) as [x|] eqn:E; [|lia].
  apply find_some in E as [Hin _]. destruct (sv_bonded x); [apply H; exact Hin | lia].
Qed.

Lemma count_votes_some st req votes acc x :
  powers_nonneg st -> count_votes st req votes acc = Some x -> req <= x /\ x <= acc + vote_power st votes.
Proof.
  intro Hp. revert acc. induction votes as [|v votes IH]; simpl; intros acc H; [discriminate|].
  pose proof (power_of_nonneg st v Hp). unfold vote_power in *. simpl.
  destruct (Z.leb_spec req (acc + power_of st v)).
  - inversion H; subst. assert (0 <= zsum (map (power_of st) votes)).
    { apply zsum_nonneg. apply Forall_forall. intros y Hy. apply in_map_iff in Hy as [w [<- _]]. apply power_of_nonneg; auto. }
    lia.
  - apply IH in H. lia.
Qed.

Lemma threshold_66 total : 66 * total <= 100 * threshold total.
Proof. unfold threshold. lia. Qed.

(* a claim is justified in state s if its record has pairwise distinct voters whose current power
   sums to at least 66% of the total bonded power *)
Definition justified (s : vstate) (k : N * bytes) : Prop :=
  exists r, In r (vs_records s) /\ rkey r = k /\ NoDup (vr_votes r) /\
            66 * total_power (vs_staking s) <= 100 * vote_power (vs_staking s) (vr_votes r).

(* ---------- TryEventVoteRecord ---------- *)
Lemma try_record_spec st r :
  VInv st -> powers_nonneg (vs_staking st) -> In r (vs_records st) -> vr_nonce r = (vs_last_observed st + 1)%N ->
  exists st', try_record st r = Ok st' /\ VInv st' /\ vs_staking st' = vs_staking st /\ vs_orch st' = vs_orch st /\
    vs_last_by_val st' = vs_last_by_val st /\
    (st' = st \/
     (vs_applied st' = vs_applied st ++ [rkey r] /\ vs_last_observed st' = vr_nonce r /\ justified st (rkey r) /\
      vs_credited st' = vs_credited st + vr_amount r /\
      (forall x, In x (vs_records st) -> rkey x <> rkey r -> In x (vs_records st')) /\
      (forall x, In x (vs_records st') -> rkey x = rkey r \/ In x (vs_records st)))).
Proof.
  intros HI Hp Hin Hn. unfold try_record.
  pose proof HI as [H1 H2 H3 H4 H5 H6 H7 H8].
  assert (Hacc : vr_accepted r = false).
  { destruct (vr_accepted r) eqn:E; auto. apply (H7 r Hin) in E.
    pose proof (applied_nonce_bound st _ HI E) as B. unfold rkey in B. simpl in B. lia. }
  rewrite Hacc.
  destruct (count_votes (vs_staking st) _ (vr_votes r) 0) as [x|] eqn:Ec.
  - assert (N.eqb (vr_nonce r) (vs_last_observed st + 1) = true) as -> by (apply N.eqb_eq; exact Hn).
    simpl. eexists. split; [reflexivity|].
    set (r' := mkVrec (vr_nonce r) (vr_hash r) (vr_votes r) true (vr_amount r)).
    assert (Hk' : rkey r' = rkey r) by reflexivity.
    destruct (rec_update_keys r' (vs_records st) H1) as [K1 K2].
    assert (Hlen : (vs_last_observed st + 1)%N = N.of_nat (S (length (vs_applied st)))) by (rewrite H6; lia).
    split; [|repeat split; auto].
    + constructor; simpl.
      * exact K1.
      * intros y Hy. apply rec_update_in in Hy as [->|[Hy _]]; [simpl|]; auto.
      * intros y v Hy Hv. apply rec_update_in in Hy as [->|[Hy _]]; [simpl in Hv; apply (H3 r v Hin Hv) | eauto].
      * exact H4.
      * rewrite map_app, app_length. simpl. rewrite Nat.add_1_r, nseq1_app, H5. f_equal. f_equal. rewrite Hn, H6. lia.
      * rewrite app_length. simpl. rewrite Hn, H6. lia.
      * intros y Hy. apply rec_update_in in Hy as [->|[Hy Hk]].
        -- simpl. split; auto. intros _. apply in_or_app. right. left. reflexivity.
        -- specialize (Hk H1). rewrite (H7 y Hy). split; intro A.
           ++ apply in_or_app. auto.
           ++ apply in_app_or in A as [A|[A|[]]]; auto. exfalso. apply Hk. rewrite <- A. reflexivity.
      * intros k Hk. apply K2. apply in_app_or in Hk as [Hk|[<-|[]]]; [right; auto | left; reflexivity].
    + right. repeat split; auto.
      * exists r. repeat split; auto.
        apply count_votes_some in Ec as [A B]; auto. pose proof (threshold_66 (total_power (vs_staking st))). lia.
      * intros y Hy Hk. apply rec_update_keep; auto.
      * intros y Hy. apply rec_update_in in Hy as [->|[Hy _]]; auto.
  - exists st. split; [reflexivity|]. split; [exact HI|]. split; [reflexivity|]. split; [reflexivity|]. split; [reflexivity|]. left. reflexivity.
Qed.

(* ---------- the tally ---------- *)
Lemma tally_spec s :
  VInv s -> powers_nonneg (vs_staking s) ->
  exists s' new,
    tally s = Ok s' /\ VInv s' /\ vs_staking s' = vs_staking s /\ vs_orch s' = vs_orch s /\
    vs_last_by_val s' = vs_last_by_val s /\
    vs_applied s' = vs_applied s ++ new /\ (forall k, In k new -> justified s k).
Proof.
  intros HI Hp. unfold tally.
  assert (G : forall l st new0,
             (forall r0, In r0 l -> In r0 (vs_records s)) ->
             VInv st -> vs_staking st = vs_staking s -> vs_orch st = vs_orch s -> vs_last_by_val st = vs_last_by_val s ->
             vs_applied st = vs_applied s ++ new0 -> (forall k, In k new0 -> justified s k) ->
             (forall r0, In r0 (vs_records s) -> In r0 (vs_records st) \/ (vr_nonce r0 <= vs_last_observed st)%N) ->
             (forall x, In x (vs_records st) -> In x (vs_records s) \/ In (rkey x) new0) ->
             exists s' new,
               fold_left (fun r rec0 => bind r (fun st => if N.eqb (vr_nonce rec0) (vs_last_observed st + 1) then try_record st rec0 else Ok st))
                         l (Ok st) = Ok s' /\ VInv s' /\ vs_staking s' = vs_staking s /\ vs_orch s' = vs_orch s /\
               vs_last_by_val s' = vs_last_by_val s /\
               vs_applied s' = vs_applied s ++ new /\ (forall k, In k new -> justified s k)).
  { induction l as [|r0 l IH]; simpl; intros st new0 Hl HIst Hst Hor Hlb Hap Hj Hsnap Hback.
    - exists st, new0. split; [reflexivity|]. split; [exact HIst|]. split; [exact Hst|]. split; [exact Hor|]. split; [exact Hlb|]. split; [exact Hap | exact Hj].
    - destruct (N.eqb (vr_nonce r0) (vs_last_observed st + 1)) eqn:En.
      + apply N.eqb_eq in En.
        assert (Hin0 : In r0 (vs_records st)).
        { destruct (Hsnap r0 (Hl r0 (or_introl eq_refl))) as [A|A]; [exact A | lia]. }
        destruct (try_record_spec st r0 HIst ltac:(rewrite Hst; exact Hp) Hin0 En)
          as [st' [Et [HI' [Hst' [Hor' [Hlb' Hcase]]]]]].
        rewrite Et. destruct Hcase as [->|[Ha [Hlo [Hjust [_ [Hkeep Hnew]]]]]].
        * eapply IH; eauto.
        * eapply (IH st' (new0 ++ [rkey r0])); eauto; try congruence.
          -- rewrite Ha, Hap, app_assoc. reflexivity.
          -- intros k Hk. apply in_app_or in Hk as [Hk|[<-|[]]]; auto.
             (* r0 is unchanged since the start of the sweep, and so is the staking input *)
             destruct Hjust as [r [Hr [Hk [Hnd Hq]]]].
             assert (r = r0).
             { pose proof (find_in_unique _ _ (vi_keys st HIst) Hr) as F1.
               pose proof (find_in_unique _ _ (vi_keys st HIst) Hin0) as F2.
               unfold rkey in Hk. inversion Hk as [[E1 E2]]. rewrite E1, E2 in F1. congruence. }
             subst r. exists r0. rewrite <- Hst. repeat split; auto.
          -- intros x Hx. destruct (Hsnap x Hx) as [A|A].
             ++ destruct (N.eq_dec (vr_nonce x) (vr_nonce r0)) as [E|E].
                ** right. rewrite Hlo. lia.
                ** left. apply Hkeep; auto. unfold rkey. intro K. inversion K. contradiction.
             ++ right. rewrite Hlo. lia.
          -- intros x Hx. destruct (Hnew x Hx) as [A|A].
             ++ right. rewrite A. apply in_or_app. right. left. reflexivity.
             ++ destruct (Hback x A) as [B|B]; auto. right. apply in_or_app. auto.
      + eapply IH; eauto. }
  destruct (G (sort_recs (vs_records s)) s []) as [s' [new R]]; auto.
  - intros r0 Hr0. apply (proj1 (sort_recs_in _ _)) in Hr0. exact Hr0.
  - rewrite app_nil_r. reflexivity.
  - intros k [].
  - exists s', new. exact R.
Qed.

(* ---------- histories ---------- *)
Definition wf_vop (o : vop) : Prop :=
  match o with
  | VVote _ nonce _ _ => (1 <= nonce)%N
  | VTally => True
  | VSetStaking st _ => powers_nonneg st
  end.

Definition VI (s : vstate) : Prop := VInv s /\ powers_nonneg (vs_staking s).

Lemma vote_staking s signer nonce hash amount s' :
  vote s signer nonce hash amount = Ok s' -> vs_staking s' = vs_staking s.
Proof.
  unfold vote. destruct (signer_validator s signer); simpl; try discriminate.
  destruct (_ && _)%bool; [discriminate|]. intro H. inversion H. reflexivity.
Qed.

Lemma vstep_inv s o : VI s -> wf_vop o -> VI (fst (vstep s o)).
Proof.
  intros [HI Hp] Hw. destruct o; simpl.
  - destruct (vote s signer nonce hash amount) as [s'|?|?] eqn:H; simpl; [|split; auto..].
    split; [eapply vote_inv; eauto | rewrite (vote_staking _ _ _ _ _ _ H); exact Hp].
  - destruct (tally_spec s HI Hp) as [s' [new [Et [HI' [Hst _]]]]]. rewrite Et. simpl. split; auto. rewrite Hst. exact Hp.
  - split; [|exact Hw]. destruct HI as [H1 H2 H3 H4 H5 H6 H7 H8]. constructor; simpl; auto.
Qed.

Lemma vrun_inv s ops : VI s -> Forall wf_vop ops -> VI (vrun s ops).
Proof.
  revert s. induction ops as [|o ops IH]; simpl; intros s H Hw; [exact H|].
  inversion Hw; subst. apply IH; auto. apply vstep_inv; auto.
Qed.

Lemma vinit_VI : VI vinit.
Proof. split; [apply vinit_inv | intros v []]. Qed.
