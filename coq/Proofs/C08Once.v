(* The contract executes a batch nonce at most once, whatever happens in between (C04's "paid out at most once" on
   the external side; C08's "in nonce order"). *)
From V Require Import Base.Prelude Base.Val Num.Arith Gen.SrcFactsSol Ext.Hub2Sol Proofs.ListX Proofs.C08Proofs.
Local Open Scope Z_scope.

Definition srun (s : sol) (ops : list sop) : sol := fold_left (fun st o => fst (sstep st o)) ops s.

Lemma submit_needs_higher_nonce s trs n t q mode exec :
  snd (submit_batch s trs n t q mode exec) = true -> so_bnonce s < n.
Proof.
  rewrite submit_batch_spec.
  destruct (Nat.eqb (length q) (length (so_members s))); cbn [andb]; [|discriminate].
  destruct (so_bnonce s <? n) eqn:E; cbn [andb]; [|discriminate]. intros _. lia.
Qed.

Lemma submit_accepted_nonce s trs n t q mode exec :
  snd (submit_batch s trs n t q mode exec) = true -> so_bnonce (fst (submit_batch s trs n t q mode exec)) = n.
Proof.
  rewrite submit_batch_spec.
  destruct (_ && _ && _ && _)%bool; [reflexivity | discriminate].
Qed.

Lemma srun_bnonce_mono ops : forall s, so_bnonce s <= so_bnonce (srun s ops).
Proof.
  induction ops as [|o ops IH]; intro s; simpl; [lia|].
  pose proof (sstep_nonces s o) as H. destruct (sstep s o) as [s' ok]. cbn [fst].
  destruct H as [_ [_ [_ [Hb _]]]]. specialize (IH s'). lia.
Qed.

(* once a batch with nonce n has been executed, no batch with a nonce <= n (in particular the same batch again) is
   ever executed by this contract, after any sequence of further operations *)
Theorem batch_nonce_executes_at_most_once s trs n t q mode exec ops trs' n' t' q' mode' exec' :
  snd (submit_batch s trs n t q mode exec) = true -> n' <= n ->
  snd (submit_batch (srun (fst (submit_batch s trs n t q mode exec)) ops) trs' n' t' q' mode' exec') = false.
Proof.
  intros Hacc Hle.
  destruct (snd (submit_batch (srun (fst (submit_batch s trs n t q mode exec)) ops) trs' n' t' q' mode' exec')) eqn:E; [|reflexivity].
  exfalso. apply submit_needs_higher_nonce in E.
  pose proof (srun_bnonce_mono ops (fst (submit_batch s trs n t q mode exec))) as Hm.
  rewrite (submit_accepted_nonce _ _ _ _ _ _ _ Hacc) in Hm. lia.
Qed.

Lemma valset_needs_higher_nonce s m n q mode exec :
  snd (update_valset s m n q mode exec) = true -> so_vnonce s < n.
Proof.
  rewrite update_valset_spec.
  destruct (Nat.eqb (length q) (length (so_members s))); cbn [andb]; [|discriminate].
  destruct (so_vnonce s <? n) eqn:E; cbn [andb]; [|discriminate]. intros _. lia.
Qed.

Lemma valset_accepted_nonce s m n q mode exec :
  snd (update_valset s m n q mode exec) = true -> so_vnonce (fst (update_valset s m n q mode exec)) = n.
Proof.
  rewrite update_valset_spec.
  destruct (_ && _ && _)%bool; [reflexivity | discriminate].
Qed.

Lemma srun_vnonce_mono ops : forall s, so_vnonce s <= so_vnonce (srun s ops).
Proof.
  induction ops as [|o ops IH]; intro s; simpl; [lia|].
  pose proof (sstep_nonces s o) as H. destruct (sstep s o) as [s' ok]. cbn [fst].
  destruct H as [_ [_ [Hv _]]]. specialize (IH s'). lia.
Qed.

Theorem valset_nonce_executes_at_most_once s m n q mode exec ops m' n' q' mode' exec' :
  snd (update_valset s m n q mode exec) = true -> n' <= n ->
  snd (update_valset (srun (fst (update_valset s m n q mode exec)) ops) m' n' q' mode' exec') = false.
Proof.
  intros Hacc Hle.
  destruct (snd (update_valset (srun (fst (update_valset s m n q mode exec)) ops) m' n' q' mode' exec')) eqn:E; [|reflexivity].
  exfalso. apply valset_needs_higher_nonce in E.
  pose proof (srun_vnonce_mono ops (fst (update_valset s m n q mode exec))) as Hm.
  rewrite (valset_accepted_nonce _ _ _ _ _ _ Hacc) in Hm. lia.
Qed.
