(* Structural invariants of the hub model: every transfer (chain, id) is in exactly one place
   (pool or exactly one batch), ids and batch nonces are bounded by their counters, batches are
   well formed.  Used by C04, C10, C12, C13. *)
From V Require Import Base.Prelude Base.Val Num.Arith Hub.Types Hub.Model Proofs.ListX.
From Coq Require Import Permutation.
Local Open Scope Z_scope.

Definition ekey (e : ste) : bytes * N := (s_chain e, s_id e).
Definition bkey (b : batch) : bytes * N := (b_chain b, b_nonce b).
Definition batch_txs (bs : list batch) : list ste := concat (map b_txs bs).

Lemma same_entry_iff a b : same_entry a b = true <-> ekey a = ekey b.
Proof.
  unfold same_entry, ekey. rewrite andb_true_iff, beqb_eq, N.eqb_eq. split.
  - intros [-> ->]. reflexivity.
  - intro H. inversion H. auto.
Qed.

Lemma same_entry_false a b : same_entry a b = false <-> ekey a <> ekey b.
Proof.
  split; intro H.
  - intro E. apply same_entry_iff in E. congruence.
  - destruct (same_entry a b) eqn:E; auto. apply same_entry_iff in E. contradiction.
Qed.

(* ---------- sorting is a permutation ---------- *)
Lemma insert_desc_perm e l : Permutation (insert_desc e l) (e :: l).
Proof.
  induction l as [|x l IH]; simpl; [reflexivity|].
  destruct (bcmp (pool_key e) (pool_key x)); try reflexivity.
  rewrite IH. apply perm_swap.
Qed.

Lemma sort_desc_perm l : Permutation (sort_desc l) l.
Proof.
  induction l as [|x l IH]; simpl; [reflexivity|].
  rewrite insert_desc_perm. constructor. exact IH.
Qed.

Lemma sort_desc_in l x : In x (sort_desc l) <-> In x l.
Proof. split; apply Permutation_in; [|symmetry]; apply sort_desc_perm. Qed.

Lemma sort_desc_nodup_keys l : NoDup (map ekey l) -> NoDup (map ekey (sort_desc l)).
Proof.
  intro H. eapply Permutation_NoDup; [|exact H].
  apply Permutation_map. symmetry. apply sort_desc_perm.
Qed.

Lemma pool_of_chain_in c l x : In x (pool_of_chain c l) -> In x l.
Proof. unfold pool_of_chain. rewrite sort_desc_in. apply filter_incl_in. Qed.

Lemma pool_of_coin_in c t l x : In x (pool_of_coin c t l) -> In x l /\ s_ext x = t.
Proof.
  unfold pool_of_coin. intro H. apply filter_In in H as [H1 H2].
  apply (proj1 (sort_desc_in _ _)) in H1. apply filter_In in H1 as [H1 H3].
  split; auto. apply beqb_eq. exact H2.
Qed.

Lemma pool_of_coin_nodup c t l : NoDup (map ekey l) -> NoDup (map ekey (pool_of_coin c t l)).
Proof.
  intro H. unfold pool_of_coin. apply NoDup_filter_map. apply sort_desc_nodup_keys.
  apply NoDup_filter_map. exact H.
Qed.

(* an entry found through the chain's prefix scan carries that chain as a key prefix *)
Lemma pool_key_chain_prefix e : is_prefix (s_chain e) (pool_key e) = true.
Proof. unfold pool_key. apply is_prefix_app. Qed.

(* ---------- pool_delete ---------- *)
Lemma pool_delete_in e l x : In x (pool_delete e l) <-> In x l /\ ekey x <> ekey e.
Proof.
  unfold pool_delete. rewrite filter_In, negb_true_iff, same_entry_false. tauto.
Qed.

Lemma fold_delete_in sel l x :
  In x (fold_left (fun p e => pool_delete e p) sel l) <-> In x l /\ forall e, In e sel -> ekey x <> ekey e.
Proof.
  revert l. induction sel as [|a sel IH]; simpl; intro l.
  - split; [intro H; split; [exact H | intros e []] | tauto].
  - rewrite IH, pool_delete_in. split.
    + intros [[H1 H2] H3]. split; auto. intros e [<-|He]; auto.
    + intros [H1 H2]. repeat split; auto.
Qed.

Lemma fold_delete_nodup sel l : NoDup (map ekey l) -> NoDup (map ekey (fold_left (fun p e => pool_delete e p) sel l)).
Proof.
  revert l. induction sel as [|a sel IH]; simpl; intros l H; auto.
  apply IH. unfold pool_delete. apply NoDup_filter_map. exact H.
Qed.

Lemma fold_insert_eq txs l : fold_left (fun p e => pool_insert e p) txs l = rev txs ++ l.
Proof.
  revert l. induction txs as [|a txs IH]; simpl; intro l; auto.
  rewrite IH. unfold pool_insert. rewrite <- app_assoc. reflexivity.
Qed.

(* ---------- concat lemmas ---------- *)
Lemma in_batch_txs bs e : In e (batch_txs bs) <-> exists b, In b bs /\ In e (b_txs b).
Proof.
  unfold batch_txs. rewrite in_concat. split.
  - intros [l [Hl He]]. apply in_map_iff in Hl as [b [<- Hb]]. exists b. auto.
  - intros [b [Hb He]]. exists (b_txs b). split; auto. apply in_map. exact Hb.
Qed.

Lemma batch_txs_app a b : batch_txs (a ++ b) = batch_txs a ++ batch_txs b.
Proof. unfold batch_txs. rewrite map_app, concat_app. reflexivity. Qed.

Lemma batch_txs_filter_nodup p bs :
  NoDup (map ekey (batch_txs bs)) -> NoDup (map ekey (batch_txs (filter p bs))).
Proof.
  induction bs as [|b bs IH]; simpl; intro H; auto.
  unfold batch_txs in *. simpl in H. rewrite map_app in H. apply NoDup_app_iff in H as [H1 [H2 H3]].
  destruct (p b); simpl; auto.
  rewrite map_app. apply NoDup_app_iff. repeat split; auto.
  intros x Hx1 Hx2. apply (H3 x Hx1).
  apply in_map_iff in Hx2 as [e [E He]]. apply in_map_iff. exists e. split; auto.
  apply in_concat in He as [l [Hl He]]. apply in_map_iff in Hl as [b' [<- Hb']].
  apply in_concat. exists (b_txs b'). split; auto. apply in_map. apply filter_In in Hb'. tauto.
Qed.

Lemma batch_txs_distinct bs b1 b2 e1 e2 :
  NoDup (map ekey (batch_txs bs)) -> NoDup (map bkey bs) ->
  In b1 bs -> In b2 bs -> b1 <> b2 -> In e1 (b_txs b1) -> In e2 (b_txs b2) -> ekey e1 <> ekey e2.
Proof.
  induction bs as [|b bs IH]; simpl; intros Hnd Hbk H1 H2 Hne He1 He2; [contradiction|].
  unfold batch_txs in Hnd. simpl in Hnd. rewrite map_app in Hnd.
  apply NoDup_app_iff in Hnd as [Ha [Hb Hc]]. inversion Hbk as [|? ? Hnotin Hbk']; subst.
  assert (Hin_rest : forall b' e, In b' bs -> In e (b_txs b') -> In (ekey e) (map ekey (concat (map b_txs bs)))).
  { intros b' e Hb' He. apply in_map. apply in_concat. exists (b_txs b'). split; auto. apply in_map. auto. }
  destruct H1 as [<-|H1], H2 as [<-|H2].
  - contradiction.
  - intro E. apply (Hc (ekey e1)); [apply in_map; auto | rewrite E; eapply Hin_rest; eauto].
  - intro E. apply (Hc (ekey e2)); [apply in_map; auto | rewrite <- E; eapply Hin_rest; eauto].
  - eapply IH; eauto.
Qed.

(* ---------- the invariant ---------- *)
(* the chains transfers can be addressed to: the configured ones and Minter (fee and commission
   payouts are always sent there) *)
Definition KC (s : state) : list bytes := b_minter :: p_chains (st_params s).
Definition refund_chain_ok (s : state) (c : bytes) : Prop := c = [] \/ c = b_hub \/ In c (KC s).

(* no configured chain id is a proper prefix of another (store keys have no delimiter) *)
Definition prefix_free (l : list bytes) : Prop :=
  forall a b, In a l -> In b l -> is_prefix a b = true -> a = b.

Record Inv (s : state) : Prop := mkInv {
  inv_pool_nodup : NoDup (map ekey (st_pool s));
  inv_batch_nodup : NoDup (map ekey (batch_txs (st_batches s)));
  inv_disjoint : forall x y, In x (st_pool s) -> In y (batch_txs (st_batches s)) -> ekey x <> ekey y;
  inv_ids : forall e, In e (st_pool s ++ batch_txs (st_batches s)) ->
                      (1 <= s_id e <= agetd 0 (s_chain e) (st_last_id s))%N;
  inv_batch_own : forall b e, In b (st_batches s) -> In e (b_txs b) ->
                              s_chain e = b_chain b /\ s_ext e = b_ext b;
  inv_batch_size : forall b, In b (st_batches s) -> (1 <= length (b_txs b) <= 100)%nat;
  inv_batch_nonce : forall b, In b (st_batches s) ->
                              (1 <= b_nonce b <= agetd 0 (b_chain b) (st_last_batch_nonce s))%N;
  inv_bkeys : NoDup (map bkey (st_batches s));
  inv_chains : forall e, In e (st_pool s ++ batch_txs (st_batches s)) ->
                         In (s_chain e) (KC s) /\ refund_chain_ok s (s_refund_chain e);
  inv_prefix_free : prefix_free (KC s)
}.

(* the part of the state the invariant reads *)
Definition core (s : state) := (st_pool s, st_batches s, st_last_id s, st_last_batch_nonce s, st_params s).

Lemma Inv_core s s' : core s = core s' -> Inv s -> Inv s'.
Proof.
  unfold core. intros E [H1 H2 H3 H4 H5 H6 H7 H8 H9 H10]. inversion E as [[E1 E2 E3 E4 E5]].
  constructor; unfold KC, refund_chain_ok, KC in *; rewrite <- ?E1, <- ?E2, <- ?E3, <- ?E4, <- ?E5; assumption.
Qed.

Lemma core_credit s a d x : core (credit s a d x) = core s.
Proof. reflexivity. Qed.
Lemma core_set_tx_status s h st o : core (set_tx_status s h st o) = core s.
Proof. reflexivity. Qed.
Lemma core_set_feerec s v : core (set_feerec s v) = core s.
Proof. reflexivity. Qed.
Lemma core_debit s a d x s' : debit s a d x = Ok s' -> core s' = core s.
Proof.
  unfold debit. destruct (x <=? 0); [discriminate|]. destruct (balance s a d <? x); [discriminate|].
  intro H. inversion H. reflexivity.
Qed.

Lemma agetd_aset_same {V} (d : V) k v m : agetd d k (aset k v m) = v.
Proof. unfold agetd. rewrite aget_aset_same. reflexivity. Qed.
Lemma agetd_aset_other {V} (d : V) k k' v m : k <> k' -> agetd d k' (aset k v m) = agetd d k' m.
Proof. intro H. unfold agetd. rewrite aget_aset_other by exact H. reflexivity. Qed.

Lemma agetd_aset_mono (k c : bytes) n (m : list (bytes * N)) :
  (agetd 0 c m <= n)%N -> forall k', (agetd 0 k' m <= agetd 0 k' (aset c n m))%N.
Proof.
  intros H k'. destruct (beqb c k') eqn:E.
  - apply beqb_eq in E. subst. rewrite agetd_aset_same. exact H.
  - apply beqb_neq in E. rewrite agetd_aset_other by exact E. lia.
Qed.

(* ---------- create_send ---------- *)
Lemma create_send_inv s chain sender rcpt denom a f c h rc ra s' id :
  Inv s -> In chain (KC s) -> refund_chain_ok s rc ->
  create_send s chain sender rcpt denom a f c h rc ra = Ok (s', id) -> Inv s'.
Proof.
  intros HI Hkc Hrc H. unfold create_send in H.
  destruct (denom_to_token (st_tokens s) chain denom) as [ti|]; [|discriminate].
  destruct (debit s sender denom (a + f + c)) as [s1|?|?] eqn:Hd; simpl in H; try discriminate.
  match type of H with (if ?g then _ else _) = _ => destruct g; [discriminate|] end.
  inversion H; subst; clear H.
  pose proof (core_debit _ _ _ _ _ Hd) as Hc. unfold core in Hc. inversion Hc as [[Ep Eb El En Epar]].
  destruct HI as [H1 H2 H3 H4 H5 H6 H7 H8 H9 H10].
  set (id := (agetd 0%N chain (st_last_id s1) + 1)%N).
  set (e := mkSte id sender rcpt chain (ti_id ti) (ti_ext ti) _ _ _ h _ ra rc).
  assert (Hfresh : forall x, In x (st_pool s ++ batch_txs (st_batches s)) -> ekey x <> ekey e).
  { intros x Hx E. unfold ekey in E. simpl in E. inversion E as [[E1 E2]].
    specialize (H4 x Hx). rewrite E1, <- El in H4. unfold id in E2. clear -H4 E2. lia. }
  constructor; simpl; rewrite ?Ep, ?Eb, ?En.
  - unfold pool_insert. simpl. constructor; auto.
    intro Hin. apply in_map_iff in Hin as [x [E Hx]]. apply (Hfresh x); [apply in_or_app; auto | exact E].
  - exact H2.
  - unfold pool_insert. intros x y [<-|Hx] Hy; auto.
    intro E. apply (Hfresh y); [apply in_or_app; auto | auto].
  - unfold pool_insert. intros x Hx. simpl in Hx.
    destruct Hx as [<-|Hx].
    + simpl. rewrite agetd_aset_same. unfold id. clear. lia.
    + specialize (H4 x Hx). rewrite <- El in H4.
      assert (Hle : (agetd 0 chain (st_last_id s1) <= id)%N) by (unfold id; clear; lia).
      pose proof (agetd_aset_mono chain chain id (st_last_id s1) Hle (s_chain x)) as Hm.
      clear -H4 Hm. lia.
  - exact H5.
  - exact H6.
  - exact H7.
  - exact H8.
  - unfold pool_insert, KC, refund_chain_ok, KC in *. simpl. rewrite Epar. intros x [<-|Hx]; simpl; auto.
    apply (H9 x Hx).
  - unfold KC in *. simpl. rewrite Epar. exact H10.
Qed.

(* ---------- cancel_send ---------- *)
Lemma find_in_pool_some s chain id e :
  find_in_pool s chain id = Some e -> In e (st_pool s) /\ s_id e = id.
Proof.
  unfold find_in_pool.
  assert (G : forall l acc, (forall x, acc = Some x -> In x (st_pool s) /\ s_id x = id) ->
                            (forall x, In x l -> In x (st_pool s)) ->
                            fold_left (fun acc e => if N.eqb (s_id e) id then Some e else acc) l acc = Some e ->
                            In e (st_pool s) /\ s_id e = id).
  { induction l as [|x l IH]; simpl; intros acc Ha Hl H; [auto|].
    apply (IH _ ltac:(idtac) ltac:(auto) H) || idtac.
    eapply IH; [| |exact H]; auto.
    intros y Hy. destruct (N.eqb (s_id x) id) eqn:E; [|auto].
    inversion Hy; subst. split; [auto | apply N.eqb_eq; exact E]. }
  apply G; [discriminate | intros x Hx; eapply pool_of_chain_in; eauto].
Qed.

Lemma pool_delete_inv s e :
  Inv s -> Inv (set_pool s (pool_delete e (st_pool s))).
Proof.
  intros [H1 H2 H3 H4 H5 H6 H7 H8 H9 H10]. constructor; simpl; auto.
  - unfold pool_delete. apply NoDup_filter_map. exact H1.
  - intros x y Hx Hy. apply pool_delete_in in Hx as [Hx _]. auto.
  - intros x Hx. apply H4. apply in_app_or in Hx as [Hx|Hx]; apply in_or_app; auto.
    left. apply pool_delete_in in Hx. tauto.
  - intros x Hx. apply H9. apply in_app_or in Hx as [Hx|Hx]; apply in_or_app; auto.
    left. apply pool_delete_in in Hx. tauto.
Qed.

Lemma cancel_send_inv s chain id sender s' :
  Inv s -> cancel_send s chain id sender = Ok s' -> Inv s'.
Proof.
  intros HI H. unfold cancel_send in H.
  destruct (find_in_pool s chain id) as [e|] eqn:Hf; [|discriminate].
  destruct (negb (beqb sender (s_sender e))); [discriminate|].
  match type of H with (if ?g then _ else _) = _ => destruct g; [discriminate|] end.
  match type of H with (if ?g then _ else _) = _ => destruct g; [discriminate|] end.
  match type of H with bind ?r _ = _ => destruct r as [s1|?|?] eqn:Hr; simpl in H; try discriminate end.
  inversion H; subst; clear H.
  apply find_in_pool_some in Hf as [Hin _].
  assert (HI1 : Inv s1).
  { destruct (beqb (s_refund_chain e) []) eqn:E1.
    - inversion Hr; subst. destruct (0 <? _); [eapply Inv_core; [|exact HI]; reflexivity | exact HI].
    - destruct (beqb (s_refund_chain e) b_hub) eqn:E2.
      + inversion Hr; subst. destruct (0 <? _); [eapply Inv_core; [|exact HI]; reflexivity | exact HI].
      + destruct (0 <? _) eqn:Epos; [|inversion Hr; subst; exact HI].
        match type of Hr with bind ?r _ = _ => destruct r as [[s2 i2]|?|?] eqn:Hc; simpl in Hr; try discriminate end.
        inversion Hr; subst.
        assert (Hk : In (s_refund_chain e) (KC s)).
        { destruct (inv_chains s HI e ltac:(apply in_or_app; auto)) as [_ [Hq|[Hq|Hq]]]; auto.
          - apply beqb_neq in E1. contradiction.
          - apply beqb_neq in E2. contradiction. }
        eapply create_send_inv; [| | |exact Hc].
        * eapply Inv_core; [|exact HI]; reflexivity.
        * exact Hk.
        * left. reflexivity. }
  apply (pool_delete_inv (set_tx_status s1 (s_txhash e) ST_REFUNDED []) e).
  eapply Inv_core; [|exact HI1]. reflexivity.
Qed.

(* ---------- prefixes ---------- *)
Lemma app_eq_prefix (a b x y : bytes) : a ++ x = b ++ y -> is_prefix a b = true \/ is_prefix b a = true.
Proof.
  revert b. induction a as [|c a IH]; intros b H; [left; reflexivity|].
  destruct b as [|d b]; [right; reflexivity|].
  simpl in H. inversion H; subst. destruct (IH b H2) as [Hp|Hp]; [left|right]; simpl; rewrite N.eqb_refl; exact Hp.
Qed.

Lemma prefix_chain_eq l chain ext e :
  prefix_free l -> In chain l -> In (s_chain e) l -> s_ext e = ext ->
  is_prefix (chain ++ ext) (pool_key e) = true -> s_chain e = chain.
Proof.
  intros Hpf Hc He Hext Hp. apply is_prefix_spec in Hp as [t Ht]. unfold pool_key in Ht. rewrite Hext in Ht.
  rewrite <- app_assoc in Ht.
  destruct (app_eq_prefix _ _ _ _ Ht) as [Hq|Hq].
  - apply Hpf; auto.
  - symmetry. apply Hpf; auto.
Qed.

(* ---------- build_batch ---------- *)
Lemma fold_status_core sel s :
  core (fold_left (fun st e => set_tx_status st (s_txhash e) ST_BATCH_CREATED []) sel s) = core s.
Proof. revert s. induction sel as [|a sel IH]; simpl; intro s; auto. rewrite IH. reflexivity. Qed.

Lemma fold_status_out_seq sel s :
  st_out_seq (fold_left (fun st e => set_tx_status st (s_txhash e) ST_BATCH_CREATED []) sel s) = st_out_seq s.
Proof. revert s. induction sel as [|a sel IH]; simpl; intro s; auto. rewrite IH. reflexivity. Qed.

Lemma in_map_ekey_inv l k : In k (map ekey l) -> exists e, In e l /\ ekey e = k.
Proof. intro H. apply in_map_iff in H as [e [E He]]. exists e. auto. Qed.

Lemma batch_txs_single_nodup bs b :
  NoDup (map ekey (batch_txs bs)) -> In b bs -> NoDup (map ekey (b_txs b)).
Proof.
  induction bs as [|a bs IH]; simpl; intros H Hb; [contradiction|].
  unfold batch_txs in H. simpl in H. rewrite map_app in H. apply NoDup_app_iff in H as [H1 [H2 H3]].
  destruct Hb as [->|Hb]; auto.
Qed.

Lemma build_batch_inv s chain ext s' ob :
  Inv s -> In chain (KC s) -> build_batch s chain ext = Ok (s', ob) ->
  Inv s' /\
  match ob with
  | None => s' = s
  | Some b =>
      b_chain b = chain /\ b_ext b = ext /\
      b_txs b = firstn BATCH_SIZE (pool_of_coin chain ext (st_pool s)) /\
      b_nonce b = (agetd 0 chain (st_last_batch_nonce s) + 1)%N /\
      agetd 0%N chain (st_last_batch_nonce s') = b_nonce b /\
      b_seq b = (agetd 0 chain (st_out_seq s) + 1)%N /\
      agetd 0%N chain (st_out_seq s') = b_seq b /\
      st_batches s' = st_batches s ++ [b]
  end.
Proof.
  intros HI Hkc H. unfold build_batch in H.
  remember (firstn BATCH_SIZE (pool_of_coin chain ext (st_pool s))) as sel eqn:Hsel.
  destruct sel as [|e0 sel']; [inversion H; subst; split; auto|].
  remember (e0 :: sel') as sel eqn:Hs0.
  match type of H with bind ?r _ = _ => destruct r as [t|?|?] eqn:Ht; simpl in H; try discriminate end.
  inversion H; subst s' ob; clear H.
  destruct HI as [H1 H2 H3 H4 H5 H6 H7 H8 H9 H10].
  assert (Hsel_in : forall e, In e sel -> In e (st_pool s) /\ s_ext e = ext).
  { intros e He. rewrite Hsel in He. apply firstn_incl in He. eapply pool_of_coin_in; eauto. }
  assert (Hsel_nd : NoDup (map ekey sel)).
  { rewrite Hsel, <- firstn_map. apply NoDup_firstn. apply pool_of_coin_nodup. exact H1. }
  assert (Hsel_chain : forall e, In e sel -> s_chain e = chain).
  { intros e He. destruct (Hsel_in e He) as [Hp Hext].
    rewrite Hsel in He. apply firstn_incl in He.
    unfold pool_of_coin in He. apply filter_In in He as [He _].
    apply (proj1 (sort_desc_in _ _)) in He. apply filter_In in He as [_ Hpre].
    eapply prefix_chain_eq; eauto. apply (H9 e). apply in_or_app. auto. }
  assert (Hlen : (1 <= length sel <= 100)%nat).
  { split; [rewrite Hs0; simpl; lia | rewrite Hsel; apply firstn_length_le]. }
  match goal with |- context [fold_left (fun st e => set_tx_status st _ _ _) sel ?base] =>
    pose proof (fold_status_core sel base) as Hcore; set (s1 := fold_left (fun st e => set_tx_status st (s_txhash e) ST_BATCH_CREATED []) sel base) in * end.
  unfold core in Hcore; simpl in Hcore. inversion Hcore as [[E1 E2 E3 E4 E5]]. clear Hcore.
  split.
  - constructor; simpl; unfold KC, refund_chain_ok, KC; simpl; rewrite ?E1, ?E2, ?E3, ?E4, ?E5.
    + apply fold_delete_nodup. exact H1.
    + rewrite batch_txs_app. unfold batch_txs at 2. simpl. rewrite app_nil_r.
      rewrite map_app. apply NoDup_app_iff. repeat split; auto.
      intros k Hk1 Hk2. apply in_map_ekey_inv in Hk1 as [y [Hy Ey]]. apply in_map_ekey_inv in Hk2 as [x [Hx Ex]].
      apply (H3 x y); [apply Hsel_in; auto | auto | congruence].
    + intros x y Hx Hy. apply fold_delete_in in Hx as [Hx Hne].
      rewrite batch_txs_app in Hy. apply in_app_or in Hy as [Hy|Hy]; [auto|].
      unfold batch_txs in Hy. simpl in Hy. rewrite app_nil_r in Hy. auto.
    + intros e He. apply H4. apply in_app_or in He as [He|He]; apply in_or_app.
      * left. apply fold_delete_in in He. tauto.
      * rewrite batch_txs_app in He. apply in_app_or in He as [He|He]; [auto|].
        unfold batch_txs in He. simpl in He. rewrite app_nil_r in He. left. apply Hsel_in. auto.
    + intros b e Hb He. apply in_app_or in Hb as [Hb|[<-|[]]]; [auto|]. simpl in *.
      split; [apply Hsel_chain | apply Hsel_in]; auto.
    + intros b Hb. apply in_app_or in Hb as [Hb|[<-|[]]]; [auto|]. simpl. exact Hlen.
    + intros b Hb. apply in_app_or in Hb as [Hb|[<-|[]]].
      * specialize (H7 b Hb).
        pose proof (agetd_aset_mono chain chain (agetd 0%N chain (st_last_batch_nonce s) + 1)%N
                                    (st_last_batch_nonce s) ltac:(clear; lia) (b_chain b)) as Hm.
        clear -H7 Hm. lia.
      * simpl. rewrite agetd_aset_same. clear. lia.
    + rewrite map_app. apply NoDup_app_iff. repeat split; auto.
      * simpl. constructor; [intros []|constructor].
      * intros k Hk1 Hk2. simpl in Hk2. destruct Hk2 as [<-|[]].
        apply in_map_iff in Hk1 as [b [E Hb]]. unfold bkey in E. simpl in E. inversion E as [[Q1 Q2]].
        specialize (H7 b Hb). first [clear -H7 Q2; lia | rewrite Q1 in H7; clear -H7 Q2; lia].
    + intros e He. apply H9. apply in_app_or in He as [He|He]; apply in_or_app.
      * left. apply fold_delete_in in He. tauto.
      * rewrite batch_txs_app in He. apply in_app_or in He as [He|He]; [auto|].
        unfold batch_txs in He. simpl in He. rewrite app_nil_r in He. left. apply Hsel_in. auto.
    + exact H10.
  - simpl. rewrite ?E1, ?E2, ?E3, ?E4, ?E5. rewrite !agetd_aset_same. repeat split; auto.
    unfold s1. rewrite fold_status_out_seq. reflexivity.
Qed.

(* ---------- cancel_batch / removing a batch ---------- *)
Lemma batch_is_bkey c t n b : batch_is c t n b = true -> bkey b = (c, n).
Proof.
  unfold batch_is, bkey. rewrite !andb_true_iff, !beqb_eq, N.eqb_eq. intros [[-> _] ->]. reflexivity.
Qed.
Lemma batch_is_self b : batch_is (b_chain b) (b_ext b) (b_nonce b) b = true.
Proof. unfold batch_is. rewrite !beqb_refl, N.eqb_refl. reflexivity. Qed.

Lemma remove_batches_inv s p :
  Inv s -> Inv (set_batches s (filter p (st_batches s))).
Proof.
  intros [H1 H2 H3 H4 H5 H6 H7 H8 H9 H10].
  assert (Hsub : forall y, In y (batch_txs (filter p (st_batches s))) -> In y (batch_txs (st_batches s))).
  { intros y Hy. apply in_batch_txs in Hy as [b [Hb Hy]]. apply in_batch_txs. exists b. split; auto.
    apply filter_In in Hb. tauto. }
  constructor; simpl; auto.
  - apply batch_txs_filter_nodup. exact H2.
  - intros e He. apply H4. apply in_app_or in He as [He|He]; apply in_or_app; auto.
  - intros b e Hb. apply H5. apply filter_In in Hb. tauto.
  - intros b Hb. apply H6. apply filter_In in Hb. tauto.
  - intros b Hb. apply H7. apply filter_In in Hb. tauto.
  - apply NoDup_filter_map. exact H8.
  - intros e He. apply H9. apply in_app_or in He as [He|He]; apply in_or_app; auto.
Qed.

Lemma cancel_batch_batches s b x :
  NoDup (map bkey (st_batches s)) -> In b (st_batches s) ->
  (In x (st_batches (cancel_batch s b)) <-> In x (st_batches s) /\ x <> b).
Proof.
  intros Hnd Hb. unfold cancel_batch. simpl. rewrite filter_In, negb_true_iff. split.
  - intros [Hx Hf]. split; auto. intros ->. rewrite batch_is_self in Hf. discriminate.
  - intros [Hx Hne]. split; auto. destruct (batch_is _ _ _ x) eqn:E; auto.
    exfalso. apply Hne. apply batch_is_bkey in E. eapply NoDup_map_inv_in; eauto.
Qed.

Lemma cancel_batch_inv s b :
  Inv s -> In b (st_batches s) -> Inv (cancel_batch s b).
Proof.
  intros HI Hb. pose proof HI as [H1 H2 H3 H4 H5 H6 H7 H8 H9 H10].
  assert (Hbt : forall e, In e (b_txs b) -> In e (batch_txs (st_batches s))).
  { intros e He. apply in_batch_txs. exists b. auto. }
  assert (Hrest : forall y, In y (batch_txs (st_batches (cancel_batch s b))) ->
                            exists x, In x (st_batches s) /\ x <> b /\ In y (b_txs x)).
  { intros y Hy. apply in_batch_txs in Hy as [x [Hx Hy]]. apply cancel_batch_batches in Hx as [Hx Hne]; auto.
    exists x. auto. }
  pose proof (remove_batches_inv s (fun x => negb (batch_is (b_chain b) (b_ext b) (b_nonce b) x)) HI)
    as [R1 R2 R3 R4 R5 R6 R7 R8 R9 R10]. simpl in *.
  unfold cancel_batch. constructor; simpl; auto; rewrite ?fold_insert_eq.
  - rewrite map_app. apply NoDup_app_iff. repeat split; auto.
    + rewrite map_rev. apply NoDup_rev. apply (batch_txs_single_nodup (st_batches s)); assumption.
    + intros k Hk1 Hk2. apply in_map_ekey_inv in Hk1 as [x [Hx Ex]]. apply in_map_ekey_inv in Hk2 as [y [Hy Ey]].
      apply in_rev in Hx. apply (H3 y x); auto. congruence.
  - intros x y Hx Hy. apply in_app_or in Hx as [Hx|Hx].
    + apply in_rev in Hx. destruct (Hrest y Hy) as [b2 [Hb2 [Hne Hy2]]].
      apply (batch_txs_distinct (st_batches s) b b2 x y); auto.
    + apply H3; auto. apply in_batch_txs in Hy as [b2 [Hb2 Hy]]. apply in_batch_txs. exists b2. split; auto.
      apply filter_In in Hb2. tauto.
  - intros e He. apply H4. apply in_app_or in He as [He|He]; apply in_or_app.
    + apply in_app_or in He as [He|He]; [right; apply Hbt; apply in_rev; auto | left; auto].
    + right. apply in_batch_txs in He as [b2 [Hb2 He]]. apply in_batch_txs. exists b2. split; auto.
      apply filter_In in Hb2. tauto.
  - intros e He. apply H9. apply in_app_or in He as [He|He]; apply in_or_app.
    + apply in_app_or in He as [He|He]; [right; apply Hbt; apply in_rev; auto | left; auto].
    + right. apply in_batch_txs in He as [b2 [Hb2 He]]. apply in_batch_txs. exists b2. split; auto.
      apply filter_In in Hb2. tauto.
Qed.

(* cancelling, in one sweep, those batches of a list that satisfy a predicate *)
Lemma fold_cancel_inv (p : batch -> bool) l : forall s,
  Inv s -> NoDup (map bkey l) -> (forall x, In x l -> In x (st_batches s)) ->
  let s' := fold_left (fun st b => if p b then cancel_batch st b else st) l s in
  Inv s' /\
  (forall x, In x (st_batches s') <-> In x (st_batches s) /\ ~ (In x l /\ p x = true)).
Proof.
  induction l as [|a l IH]; simpl; intros s HI Hnd Hin.
  - split; auto. intro x. tauto.
  - inversion Hnd as [|? ? Hnotin Hnd']; subst.
    destruct (p a) eqn:Hp.
    + assert (Ha : In a (st_batches s)) by auto.
      assert (HI' : Inv (cancel_batch s a)) by (apply cancel_batch_inv; auto).
      assert (Hin' : forall x, In x l -> In x (st_batches (cancel_batch s a))).
      { intros x Hx. apply cancel_batch_batches; auto; [apply (inv_bkeys s HI)|].
        split; auto. intros ->. apply Hnotin. apply in_map. exact Hx. }
      destruct (IH _ HI' Hnd' Hin') as [G1 G2]. split; auto.
      intro x. rewrite G2. rewrite cancel_batch_batches by (auto; apply (inv_bkeys s HI)). split.
      * intros [[Hx Hne] Hn]. split; auto. intros [[<-|Hl] Hpx]; [congruence | tauto].
      * intros [Hx Hn]. repeat split; auto.
        -- intros ->. apply Hn. auto.
        -- intros [Hl Hpx]. apply Hn. auto.
    + destruct (IH s HI Hnd' ltac:(auto)) as [G1 G2]. split; auto.
      intro x. rewrite G2. split.
      * intros [Hx Hn]. split; auto. intros [[<-|Hl] Hpx]; [congruence | tauto].
      * intros [Hx Hn]. split; auto. intros [Hl Hpx]. apply Hn. auto.
Qed.

(* ---------- payouts on execution ---------- *)
Lemma minter_send_inv s to denom a tag s' :
  Inv s -> minter_send s to denom a tag = Ok s' -> Inv s'.
Proof.
  intros HI H. unfold minter_send in H.
  destruct (create_send s b_minter _ to denom a 0 0 tag [] []) as [[s2 i]|?|?] eqn:Hc; try discriminate.
  inversion H; subst. eapply create_send_inv; [exact HI| | |exact Hc].
  - left. reflexivity.
  - left. reflexivity.
Qed.

Lemma pay_commissions_inv s denom total s' :
  Inv s -> pay_commissions s denom total = Ok s' -> Inv s'.
Proof.
  intros HI H. unfold pay_commissions in H. destruct (total <=? 0); [inversion H; subst; exact HI|].
  revert H. apply (fold_res_inv Inv).
  - intros st [addr power] st' Hst Hf. destruct (_ =? 0); [discriminate|].
    destruct (negb _); [discriminate|]. destruct (_ <=? 0); [inversion Hf; subst; exact Hst|].
    eapply minter_send_inv; eauto.
  - intros s0 E. inversion E; subst. eapply Inv_core; [|exact HI]. reflexivity.
Qed.

Lemma fee_refunds_inv s b ti fl avg s' :
  Inv s -> fee_refunds s b ti fl avg = Ok s' -> Inv s'.
Proof.
  intros HI H. unfold fee_refunds in H. destruct (_ <=? 0); [inversion H; subst; exact HI|].
  revert H. apply (fold_res_inv Inv).
  - intros st e st' Hst Hf. destruct (_ <? avg); [inversion Hf; subst; exact Hst|].
    destruct (negb (beqb _ b_minter)); [inversion Hf; subst; exact Hst|].
    destruct (_ <=? 0); [inversion Hf; subst; exact Hst|].
    destruct (minter_send st _ _ _ _) as [st1|?|?] eqn:Hm; simpl in Hf; try discriminate.
    destruct (aget _ (st_feerec st1)) as [[vc ef]|]; [|discriminate].
    inversion Hf; subst. eapply Inv_core; [|eapply minter_send_inv; eauto]. reflexivity.
  - intros s0 E. inversion E; subst. exact HI.
Qed.

Lemma pay_fees_inv s b ti tf fp payer s' :
  Inv s -> pay_fees s b ti tf fp payer = Ok s' -> Inv s'.
Proof.
  intros HI H. unfold pay_fees in H. destruct (tf <=? 0); [inversion H; subst; exact HI|].
  destruct (if beqb (b_chain b) b_ethereum then Some b_eth else if beqb (b_chain b) b_bsc then Some b_bnb else None)
    as [base|]; [|inversion H; subst; exact HI].
  destruct (price s base) as [pb|]; [|discriminate].
  destruct (price s (ti_denom ti)) as [pt|]; [|discriminate].
  destruct (pt =? 0); [discriminate|]. destruct (_ <? 0); [discriminate|].
  match type of H with (if ?g then _ else _) = _ => destruct g; [inversion H; subst; exact HI|] end.
  match type of H with bind ?r _ = _ => destruct r as [s2|?|?] eqn:Hm; simpl in H; try discriminate end.
  assert (HI2 : Inv s2).
  { eapply minter_send_inv; [|exact Hm]. eapply Inv_core; [|exact HI]. reflexivity. }
  match type of H with (if ?g then _ else _) = _ => destruct g; [inversion H; subst; exact HI2|] end.
  eapply fee_refunds_inv; [|exact H]. eapply Inv_core; [|exact HI2]. reflexivity.
Qed.

Lemma fold_exec_status_core txs h s :
  core (fold_left (fun st e => let st' := set_tx_status st (s_txhash e) ST_BATCH_EXECUTED h in
                               set_feerec st' (aset (s_txhash e) (s_comm e, s_fee e) (st_feerec st'))) txs s) = core s.
Proof. revert s. induction txs as [|a txs IH]; simpl; intro s; auto. rewrite IH. reflexivity. Qed.

Lemma batch_executed_inv s chain ext nonce h fp payer s' :
  Inv s -> batch_executed s chain ext nonce h fp payer = Ok s' -> Inv s'.
Proof.
  intros HI H. unfold batch_executed in H.
  destruct (find (batch_is chain ext nonce) (st_batches s)) as [b|] eqn:Hf; [|inversion H; subst; exact HI].
  apply find_some in Hf as [Hb Hbis].
  match type of H with context [if beqb chain b_minter then s else ?f] => set (s1 := if beqb chain b_minter then s else f) in * end.
  assert (HI1 : Inv s1).
  { unfold s1. destruct (beqb chain b_minter); [exact HI|].
    apply (fold_cancel_inv (fun x => (beqb (b_chain x) chain && N.ltb (b_nonce x) (b_nonce b) && beqb (b_ext x) (b_ext b))%bool)
                           (st_batches s) s HI (inv_bkeys s HI)). auto. }
  destruct (ext_to_token (st_tokens s) chain (b_ext b)) as [ti|]; [|discriminate].
  destruct (negb _); [discriminate|].
  match type of H with bind ?r _ = _ => destruct r as [s4|?|?] eqn:Hp; simpl in H; try discriminate end.
  eapply pay_fees_inv; [|exact H]. eapply pay_commissions_inv; [|exact Hp].
  eapply Inv_core; [symmetry; apply fold_exec_status_core|].
  apply (remove_batches_inv s1 (fun x => negb (batch_is chain ext nonce x)) HI1).
Qed.

(* ---------- events ---------- *)
Lemma handle_deposit_inv s chain coin amount recv h s' :
  Inv s -> handle_deposit s chain coin amount recv h = Ok s' -> Inv s'.
Proof.
  intros HI H. unfold handle_deposit in H. destruct (ext_to_token _ _ _); [|discriminate].
  repeat match type of H with (if ?g then _ else _) = _ => destruct g; [discriminate|] end.
  inversion H; subst. eapply Inv_core; [|exact HI]. reflexivity.
Qed.

Lemma handle_deposit_params s chain coin amount recv h s' :
  handle_deposit s chain coin amount recv h = Ok s' -> st_params s' = st_params s.
Proof.
  intros H. unfold handle_deposit in H. destruct (ext_to_token _ _ _); [|discriminate].
  repeat match type of H with (if ?g then _ else _) = _ => destruct g; [discriminate|] end.
  inversion H; subst. reflexivity.
Qed.

Lemma chain_ok_in p c : chain_ok p c = true -> In c (p_chains p).
Proof. unfold chain_ok. intro H. apply existsb_exists in H as [x [Hx E]]. apply beqb_eq in E. subst. exact Hx. Qed.

Lemma handle_event_inv s chain e s' :
  Inv s -> In chain (p_chains (st_params s)) -> handle_event s chain e = Ok s' -> Inv s'.
Proof.
  intros HI Hch H. destruct e; simpl in H.
  - eapply handle_deposit_inv; eauto.
  - destruct (negb (chain_ok (st_params s) rchain)) eqn:Eok; [discriminate|].
    apply negb_false_iff in Eok. apply chain_ok_in in Eok.
    destruct (beqb rchain b_hub).
    + destruct (negb (fits256 amount)); [discriminate|]. eapply handle_deposit_inv; eauto.
    + destruct (handle_deposit s chain coin amount _ txhash) as [s1|?|?] eqn:Hd; simpl in H; try discriminate.
      destruct (ext_to_token _ _ _) as [sti|]; [|discriminate].
      destruct (denom_to_token _ _ _) as [rti|]; [|discriminate].
      repeat match type of H with (if ?g then _ else _) = _ => destruct g; [discriminate|] end.
      match type of H with bind ?r _ = _ => destruct r as [[s2 i]|?|?] eqn:Hc; simpl in H; try discriminate end.
      inversion H; subst.
      pose proof (handle_deposit_params _ _ _ _ _ _ _ Hd) as Ep.
      eapply create_send_inv; [eapply handle_deposit_inv; eauto| | |exact Hc].
      * unfold KC. rewrite Ep. right. exact Eok.
      * right. right. unfold KC. rewrite Ep. right. exact Hch.
  - eapply batch_executed_inv; eauto.
  - inversion H; subst. exact HI.
Qed.

Lemma apply_event_inv s chain e :
  Inv s -> In chain (p_chains (st_params s)) -> Inv (fst (apply_event s chain e)).
Proof.
  intros HI Hch. unfold apply_event.
  set (s0 := set_obs s _ _).
  assert (HI0 : Inv s0) by (eapply Inv_core; [|exact HI]; reflexivity).
  destruct (handle_event s0 chain e) as [s'|?|?] eqn:Hh; simpl; auto.
  eapply handle_event_inv; [exact HI0 | exact Hch | exact Hh].
Qed.

(* ---------- messages ---------- *)
Lemma msg_send_inv s sender chain rcpt denom a f h s' id :
  Inv s -> msg_send s sender chain rcpt denom a f h = Ok (s', id) -> Inv s'.
Proof.
  intros HI H. unfold msg_send in H.
  destruct (negb (chain_ok (st_params s) chain)) eqn:Eok; [discriminate|].
  apply negb_false_iff in Eok. apply chain_ok_in in Eok.
  destruct (denom_to_token _ _ _); [|discriminate].
  destruct (_ <? 0); [discriminate|].
  eapply create_send_inv; [exact HI| | |exact H].
  - right. exact Eok.
  - right. left. reflexivity.
Qed.

Lemma msg_request_batch_inv s chain denom s' :
  Inv s -> msg_request_batch s chain denom = Ok s' -> Inv s'.
Proof.
  intros HI H. unfold msg_request_batch in H.
  destruct (negb (chain_ok (st_params s) chain)) eqn:Eok; [discriminate|].
  apply negb_false_iff in Eok. apply chain_ok_in in Eok.
  destruct (denom_to_token _ _ _) as [ti|]; [|discriminate].
  destruct (build_batch s chain (ti_ext ti)) as [[s2 ob]|?|?] eqn:Hb; simpl in H; try discriminate.
  inversion H; subst. eapply build_batch_inv; [exact HI| |exact Hb]. right. exact Eok.
Qed.

(* ---------- blocks ---------- *)
Lemma params_of_core s s' : core s = core s' -> st_params s = st_params s'.
Proof. unfold core. intro E. inversion E. auto. Qed.

(* every model function keeps the parameters: stated where needed as part of a stronger invariant *)
Definition InvP (p : params) (s : state) : Prop := Inv s /\ st_params s = p.

Lemma create_send_params s chain sender rcpt denom a f c h rc ra s' id :
  create_send s chain sender rcpt denom a f c h rc ra = Ok (s', id) -> st_params s' = st_params s.
Proof.
  intro H. unfold create_send in H. destruct (denom_to_token _ _ _); [|discriminate].
  destruct (debit s sender denom _) as [s1|?|?] eqn:Hd; simpl in H; try discriminate.
  match type of H with (if ?g then _ else _) = _ => destruct g; [discriminate|] end.
  inversion H; subst. simpl. apply core_debit in Hd. apply params_of_core in Hd. exact Hd.
Qed.

Lemma build_batch_params s chain ext s' ob :
  build_batch s chain ext = Ok (s', ob) -> st_params s' = st_params s.
Proof.
  intro H. unfold build_batch in H.
  destruct (firstn _ _) as [|e0 sel]; [inversion H; subst; reflexivity|].
  match type of H with bind ?r _ = _ => destruct r as [t|?|?]; simpl in H; try discriminate end.
  inversion H; subst. simpl.
  match goal with |- st_params (fold_left ?f ?l ?b) = _ => pose proof (fold_status_core l b) as Hc end.
  apply params_of_core in Hc. rewrite Hc. reflexivity.
Qed.

Lemma create_batches_inv p s chain s' :
  InvP p s -> In chain (p_chains p) -> create_batches s chain = Ok s' -> InvP p s'.
Proof.
  intros HI Hch H. unfold create_batches in H.
  destruct (N.eqb _ 0); [|inversion H; subst; exact HI].
  revert H. apply (fold_res_inv (InvP p)).
  - intros st ext st' [Hst Hp] Hf.
    destruct (build_batch st chain ext) as [[st2 ob]|?|?] eqn:Hb; simpl in Hf; try discriminate.
    inversion Hf; subst st'. split.
    + eapply build_batch_inv; [exact Hst| |exact Hb]. unfold KC. rewrite Hp. right. exact Hch.
    + rewrite (build_batch_params _ _ _ _ _ Hb). exact Hp.
  - intros s0 E. inversion E; subst s0. exact HI.
Qed.

Lemma cleanup_timed_out_inv s chain : Inv s -> Inv (cleanup_timed_out s chain).
Proof.
  intro HI. unfold cleanup_timed_out.
  apply (fold_cancel_inv (fun b => (beqb (b_chain b) chain && N.ltb (b_timeout b) (agetd 0%N chain (st_obs_ext_h s)))%bool)
                         (st_batches s) s HI (inv_bkeys s HI)). auto.
Qed.

Lemma cancel_batch_params s b : st_params (cancel_batch s b) = st_params s.
Proof. reflexivity. Qed.

Lemma cleanup_timed_out_params s chain : st_params (cleanup_timed_out s chain) = st_params s.
Proof.
  unfold cleanup_timed_out. apply (fold_left_inv (fun st => st_params st = st_params s)); auto.
  intros st b E. destruct (_ && _)%bool; auto.
Qed.

Lemma create_signer_set_core s chain force : core (create_signer_set s chain force) = core s.
Proof. unfold create_signer_set. destruct (_ || _)%bool; reflexivity. Qed.

Lemma begin_block_inv p s force s' :
  InvP p s -> begin_block s force = Ok s' -> InvP p s'.
Proof.
  intros HI H. unfold begin_block in H. destruct HI as [HI0 Hp0].
  assert (G : forall l, (forall c, In c l -> In c (p_chains p)) -> forall r s',
              (forall s0, r = Ok s0 -> InvP p s0) ->
              fold_left (fun r chain => bind r (fun st =>
                 if beqb chain b_hub then Ok st
                 else create_batches (create_signer_set (if beqb chain b_minter then st else cleanup_timed_out st chain) chain force) chain))
                 l r = Ok s' -> InvP p s').
  { induction l as [|c l IH]; simpl; intros Hl r s2 Hr Hf; [apply Hr; exact Hf|].
    eapply IH; [auto| |exact Hf]. intros s0 E. destruct r as [st|?|?]; simpl in E; try discriminate.
    specialize (Hr st eq_refl). destruct (beqb c b_hub); [inversion E; subst s0; exact Hr|].
    eapply create_batches_inv; [| |exact E]; [|auto].
    destruct Hr as [Hst Hp]. split.
    - eapply Inv_core; [symmetry; apply create_signer_set_core|].
      destruct (beqb c b_minter); [exact Hst | apply cleanup_timed_out_inv; exact Hst].
    - rewrite <- (params_of_core _ _ (eq_sym (create_signer_set_core _ c force))).
      destruct (beqb c b_minter); [exact Hp | rewrite cleanup_timed_out_params; exact Hp]. }
  eapply G; [| |exact H]; [rewrite <- Hp0; auto|].
  intros s0 E. inversion E; subst s0. split; auto.
Qed.

Lemma cancel_send_params s chain id sender s' :
  cancel_send s chain id sender = Ok s' -> st_params s' = st_params s.
Proof.
  intro H. unfold cancel_send in H. destruct (find_in_pool _ _ _) as [e|]; [|discriminate].
  destruct (negb _); [discriminate|].
  repeat match type of H with (if ?g then _ else _) = _ => destruct g; [discriminate|] end.
  match type of H with bind ?r _ = _ => destruct r as [s1|?|?] eqn:Hr; simpl in H; try discriminate end.
  inversion H; subst. simpl.
  destruct (beqb (s_refund_chain e) []); [inversion Hr; subst; destruct (0 <? _); reflexivity|].
  destruct (beqb (s_refund_chain e) b_hub); [inversion Hr; subst; destruct (0 <? _); reflexivity|].
  destruct (0 <? _); [|inversion Hr; subst; reflexivity].
  match type of Hr with bind ?r _ = _ => destruct r as [[s2 i2]|?|?] eqn:Hc; simpl in Hr; try discriminate end.
  inversion Hr; subst. rewrite (create_send_params _ _ _ _ _ _ _ _ _ _ _ _ _ Hc). reflexivity.
Qed.

Lemma refund_expired_chain_inv p s chain s' :
  InvP p s -> refund_expired_chain s chain = Ok s' -> InvP p s'.
Proof.
  intros HI H. unfold refund_expired_chain in H. revert H. apply (fold_res_inv (InvP p)).
  - intros st e st' [Hst Hp] Hf.
    destruct (negb (fits256 _)); [inversion Hf; subst st'; split; auto|].
    destruct (cancel_send st chain (s_id e) (s_sender e)) as [st2|?|?] eqn:Hc.
    + inversion Hf; subst st'. split; [eapply cancel_send_inv; eauto | rewrite (cancel_send_params _ _ _ _ _ Hc); exact Hp].
    + inversion Hf; subst st'. split; auto.
    + inversion Hf; subst st'. split; auto.
  - intros s0 E. inversion E; subst s0. exact HI.
Qed.

(* ---------- parameters never change ---------- *)
Lemma minter_send_params s to denom a tag s' :
  minter_send s to denom a tag = Ok s' -> st_params s' = st_params s.
Proof.
  intro H. unfold minter_send in H.
  destruct (create_send s b_minter _ to denom a 0 0 tag [] []) as [[s2 i]|?|?] eqn:Hc; try discriminate.
  inversion H; subst. eapply create_send_params; eauto.
Qed.

Lemma pay_commissions_params s denom total s' :
  pay_commissions s denom total = Ok s' -> st_params s' = st_params s.
Proof.
  intro H. unfold pay_commissions in H. destruct (total <=? 0); [inversion H; reflexivity|].
  revert H. apply (fold_res_inv (fun st => st_params st = st_params s)).
  - intros st [addr power] st' Hst Hf. destruct (_ =? 0); [discriminate|].
    destruct (negb _); [discriminate|]. destruct (_ <=? 0); [inversion Hf; subst st'; exact Hst|].
    rewrite (minter_send_params _ _ _ _ _ _ Hf). exact Hst.
  - intros s0 E. inversion E. reflexivity.
Qed.

Lemma fee_refunds_params s b ti fl avg s' :
  fee_refunds s b ti fl avg = Ok s' -> st_params s' = st_params s.
Proof.
  intro H. unfold fee_refunds in H. destruct (_ <=? 0); [inversion H; reflexivity|].
  revert H. apply (fold_res_inv (fun st => st_params st = st_params s)).
  - intros st e st' Hst Hf. destruct (_ <? avg); [inversion Hf; subst st'; exact Hst|].
    destruct (negb (beqb _ b_minter)); [inversion Hf; subst st'; exact Hst|].
    destruct (_ <=? 0); [inversion Hf; subst st'; exact Hst|].
    destruct (minter_send st _ _ _ _) as [st1|?|?] eqn:Hm; simpl in Hf; try discriminate.
    destruct (aget _ (st_feerec st1)) as [[vc ef]|]; [|discriminate].
    inversion Hf; subst st'. simpl. rewrite (minter_send_params _ _ _ _ _ _ Hm). exact Hst.
  - intros s0 E. inversion E. reflexivity.
Qed.

Lemma pay_fees_params s b ti tf fp payer s' :
  pay_fees s b ti tf fp payer = Ok s' -> st_params s' = st_params s.
Proof.
  intro H. unfold pay_fees in H. destruct (tf <=? 0); [inversion H; reflexivity|].
  destruct (if beqb (b_chain b) b_ethereum then Some b_eth else if beqb (b_chain b) b_bsc then Some b_bnb else None)
    as [base|]; [|inversion H; reflexivity].
  destruct (price s base) as [pb|]; [|discriminate].
  destruct (price s (ti_denom ti)) as [pt|]; [|discriminate].
  destruct (pt =? 0); [discriminate|]. destruct (_ <? 0); [discriminate|].
  match type of H with (if ?g then _ else _) = _ => destruct g; [inversion H; reflexivity|] end.
  match type of H with bind ?r _ = _ => destruct r as [s2|?|?] eqn:Hm; simpl in H; try discriminate end.
  pose proof (minter_send_params _ _ _ _ _ _ Hm) as E2. simpl in E2.
  match type of H with (if ?g then _ else _) = _ => destruct g; [inversion H; subst s'; exact E2|] end.
  rewrite (fee_refunds_params _ _ _ _ _ _ H). simpl. exact E2.
Qed.

Lemma fold_cancel_params (p : batch -> bool) l s :
  st_params (fold_left (fun st b => if p b then cancel_batch st b else st) l s) = st_params s.
Proof.
  apply (fold_left_inv (fun st => st_params st = st_params s)); auto.
  intros st b E. destruct (p b); auto.
Qed.

Lemma batch_executed_params s chain ext nonce h fp payer s' :
  batch_executed s chain ext nonce h fp payer = Ok s' -> st_params s' = st_params s.
Proof.
  intro H. unfold batch_executed in H.
  destruct (find (batch_is chain ext nonce) (st_batches s)) as [b|]; [|inversion H; reflexivity].
  destruct (ext_to_token (st_tokens s) chain (b_ext b)) as [ti|]; [|discriminate].
  destruct (negb _); [discriminate|].
  match type of H with bind ?r _ = _ => destruct r as [s4|?|?] eqn:Hp; simpl in H; try discriminate end.
  rewrite (pay_fees_params _ _ _ _ _ _ _ H), (pay_commissions_params _ _ _ _ Hp).
  match goal with |- st_params (fold_left ?f ?l ?b0) = _ => pose proof (fold_exec_status_core l h b0) as Hc end.
  apply params_of_core in Hc. etransitivity; [exact Hc|]. simpl.
  destruct (beqb chain b_minter); [reflexivity | apply fold_cancel_params].
Qed.

Lemma handle_event_params s chain e s' :
  handle_event s chain e = Ok s' -> st_params s' = st_params s.
Proof.
  intro H. destruct e; simpl in H.
  - eapply handle_deposit_params; eauto.
  - destruct (negb (chain_ok (st_params s) rchain)); [discriminate|].
    destruct (beqb rchain b_hub).
    + destruct (negb (fits256 amount)); [discriminate|]. eapply handle_deposit_params; eauto.
    + destruct (handle_deposit s chain coin amount _ txhash) as [s1|?|?] eqn:Hd; simpl in H; try discriminate.
      destruct (ext_to_token _ _ _) as [sti|]; [|discriminate].
      destruct (denom_to_token _ _ _) as [rti|]; [|discriminate].
      repeat match type of H with (if ?g then _ else _) = _ => destruct g; [discriminate|] end.
      match type of H with bind ?r _ = _ => destruct r as [[s2 i]|?|?] eqn:Hc; simpl in H; try discriminate end.
      inversion H; subst s'. rewrite (create_send_params _ _ _ _ _ _ _ _ _ _ _ _ _ Hc).
      eapply handle_deposit_params; eauto.
  - eapply batch_executed_params; eauto.
  - inversion H; reflexivity.
Qed.

Lemma apply_event_params s chain e : st_params (fst (apply_event s chain e)) = st_params s.
Proof.
  unfold apply_event. destruct (handle_event _ chain e) as [s'|?|?] eqn:Hh; simpl; auto.
  rewrite (handle_event_params _ _ _ _ Hh). reflexivity.
Qed.

Lemma apply_pending_inv p s chain :
  InvP p s -> In chain (p_chains p) -> InvP p (apply_pending s chain).
Proof.
  intros HI Hch. unfold apply_pending. apply fold_left_inv; auto.
  intros st [c e] [Hst Hp]. simpl. destruct (beqb c chain); [|split; auto].
  split; [apply apply_event_inv; [exact Hst | rewrite Hp; exact Hch] | rewrite apply_event_params; exact Hp].
Qed.

Lemma end_block_inv p s s' : InvP p s -> end_block s = Ok s' -> InvP p s'.
Proof.
  intros HI H. unfold end_block in H.
  match type of H with bind ?r _ = _ => destruct r as [s1|?|?] eqn:Hr; simpl in H; try discriminate end.
  inversion H; subst s'.
  assert (HI1 : InvP p s1).
  { destruct HI as [HI0 Hp0].
    assert (G : forall l, (forall c, In c l -> In c (p_chains p)) -> forall r s2,
                (forall s0, r = Ok s0 -> InvP p s0) ->
                fold_left (fun r chain => bind r (fun st => refund_expired_chain (apply_pending st chain) chain)) l r = Ok s2 ->
                InvP p s2).
    { induction l as [|c l IH]; simpl; intros Hl r s2 Hr0 Hf; [apply Hr0; exact Hf|].
      eapply IH; [auto| |exact Hf]. intros s0 E. destruct r as [st|?|?]; simpl in E; try discriminate.
      eapply refund_expired_chain_inv; [|exact E]. apply apply_pending_inv; auto. }
    eapply G; [| |exact Hr]; [rewrite <- Hp0; auto|].
    intros s0 E. inversion E; subst s0. split; auto. }
  destruct HI1 as [A B]. split; [eapply Inv_core; [|exact A]; reflexivity | exact B].
Qed.

(* ---------- every operation preserves the invariant ---------- *)
Theorem step_inv p s o : InvP p s -> InvP p (fst (step s o)).
Proof.
  intros [HI Hp]. destruct o; simpl.
  - destruct (msg_send s sender chain recipient denom amount fee txhash) as [[s' id]|?|?] eqn:H; simpl; [|split; auto..].
    split; [eapply msg_send_inv; eauto|].
    unfold msg_send in H. destruct (negb _); [discriminate|]. destruct (denom_to_token _ _ _); [|discriminate].
    destruct (_ <? 0); [discriminate|]. rewrite (create_send_params _ _ _ _ _ _ _ _ _ _ _ _ _ H). exact Hp.
  - unfold msg_cancel. destruct (negb _); simpl; [split; auto|].
    destruct (cancel_send s chain id sender) as [s'|?|?] eqn:H; simpl; [|split; auto..].
    split; [eapply cancel_send_inv; eauto | rewrite (cancel_send_params _ _ _ _ _ H); exact Hp].
  - destruct (msg_request_batch s chain denom) as [s'|?|?] eqn:H; simpl; [|split; auto..].
    split; [eapply msg_request_batch_inv; eauto|].
    unfold msg_request_batch in H. destruct (negb _); [discriminate|]. destruct (denom_to_token _ _ _); [|discriminate].
    destruct (build_batch _ _ _) as [[s2 ob]|?|?] eqn:Hb; simpl in H; try discriminate.
    inversion H; subst s'. rewrite (build_batch_params _ _ _ _ _ Hb). exact Hp.
  - split; [eapply Inv_core; [|exact HI]; reflexivity | exact Hp].
  - set (s0 := set_env s _ _ _ height time).
    assert (HI0 : InvP p s0) by (split; [eapply Inv_core; [|exact HI]; reflexivity | exact Hp]).
    destruct (begin_block s0 force) as [s'|?|?] eqn:H; simpl; auto.
    eapply begin_block_inv; eauto.
  - destruct (end_block s) as [s'|?|?] eqn:H; simpl; [|split; auto..].
    eapply end_block_inv; [|exact H]. split; auto.
  - split; [eapply Inv_core; [|exact HI]; reflexivity | exact Hp].
Qed.

Theorem run_inv p s ops : InvP p s -> InvP p (run s ops).
Proof.
  revert s. induction ops as [|o ops IH]; simpl; intros s H; [exact H|].
  apply IH. apply step_inv. exact H.
Qed.

Lemma init_inv p tokens : prefix_free (b_minter :: p_chains p) -> InvP p (init_state p tokens).
Proof.
  intro Hpf. split; [|reflexivity]. constructor; simpl; try constructor; try (intros; contradiction); auto.
Qed.
