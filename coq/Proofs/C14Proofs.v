From V Require Import Base.Prelude Base.Val Ext.Abi Ext.ClaimHash Proofs.ListX.
Local Open Scope Z_scope.
Local Arguments Z.mul : simpl never.
Local Arguments Z.add : simpl never.
Local Arguments Z.div : simpl never.
Local Arguments Z.modulo : simpl never.
Local Arguments Z.pow : simpl never.
Local Arguments Z.of_nat : simpl never.

(* ---------- fixed-width big-endian numbers are injective below 256^w ---------- *)
Definition be_val (acc : Z) (l : bytes) : Z := fold_left (fun a b => a * 256 + Z.of_N b) l acc.

Lemma be_bytes_length w x : length (be_bytes w x) = w.
Proof. induction w as [|w IH]; simpl; [reflexivity | rewrite IH; reflexivity]. Qed.

Lemma be_val_bytes w : forall acc x, 0 <= x -> be_val acc (be_bytes w x) = acc * 256 ^ Z.of_nat w + x mod 256 ^ Z.of_nat w.
Proof.
  induction w as [|w IH]; intros acc x Hx.
  - simpl. change (Z.of_nat 0) with 0. rewrite Z.pow_0_r, Z.mod_1_r. lia.
  - change (be_bytes (S w) x) with (Z.to_N ((x / 256 ^ Z.of_nat w) mod 256) :: be_bytes w x).
    unfold be_val. simpl fold_left. fold (be_val (acc * 256 + Z.of_N (Z.to_N ((x / 256 ^ Z.of_nat w) mod 256))) (be_bytes w x)).
    rewrite IH by exact Hx.
    assert (Hp : 0 < 256 ^ Z.of_nat w) by (apply Z.pow_pos_nonneg; lia).
    rewrite Z2N.id by (apply Z.mod_pos_bound; lia).
    rewrite Nat2Z.inj_succ, Z.pow_succ_r by lia.
    rewrite (Z.mul_comm 256 (256 ^ Z.of_nat w)).
    rewrite (Z.rem_mul_r x (256 ^ Z.of_nat w) 256) by lia. ring.
Qed.

Lemma be_bytes_inj w x y :
  0 <= x < 256 ^ Z.of_nat w -> 0 <= y < 256 ^ Z.of_nat w -> be_bytes w x = be_bytes w y -> x = y.
Proof.
  intros Hx Hy E. apply (f_equal (be_val 0)) in E. rewrite !be_val_bytes in E by lia.
  rewrite !Z.mod_small in E by lia. lia.
Qed.

(* ---------- minimal big-endian magnitudes ---------- *)
Lemma byte_len_bound z : 0 <= z -> z < 256 ^ Z.of_nat (byte_len z).
Proof.
  intro Hz. unfold byte_len. destruct (Z.leb_spec z 0) as [H|H].
  - assert (z = 0) by lia. subst. change (Z.of_nat 0) with 0. rewrite Z.pow_0_r. lia.
  - assert (Hl : 0 <= Z.log2 z) by apply Z.log2_nonneg.
    rewrite Z2Nat.id by (pose proof (Z.div_pos (Z.log2 z) 8 Hl ltac:(lia)); lia).
    destruct (Z.log2_spec z H) as [_ Hu].
    replace 256 with (2 ^ 8) by reflexivity. rewrite <- Z.pow_mul_r by (try lia; pose proof (Z.div_pos (Z.log2 z) 8 Hl ltac:(lia)); lia).
    eapply Z.lt_le_trans; [exact Hu|]. apply Z.pow_le_mono_r; [lia|].
    pose proof (Z.mul_succ_div_gt (Z.log2 z) 8 ltac:(lia)). lia.
Qed.

Lemma mag_bytes_inj x y : 0 <= x -> 0 <= y -> mag_bytes x = mag_bytes y -> x = y.
Proof.
  intros Hx Hy E. unfold mag_bytes in E.
  assert (Hl : byte_len x = byte_len y).
  { apply (f_equal (@length N)) in E. rewrite !be_bytes_length in E. exact E. }
  rewrite Hl in E. apply (be_bytes_inj (byte_len y)); auto.
  - split; [lia|]. rewrite <- Hl. apply byte_len_bound; lia.
  - split; [lia|]. apply byte_len_bound; lia.
Qed.

Lemma int_bytes_inj x y : int_bytes x = int_bytes y -> x = y.
Proof.
  unfold int_bytes. intro E. inversion E as [[Es Em]].
  apply mag_bytes_inj in Em; try apply Z.abs_nonneg.
  destruct (Z.ltb_spec x 0), (Z.ltb_spec y 0); try discriminate; lia.
Qed.

Lemma u64_inj x y : 0 <= x < 2 ^ 64 -> 0 <= y < 2 ^ 64 -> u64 x = u64 y -> x = y.
Proof.
  intros Hx Hy. unfold u64. apply be_bytes_inj; change (Z.of_nat 8) with 8;
    replace (256 ^ 8) with (2 ^ 64) by reflexivity; assumption.
Qed.

(* ---------- length-prefixed framing is injective ---------- *)
Lemma app_inv_len {A} (a b c d : list A) : length a = length c -> a ++ b = c ++ d -> a = c /\ b = d.
Proof.
  revert c. induction a as [|x a IH]; intros [|y c] Hl E; simpl in *; try discriminate; auto.
  inversion E; subst. destruct (IH c ltac:(lia) H1) as [-> ->]. auto.
Qed.

Definition short (f : bytes) : Prop := Z.of_nat (length f) < 2 ^ 64.

Lemma frame_cons f l : frame (f :: l) = u64 (Z.of_nat (length f)) ++ f ++ frame l.
Proof. unfold frame. cbn [flat_map]. rewrite <- app_assoc. reflexivity. Qed.
Lemma u64_length z : length (u64 z) = 8%nat.
Proof. unfold u64. apply be_bytes_length. Qed.
Lemma u64_app_not_nil z rest : u64 z ++ rest <> [].
Proof. intro E. apply (f_equal (@length N)) in E. rewrite app_length, u64_length in E. discriminate. Qed.

Lemma frame_inj l1 : forall l2,
  Forall short l1 -> Forall short l2 -> frame l1 = frame l2 -> l1 = l2.
Proof.
  induction l1 as [|f1 l1 IH]; intros [|f2 l2] H1 H2 E; try reflexivity.
  - rewrite frame_cons in E. symmetry in E. apply u64_app_not_nil in E. contradiction.
  - rewrite frame_cons in E. apply u64_app_not_nil in E. contradiction.
  - rewrite !frame_cons in E.
    apply app_inv_len in E as [E1 E2]; [|rewrite !u64_length; reflexivity].
    inversion H1; subst. inversion H2; subst. unfold short in *.
    apply u64_inj in E1; [|lia|lia]. apply Nat2Z.inj in E1.
    apply app_inv_len in E2 as [-> E3]; [|exact E1]. f_equal. apply IH; auto.
Qed.

(* ---------- events ---------- *)
Definition wf_u64 (z : Z) : Prop := 0 <= z < 2 ^ 64.

Definition members_wf (l : list member) : Prop := Forall (fun m => short (m_addr m) /\ wf_u64 (m_power m)) l.

Definition xwf (e : xevent) : Prop :=
  Forall short (snd (xfields e)) /\
  match e with
  | XDeposit n _ _ _ _ h _ => wf_u64 n /\ wf_u64 h
  | XTransfer n _ _ _ _ _ _ h _ => wf_u64 n /\ wf_u64 h
  | XBatch _ n b h _ _ _ => wf_u64 n /\ wf_u64 b /\ wf_u64 h
  | XCall n _ i _ h _ => wf_u64 n /\ wf_u64 i /\ wf_u64 h
  | XSigners n sn h ms _ => wf_u64 n /\ wf_u64 sn /\ wf_u64 h /\ members_wf ms
  end.

Lemma members_bytes_cons m l :
  members_bytes (m :: l) = u64 (Z.of_nat (length (m_addr m))) ++ m_addr m ++ u64 (m_power m) ++ members_bytes l.
Proof. unfold members_bytes. cbn [flat_map]. rewrite <- !app_assoc. reflexivity. Qed.

Lemma members_bytes_inj l1 : forall l2, members_wf l1 -> members_wf l2 -> members_bytes l1 = members_bytes l2 -> l1 = l2.
Proof.
  induction l1 as [|m1 l1 IH]; intros [|m2 l2] H1 H2 E; try reflexivity.
  - rewrite members_bytes_cons in E. symmetry in E. apply u64_app_not_nil in E. contradiction.
  - rewrite members_bytes_cons in E. apply u64_app_not_nil in E. contradiction.
  - rewrite !members_bytes_cons in E.
    inversion H1 as [|? ? [S1 P1] H1']; subst. inversion H2 as [|? ? [S2 P2] H2']; subst.
    apply app_inv_len in E as [E1 E2]; [|rewrite !u64_length; reflexivity].
    unfold short in *. apply u64_inj in E1; [|lia|lia]. apply Nat2Z.inj in E1.
    apply app_inv_len in E2 as [Ea E3]; [|exact E1].
    apply app_inv_len in E3 as [Ep E4]; [|rewrite !u64_length; reflexivity].
    apply u64_inj in Ep; [|exact P1|exact P2].
    f_equal; [destruct m1, m2; simpl in *; congruence | apply IH; auto].
Qed.

Lemma opt_int_bytes_inj a b : opt_int_bytes a = opt_int_bytes b -> a = b.
Proof.
  destruct a as [x|], b as [y|]; simpl; intro E; try reflexivity; try discriminate.
  apply int_bytes_inj in E. congruence.
Qed.

(* the hashed byte string determines the event: type and every field *)
Opaque u64 int_bytes opt_int_bytes members_bytes.
Lemma xenc_inj e1 e2 : xwf e1 -> xwf e2 -> xenc e1 = xenc e2 -> e1 = e2.
Proof.
  intros [S1 W1] [S2 W2] E. unfold xenc, claim_enc in E. injection E as Et Ef.
  apply frame_inj in Ef; auto. clear S1 S2.
  destruct e1 as [n1 c1 a1 s1 r1 h1 t1 | n1 c1 a1 f1 s1 rc1 r1 h1 t1 | c1 n1 b1 h1 t1 fp1 p1 | n1 sc1 i1 rd1 h1 t1 | n1 sn1 h1 ms1 t1];
  destruct e2 as [n2 c2 a2 s2 r2 h2 t2 | n2 c2 a2 f2 s2 rc2 r2 h2 t2 | c2 n2 b2 h2 t2 fp2 p2 | n2 sc2 i2 rd2 h2 t2 | n2 sn2 h2 ms2 t2].
  all: cbn [xfields fst] in Et; try discriminate Et; clear Et.
  all: cbn [xfields snd] in Ef; cbn [xwf] in W1, W2; unfold wf_u64 in W1, W2.
  all: pose proof (fun k => f_equal (fun l => nth k l []) Ef) as Hk; cbv beta in Hk;
       pose proof (Hk 0%nat) as E0; pose proof (Hk 1%nat) as E1; pose proof (Hk 2%nat) as E2; pose proof (Hk 3%nat) as E3;
       pose proof (Hk 4%nat) as E4; pose proof (Hk 5%nat) as E5; pose proof (Hk 6%nat) as E6; pose proof (Hk 7%nat) as E7;
       pose proof (Hk 8%nat) as E8; cbn [nth] in E0, E1, E2, E3, E4, E5, E6, E7, E8; clear Hk Ef.
  - destruct W1 as [A1 B1]. destruct W2 as [A2 B2].
    apply u64_inj in E0; auto. apply u64_inj in E5; auto. apply int_bytes_inj in E2. congruence.
  - destruct W1 as [A1 B1]. destruct W2 as [A2 B2].
    apply u64_inj in E0; auto. apply u64_inj in E7; auto. apply int_bytes_inj in E2. apply int_bytes_inj in E3. congruence.
  - destruct W1 as [A1 [B1 C1]]. destruct W2 as [A2 [B2 C2]].
    apply u64_inj in E1; auto. apply u64_inj in E2; auto. apply u64_inj in E3; auto. apply opt_int_bytes_inj in E5. congruence.
  - destruct W1 as [A1 [B1 C1]]. destruct W2 as [A2 [B2 C2]].
    apply u64_inj in E0; auto. apply u64_inj in E2; auto. apply u64_inj in E4; auto. congruence.
  - destruct W1 as [A1 [B1 [C1 D1]]]. destruct W2 as [A2 [B2 [C2 D2]]].
    apply u64_inj in E0; auto. apply u64_inj in E1; auto. apply u64_inj in E2; auto. apply members_bytes_inj in E3; auto. congruence.
Qed.
Transparent u64 int_bytes opt_int_bytes members_bytes.
