(* Registry invariants (C17) and confirmation characterisations (C16). *)
From V Require Import Base.Prelude Base.Val Num.Arith Hub.Registry Proofs.ListX.
Local Open Scope Z_scope.

Definition realbytes (b : bytes) : Prop := Forall (fun x => (x < 256)%N) b.

Lemma chain_of_key_ck c x : realbytes c -> chain_of_key (ck c x) = c.
Proof.
  unfold ck. induction 1 as [|y c Hy _ IH]; simpl.
  - reflexivity.
  - assert (N.eqb y 256 = false) as -> by (apply N.eqb_neq; lia). f_equal. exact IH.
Qed.

Lemma ck_inj c1 x1 c2 x2 : realbytes c1 -> realbytes c2 -> ck c1 x1 = ck c2 x2 -> c1 = c2 /\ x1 = x2.
Proof.
  unfold ck. intros H1. revert c2. induction H1 as [|y c1 Hy _ IH]; intros c2 H2 E.
  - destruct H2 as [|z c2 Hz _]; simpl in E; inversion E; subst; [auto | lia].
  - destruct H2 as [|z c2 Hz H2]; simpl in E; inversion E; subst; [lia|].
    destruct (IH c2 H2 H1) as [-> ->]. auto.
Qed.

(* association lists with unique keys *)
Lemma aget_in {V} k (v : V) m : aget k m = Some v -> In (k, v) m.
Proof.
  induction m as [|[k' v'] m IH]; simpl; [discriminate|].
  destruct (beqb k k') eqn:E; [apply beqb_eq in E; intro H; inversion H; subst; auto | auto].
Qed.

Lemma aget_aset_cases {V} k k' (v : V) m :
  aget k' (aset k v m) = if beqb k k' then Some v else aget k' m.
Proof.
  destruct (beqb k k') eqn:E.
  - apply beqb_eq in E. subst. apply aget_aset_same.
  - apply beqb_neq in E. apply aget_aset_other. exact E.
Qed.

(* all entries of an association list whose first-match lookup is the entry itself: unique keys *)
Definition ukeys {V} (m : list (bytes * V)) : Prop := NoDup (map fst m).

Lemma aset_ukeys {V} k (v : V) m : ukeys m -> ukeys (aset k v m) /\ (forall x, In x (map fst (aset k v m)) <-> x = k \/ In x (map fst m)).
Proof.
  unfold ukeys. induction m as [|[k' v'] m IH]; simpl; intro H.
  - split; [constructor; [intros []|constructor] | intro x; intuition].
  - inversion H as [|? ? Hn Hd]; subst. destruct (beqb k k') eqn:E; simpl.
    + apply beqb_eq in E. subst. split; [constructor; auto | intro x; intuition].
    + apply beqb_neq in E. destruct (IH Hd) as [A B]. split.
      * constructor; auto. rewrite B. intros [K|K]; [congruence | contradiction].
      * intro x. rewrite B. intuition.
Qed.

Lemma in_aget {V} k (v : V) m : ukeys m -> In (k, v) m -> aget k m = Some v.
Proof.
  unfold ukeys. induction m as [|[k' v'] m IH]; simpl; intros H Hin; [contradiction|].
  inversion H as [|? ? Hn Hd]; subst. destruct Hin as [Hin|Hin].
  - inversion Hin; subst. rewrite beqb_refl. reflexivity.
  - destruct (beqb k k') eqn:E; [|auto]. apply beqb_eq in E. subst. exfalso. apply Hn.
    apply (in_map fst) in Hin. exact Hin.
Qed.

(* ---------- the invariant ---------- *)
Record RInv (s : rstate) : Prop := mkRInv {
  ri_ukeys : ukeys (rs_val_ext s);
  ri_wfkeys : forall k e, In (k, e) (rs_val_ext s) -> exists c v, realbytes c /\ k = ck c v;
  (* one-to-one: an external address is bound to at most one validator of a chain *)
  ri_inj : forall c v1 v2 e, realbytes c ->
             aget (ck c v1) (rs_val_ext s) = Some e -> aget (ck c v2) (rs_val_ext s) = Some e -> v1 = v2;
  (* every binding was created by a successful registration of that validator *)
  ri_val_logged : forall c v e, realbytes c -> aget (ck c v) (rs_val_ext s) = Some e -> exists o, In (c, v, o, e) (rs_log s);
  ri_orch_logged : forall c o v, realbytes c -> aget (ck c o) (rs_orch_val s) = Some v -> exists e, In (c, v, o, e) (rs_log s)
}.

Lemma rinit_inv chains : RInv (rinit chains).
Proof. constructor; simpl; try (intros; discriminate); try (intros; contradiction). constructor. Qed.

Lemma ext_in_use_false s c eth :
  realbytes c -> RInv s -> ext_in_use s c eth = false -> forall v, aget (ck c v) (rs_val_ext s) <> Some eth.
Proof.
  intros Hc HI H v Hv. unfold ext_in_use in H. apply aget_in in Hv.
  assert (existsb (fun kv : bytes * bytes => beqb (chain_of_key (fst kv)) c && beqb (snd kv) eth) (rs_val_ext s) = true).
  { apply existsb_exists. exists (ck c v, eth). split; auto. simpl. rewrite chain_of_key_ck by exact Hc. rewrite !beqb_refl. reflexivity. }
  congruence.
Qed.

Lemma set_keys_inv s c val orch eth rec s' :
  realbytes c -> RInv s -> set_keys s c val orch eth rec = Ok s' -> RInv s'.
Proof.
  intros Hc HI H. unfold set_keys in H.
  destruct (find_rval s val) as [v|]; [|discriminate].
  destruct (ext_in_use s c eth) eqn:Eu; [discriminate|]. destruct (orch_in_use s c orch); [discriminate|].
  destruct rec as [a|]; [|discriminate]. destruct (beqb a eth); [|discriminate].
  inversion H; subst s'; clear H.
  pose proof (ext_in_use_false s c eth Hc HI Eu) as Hfree.
  destruct HI as [H1 H2 H3 H4 H5].
  destruct (aset_ukeys (ck c val) eth (rs_val_ext s) H1) as [U1 U2].
  constructor; simpl.
  - exact U1.
  - intros k e Hin.
    destruct (beqb (ck c val) k) eqn:E.
    + apply beqb_eq in E. subst k. exists c, val. auto.
    + apply beqb_neq in E. assert (Hg : aget k (aset (ck c val) eth (rs_val_ext s)) = Some e) by (apply in_aget; auto).
      rewrite aget_aset_other in Hg by exact E. apply aget_in in Hg. eauto.
  - intros c0 v1 v2 e Hc0 G1 G2. rewrite aget_aset_cases in G1, G2.
    destruct (beqb (ck c val) (ck c0 v1)) eqn:E1; destruct (beqb (ck c val) (ck c0 v2)) eqn:E2.
    + apply beqb_eq in E1, E2. apply ck_inj in E1 as [_ <-]; auto. apply ck_inj in E2 as [_ <-]; auto.
    + apply beqb_eq in E1. apply ck_inj in E1 as [<- <-]; auto. inversion G1; subst e. exfalso. apply (Hfree v2). exact G2.
    + apply beqb_eq in E2. apply ck_inj in E2 as [<- <-]; auto. inversion G2; subst e. exfalso. apply (Hfree v1). exact G1.
    + eapply H3; eauto.
  - intros c0 v0 e Hc0 G. rewrite aget_aset_cases in G.
    destruct (beqb (ck c val) (ck c0 v0)) eqn:E1.
    + apply beqb_eq in E1. apply ck_inj in E1 as [<- <-]; auto. inversion G; subst e. exists orch. apply in_or_app. right. left. reflexivity.
    + destruct (H4 c0 v0 e Hc0 G) as [o Ho]. exists o. apply in_or_app. auto.
  - intros c0 o v0 Hc0 G. rewrite aget_aset_cases in G.
    destruct (beqb (ck c orch) (ck c0 o)) eqn:E1.
    + apply beqb_eq in E1. apply ck_inj in E1 as [<- <-]; auto. inversion G; subst v0. exists eth. apply in_or_app. right. left. reflexivity.
    + destruct (H5 c0 o v0 Hc0 G) as [e He]. exists e. apply in_or_app. auto.
Qed.

Lemma confirm_frame s c sg i cl sig s' :
  confirm s c sg i cl sig = Ok s' ->
  rs_val_ext s' = rs_val_ext s /\ rs_orch_val s' = rs_orch_val s /\ rs_ext_orch s' = rs_ext_orch s /\ rs_log s' = rs_log s /\
  rs_vals s' = rs_vals s /\ rs_otxs s' = rs_otxs s /\ rs_chains s' = rs_chains s.
Proof.
  unfold confirm. destruct (negb _); [discriminate|]. destruct (signer_val s c sg) as [val|?|?]; simpl; try discriminate.
  destruct (negb _); [discriminate|]. destruct (beqb _ zero20); [discriminate|]. destruct (negb _); [discriminate|].
  destruct (aget _ _); [discriminate|]. intro H. inversion H. simpl. repeat split; reflexivity.
Qed.

Definition wf_rop (o : rop) : Prop :=
  match o with
  | RSetKeys c _ _ _ _ => realbytes c
  | _ => True
  end.

Lemma rstep_inv s o : RInv s -> wf_rop o -> RInv (fst (rstep s o)).
Proof.
  intros HI Hw. destruct o; simpl.
  - destruct (set_keys s chain val orch eth recovered) as [s'|?|?] eqn:H; simpl; auto. eapply set_keys_inv; eauto.
  - destruct (confirm s chain signer index claimed signature) as [s'|?|?] eqn:H; simpl; auto.
    apply confirm_frame in H as [E1 [E2 [E3 [E4 _]]]]. destruct HI as [H1 H2 H3 H4 H5].
    constructor; rewrite ?E1, ?E2, ?E3, ?E4; auto.
  - destruct HI as [H1 H2 H3 H4 H5]. constructor; simpl; auto.
  - destruct HI as [H1 H2 H3 H4 H5]. constructor; simpl; auto.
Qed.

Lemma rrun_inv s ops : RInv s -> Forall wf_rop ops -> RInv (rrun s ops).
Proof.
  revert s. induction ops as [|o ops IH]; simpl; intros s H Hw; [exact H|].
  inversion Hw; subst. apply IH; auto. apply rstep_inv; auto.
Qed.

(* ---------- C17: what a successful registration requires ---------- *)
Lemma set_keys_requires s c val orch eth rec s' :
  set_keys s c val orch eth rec = Ok s' ->
  rec = Some eth /\ (exists v, find_rval s val = Some v) /\ ext_in_use s c eth = false /\ orch_in_use s c orch = false /\
  aget (ck c val) (rs_val_ext s') = Some eth /\ aget (ck c orch) (rs_orch_val s') = Some val /\
  aget (ck c eth) (rs_ext_orch s') = Some orch.
Proof.
  unfold set_keys. destruct (find_rval s val) as [v|]; [|discriminate].
  destruct (ext_in_use s c eth); [discriminate|]. destruct (orch_in_use s c orch); [discriminate|].
  destruct rec as [a|]; [|discriminate]. destruct (beqb a eth) eqn:E; [|discriminate].
  apply beqb_eq in E. subst a. intro H. inversion H; subst s'. simpl.
  rewrite !aget_aset_same. repeat split; eauto.
Qed.

(* ---------- C16 ---------- *)
Lemma confirm_iff s c signer index claimed sig s' :
  confirm s c signer index claimed sig = Ok s' <->
  (In c (rs_chains s) /\
   exists val, signer_val s c signer = Ok val /\
     In (c, index) (rs_otxs s) /\
     ext_of s c val <> zero20 /\ ext_of s c val = claimed /\
     aget (sig_key c index val) (rs_sigs s) = None /\
     s' = mkRs (rs_chains s) (rs_val_ext s) (rs_orch_val s) (rs_ext_orch s)
               (aset (sig_key c index val) (c, index, val, sig) (rs_sigs s)) (rs_otxs s) (rs_vals s) (rs_log s)).
Proof.
  unfold confirm. split.
  - destruct (existsb (beqb c) (rs_chains s)) eqn:Ec; simpl; [|discriminate].
    destruct (signer_val s c signer) as [val|?|?] eqn:Es; simpl; try discriminate.
    destruct (existsb _ (rs_otxs s)) eqn:Eo; simpl; [|discriminate].
    destruct (beqb (ext_of s c val) zero20) eqn:Ez; [discriminate|].
    destruct (beqb (ext_of s c val) claimed) eqn:Ecl; simpl; [|discriminate].
    destruct (aget (sig_key c index val) (rs_sigs s)) eqn:Eg; [discriminate|].
    intro H. inversion H; subst s'. split.
    + apply existsb_exists in Ec as [x [Hx E]]. apply beqb_eq in E. subst. exact Hx.
    + exists val. repeat split; auto.
      * apply existsb_exists in Eo as [[c0 i0] [Hx E]]. simpl in E. apply andb_true_iff in E as [A B].
        apply beqb_eq in A, B. subst. exact Hx.
      * apply beqb_neq. exact Ez.
      * apply beqb_eq. exact Ecl.
  - intros [Hc [val [Es [Ho [Hz [Hcl [Hg ->]]]]]]].
    assert (existsb (beqb c) (rs_chains s) = true) as -> by (apply existsb_exists; exists c; split; auto; apply beqb_refl).
    simpl. rewrite Es. simpl.
    assert (existsb (fun o : bytes * bytes => beqb (fst o) c && beqb (snd o) index) (rs_otxs s) = true) as ->.
    { apply existsb_exists. exists (c, index). split; auto. simpl. rewrite !beqb_refl. reflexivity. }
    simpl. assert (beqb (ext_of s c val) zero20 = false) as -> by (apply beqb_neq; exact Hz).
    assert (beqb (ext_of s c val) claimed = true) as -> by (apply beqb_eq; exact Hcl).
    simpl. rewrite Hg. reflexivity.
Qed.

(* at most once per validator and transaction: a second confirmation of the same validator for the
   same store index is refused *)
Lemma confirm_once s c signer index claimed sig s' signer2 claimed2 sig2 val :
  confirm s c signer index claimed sig = Ok s' -> signer_val s c signer = Ok val -> signer_val s' c signer2 = Ok val ->
  confirm s' c signer2 index claimed2 sig2 <> Ok s' /\ forall s'', confirm s' c signer2 index claimed2 sig2 <> Ok s''.
Proof.
  intros H Hs Hs2. apply confirm_iff in H as [_ [val0 [Es0 [_ [_ [_ [_ ->]]]]]]].
  assert (val0 = val) by congruence. subst val0.
  assert (K : forall s'', confirm (mkRs (rs_chains s) (rs_val_ext s) (rs_orch_val s) (rs_ext_orch s)
                (aset (sig_key c index val) (c, index, val, sig) (rs_sigs s)) (rs_otxs s) (rs_vals s) (rs_log s))
                c signer2 index claimed2 sig2 <> Ok s'').
  { intros s'' H2. apply confirm_iff in H2 as [_ [val2 [Es2 [_ [_ [_ [Hg _]]]]]]].
    assert (val2 = val) by congruence. subst val2. simpl in Hg. rewrite aget_aset_same in Hg. discriminate. }
  split; [apply K | exact K].
Qed.

Lemma confirmations_spec s c index a sg :
  In (a, sg) (confirmations s c index) <->
  exists k v, In (k, (c, index, v, sg)) (rs_sigs s) /\ a = ext_of s c v.
Proof.
  unfold confirmations. rewrite in_flat_map. split.
  - intros [[k [[[c0 i0] v0] sg0]] [Hin H]]. simpl in H.
    destruct (beqb c0 c && beqb i0 index)%bool eqn:E; [|contradiction].
    apply andb_true_iff in E as [A B]. apply beqb_eq in A, B. subst.
    destruct H as [H|[]]. inversion H; subst. exists k, v0. auto.
  - intros [k [v [Hin ->]]]. exists (k, (c, index, v, sg)). split; auto. simpl. rewrite !beqb_refl. simpl. auto.
Qed.

(* attribution uses the validator's CURRENT key: after a re-registration a signature recorded for
   the old key is returned under the new one (known finding C16/attribution-after-reregistration) *)
Definition w_c : bytes := [101]%N.
Definition w_v : bytes := [118]%N.
Definition w_e1 : bytes := repeat 1%N 20.
Definition w_e2 : bytes := repeat 2%N 20.
Definition w_ops : list rop :=
  [ RSetVals [mkRval w_v [97]%N true 1]; RSetOtxs [(w_c, [1;7]%N)];
    RSetKeys w_c w_v [111]%N w_e1 (Some w_e1);
    RConfirm w_c [111]%N [1;7]%N w_e1 [115]%N;
    RSetKeys w_c w_v [112]%N w_e2 (Some w_e2) ].
Lemma c16_attribution_refuted :
  let s := rrun (rinit [w_c]) w_ops in
  confirmations s w_c [1;7]%N = [(w_e2, [115]%N)] /\ rs_log s = [(w_c, w_v, [111]%N, w_e1); (w_c, w_v, [112]%N, w_e2)].
Proof. vm_compute. split; reflexivity. Qed.
