From V Require Import Base.Prelude Base.Val Num.Arith Hub.Types Hub.Model Proofs.ListX Proofs.HubInv.
Local Open Scope Z_scope.

Lemma c10_stored_batches :
  forall p tokens ops,
    prefix_free (b_minter :: p_chains p) ->
    let s := run (init_state p tokens) ops in
    forall b, In b (st_batches s) ->
      (1 <= length (b_txs b) <= 100)%nat /\
      (forall e, In e (b_txs b) -> s_chain e = b_chain b /\ s_ext e = b_ext b) /\
      (1 <= b_nonce b <= agetd 0 (b_chain b) (st_last_batch_nonce s))%N /\
      (forall b', In b' (st_batches s) -> b_chain b' = b_chain b -> b_nonce b' = b_nonce b -> b' = b).
Proof.
  intros p tokens ops Hpf s b Hb.
  destruct (run_inv p (init_state p tokens) ops (init_inv p tokens Hpf)) as [HI _]. fold s in HI.
  destruct HI as [H1 H2 H3 H4 H5 H6 H7 H8 H9 H10]. repeat split; try (apply H6; exact Hb); try (apply H7; exact Hb).
  - apply (H5 b e Hb H).
  - apply (H5 b e Hb H).
  - intros b' Hb' Ec En. eapply NoDup_map_inv_in; [exact H8 | exact Hb' | exact Hb |].
    unfold bkey. congruence.
Qed.

(* creation rule, for every reachable state *)
Lemma c10_build_batch :
  forall p tokens ops chain ext s' ob,
    prefix_free (b_minter :: p_chains p) ->
    let s := run (init_state p tokens) ops in
    In chain (b_minter :: p_chains p) ->
    build_batch s chain ext = Ok (s', ob) ->
    match ob with
    | None => s' = s /\ pool_of_coin chain ext (st_pool s) = []
    | Some b =>
        b_chain b = chain /\ b_ext b = ext /\
        b_txs b = firstn 100 (pool_of_coin chain ext (st_pool s)) /\
        b_nonce b = (agetd 0 chain (st_last_batch_nonce s) + 1)%N /\
        agetd 0%N chain (st_last_batch_nonce s') = b_nonce b /\
        b_seq b = (agetd 0 chain (st_out_seq s) + 1)%N /\
        agetd 0%N chain (st_out_seq s') = b_seq b /\
        st_batches s' = st_batches s ++ [b]
    end.
Proof.
  intros p tokens ops chain ext s' ob Hpf s Hch H.
  destruct (run_inv p (init_state p tokens) ops (init_inv p tokens Hpf)) as [HI Hp]. fold s in HI, Hp.
  assert (Hk : In chain (KC s)) by (unfold KC; rewrite Hp; exact Hch).
  destruct (build_batch_inv s chain ext s' ob HI Hk H) as [_ G].
  destruct ob as [b|]; [exact G|]. split; [exact G|].
  unfold build_batch in H. destruct (firstn BATCH_SIZE (pool_of_coin chain ext (st_pool s))) as [|e0 l] eqn:E.
  - unfold BATCH_SIZE in E. destruct (pool_of_coin chain ext (st_pool s)); [reflexivity | discriminate].
  - match type of H with bind ?r _ = _ => destruct r; simpl in H; discriminate end.
Qed.

(* the unbatched transfers of a token are offered in descending store-key order *)
Fixpoint sorted_desc (l : list ste) : Prop :=
  match l with
  | [] => True
  | x :: l' => (forall y, In y l' -> bcmp (pool_key x) (pool_key y) <> Lt) /\ sorted_desc l'
  end.

Lemma insert_desc_in e l x : In x (insert_desc e l) <-> x = e \/ In x l.
Proof.
  induction l as [|y l IH]; simpl; [intuition|].
  destruct (bcmp (pool_key e) (pool_key y)); simpl; rewrite ?IH; intuition.
Qed.

Lemma insert_desc_sorted e l : sorted_desc l -> sorted_desc (insert_desc e l).
Proof.
  induction l as [|x l IH]; simpl; intro H; [split; [intros y []|exact I]|].
  destruct H as [Hx Hl]. destruct (bcmp (pool_key e) (pool_key x)) eqn:E; simpl.
  - split; [|split; auto]. intros y [<-|Hy]; [congruence|].
    eapply bcmp_trans_ge; [rewrite E; congruence | apply Hx; exact Hy].
  - split; [|apply IH; exact Hl]. intros y Hy. apply insert_desc_in in Hy as [->|Hy]; [|apply Hx; exact Hy].
    rewrite bcmp_antisym, E. simpl. congruence.
  - split; [|split; auto]. intros y [<-|Hy]; [congruence|].
    eapply bcmp_trans_ge; [rewrite E; congruence | apply Hx; exact Hy].
Qed.

Lemma sort_desc_sorted l : sorted_desc (sort_desc l).
Proof. induction l as [|x l IH]; simpl; [exact I | apply insert_desc_sorted; exact IH]. Qed.

Lemma filter_sorted p l : sorted_desc l -> sorted_desc (filter p l).
Proof.
  induction l as [|x l IH]; simpl; intro H; [exact I|]. destruct H as [Hx Hl].
  destruct (p x); simpl; [split; [|apply IH; exact Hl] | apply IH; exact Hl].
  intros y Hy. apply Hx. apply filter_In in Hy. tauto.
Qed.

Lemma firstn_sorted n l : sorted_desc l -> sorted_desc (firstn n l).
Proof.
  revert l. induction n as [|n IH]; intros [|x l]; simpl; intro H; try exact I.
  destruct H as [Hx Hl]. split; [|apply IH; exact Hl]. intros y Hy. apply Hx. eapply firstn_incl; eauto.
Qed.

Lemma skipn_incl_in {A} n (l : list A) x : In x (skipn n l) -> In x l.
Proof.
  revert l. induction n as [|n IH]; intros [|a l]; simpl; auto.
Qed.

(* the selected transfers come first in key order: nothing left behind precedes a selected one *)
Lemma c10_highest_key_first :
  forall chain ext pool,
    let cands := pool_of_coin chain ext pool in
    sorted_desc cands /\
    forall n x y, In x (firstn n cands) -> In y (skipn n cands) -> bcmp (pool_key x) (pool_key y) <> Lt.
Proof.
  intros chain ext pool cands.
  assert (Hs : sorted_desc cands) by (apply filter_sorted; apply sort_desc_sorted).
  split; [exact Hs|]. generalize dependent cands. intros cands Hs n. revert cands Hs.
  induction n as [|n IH]; intros [|a l] Hs x y Hx Hy; simpl in *; try contradiction.
  destruct Hs as [Ha Hl]. destruct Hx as [<-|Hx].
  - apply Ha. apply (skipn_incl_in n). exact Hy.
  - eapply IH; eauto.
Qed.
