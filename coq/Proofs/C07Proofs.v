From V Require Import Base.Prelude Base.Val Ext.Abi Ext.Keccak Gen.SrcFactsSol Gen.SrcFactsGo Ext.Checkpoint.
Local Open Scope Z_scope.

(* ---------- source facts: Go and Solidity agree on argument order, types and constants ---------- *)
Lemma c07_types_agree :
  map snd go_checkpoint_types = map snd sol_checkpoint_encode /\
  map snd go_batch_types = map snd sol_batch_encode /\
  map snd go_call_types = map snd sol_call_encode.
Proof. repeat split; reflexivity. Qed.

Lemma c07_method_constants :
  sol_checkpoint_encode_const0 = word_b32 go_checkpoint_name /\
  sol_batch_encode_const0 = word_b32 go_batch_name /\
  sol_call_encode_const0 = word_b32 go_call_name /\
  go_checkpoint_name = s_checkpoint /\ go_batch_name = s_transactionBatch /\ go_call_name = s_logicCall.
Proof. vm_compute. repeat split; reflexivity. Qed.

Lemma c07_go_args_as_modelled :
  go_checkpoint_args = exp_go_checkpoint_args /\ go_batch_args = exp_go_batch_args /\
  length go_call_args = 11%nat.
Proof. repeat split; reflexivity. Qed.

(* the hub's argument values have the types of the Go ABI description *)
Lemma c07_hub_types gid nonce addrs powers amounts dests fees token timeout :
  map ty_of (hub_valset_args gid nonce addrs powers) = map snd go_checkpoint_types /\
  map ty_of (hub_batch_args gid amounts dests fees nonce token timeout) = map snd go_batch_types.
Proof. split; reflexivity. Qed.

(* ---------- the contract hashes the same argument list ---------- *)
Lemma c07_args_equal_valset gid nonce addrs powers :
  sol_vals (relay_valset gid nonce addrs powers) sol_checkpoint_encode =
  [Some (AB32 gid); Some (AB32 sol_checkpoint_encode_const0); Some (AUint nonce); Some (AArrAddr addrs); Some (AArrUint powers)].
Proof. reflexivity. Qed.

Lemma c07_args_equal_batch gid amounts dests fees nonce token timeout :
  sol_vals (relay_batch gid amounts dests fees nonce token timeout) sol_batch_encode =
  [Some (AB32 gid); Some (AB32 sol_batch_encode_const0); Some (AArrUint amounts); Some (AArrAddr dests); Some (AArrUint fees);
   Some (AUint nonce); Some (AAddr token); Some (AUint timeout)].
Proof. reflexivity. Qed.

(* encoding a bytes32 constant: the contract's literal is already 32 bytes, the hub pads the name *)
Lemma abi_b32_const_checkpoint : word_b32 sol_checkpoint_encode_const0 = word_b32 s_checkpoint.
Proof. vm_compute. reflexivity. Qed.
Lemma abi_b32_const_batch : word_b32 sol_batch_encode_const0 = word_b32 s_transactionBatch.
Proof. vm_compute. reflexivity. Qed.

Lemma c07_encoding_equal_valset gid nonce addrs powers :
  abi_encode [AB32 gid; AB32 sol_checkpoint_encode_const0; AUint nonce; AArrAddr addrs; AArrUint powers] =
  abi_encode (hub_valset_args gid nonce addrs powers).
Proof.
  unfold hub_valset_args, abi_encode. cbn [abi_go is_dynamic head_static tail_of length].
  rewrite abi_b32_const_checkpoint. reflexivity.
Qed.

Lemma c07_encoding_equal_batch gid amounts dests fees nonce token timeout :
  abi_encode [AB32 gid; AB32 sol_batch_encode_const0; AArrUint amounts; AArrAddr dests; AArrUint fees;
              AUint nonce; AAddr token; AUint timeout] =
  abi_encode (hub_batch_args gid amounts dests fees nonce token timeout).
Proof.
  unfold hub_batch_args, abi_encode. cbn [abi_go is_dynamic head_static tail_of length].
  rewrite abi_b32_const_batch. reflexivity.
Qed.

(* ---------- signatures ---------- *)
Lemma c07_prefix_agree : go_sig_prefix = sol_sig_prefix.
Proof. reflexivity. Qed.

Lemma c07_sig_scheme (recover : bytes -> bytes -> option bytes) hash r s v addr :
  length r = 32%nat -> length s = 32%nat -> (v = 27 \/ v = 28)%N -> addr <> zero_addr ->
  hub_verify recover hash (r ++ s ++ [v]) addr = sol_verify recover addr hash v r s.
Proof.
  intros Hr Hs Hv Ha. unfold hub_verify, sol_verify, ecrecover.
  assert (Hlen : length (r ++ s ++ [v]) = 65%nat) by (rewrite !app_length, Hr, Hs; reflexivity).
  rewrite Hlen. simpl (Nat.ltb 65 65). simpl (negb (Nat.eqb 65 65)).
  assert (Hnth : nth 64 (r ++ s ++ [v]) 0%N = v).
  { rewrite app_nth2 by lia. rewrite Hr. rewrite app_nth2 by lia. rewrite Hs. reflexivity. }
  rewrite Hnth.
  assert (Hv' : (N.eqb v 27 || N.eqb v 28)%bool = true) by (destruct Hv as [-> | ->]; reflexivity).
  rewrite Hv'.
  assert (H64 : firstn 64 (r ++ s ++ [v]) = r ++ s).
  { rewrite app_assoc. rewrite firstn_app. rewrite app_length, Hr, Hs. simpl (64 - (32 + 32))%nat.
    rewrite firstn_O, app_nil_r. apply firstn_all2. rewrite app_length, Hr, Hs. lia. }
  assert (Hsk : skipn 65 (r ++ s ++ [v]) = []) by (apply skipn_all2; lia).
  rewrite H64, Hsk. rewrite app_nil_r.
  assert (H65 : firstn 65 ((r ++ s) ++ [(v - 27)%N]) = r ++ s ++ [(v - 27)%N]).
  { rewrite <- app_assoc. apply firstn_all2. rewrite !app_length, Hr, Hs. simpl. lia. }
  rewrite H65. rewrite c07_prefix_agree.
  destruct (recover (keccak256 (sol_sig_prefix ++ hash)) (r ++ s ++ [(v - 27)%N])) as [a|].
  - apply beqb_sym.
  - symmetry. apply beqb_neq. exact Ha.
Qed.

(* the hub also accepts the raw recovery ids 0/1, which the contract's ecrecover rejects *)
Lemma c07_contract_rejects_raw_v (recover : bytes -> bytes -> option bytes) hash r s addr :
  addr <> zero_addr -> sol_verify recover addr hash 0%N r s = false /\ sol_verify recover addr hash 1%N r s = false.
Proof. intro Ha. unfold sol_verify, ecrecover. simpl. split; apply beqb_neq; exact Ha. Qed.
