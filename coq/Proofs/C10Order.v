(* C10 — the byte order of the pool key's fee(32) | id(8) suffix is the numeric order of (fee, id):
   completes C10_highest_key_first ("highest fee first"). *)
From V Require Import Base.Prelude Base.Val Num.Arith Hub.Types Hub.Model Proofs.ListX.
Local Open Scope Z_scope.
(* divisions are handled by hand here: keep lia from turning them into nonlinear equations *)
Ltac Zify.zify_post_hook ::= idtac.

Lemma bcmp_app_same p a b : bcmp (p ++ a) (p ++ b) = bcmp a b.
Proof. induction p as [|x p IH]; simpl; [reflexivity|]. rewrite N.compare_refl. exact IH. Qed.

Lemma bcmp_app_len a1 b1 a2 b2 : length a1 = length b1 ->
  bcmp (a1 ++ a2) (b1 ++ b2) = match bcmp a1 b1 with Eq => bcmp a2 b2 | c => c end.
Proof.
  revert b1. induction a1 as [|x a1 IH]; intros [|y b1] Hl; simpl in *; try discriminate; [reflexivity|].
  destruct (N.compare x y); try reflexivity. apply IH. lia.
Qed.

Lemma bes_length w x : length (be_spec w x) = w.
Proof. induction w as [|w IH]; simpl; [reflexivity | rewrite IH; reflexivity]. Qed.

Lemma pow256_pos w : 0 < 256 ^ Z.of_nat w.
Proof. apply Z.pow_pos_nonneg; lia. Qed.

Lemma split_digits x P : 0 < P ->
  (x mod (256 * P)) / P = (x / P) mod 256 /\ (x mod (256 * P)) mod P = x mod P.
Proof.
  intro HP.
  pose proof (Z.div_mod x P ltac:(lia)) as Hx. pose proof (Z.mod_pos_bound x P HP) as Hr.
  pose proof (Z.div_mod (x / P) 256 ltac:(lia)) as Hq. pose proof (Z.mod_pos_bound (x / P) 256 ltac:(lia)) as Hq1.
  set (q := x / P) in *. set (r := x mod P) in *. set (q1 := q mod 256) in *. set (q2 := q / 256) in *.
  assert (Hm : x mod (256 * P) = P * q1 + r).
  { symmetry. apply (Z.mod_unique x (256 * P) q2 (P * q1 + r)); [left; nia | nia]. }
  rewrite Hm. split.
  - symmetry. apply (Z.div_unique (P * q1 + r) P q1 r); [left; lia | lia].
  - symmetry. apply (Z.mod_unique (P * q1 + r) P q1 r); [left; lia | lia].
Qed.

Lemma bes_mod w : forall x, be_spec w x = be_spec w (x mod 256 ^ Z.of_nat w).
Proof.
  induction w as [|w IH]; intro x; [reflexivity|].
  cbn [be_spec]. pose proof (pow256_pos w) as HP. set (P := 256 ^ Z.of_nat w) in *.
  assert (E : 256 ^ Z.of_nat (S w) = 256 * P) by (unfold P; rewrite Nat2Z.inj_succ, Z.pow_succ_r by lia; reflexivity).
  rewrite E. destruct (split_digits x P HP) as [D1 D2]. f_equal.
  - f_equal. rewrite D1. symmetry. apply Z.mod_mod. lia.
  - rewrite (IH x), (IH (x mod (256 * P))). fold P. rewrite D2. reflexivity.
Qed.

Lemma digit_bound x P : 0 < P -> 0 <= x < 256 * P -> 0 <= x / P < 256.
Proof. intros HP Hx. split; [apply Z.div_pos; lia | apply Z.div_lt_upper_bound; lia]. Qed.

(* big-endian fixed-width encodings compare like the numbers *)
Lemma bes_order w : forall x y, 0 <= x < 256 ^ Z.of_nat w -> 0 <= y < 256 ^ Z.of_nat w ->
  bcmp (be_spec w x) (be_spec w y) = (x ?= y).
Proof.
  induction w as [|w IH]; intros x y Hx Hy.
  - simpl in *. assert (x = 0) by lia. assert (y = 0) by lia. subst. reflexivity.
  - cbn [be_spec bcmp]. pose proof (pow256_pos w) as HP. set (P := 256 ^ Z.of_nat w) in *.
    assert (E : 256 ^ Z.of_nat (S w) = 256 * P) by (unfold P; rewrite Nat2Z.inj_succ, Z.pow_succ_r by lia; reflexivity).
    rewrite E in Hx, Hy.
    assert (Hqx : 0 <= x / P < 256) by (apply digit_bound; assumption).
    assert (Hqy : 0 <= y / P < 256) by (apply digit_bound; assumption).
    rewrite !(Z.mod_small (_ / P) 256) by assumption.
    rewrite Z2N.inj_compare by lia.
    destruct (x / P ?= y / P) eqn:Eq.
    + apply Z.compare_eq in Eq. rewrite (bes_mod w x), (bes_mod w y). fold P.
      rewrite IH by (apply Z.mod_pos_bound; lia).
      pose proof (Z.div_mod x P ltac:(lia)). pose proof (Z.div_mod y P ltac:(lia)).
      destruct (x mod P ?= y mod P) eqn:Er; symmetry.
      * apply Z.compare_eq in Er. apply Z.compare_eq_iff. rewrite Eq in *. set (t := P * (y / P)) in *. lia.
      * apply Z.compare_lt_iff. apply (proj1 (Z.compare_lt_iff _ _)) in Er. rewrite Eq in *. set (t := P * (y / P)) in *. lia.
      * apply Z.compare_gt_iff. apply (proj1 (Z.compare_gt_iff _ _)) in Er. rewrite Eq in *. set (t := P * (y / P)) in *. lia.
    + symmetry. apply Z.compare_lt_iff. apply (proj1 (Z.compare_lt_iff _ _)) in Eq.
      pose proof (Z.div_mod x P ltac:(lia)). pose proof (Z.div_mod y P ltac:(lia)).
      pose proof (Z.mod_pos_bound x P HP). pose proof (Z.mod_pos_bound y P HP). nia.
    + symmetry. apply Z.compare_gt_iff. apply (proj1 (Z.compare_gt_iff _ _)) in Eq.
      pose proof (Z.div_mod x P ltac:(lia)). pose proof (Z.div_mod y P ltac:(lia)).
      pose proof (Z.mod_pos_bound x P HP). pose proof (Z.mod_pos_bound y P HP). nia.
Qed.

(* the executed encoder computes the specified bytes *)
Lemma bes_shift w : forall x, be_spec (S w) x = be_spec w (x / 256) ++ [Z.to_N (x mod 256)].
Proof.
  induction w as [|w IH]; intro x.
  - cbn [be_spec app]. rewrite Z.pow_0_r, Z.div_1_r. reflexivity.
  - change (be_spec (S (S w)) x) with (Z.to_N ((x / 256 ^ Z.of_nat (S w)) mod 256) :: be_spec (S w) x).
    rewrite IH. change (be_spec (S w) (x / 256)) with (Z.to_N ((x / 256 / 256 ^ Z.of_nat w) mod 256) :: be_spec w (x / 256)).
    cbn [app]. f_equal. f_equal. f_equal.
    pose proof (pow256_pos w). rewrite Z.div_div by lia.
    rewrite Nat2Z.inj_succ, Z.pow_succ_r by lia. reflexivity.
Qed.

Lemma be_acc_spec w : forall x acc, be_acc w x acc = be_spec w x ++ acc.
Proof.
  induction w as [|w IH]; intros x acc; [reflexivity|].
  cbn [be_acc]. rewrite IH, bes_shift, <- app_assoc. reflexivity.
Qed.

Lemma be_eq w x : be w x = be_spec w x.
Proof. unfold be. rewrite be_acc_spec, app_nil_r. reflexivity. Qed.

Lemma be_length w x : length (be w x) = w.
Proof. rewrite be_eq. apply bes_length. Qed.
Lemma be_mod w x : be w x = be w (x mod 256 ^ Z.of_nat w).
Proof. rewrite !be_eq. apply bes_mod. Qed.
Lemma be_order w x y : 0 <= x < 256 ^ Z.of_nat w -> 0 <= y < 256 ^ Z.of_nat w ->
  bcmp (be w x) (be w y) = (x ?= y).
Proof. rewrite !be_eq. apply bes_order. Qed.


(* two transfers of one chain and token: their store keys compare like (fee, id) *)
Lemma pool_key_order x y :
  s_chain x = s_chain y -> s_ext x = s_ext y ->
  0 <= s_fee x < 2 ^ 256 -> 0 <= s_fee y < 2 ^ 256 -> (s_id x < 2 ^ 64)%N -> (s_id y < 2 ^ 64)%N ->
  bcmp (pool_key x) (pool_key y) = match s_fee x ?= s_fee y with Eq => (s_id x ?= s_id y)%N | c => c end.
Proof.
  intros Hc He Hfx Hfy Hix Hiy. unfold pool_key. rewrite Hc, He, !bcmp_app_same.
  rewrite bcmp_app_len by (rewrite !be_length; reflexivity).
  assert (P32 : 256 ^ Z.of_nat 32 = 2 ^ 256) by reflexivity.
  assert (P8 : 256 ^ Z.of_nat 8 = 2 ^ 64) by reflexivity.
  rewrite be_order by (rewrite P32; assumption).
  destruct (s_fee x ?= s_fee y); try reflexivity.
  rewrite be_order by (rewrite P8; lia). rewrite N2Z.inj_compare. reflexivity.
Qed.

Ltac Zify.zify_post_hook ::= Z.div_mod_to_equations.

From V Require Import Proofs.HubInv Proofs.C10Proofs.
Ltac Zify.zify_post_hook ::= idtac.

(* "highest fee first": whatever is selected (a prefix of the candidates) has a fee at least as high as
   anything left behind; among equal fees the higher id goes first *)
Lemma c10_highest_fee_first chain ext pool n x y :
  let cands := pool_of_coin chain ext pool in
  In x (firstn n cands) -> In y (skipn n cands) ->
  s_chain x = s_chain y ->
  0 <= s_fee x < 2 ^ 256 -> 0 <= s_fee y < 2 ^ 256 -> (s_id x < 2 ^ 64)%N -> (s_id y < 2 ^ 64)%N ->
  s_fee y < s_fee x \/ (s_fee x = s_fee y /\ (s_id y <= s_id x)%N).
Proof.
  intros cands Hx Hy Hc Hfx Hfy Hix Hiy.
  destruct (c10_highest_key_first chain ext pool) as [_ Hk]. specialize (Hk n x y Hx Hy).
  assert (Ex : s_ext x = ext) by (apply firstn_incl in Hx; apply pool_of_coin_in in Hx; tauto).
  assert (Ey : s_ext y = ext) by (apply skipn_incl_in in Hy; apply pool_of_coin_in in Hy; tauto).
  rewrite (pool_key_order x y Hc (eq_trans Ex (eq_sym Ey)) Hfx Hfy Hix Hiy) in Hk.
  destruct (s_fee x ?= s_fee y) eqn:E.
  - apply Z.compare_eq in E. right. split; [exact E|]. destruct (s_id x ?= s_id y)%N eqn:E2; try congruence.
    + apply N.compare_eq in E2. lia.
    + apply (proj1 (N.compare_gt_iff _ _)) in E2. lia.
  - congruence.
  - left. apply (proj1 (Z.compare_gt_iff _ _)) in E. lia.
Qed.
Ltac Zify.zify_post_hook ::= Z.div_mod_to_equations.
