From V Require Import Base.Prelude Base.Val Num.Arith Hub.Types Hub.Model Proofs.ListX Proofs.HubInv.
Local Open Scope Z_scope.

Lemma balance_credit_same s a d x : balance (credit s a d x) a d = balance s a d + x.
Proof. unfold balance, credit. simpl. rewrite agetd_aset_same. reflexivity. Qed.
Lemma supply_credit_same s a d x : supply (credit s a d x) d = supply s d + x.
Proof. unfold supply, credit. simpl. rewrite agetd_aset_same. reflexivity. Qed.

Lemma debit_ok s a d x s' :
  debit s a d x = Ok s' ->
  0 < x /\ x <= balance s a d /\ balance s' a d = balance s a d - x /\ supply s' d = supply s d - x /\
  st_pool s' = st_pool s /\ st_batches s' = st_batches s.
Proof.
  unfold debit. destruct (x <=? 0) eqn:E1; [discriminate|]. destruct (balance s a d <? x) eqn:E2; [discriminate|].
  apply Z.leb_gt in E1. apply Z.ltb_ge in E2.
  intro H. inversion H; subst. unfold balance, supply in *. simpl. rewrite !agetd_aset_same.
  repeat split; try reflexivity; lia.
Qed.

(* A withdrawal request: what a successful MsgSendToExternal does, exactly. *)
Lemma c11_withdraw s sender chain rcpt denom a f h s' id :
  msg_send s sender chain rcpt denom a f h = Ok (s', id) ->
  exists ti comm,
    denom_to_token (st_tokens s) chain denom = Some ti /\
    comm = commission_of (holder_rate s [sender; rcpt] (ti_comm ti)) (a + f) /\
    0 <= a - comm /\
    balance s' sender denom = balance s sender denom - (a + f) /\
    supply s' denom = supply s denom - (a + f) /\
    exists e, st_pool s' = e :: st_pool s /\
              s_id e = id /\ s_sender e = sender /\ s_recipient e = rcpt /\ s_chain e = chain /\
              s_ext e = ti_ext ti /\
              s_token e = conv_to_ext (st_tokens s) chain (ti_ext ti) (a - comm) /\
              s_fee e = conv_to_ext (st_tokens s) chain (ti_ext ti) f /\
              s_comm e = conv_to_ext (st_tokens s) chain (ti_ext ti) comm /\
              s_refund_chain e = b_hub /\ s_refund_addr e = sender.
Proof.
  intro H. unfold msg_send in H. destruct (negb _); [discriminate|].
  destruct (denom_to_token (st_tokens s) chain denom) as [ti|] eqn:Ht; [|discriminate].
  set (comm := commission_of _ _) in *.
  destruct (a - comm <? 0) eqn:Eneg; [discriminate|].
  unfold create_send in H. rewrite Ht in H.
  destruct (debit s sender denom _) as [s1|?|?] eqn:Hd; simpl in H; try discriminate.
  match type of H with (if ?g then _ else _) = _ => destruct g; [discriminate|] end.
  inversion H; subst s' id; clear H. apply debit_ok in Hd as [D1 [D2 [D3 [D4 [D5 D6]]]]].
  exists ti, comm. repeat split; auto; try lia.
  - unfold balance in *. simpl. rewrite D3. ring.
  - unfold supply in *. simpl. rewrite D4. ring.
  - eexists. simpl. rewrite D5. unfold pool_insert. repeat split; reflexivity.
Qed.

(* the commission never exceeds the configured rate applied to amount + fee, and the holder
   discount is exactly one of the seven tiers *)
Lemma c11_commission_bounds s addrs rate v :
  0 <= rate -> 0 <= v ->
  let r := holder_rate s addrs rate in
  0 <= r <= rate /\
  (exists k, In k [0; 10; 20; 30; 40; 50; 60] /\ r = rate - (rate * k) / 100) /\
  0 <= commission_of r v /\ commission_of r v * ONE <= rate * v /\ commission_of r v = (r * v) / ONE.
Proof.
  intros Hr Hv r. unfold r, holder_rate.
  set (maxv := fold_left _ addrs 0).
  pose proof (commission_rate_bounds rate maxv Hr) as [B1 B2].
  repeat split; auto.
  - exists (tier maxv). split; [|apply commission_rate_tier; exact Hr].
    unfold tier. repeat (destruct (_ <=? _)); simpl; auto 10.
  - apply commission_of_bounds; lia.
  - pose proof (commission_of_bounds (commission_rate rate maxv) v B1 Hv) as [_ C]. nia.
  - apply commission_of_floor; lia.
Qed.

(* tier thresholds: 1, 2, 4, 8, 16, 32 whole HUB *)
Lemma c11_tier_table v :
  tier v = (if v <? ONE then 0 else if v <? 2 * ONE then 10 else if v <? 4 * ONE then 20 else if v <? 8 * ONE then 30
            else if v <? 16 * ONE then 40 else if v <? 32 * ONE then 50 else 60).
Proof.
  unfold tier. pose proof ONE_pos.
  repeat match goal with |- context [?a <=? ?b] => destruct (Z.leb_spec a b) end;
  repeat match goal with |- context [?a <? ?b] => destruct (Z.ltb_spec a b) end; try reflexivity; lia.
Qed.

(* a failed request changes nothing (messages run on the transaction's cache context) *)
Lemma c11_fail_atomic s sender chain rcpt denom a f h :
  snd (step s (OpSend sender chain rcpt denom a f h)) <> 0%N ->
  fst (step s (OpSend sender chain rcpt denom a f h)) = s.
Proof. simpl. destruct (msg_send s sender chain rcpt denom a f h) as [[s' i]|c|c]; simpl; congruence. Qed.

(* An observed deposit credits exactly the converted amount, which is the locked amount truncated
   by less than one hub unit. *)
Lemma c11_deposit s chain coin amount recv h s' :
  0 <= amount ->
  handle_deposit s chain coin amount recv h = Ok s' ->
  exists ti, ext_to_token (st_tokens s) chain coin = Some ti /\
    let c := to_hub (ti_dec ti) amount in
    0 < c /\
    balance s' recv (ti_denom ti) = balance s recv (ti_denom ti) + c /\
    supply s' (ti_denom ti) = supply s (ti_denom ti) + c /\
    st_pool s' = st_pool s /\ st_batches s' = st_batches s /\
    (0 <= ti_dec ti <= 24 -> hub_val c <= ext_val (ti_dec ti) amount < hub_val (c + 1)).
Proof.
  intros Ha H. unfold handle_deposit in H.
  destruct (ext_to_token (st_tokens s) chain coin) as [ti|] eqn:Ht; [|discriminate].
  unfold conv_from_ext in H. rewrite Ht in H.
  destruct (negb (fits256 _)); [discriminate|]. destruct (_ <? 0) eqn:E0; [discriminate|].
  destruct (negb (fits256 _)); [discriminate|]. destruct (_ =? 0) eqn:E1; [discriminate|].
  inversion H; subst s'; clear H. exists ti. split; auto. cbv zeta.
  split; [lia|]. split; [apply balance_credit_same|]. split; [apply supply_credit_same|].
  repeat split; try reflexivity; apply to_hub_value; auto.
Qed.
