(* C01 — second invariant used by the history theorem: every transfer in flight names a listed token
   consistently (token id and (chain, external id) resolve to the same token) and carries non-negative
   amounts.  Shown through a "nothing but well-formed entries is added" relation Sub. *)
From V Require Import Base.Prelude Base.Val Num.Arith Hub.Types Hub.Model Hub.Codec Hub.Monitor Hub.World
     Proofs.ListX Proofs.HubInv Proofs.C11Proofs Proofs.C12Proofs Proofs.C01Proofs Proofs.C01Moves.
Local Open Scope Z_scope.

Definition entries (s : state) : list ste := st_pool s ++ batch_txs (st_batches s).

Definition EntryOk (toks : list token_info) (e : ste) : Prop :=
  exists t, id_to_token toks (s_tid e) = Some t /\ ext_to_token toks (s_chain e) (s_ext e) = Some t /\
            0 <= s_token e /\ 0 <= s_fee e /\ 0 <= s_comm e.
Definition AllOk (s : state) : Prop := forall e, In e (entries s) -> EntryOk (st_tokens s) e.

(* s' has the token table of s and only entries of s or well-formed new ones *)
Definition Sub (s s' : state) : Prop :=
  st_tokens s' = st_tokens s /\ st_pending s' = st_pending s /\
  forall x, In x (entries s') -> In x (entries s) \/ EntryOk (st_tokens s) x.

Lemma Sub_refl s : Sub s s.
Proof. split; [reflexivity | split; [reflexivity | auto]]. Qed.

Lemma Sub_trans a b c : Sub a b -> Sub b c -> Sub a c.
Proof.
  intros [T1 [P1 H1]] [T2 [P2 H2]]. split; [congruence|]. split; [congruence|]. intros x Hx. destruct (H2 x Hx) as [H|H].
  - apply H1. exact H.
  - right. rewrite <- T1. exact H.
Qed.

Lemma AllOk_Sub s s' : AllOk s -> Sub s s' -> AllOk s'.
Proof. intros HA [T [_ H]] e He. rewrite T. destruct (H e He) as [K|K]; [apply HA; exact K | exact K]. Qed.

Lemma Sub_same_entries s s' : st_tokens s' = st_tokens s -> st_pending s' = st_pending s -> entries s' = entries s -> Sub s s'.
Proof. intros T P E. split; [exact T|]. split; [exact P|]. intros x Hx. left. rewrite <- E. exact Hx. Qed.

Lemma Sub_subset s s' : st_tokens s' = st_tokens s -> st_pending s' = st_pending s -> (forall x, In x (entries s') -> In x (entries s)) -> Sub s s'.
Proof. intros T P E. split; [exact T|]. split; [exact P|]. auto. Qed.

Lemma stx_pending x h st o : st_pending (set_tx_status x h st o) = st_pending x.
Proof. unfold set_tx_status. destruct (N.eqb _ _); reflexivity. Qed.

Lemma fold_status_pending sel : forall s,
  st_pending (fold_left (fun st e => set_tx_status st (s_txhash e) ST_BATCH_CREATED []) sel s) = st_pending s.
Proof. induction sel as [|e sel IH]; intro s; simpl; [reflexivity|]. rewrite IH. apply stx_pending. Qed.

Lemma fold_exec_pending txs h : forall s, st_pending (fold_left (exec_mark h) txs s) = st_pending s.
Proof.
  induction txs as [|e txs IH]; intro s; cbn [fold_left]; [reflexivity|]. rewrite IH. unfold exec_mark. cbv zeta. cbn [st_pending set_feerec]. apply stx_pending.
Qed.

Lemma to_ext_nonneg d a : 0 <= d <= 24 -> 0 <= a -> 0 <= to_ext d a.
Proof.
  intros Hd Ha. unfold to_ext, HUB_DEC. destruct (Z_le_gt_dec 18 d).
  - rewrite convert_up by lia. apply Z.mul_nonneg_nonneg; [exact Ha|]. pose proof (pow10_pos (d - 18)). lia.
  - rewrite convert_down by lia. apply Z.div_pos; [exact Ha|]. apply pow10_pos. lia.
Qed.

(* ---------- createSendToExternal ---------- *)
Lemma create_send_sub s chain sender rcpt denom a f c h rc ra s' id :
  tokens_ok (st_tokens s) -> 0 <= a -> 0 <= f -> 0 <= c ->
  create_send s chain sender rcpt denom a f c h rc ra = Ok (s', id) -> Sub s s'.
Proof.
  intros Htok Ha Hf Hc H. unfold create_send in H.
  destruct (denom_to_token (st_tokens s) chain denom) as [ti|] eqn:Ht; [|discriminate].
  destruct (denom_to_token_spec _ _ _ _ Ht) as [Hin [Hden Hch]].
  destruct (Htok ti Hin) as [Hext [Hid Hdec]].
  destruct (debit s sender denom _) as [s1|?|?] eqn:Hd; simpl in H; try discriminate.
  match type of H with (if ?g then _ else _) = _ => destruct g; [discriminate|] end.
  inversion H; subst s' id; clear H.
  unfold debit in Hd. destruct (_ <=? 0); [discriminate|]. destruct (_ <? _); [discriminate|]. inversion Hd; subst s1; clear Hd.
  split; [reflexivity|]. split; [reflexivity|]. unfold entries. cbn [st_pool st_batches set_pool set_last_id set_supply set_bal pool_insert].
  intros x [<-|Hx]; [right | left; exact Hx].
  exists ti. cbn [s_tid s_chain s_ext s_token s_fee s_comm]. unfold conv_to_ext. rewrite Hch in Hext. rewrite !Hext.
  repeat split; auto; apply to_ext_nonneg; assumption.
Qed.

Lemma minter_send_sub s to denom a tag s' :
  tokens_ok (st_tokens s) -> 0 <= a -> minter_send s to denom a tag = Ok s' -> Sub s s'.
Proof.
  intros Htok Ha H. unfold minter_send in H.
  destruct (create_send s b_minter _ to denom a 0 0 tag [] []) as [[s2 i]|?|?] eqn:Hc; try discriminate.
  inversion H; subst. exact (create_send_sub s b_minter _ to denom a 0 0 tag [] [] s' i Htok Ha ltac:(lia) ltac:(lia) Hc).
Qed.

(* ---------- moves ---------- *)
Lemma in_batch_txs_filter p bs x : In x (batch_txs (filter p bs)) -> In x (batch_txs bs).
Proof.
  intro H. apply in_batch_txs in H as [b [Hb Hx]]. apply filter_In in Hb as [Hb _]. apply in_batch_txs. exists b. auto.
Qed.

Lemma cancel_batch_sub s b : In b (st_batches s) -> Sub s (cancel_batch s b).
Proof.
  intro Hb. apply Sub_subset; [reflexivity | reflexivity|]. unfold entries, cancel_batch. cbn [st_pool st_batches set_batches set_pool].
  rewrite fold_insert_eq. intros x Hx. apply in_app_or in Hx as [Hx|Hx].
  - apply in_app_or in Hx as [Hx|Hx]; [|apply in_or_app; left; exact Hx].
    apply in_or_app. right. apply in_batch_txs. exists b. split; [exact Hb | apply in_rev; exact Hx].
  - apply in_or_app. right. eapply in_batch_txs_filter. exact Hx.
Qed.

Lemma fold_cancel_sub (p : batch -> bool) l : forall s,
  Inv s -> NoDup (map bkey l) -> (forall x, In x l -> In x (st_batches s)) ->
  Sub s (fold_left (fun st b => if p b then cancel_batch st b else st) l s).
Proof.
  induction l as [|a l IH]; simpl; intros s HI Hnd Hin; [apply Sub_refl|].
  inversion Hnd as [|? ? Hnotin Hnd']; subst.
  destruct (p a) eqn:Hp; [|apply IH; auto].
  assert (Ha : In a (st_batches s)) by auto.
  eapply Sub_trans; [apply cancel_batch_sub; exact Ha|].
  apply IH; [apply cancel_batch_inv; auto | exact Hnd'|].
  intros x Hx. apply cancel_batch_batches; auto; [apply (inv_bkeys s HI)|].
  split; auto. intros ->. apply Hnotin. apply in_map. exact Hx.
Qed.

Lemma build_batch_sub s chain ext s' ob : build_batch s chain ext = Ok (s', ob) -> Sub s s'.
Proof.
  intro H. unfold build_batch in H.
  destruct (firstn BATCH_SIZE (pool_of_coin chain ext (st_pool s))) as [|e0 sel] eqn:Esel; [inversion H; subst; apply Sub_refl|].
  remember (e0 :: sel) as selected eqn:Eqsel.
  match type of H with bind ?r _ = _ => destruct r as [t|?|?]; cbn [bind] in H; try discriminate end.
  inversion H; subst s' ob; clear H.
  set (pool' := fold_left (fun p e => pool_delete e p) selected (st_pool s)).
  destruct (fold_status_fields selected (set_pool s pool')) as [F1 [F2 [F3 F4]]].
  apply Sub_subset.
  - cbn [st_tokens set_batches set_out_seq set_last_batch_nonce]. rewrite F1. reflexivity.
  - cbn [st_pending set_batches set_out_seq set_last_batch_nonce]. rewrite fold_status_pending. reflexivity.
  - unfold entries. cbn [st_pool st_batches set_batches set_out_seq set_last_batch_nonce]. rewrite F2, F3. cbn [st_pool st_batches set_pool].
    intros x Hx. apply in_app_or in Hx as [Hx|Hx].
    + apply in_or_app. left. apply fold_delete_in in Hx. tauto.
    + unfold batch_txs in Hx. rewrite map_app, concat_app in Hx. cbn [map concat b_txs] in Hx. rewrite app_nil_r in Hx.
      apply in_app_or in Hx as [Hx|Hx]; [apply in_or_app; right; exact Hx|].
      apply in_or_app. left. rewrite <- Esel in Hx. apply firstn_incl in Hx. apply pool_of_coin_in in Hx. tauto.
Qed.

Lemma cleanup_timed_out_sub s chain : Inv s -> Sub s (cleanup_timed_out s chain).
Proof.
  intro HI. unfold cleanup_timed_out.
  apply (fold_cancel_sub (fun b => (beqb (b_chain b) chain && N.ltb (b_timeout b) (agetd 0%N chain (st_obs_ext_h s)))%bool)
                         (st_batches s) s HI (inv_bkeys s HI)). auto.
Qed.

Lemma create_signer_set_sub s chain force : Sub s (create_signer_set s chain force).
Proof. unfold create_signer_set. destruct (_ || _)%bool; apply Sub_same_entries; reflexivity. Qed.

Lemma create_batches_sub p s chain s' :
  InvP p s -> In chain (p_chains p) -> create_batches s chain = Ok s' -> Sub s s'.
Proof.
  intros HI Hch H. unfold create_batches in H.
  destruct (N.eqb _ 0); [|inversion H; subst; apply Sub_refl].
  revert H. apply (fold_res_inv (fun st => InvP p st /\ Sub s st)).
  - intros st ext st' [[Hst Hp] Hs] Hf.
    destruct (build_batch st chain ext) as [[st2 ob]|?|?] eqn:Hb; simpl in Hf; try discriminate.
    inversion Hf; subst st'. split; [split|].
    + eapply build_batch_inv; [exact Hst| |exact Hb]. unfold KC. rewrite Hp. right. exact Hch.
    + rewrite (build_batch_params _ _ _ _ _ Hb). exact Hp.
    + eapply Sub_trans; [exact Hs | eapply build_batch_sub; exact Hb].
  - intros s0 E. inversion E; subst s0. split; [exact HI | apply Sub_refl].
Qed.

Lemma begin_block_sub p s force s' : InvP p s -> begin_block s force = Ok s' -> Sub s s'.
Proof.
  intros HI H. unfold begin_block in H. destruct HI as [HI0 Hp0].
  assert (G : forall l, (forall c, In c l -> In c (p_chains p)) -> forall r s',
              (forall s0, r = Ok s0 -> InvP p s0 /\ Sub s s0) ->
              fold_left (fun r chain => bind r (fun st =>
                 if beqb chain b_hub then Ok st
                 else create_batches (create_signer_set (if beqb chain b_minter then st else cleanup_timed_out st chain) chain force) chain))
                 l r = Ok s' -> InvP p s' /\ Sub s s').
  { induction l as [|c l IH]; simpl; intros Hl r s2 Hr Hf; [apply Hr; exact Hf|].
    eapply IH; [auto| |exact Hf]. intros s0 E. destruct r as [st|?|?]; simpl in E; try discriminate.
    destruct (Hr st eq_refl) as [[Hst Hp] Hs]. destruct (beqb c b_hub); [inversion E; subst s0; split; [split|]; assumption|].
    set (st1 := create_signer_set (if beqb c b_minter then st else cleanup_timed_out st c) c force) in *.
    assert (HP1 : InvP p st1).
    { split.
      - eapply Inv_core; [symmetry; apply create_signer_set_core|].
        destruct (beqb c b_minter); [exact Hst | apply cleanup_timed_out_inv; exact Hst].
      - unfold st1. rewrite <- (params_of_core _ _ (eq_sym (create_signer_set_core _ c force))).
        destruct (beqb c b_minter); [exact Hp | rewrite cleanup_timed_out_params; exact Hp]. }
    assert (Hs1 : Sub s st1).
    { eapply Sub_trans; [exact Hs|]. unfold st1. eapply Sub_trans; [|apply create_signer_set_sub].
      destruct (beqb c b_minter); [apply Sub_refl | apply cleanup_timed_out_sub; exact Hst]. }
    split.
    - eapply create_batches_inv; [exact HP1 | apply Hl; left; reflexivity | exact E].
    - eapply Sub_trans; [exact Hs1 | eapply create_batches_sub; [exact HP1 | apply Hl; left; reflexivity | exact E]]. }
  eapply G; [| |exact H]; [rewrite <- Hp0; auto|].
  intros s0 E. inversion E; subst s0. split; [split; auto | apply Sub_refl].
Qed.

(* ---------- cancel / expiry refund ---------- *)
Lemma cancel_send_sub s chain id sender s' :
  tokens_ok (st_tokens s) -> cancel_send s chain id sender = Ok s' -> Sub s s'.
Proof.
  intros Htok H. unfold cancel_send in H.
  destruct (find_in_pool s chain id) as [e|]; [|discriminate].
  destruct (negb (beqb sender (s_sender e))); [discriminate|].
  match type of H with (if ?g then _ else _) = _ => destruct g; [discriminate|] end.
  match type of H with (if ?g then _ else _) = _ => destruct g eqn:Eneg; [discriminate|] end.
  apply Z.ltb_ge in Eneg.
  match type of H with bind ?r _ = _ => destruct r as [s1|?|?] eqn:Hr; cbn [bind] in H; try discriminate end.
  inversion H; subst s'; clear H.
  assert (A : Sub s s1).
  { destruct (beqb (s_refund_chain e) []).
    - match type of Hr with Ok (if ?g then _ else _) = _ => destruct g end; inversion Hr; subst s1; [apply Sub_same_entries; reflexivity | apply Sub_refl].
    - destruct (beqb (s_refund_chain e) b_hub).
      + match type of Hr with Ok (if ?g then _ else _) = _ => destruct g end; inversion Hr; subst s1; [apply Sub_same_entries; reflexivity | apply Sub_refl].
      + match type of Hr with (if ?g then _ else _) = _ => destruct g eqn:Ep end; [|inversion Hr; subst; apply Sub_refl].
        apply Z.ltb_lt in Ep.
        match type of Hr with bind ?r _ = _ => destruct r as [[s2 i2]|?|?] eqn:Hc; cbn [bind] in Hr; try discriminate end.
        inversion Hr; subst s1; clear Hr.
        eapply Sub_trans; [|eapply create_send_sub; [| | | |exact Hc]; [exact Htok | lia | lia | lia]].
        apply Sub_same_entries; reflexivity. }
  eapply Sub_trans; [exact A|].
  destruct (stx_fields s1 (s_txhash e) ST_REFUNDED []) as [F1 [F2 [F3 F4]]].
  apply Sub_subset; [cbn [st_tokens set_pool]; exact F1 | cbn [st_pending set_pool]; apply stx_pending|].
  unfold entries. cbn [st_pool st_batches set_pool]. rewrite F3. intros x Hx. apply in_app_or in Hx as [Hx|Hx]; apply in_or_app.
  - left. apply pool_delete_in in Hx. rewrite ?F2 in Hx. tauto.
  - right. exact Hx.
Qed.

(* ---------- payouts and execution ---------- *)
Lemma pay_commissions_sub s denom total s' :
  tokens_ok (st_tokens s) -> pay_commissions s denom total = Ok s' -> Sub s s'.
Proof.
  intros Htok H. unfold pay_commissions in H. destruct (total <=? 0); [inversion H; subst; apply Sub_refl|].
  revert H. apply (fold_res_inv (fun st => Sub s st)).
  - intros st [addr power] st' Hs Hf. destruct (_ =? 0); [discriminate|].
    destruct (negb _); [discriminate|]. destruct (_ <=? 0) eqn:Ea; [inversion Hf; subst; exact Hs|]. apply Z.leb_gt in Ea.
    eapply Sub_trans; [exact Hs|]. eapply minter_send_sub; [| |exact Hf]; [destruct Hs as [T _]; rewrite T; exact Htok | lia].
  - intros s0 E. inversion E; subst s0. apply Sub_same_entries; reflexivity.
Qed.

Lemma fee_refunds_sub s b ti fl avg s' :
  tokens_ok (st_tokens s) -> fee_refunds s b ti fl avg = Ok s' -> Sub s s'.
Proof.
  intros Htok H. unfold fee_refunds in H. destruct (_ <=? 0); [inversion H; subst; apply Sub_refl|].
  revert H. apply (fold_res_inv (fun st => Sub s st)).
  - intros st e st' Hs Hf. destruct (_ <? avg); [inversion Hf; subst; exact Hs|].
    destruct (negb (beqb _ b_minter)); [inversion Hf; subst; exact Hs|].
    destruct (_ <=? 0) eqn:Ea; [inversion Hf; subst; exact Hs|]. apply Z.leb_gt in Ea.
    destruct (minter_send st _ _ _ _) as [st1|?|?] eqn:Hm; simpl in Hf; try discriminate.
    destruct (aget _ (st_feerec st1)) as [[vc ef]|]; [|discriminate].
    injection Hf as <-. pose proof Hs as [T _].
    eapply Sub_trans; [exact Hs|]. eapply Sub_trans; [eapply minter_send_sub; [| |exact Hm]; [rewrite T; exact Htok | lia]|].
    apply Sub_same_entries; reflexivity.
  - intros s0 E. inversion E; subst. apply Sub_refl.
Qed.

Lemma pay_fees_sub s b ti tf fp payer s' :
  tokens_ok (st_tokens s) -> pay_fees s b ti tf fp payer = Ok s' -> Sub s s'.
Proof.
  intros Htok H. unfold pay_fees in H.
  destruct (tf <=? 0); [inversion H; subst; apply Sub_refl|].
  destruct (if beqb (b_chain b) b_ethereum then Some b_eth else if beqb (b_chain b) b_bsc then Some b_bnb else None)
    as [base|]; [|inversion H; subst; apply Sub_refl].
  destruct (price s base) as [pb|]; [|discriminate].
  destruct (price s (ti_denom ti)) as [pt|]; [|discriminate].
  destruct (pt =? 0); [discriminate|]. destruct (_ <? 0); [discriminate|].
  match type of H with (if ?g then _ else _) = _ => destruct g eqn:Ef; [inversion H; subst; apply Sub_refl|] end. apply Z.leb_gt in Ef.
  match type of H with bind ?r _ = _ => destruct r as [s2|?|?] eqn:Hm; cbn [bind] in H; try discriminate end.
  assert (A2 : Sub s s2).
  { match type of Hm with minter_send ?x _ _ _ _ = _ => apply (Sub_trans s x s2); [apply Sub_same_entries; reflexivity|] end.
    eapply minter_send_sub; [| |exact Hm]; [exact Htok | lia]. }
  match type of H with (if ?g then _ else _) = _ => destruct g; [inversion H; subst; exact A2|] end.
  match type of H with fee_refunds ?x _ _ _ _ = _ => apply (Sub_trans s x s'); [apply (Sub_trans s s2 x); [exact A2 | apply Sub_same_entries; reflexivity]|] end.
  eapply fee_refunds_sub; [|exact H]. simpl. destruct A2 as [T _]. rewrite T. exact Htok.
Qed.

Lemma fold_exec_entries txs h : forall s, entries (fold_left (exec_mark h) txs s) = entries s.
Proof.
  induction txs as [|e txs IH]; intro s; cbn [fold_left]; [reflexivity|]. rewrite IH.
  unfold exec_mark, entries. cbv zeta. cbn [st_pool st_batches set_feerec].
  destruct (stx_fields s (s_txhash e) ST_BATCH_EXECUTED h) as [_ [F2 [F3 _]]]. rewrite F2, F3. reflexivity.
Qed.

Lemma batch_executed_sub s chain ext nonce h fp payer s' :
  Inv s -> tokens_ok (st_tokens s) -> batch_executed s chain ext nonce h fp payer = Ok s' -> Sub s s'.
Proof.
  intros HI Htok H. unfold batch_executed in H.
  destruct (find (batch_is chain ext nonce) (st_batches s)) as [b|] eqn:Hf; [|inversion H; subst; apply Sub_refl].
  match type of H with context [if beqb chain b_minter then s else ?f] => set (s1 := if beqb chain b_minter then s else f) in * end.
  assert (H1 : Sub s s1).
  { unfold s1. destruct (beqb chain b_minter); [apply Sub_refl|].
    apply (fold_cancel_sub (fun x => (beqb (b_chain x) chain && N.ltb (b_nonce x) (b_nonce b) && beqb (b_ext x) (b_ext b))%bool)
                           (st_batches s) s HI (inv_bkeys s HI)). auto. }
  destruct (ext_to_token (st_tokens s) chain (b_ext b)) as [ti|]; [|discriminate].
  destruct (negb _); [discriminate|].
  match type of H with bind ?r _ = _ => destruct r as [s4|?|?] eqn:Hp; cbn [bind] in H; try discriminate end.
  set (s2 := set_batches s1 (filter (fun x => negb (batch_is chain ext nonce x)) (st_batches s1))) in *.
  match type of Hp with pay_commissions ?x _ _ = _ => set (s3 := x) in * end.
  assert (H2 : Sub s1 s2).
  { apply Sub_subset; [reflexivity | reflexivity|]. unfold entries, s2. cbn [st_pool st_batches set_batches].
    intros x Hx. apply in_app_or in Hx as [Hx|Hx]; apply in_or_app; [left; exact Hx | right; eapply in_batch_txs_filter; exact Hx]. }
  assert (H3 : Sub s2 s3).
  { destruct (fold_exec_phi (b_txs b) h [] s2) as [_ T3]. change (fold_left (exec_mark h) (b_txs b) s2) with s3 in T3.
    apply Sub_same_entries; [exact T3 | exact (fold_exec_pending (b_txs b) h s2) | exact (fold_exec_entries (b_txs b) h s2)]. }
  assert (S3 : Sub s s3) by (eapply Sub_trans; [exact H1 | eapply Sub_trans; [exact H2 | exact H3]]).
  assert (S4 : Sub s3 s4) by (eapply pay_commissions_sub; [destruct S3 as [T _]; rewrite T; exact Htok | exact Hp]).
  assert (S5 : Sub s4 s').
  { eapply pay_fees_sub; [|exact H]. destruct S4 as [T4 _]. destruct S3 as [T3 _]. rewrite T4, T3. exact Htok. }
  eapply Sub_trans; [exact S3 | eapply Sub_trans; [exact S4 | exact S5]].
Qed.

(* ---------- external events ---------- *)
Lemma handle_deposit_sub s chain coin amount recv h s' :
  handle_deposit s chain coin amount recv h = Ok s' -> Sub s s'.
Proof.
  intro H. pose proof (handle_deposit_tokens _ _ _ _ _ _ _ H) as T.
  unfold handle_deposit in H. destruct (ext_to_token _ _ _); [|discriminate].
  destruct (negb _); [discriminate|]. destruct (_ <? 0); [discriminate|]. destruct (negb _); [discriminate|]. destruct (_ =? 0); [discriminate|].
  inversion H; subst. apply Sub_same_entries; [exact T | rewrite stx_pending; reflexivity|].
  unfold entries. match goal with |- context [set_tx_status ?x ?a ?b ?c] => destruct (stx_fields x a b c) as [_ [F2 [F3 _]]] end.
  rewrite F2, F3. reflexivity.
Qed.

Lemma handle_event_sub s chain e s' :
  Inv s -> tokens_ok (st_tokens s) -> handle_event s chain e = Ok s' -> Sub s s'.
Proof.
  intros HI Htok H. destruct e as [n coin amount sender receiver hh txhash|n coin amount fee sender rchain receiver hh txhash rhub|n coin bn hh txhash fp payer|n hh]; cbn [handle_event] in H.
  - eapply handle_deposit_sub; exact H.
  - destruct (negb (chain_ok _ rchain)); [discriminate|]. destruct (beqb rchain b_hub).
    + destruct (negb (fits256 amount)); [discriminate|]. eapply handle_deposit_sub; exact H.
    + destruct (handle_deposit s chain coin amount (p_temp (st_params s)) txhash) as [s1|?|?] eqn:Hd; cbn [bind] in H; try discriminate.
      pose proof (handle_deposit_sub _ _ _ _ _ _ _ Hd) as S1.
      destruct (ext_to_token (st_tokens s) chain coin) as [ti|]; [|discriminate].
      destruct (denom_to_token (st_tokens s) rchain (ti_denom ti)) as [rti|]; [|discriminate].
      match type of H with (if ?g then _ else _) = _ => destruct g; [discriminate|] end.
      match type of H with (if ?g then _ else _) = _ => destruct g eqn:E1; [discriminate|] end.
      match type of H with (if ?g then _ else _) = _ => destruct g eqn:E2; [discriminate|] end.
      match type of H with (if ?g then _ else _) = _ => destruct g eqn:E3; [discriminate|] end.
      match type of H with (if ?g then _ else _) = _ => destruct g eqn:E4; [discriminate|] end.
      apply Z.ltb_ge in E1, E2, E3, E4.
      match type of H with bind ?r _ = _ => destruct r as [[s2 i2]|?|?] eqn:Hc; cbn [bind] in H; try discriminate end.
      inversion H; subst s'; clear H.
      eapply Sub_trans; [exact S1|]. eapply create_send_sub; [| | | |exact Hc]; [destruct S1 as [T _]; rewrite T; exact Htok | lia | lia | lia].
  - eapply batch_executed_sub; eauto.
  - inversion H; subst. apply Sub_refl.
Qed.
