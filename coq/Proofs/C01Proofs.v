(* C01 — bridge solvency: the potential  Phi(D) = supply(D) + hub value of D's transfers in flight.
   Proved here on the hub model: a withdrawal request does not increase Phi; a deposit increases it by
   exactly the converted locked amount; a refund to the hub keeps it unchanged.  (Batch creation /
   cancellation only move entries; execution payouts: evaluated by the monitor, see Properties/C01.v.) *)
From V Require Import Base.Prelude Base.Val Num.Arith Hub.Types Hub.Model Hub.Codec Hub.Monitor Hub.World
     Proofs.ListX Proofs.HubInv Proofs.C11Proofs Proofs.C12Proofs.
Local Open Scope Z_scope.

(* the token list is a consistent table: a token is found again through its (chain, external id) and
   through its id; decimals are within 0..24 *)
Definition tokens_ok (toks : list token_info) : Prop :=
  forall t, In t toks ->
    ext_to_token toks (ti_chain t) (ti_ext t) = Some t /\ id_to_token toks (ti_id t) = Some t /\ 0 <= ti_dec t <= 24.

Lemma denom_to_token_spec toks chain denom ti :
  denom_to_token toks chain denom = Some ti -> In ti toks /\ ti_denom ti = denom /\ ti_chain ti = chain.
Proof.
  unfold denom_to_token. intro H. apply find_some in H as [Hin Hb]. apply andb_true_iff in Hb as [A B].
  apply beqb_eq in A, B. auto.
Qed.

Lemma inflight_cons toks e l d :
  inflight toks (e :: l) d = (match entry_denom toks e with Some d' => if beqb d d' then entry_value toks e else 0 | None => 0 end) + inflight toks l d.
Proof. reflexivity. Qed.

Lemma round_trip_le d a f c : 0 <= d <= 24 -> 0 <= a -> 0 <= f -> 0 <= c ->
  to_hub d (to_ext d a + to_ext d f + to_ext d c) <= a + f + c.
Proof.
  intros Hd Ha Hf Hc. destruct (Z_lt_le_dec d 18) as [H|H].
  - apply (refund_bounds_lt18 d a f c); lia.
  - rewrite refund_exact_ge18 by lia. lia.
Qed.

Lemma supply_other s a d x d' : d' <> d -> supply (credit s a d x) d' = supply s d'.
Proof. intro H. unfold supply, credit. simpl. apply agetd_aset_other. congruence. Qed.

(* ---------- withdrawal request ---------- *)
Lemma msg_send_phi s sender chain rcpt denom a f h s' id d :
  tokens_ok (st_tokens s) -> 0 <= f ->
  (forall ti, In ti (st_tokens s) -> 0 <= commission_of (holder_rate s [sender; rcpt] (ti_comm ti)) (a + f)) ->
  msg_send s sender chain rcpt denom a f h = Ok (s', id) ->
  phi s' d <= phi s d.
Proof.
  intros Htok Hf Hcomm H. unfold msg_send in H. destruct (negb _); [discriminate|].
  destruct (denom_to_token (st_tokens s) chain denom) as [ti|] eqn:Ht; [|discriminate].
  destruct (denom_to_token_spec _ _ _ _ Ht) as [Hin [Hden Hch]].
  destruct (Htok ti Hin) as [Hext [Hid Hdec]].
  set (comm := commission_of _ _) in *. assert (0 <= comm) as Hc0 by (apply Hcomm; exact Hin).
  destruct (a - comm <? 0) eqn:Eneg; [discriminate|]. apply Z.ltb_ge in Eneg.
  unfold create_send in H. rewrite Ht in H.
  destruct (debit s sender denom _) as [s1|?|?] eqn:Hd; simpl in H; try discriminate.
  match type of H with (if ?g then _ else _) = _ => destruct g; [discriminate|] end.
  inversion H; subst s' id; clear H.
  unfold debit in Hd. destruct (_ <=? 0); [discriminate|]. destruct (_ <? _); [discriminate|]. inversion Hd; subst s1; clear Hd.
  unfold phi. cbn [st_tokens st_pool st_batches set_pool set_last_id set_supply set_bal pool_insert app].
  rewrite inflight_cons. unfold entry_denom, entry_value. cbn [s_tid s_chain s_ext s_token s_fee s_comm].
  rewrite Hid. unfold conv_from_ext, conv_to_ext. rewrite Hch in Hext. rewrite !Hext.
  unfold supply. cbn [st_supply set_pool set_last_id set_supply set_bal].
  destruct (beqb d (ti_denom ti)) eqn:Ed.
  - apply beqb_eq in Ed. subst d. rewrite Hden. rewrite agetd_aset_same.
    pose proof (round_trip_le (ti_dec ti) (a - comm) f comm Hdec Eneg Hf Hc0). unfold supply. lia.
  - apply beqb_neq in Ed. rewrite agetd_aset_other by (rewrite <- Hden; congruence). lia.
Qed.

(* ---------- deposit ---------- *)
Lemma phi_set_tx_status x h st o d : phi (set_tx_status x h st o) d = phi x d.
Proof. unfold set_tx_status. destruct (N.eqb _ _); reflexivity. Qed.

Lemma phi_credit s a den x d : phi (credit s a den x) d = phi s d + (if beqb d den then x else 0).
Proof.
  unfold phi. cbn [credit st_tokens st_pool st_batches set_supply set_bal].
  unfold supply at 1. cbn [credit st_supply set_supply set_bal].
  destruct (beqb d den) eqn:Ed.
  - apply beqb_eq in Ed. subst d. rewrite agetd_aset_same. lia.
  - apply beqb_neq in Ed. rewrite agetd_aset_other by congruence. unfold supply. lia.
Qed.

Lemma handle_deposit_phi s chain coin amount recv h s' d :
  handle_deposit s chain coin amount recv h = Ok s' ->
  exists ti, ext_to_token (st_tokens s) chain coin = Some ti /\
             phi s' d = phi s d + (if beqb d (ti_denom ti) then to_hub (ti_dec ti) amount else 0).
Proof.
  intro H. unfold handle_deposit in H.
  destruct (ext_to_token (st_tokens s) chain coin) as [ti|] eqn:Ht; [|discriminate].
  unfold conv_from_ext in H. rewrite Ht in H.
  destruct (negb (fits256 _)); [discriminate|]. destruct (_ <? 0) eqn:E0; [discriminate|].
  destruct (negb (fits256 _)); [discriminate|]. destruct (_ =? 0) eqn:E1; [discriminate|].
  inversion H; subst s'; clear H. exists ti. split; [reflexivity|].
  rewrite phi_set_tx_status, phi_credit. reflexivity.
Qed.

(* ---------- refund of a hub-origin transfer (cancel / expiry) ---------- *)
Lemma inflight_app toks l1 l2 d : inflight toks (l1 ++ l2) d = inflight toks l1 d + inflight toks l2 d.
Proof. unfold inflight. rewrite map_app, zsum_app. reflexivity. Qed.

Lemma filter_true_all {A} (p : A -> bool) l : (forall y, In y l -> p y = true) -> filter p l = l.
Proof.
  induction l as [|x l IH]; intro H; [reflexivity|]. simpl. rewrite (H x (or_introl eq_refl)). f_equal. apply IH. intros y Hy. apply H. right. exact Hy.
Qed.

Lemma inflight_delete toks e l d :
  NoDup (map ekey l) -> In e l ->
  inflight toks (pool_delete e l) d =
  inflight toks l d - (match entry_denom toks e with Some d' => if beqb d d' then entry_value toks e else 0 | None => 0 end).
Proof.
  unfold pool_delete. induction l as [|x l IH]; intros Hnd Hin; [contradiction|].
  simpl in Hnd. inversion Hnd as [|? ? Hnot Hnd']; subst. cbn [filter].
  destruct Hin as [->|Hin].
  - rewrite (proj2 (same_entry_iff e e) eq_refl). cbn [negb]. rewrite inflight_cons.
    assert (filter (fun x => negb (same_entry x e)) l = l) as ->.
    { apply filter_true_all. intros y Hy. apply negb_true_iff. apply same_entry_false. intro E. apply Hnot. rewrite <- E. apply in_map. exact Hy. }
    lia.
  - assert (same_entry x e = false) as Ex.
    { apply same_entry_false. intro E. apply Hnot. rewrite E. apply in_map. exact Hin. }
    rewrite Ex. cbn [negb]. rewrite !inflight_cons, IH by assumption. lia.
Qed.

Lemma phi_set_pool s p d :
  phi (set_pool s p) d = supply s d + inflight (st_tokens s) (p ++ concat (map b_txs (st_batches s))) d.
Proof. reflexivity. Qed.

Lemma stx_fields x h st o :
  st_tokens (set_tx_status x h st o) = st_tokens x /\ st_pool (set_tx_status x h st o) = st_pool x /\
  st_batches (set_tx_status x h st o) = st_batches x /\ (forall d, supply (set_tx_status x h st o) d = supply x d).
Proof. unfold set_tx_status. destruct (N.eqb _ _); repeat split; reflexivity. Qed.

(* the refund of a hub-origin transfer whose token is listed: what leaves the pool comes back as supply *)
Lemma cancel_hub_phi s chain id sender s' e t d :
  find_in_pool s chain id = Some e -> s_chain e = chain -> s_refund_chain e = b_hub ->
  NoDup (map ekey (st_pool s)) -> id_to_token (st_tokens s) (s_tid e) = Some t ->
  cancel_send s chain id sender = Ok s' ->
  phi s' d = phi s d.
Proof.
  intros Hf Hch Hrc Hnd Hid H. destruct (find_in_pool_some _ _ _ _ Hf) as [Hin _].
  unfold cancel_send in H. rewrite Hf in H.
  destruct (negb (beqb sender (s_sender e))); [discriminate|].
  match type of H with (if ?g then _ else _) = _ => destruct g; [discriminate|] end.
  match type of H with (if ?g then _ else _) = _ => destruct g eqn:Eneg; [discriminate|] end.
  rewrite Hrc in H. replace (beqb b_hub []) with false in H by reflexivity. rewrite beqb_refl in H. cbn [bind] in H.
  assert (Hden : refund_denom s e = ti_denom t) by (unfold refund_denom; rewrite Hid; reflexivity).
  assert (Hval : conv_from_ext (st_tokens s) chain (s_ext e) (s_token e + s_fee e + s_comm e) = entry_value (st_tokens s) e)
    by (unfold entry_value; rewrite Hch; reflexivity).
  assert (Hed : entry_denom (st_tokens s) e = Some (ti_denom t)) by (unfold entry_denom; rewrite Hid; reflexivity).
  apply Z.ltb_ge in Eneg. rewrite Hval in *. rewrite Hden in *.
  assert (Hphi : phi s d = supply s d + inflight (st_tokens s) (st_pool s) d + inflight (st_tokens s) (concat (map b_txs (st_batches s))) d)
    by (unfold phi; rewrite inflight_app; lia).
  match type of H with context [0 <? ?tt] => destruct (0 <? tt) eqn:Epos end; inversion H; subst s'; clear H.
  - set (s1 := credit s sender (ti_denom t) (entry_value (st_tokens s) e)).
    destruct (stx_fields s1 (s_txhash e) ST_REFUNDED []) as [F1 [F2 [F3 F4]]].
    rewrite phi_set_pool, F1, F3, F4, ?F2.
    change (st_tokens s1) with (st_tokens s). change (st_pool s1) with (st_pool s). change (st_batches s1) with (st_batches s).
    rewrite inflight_app, (inflight_delete _ e) by assumption. rewrite Hed, Hphi.
    destruct (beqb d (ti_denom t)) eqn:Ed.
    + apply beqb_eq in Ed. subst d. unfold s1. rewrite supply_credit_same. lia.
    + apply beqb_neq in Ed. unfold s1. rewrite supply_other by congruence. lia.
  - apply Z.ltb_ge in Epos.
    destruct (stx_fields s (s_txhash e) ST_REFUNDED []) as [F1 [F2 [F3 F4]]].
    rewrite phi_set_pool, F1, F3, F4, ?F2.
    rewrite inflight_app, (inflight_delete _ e) by assumption. rewrite Hed, Hphi.
    destruct (beqb d (ti_denom t)); lia.
Qed.
