(* C01 — batch creation, batch cancellation and the timeout sweep only MOVE transfers between the pool and
   the batches: the potential phi of every asset is unchanged, so BeginBlocker never changes it. *)
From V Require Import Base.Prelude Base.Val Num.Arith Hub.Types Hub.Model Hub.Codec Hub.Monitor Hub.World
     Proofs.ListX Proofs.HubInv Proofs.C11Proofs Proofs.C12Proofs Proofs.C01Proofs.
From Coq Require Import Permutation.
Local Open Scope Z_scope.

Definition contrib (toks : list token_info) (d : bytes) (e : ste) : Z :=
  match entry_denom toks e with Some d' => if beqb d d' then entry_value toks e else 0 | None => 0 end.

Lemma inflight_as_sum toks l d : inflight toks l d = zsum (map (contrib toks d) l).
Proof. reflexivity. Qed.

Lemma inflight_perm toks l l' d : Permutation l l' -> inflight toks l d = inflight toks l' d.
Proof.
  intro H. rewrite !inflight_as_sum. induction H; simpl; lia.
Qed.

Lemma inflight_rev toks l d : inflight toks (rev l) d = inflight toks l d.
Proof. apply inflight_perm. apply Permutation_sym. apply Permutation_rev. Qed.

(* deleting a selection of distinct pool entries takes exactly their value out of the pool *)
Lemma inflight_fold_delete toks d sel : forall l,
  NoDup (map ekey l) -> NoDup (map ekey sel) -> (forall e, In e sel -> In e l) ->
  inflight toks (fold_left (fun p e => pool_delete e p) sel l) d = inflight toks l d - inflight toks sel d.
Proof.
  induction sel as [|a sel IH]; intros l Hl Hs Hin; simpl.
  - unfold inflight at 3. simpl. lia.
  - simpl in Hs. inversion Hs as [|? ? Hna Hs']; subst.
    rewrite IH.
    + rewrite (inflight_delete toks a l d Hl (Hin a (or_introl eq_refl))). rewrite (inflight_cons toks a sel d). lia.
    + unfold pool_delete. apply NoDup_filter_map. exact Hl.
    + exact Hs'.
    + intros e He. apply pool_delete_in. split; [apply Hin; right; exact He|].
      intro E. apply Hna. rewrite <- E. apply in_map. exact He.
Qed.

Lemma phi_core_eq s s' d :
  st_tokens s' = st_tokens s -> (forall x, supply s' x = supply s x) ->
  inflight (st_tokens s) (st_pool s' ++ batch_txs (st_batches s')) d = inflight (st_tokens s) (st_pool s ++ batch_txs (st_batches s)) d ->
  phi s' d = phi s d.
Proof. intros Ht Hs Hi. unfold phi, batch_txs in *. rewrite Ht, Hs, Hi. reflexivity. Qed.

Lemma fold_status_fields sel : forall s,
  let r := fold_left (fun st e => set_tx_status st (s_txhash e) ST_BATCH_CREATED []) sel s in
  st_tokens r = st_tokens s /\ st_pool r = st_pool s /\ st_batches r = st_batches s /\ (forall x, supply r x = supply s x).
Proof.
  induction sel as [|e sel IH]; intro s; simpl; [repeat split; reflexivity|].
  destruct (IH (set_tx_status s (s_txhash e) ST_BATCH_CREATED [])) as [A [B [C D]]].
  destruct (stx_fields s (s_txhash e) ST_BATCH_CREATED []) as [A' [B' [C' D']]].
  repeat split; try congruence; try (intro x; rewrite D; apply D').
Qed.

(* BuildBatchTx *)
Lemma build_batch_phi s chain ext s' ob d :
  Inv s -> build_batch s chain ext = Ok (s', ob) -> phi s' d = phi s d.
Proof.
  intros HI H. unfold build_batch in H.
  destruct (firstn BATCH_SIZE (pool_of_coin chain ext (st_pool s))) as [|e0 sel] eqn:Esel; [inversion H; subst; reflexivity|].
  remember (e0 :: sel) as selected eqn:Eqsel.
  match type of H with bind ?r _ = _ => destruct r as [t|?|?]; cbn [bind] in H; try discriminate end.
  inversion H; subst s' ob; clear H.
  set (pool' := fold_left (fun p e => pool_delete e p) selected (st_pool s)).
  destruct (fold_status_fields selected (set_pool s pool')) as [F1 [F2 [F3 F4]]].
  apply phi_core_eq.
  - cbn [st_tokens set_batches set_out_seq set_last_batch_nonce]. rewrite F1. reflexivity.
  - intro x. unfold supply. cbn [st_supply set_batches set_out_seq set_last_batch_nonce]. apply F4.
  - cbn [st_pool st_batches set_batches set_out_seq set_last_batch_nonce]. rewrite F2, F3. cbn [st_pool st_batches set_pool].
    unfold batch_txs. rewrite map_app, concat_app. cbn [map concat b_txs]. rewrite app_nil_r.
    rewrite !inflight_app.
    assert (Hsub : forall e, In e selected -> In e (st_pool s)).
    { intros e He. rewrite <- Esel in He. apply firstn_incl in He. apply pool_of_coin_in in He. tauto. }
    assert (Hnd : NoDup (map ekey selected)).
    { rewrite <- Esel. rewrite <- firstn_map. apply NoDup_firstn. apply pool_of_coin_nodup. apply (inv_pool_nodup s HI). }
    unfold pool'. rewrite (inflight_fold_delete _ d selected (st_pool s) (inv_pool_nodup s HI) Hnd Hsub). lia.
Qed.

(* CancelBatchTx of a pending batch *)
Lemma inflight_remove_batch toks d b : forall bs,
  NoDup (map bkey bs) -> In b bs ->
  inflight toks (batch_txs (filter (fun x => negb (batch_is (b_chain b) (b_ext b) (b_nonce b) x)) bs)) d
  = inflight toks (batch_txs bs) d - inflight toks (b_txs b) d.
Proof.
  induction bs as [|x bs IH]; intros Hnd Hin; [contradiction|].
  simpl in Hnd. inversion Hnd as [|? ? Hnot Hnd']; subst. cbn [filter].
  destruct Hin as [->|Hin].
  - rewrite batch_is_self. cbn [negb]. unfold batch_txs. cbn [map concat]. rewrite inflight_app.
    assert (filter (fun x => negb (batch_is (b_chain b) (b_ext b) (b_nonce b) x)) bs = bs) as ->.
    { apply filter_true_all. intros y Hy. apply negb_true_iff. destruct (batch_is _ _ _ y) eqn:E; [|reflexivity].
      exfalso. apply batch_is_bkey in E. apply Hnot. 
      assert (bkey y = bkey b) as Ek by (rewrite E; unfold bkey; reflexivity).
      rewrite <- Ek. apply in_map. exact Hy. }
    fold (batch_txs bs). lia.
  - assert (batch_is (b_chain b) (b_ext b) (b_nonce b) x = false) as Ex.
    { destruct (batch_is _ _ _ x) eqn:E; [|reflexivity]. exfalso. apply batch_is_bkey in E. apply Hnot.
      assert (bkey x = bkey b) as Ek by (rewrite E; unfold bkey; reflexivity). rewrite Ek. apply in_map. exact Hin. }
    rewrite Ex. cbn [negb]. unfold batch_txs in *. cbn [map concat]. rewrite !inflight_app, IH by assumption. lia.
Qed.

Lemma cancel_batch_phi s b d : Inv s -> In b (st_batches s) -> phi (cancel_batch s b) d = phi s d.
Proof.
  intros HI Hin. apply phi_core_eq; [reflexivity | intro x; reflexivity |].
  unfold cancel_batch. cbn [st_pool st_batches set_batches set_pool]. rewrite fold_insert_eq.
  rewrite !inflight_app, inflight_rev, (inflight_remove_batch _ d b _ (inv_bkeys s HI) Hin). lia.
Qed.

(* the timeout sweep *)
Lemma fold_cancel_phi (p : batch -> bool) d l : forall s,
  Inv s -> NoDup (map bkey l) -> (forall x, In x l -> In x (st_batches s)) ->
  phi (fold_left (fun st b => if p b then cancel_batch st b else st) l s) d = phi s d.
Proof.
  induction l as [|a l IH]; simpl; intros s HI Hnd Hin; [reflexivity|].
  inversion Hnd as [|? ? Hnotin Hnd']; subst.
  destruct (p a) eqn:Hp.
  - assert (Ha : In a (st_batches s)) by auto.
    rewrite IH.
    + apply cancel_batch_phi; assumption.
    + apply cancel_batch_inv; auto.
    + exact Hnd'.
    + intros x Hx. apply cancel_batch_batches; auto; [apply (inv_bkeys s HI)|].
      split; auto. intros ->. apply Hnotin. apply in_map. exact Hx.
  - apply IH; auto.
Qed.

Lemma cleanup_timed_out_phi s chain d : Inv s -> phi (cleanup_timed_out s chain) d = phi s d.
Proof.
  intro HI. unfold cleanup_timed_out.
  apply (fold_cancel_phi (fun b => (beqb (b_chain b) chain && N.ltb (b_timeout b) (agetd 0%N chain (st_obs_ext_h s)))%bool) d
                         (st_batches s) s HI (inv_bkeys s HI)). auto.
Qed.

Lemma create_signer_set_phi s chain force d : phi (create_signer_set s chain force) d = phi s d.
Proof. unfold create_signer_set. destruct (_ || _)%bool; reflexivity. Qed.

Lemma create_batches_phi p s chain s' d :
  InvP p s -> In chain (p_chains p) -> create_batches s chain = Ok s' -> phi s' d = phi s d.
Proof.
  intros HI Hch H. unfold create_batches in H.
  destruct (N.eqb _ 0); [|inversion H; subst; reflexivity].
  revert H. apply (fold_res_inv (fun st => InvP p st /\ phi st d = phi s d)).
  - intros st ext st' [[Hst Hp] Hphi] Hf.
    destruct (build_batch st chain ext) as [[st2 ob]|?|?] eqn:Hb; simpl in Hf; try discriminate.
    inversion Hf; subst st'. split; [split|].
    + eapply build_batch_inv; [exact Hst| |exact Hb]. unfold KC. rewrite Hp. right. exact Hch.
    + rewrite (build_batch_params _ _ _ _ _ Hb). exact Hp.
    + rewrite (build_batch_phi _ _ _ _ _ d Hst Hb). exact Hphi.
  - intros s0 E. inversion E; subst s0. split; [exact HI | reflexivity].
Qed.

(* BeginBlocker (timeout sweep, signer sets, batch creation on every chain) leaves the potential of every
   asset exactly as it was *)
Lemma begin_block_phi p s force s' d :
  InvP p s -> begin_block s force = Ok s' -> phi s' d = phi s d.
Proof.
  intros HI H. unfold begin_block in H. destruct HI as [HI0 Hp0].
  assert (G : forall l, (forall c, In c l -> In c (p_chains p)) -> forall r s',
              (forall s0, r = Ok s0 -> InvP p s0 /\ phi s0 d = phi s d) ->
              fold_left (fun r chain => bind r (fun st =>
                 if beqb chain b_hub then Ok st
                 else create_batches (create_signer_set (if beqb chain b_minter then st else cleanup_timed_out st chain) chain force) chain))
                 l r = Ok s' -> InvP p s' /\ phi s' d = phi s d).
  { induction l as [|c l IH]; simpl; intros Hl r s2 Hr Hf; [apply Hr; exact Hf|].
    eapply IH; [auto| |exact Hf]. intros s0 E. destruct r as [st|?|?]; simpl in E; try discriminate.
    destruct (Hr st eq_refl) as [[Hst Hp] Hphi]. destruct (beqb c b_hub); [inversion E; subst s0; split; [split|]; assumption|].
    set (st1 := create_signer_set (if beqb c b_minter then st else cleanup_timed_out st c) c force) in *.
    assert (HP1 : InvP p st1).
    { split.
      - eapply Inv_core; [symmetry; apply create_signer_set_core|].
        destruct (beqb c b_minter); [exact Hst | apply cleanup_timed_out_inv; exact Hst].
      - unfold st1. rewrite <- (params_of_core _ _ (eq_sym (create_signer_set_core _ c force))).
        destruct (beqb c b_minter); [exact Hp | rewrite cleanup_timed_out_params; exact Hp]. }
    assert (Hphi1 : phi st1 d = phi s d).
    { unfold st1. rewrite create_signer_set_phi. destruct (beqb c b_minter); [exact Hphi | rewrite cleanup_timed_out_phi by exact Hst; exact Hphi]. }
    split.
    - eapply create_batches_inv; [exact HP1 | apply Hl; left; reflexivity | exact E].
    - rewrite (create_batches_phi p st1 c s0 d HP1 (Hl c (or_introl eq_refl)) E). exact Hphi1. }
  eapply G; [| |exact H]; [rewrite <- Hp0; auto|].
  intros s0 E. inversion E; subst s0. split; [split; auto | reflexivity].
Qed.

(* MsgRequestBatchTx *)
Lemma msg_request_batch_phi s chain denom s' d :
  Inv s -> msg_request_batch s chain denom = Ok s' -> phi s' d = phi s d.
Proof.
  intros HI H. unfold msg_request_batch in H. destruct (negb _); [discriminate|].
  destruct (denom_to_token _ _ _); [|discriminate].
  destruct (build_batch s chain (ti_ext t)) as [[s2 ob]|?|?] eqn:Hb; simpl in H; try discriminate.
  inversion H; subst s'. eapply build_batch_phi; eauto.
Qed.

(* ---------- createSendToExternal in general ---------- *)
Lemma create_send_phi s chain sender rcpt denom a f c h rc ra s' id d :
  tokens_ok (st_tokens s) -> 0 <= a -> 0 <= f -> 0 <= c ->
  create_send s chain sender rcpt denom a f c h rc ra = Ok (s', id) ->
  phi s' d <= phi s d /\ st_tokens s' = st_tokens s.
Proof.
  intros Htok Ha Hf Hc H. unfold create_send in H.
  destruct (denom_to_token (st_tokens s) chain denom) as [ti|] eqn:Ht; [|discriminate].
  destruct (denom_to_token_spec _ _ _ _ Ht) as [Hin [Hden Hch]].
  destruct (Htok ti Hin) as [Hext [Hid Hdec]].
  destruct (debit s sender denom _) as [s1|?|?] eqn:Hd; simpl in H; try discriminate.
  match type of H with (if ?g then _ else _) = _ => destruct g; [discriminate|] end.
  inversion H; subst s' id; clear H.
  unfold debit in Hd. destruct (_ <=? 0); [discriminate|]. destruct (_ <? _); [discriminate|]. inversion Hd; subst s1; clear Hd.
  split; [|reflexivity].
  unfold phi. cbn [st_tokens st_pool st_batches set_pool set_last_id set_supply set_bal pool_insert app].
  rewrite inflight_cons. unfold entry_denom, entry_value. cbn [s_tid s_chain s_ext s_token s_fee s_comm].
  rewrite Hid. unfold conv_from_ext, conv_to_ext. rewrite Hch in Hext. rewrite !Hext.
  unfold supply. cbn [st_supply set_pool set_last_id set_supply set_bal].
  destruct (beqb d (ti_denom ti)) eqn:Ed.
  - apply beqb_eq in Ed. subst d. rewrite Hden. rewrite agetd_aset_same.
    pose proof (round_trip_le (ti_dec ti) a f c Hdec Ha Hf Hc). unfold supply. lia.
  - apply beqb_neq in Ed. rewrite agetd_aset_other by (rewrite <- Hden; congruence). lia.
Qed.

(* ---------- cancel / expiry refund in general (listed token) ---------- *)
Lemma cancel_send_phi s chain id sender s' e t d :
  Inv s -> tokens_ok (st_tokens s) ->
  find_in_pool s chain id = Some e -> s_chain e = chain ->
  id_to_token (st_tokens s) (s_tid e) = Some t ->
  cancel_send s chain id sender = Ok s' ->
  phi s' d <= phi s d.
Proof.
  intros HI Htok Hf Hch Hid H. destruct (find_in_pool_some _ _ _ _ Hf) as [Hin _].
  unfold cancel_send in H. rewrite Hf in H.
  destruct (negb (beqb sender (s_sender e))); [discriminate|].
  match type of H with (if ?g then _ else _) = _ => destruct g; [discriminate|] end.
  match type of H with (if ?g then _ else _) = _ => destruct g eqn:Eneg; [discriminate|] end.
  assert (Hden : refund_denom s e = ti_denom t) by (unfold refund_denom; rewrite Hid; reflexivity).
  assert (Hval : conv_from_ext (st_tokens s) chain (s_ext e) (s_token e + s_fee e + s_comm e) = entry_value (st_tokens s) e)
    by (unfold entry_value; rewrite Hch; reflexivity).
  apply Z.ltb_ge in Eneg. rewrite Hval in *. rewrite Hden in *.
  set (V := entry_value (st_tokens s) e) in *.
  match type of H with bind ?r _ = _ => destruct r as [s1|?|?] eqn:Hr; cbn [bind] in H; try discriminate end.
  inversion H; subst s'; clear H.
  (* the state after the refund proper still holds the entry, satisfies the invariant, has the same
     token table, and its potential grew by at most the entry's value *)
  assert (A : In e (st_pool s1) /\ Inv s1 /\ st_tokens s1 = st_tokens s /\
              phi s1 d <= phi s d + (if beqb d (ti_denom t) then V else 0)).
  { destruct (beqb (s_refund_chain e) []) eqn:Q1.
    - destruct (0 <? V) eqn:Ep; inversion Hr; subst s1.
      + split; [exact Hin | split; [eapply Inv_core; [|exact HI]; reflexivity | split; [reflexivity | rewrite phi_credit; lia]]].
      + apply Z.ltb_ge in Ep. split; [exact Hin | split; [exact HI | split; [reflexivity | destruct (beqb d (ti_denom t)); lia]]].
    - destruct (beqb (s_refund_chain e) b_hub) eqn:Q2.
      + destruct (0 <? V) eqn:Ep; inversion Hr; subst s1.
        * split; [exact Hin | split; [eapply Inv_core; [|exact HI]; reflexivity | split; [reflexivity | rewrite phi_credit; lia]]].
        * apply Z.ltb_ge in Ep. split; [exact Hin | split; [exact HI | split; [reflexivity | destruct (beqb d (ti_denom t)); lia]]].
      + destruct (0 <? V) eqn:Ep.
        * apply Z.ltb_lt in Ep.
          match type of Hr with bind ?r _ = _ => destruct r as [[s2 i2]|?|?] eqn:Hc; cbn [bind] in Hr; try discriminate end.
          inversion Hr; subst s1; clear Hr.
          set (sc := credit s (p_temp (st_params s)) (ti_denom t) V) in *.
          destruct (create_send_phi sc _ _ _ _ V 0 0 _ _ _ s2 i2 d Htok ltac:(lia) ltac:(lia) ltac:(lia) Hc) as [Hle Ht2].
          assert (HIsc : Inv sc) by (eapply Inv_core; [|exact HI]; reflexivity).
          split; [|split; [|split]].
          -- pose proof Hc as Hc2. unfold create_send in Hc2. destruct (denom_to_token _ _ _); [|discriminate].
             match type of Hc2 with bind ?r _ = _ => destruct r as [s3|?|?] eqn:Hd; cbn [bind] in Hc2; try discriminate end.
             match type of Hc2 with (if ?g then _ else _) = _ => destruct g; [discriminate|] end.
             inversion Hc2; subst. simpl. right. apply core_debit in Hd. injection Hd as E1 _ _ _ _. rewrite E1. exact Hin.
          -- destruct (inv_chains s HI e ltac:(apply in_or_app; auto)) as [_ Hrc].
             eapply create_send_inv; [exact HIsc | | |exact Hc].
             ++ destruct Hrc as [Hq|[Hq|Hq]]; auto.
                ** apply beqb_neq in Q1. contradiction.
                ** apply beqb_neq in Q2. contradiction.
             ++ left. reflexivity.
          -- exact Ht2.
          -- unfold sc in Hle. rewrite phi_credit in Hle. exact Hle.
        * inversion Hr; subst s1. apply Z.ltb_ge in Ep. split; [exact Hin | split; [exact HI | split; [reflexivity | destruct (beqb d (ti_denom t)); lia]]]. }
  destruct A as [Hin1 [HI1 [Ht1 Hle1]]].
  destruct (stx_fields s1 (s_txhash e) ST_REFUNDED []) as [F1 [F2 [F3 F4]]].
  rewrite phi_set_pool, F1, F3, F4, ?F2, Ht1.
  rewrite inflight_app, (inflight_delete _ e _ d (inv_pool_nodup s1 HI1) Hin1).
  unfold entry_denom at 1. rewrite Hid. fold V.
  unfold phi in *. rewrite Ht1 in Hle1. rewrite !inflight_app in Hle1. rewrite (inflight_app _ (st_pool s)). lia.
Qed.

(* ---------- payouts at batch execution ---------- *)
Lemma minter_send_phi s to denom a tag s' d :
  tokens_ok (st_tokens s) -> 0 <= a -> minter_send s to denom a tag = Ok s' ->
  phi s' d <= phi s d /\ st_tokens s' = st_tokens s.
Proof.
  intros Htok Ha H. unfold minter_send in H.
  destruct (create_send s b_minter _ to denom a 0 0 tag [] []) as [[s2 i]|?|?] eqn:Hc; try discriminate.
  inversion H; subst. exact (create_send_phi s b_minter _ to denom a 0 0 tag [] [] s' i d Htok Ha ltac:(lia) ltac:(lia) Hc).
Qed.

Lemma set_feerec_phi s v d : phi (set_feerec s v) d = phi s d.
Proof. reflexivity. Qed.

Lemma pay_commissions_phi s denom total s' d :
  tokens_ok (st_tokens s) -> pay_commissions s denom total = Ok s' ->
  phi s' d <= phi s d + (if beqb d denom then Z.max total 0 else 0) /\ st_tokens s' = st_tokens s.
Proof.
  intros Htok H. unfold pay_commissions in H. destruct (total <=? 0) eqn:E0.
  { inversion H; subst. split; [destruct (beqb d denom); lia | reflexivity]. }
  apply Z.leb_gt in E0.
  set (s1 := credit s (p_temp (st_params s)) denom total) in *.
  assert (P1 : phi s1 d <= phi s d + (if beqb d denom then Z.max total 0 else 0) /\ st_tokens s1 = st_tokens s).
  { split; [unfold s1; rewrite phi_credit; destruct (beqb d denom); lia | reflexivity]. }
  revert H. apply (fold_res_inv (fun st => phi st d <= phi s d + (if beqb d denom then Z.max total 0 else 0) /\ st_tokens st = st_tokens s)).
  - intros st [addr power] st' [Hle Ht] Hf. destruct (_ =? 0); [discriminate|].
    destruct (negb _); [discriminate|]. destruct (_ <=? 0) eqn:Ea; [inversion Hf; subst; split; assumption|].
    apply Z.leb_gt in Ea.
    eapply (minter_send_phi st addr denom _ tag_commission st' d) in Hf as [A B]; [| rewrite Ht; exact Htok | lia].
    split; [lia | congruence].
  - intros s0 E. inversion E; subst s0. exact P1.
Qed.

Lemma fee_refunds_phi s b ti fl avg s' d :
  tokens_ok (st_tokens s) -> fee_refunds s b ti fl avg = Ok s' ->
  phi s' d <= phi s d /\ st_tokens s' = st_tokens s.
Proof.
  intros Htok H. unfold fee_refunds in H. destruct (_ <=? 0); [inversion H; subst; split; [lia | reflexivity]|].
  revert H. apply (fold_res_inv (fun st => phi st d <= phi s d /\ st_tokens st = st_tokens s)).
  - intros st e st' [Hle Ht] Hf. destruct (_ <? avg); [inversion Hf; subst; split; assumption|].
    destruct (negb (beqb _ b_minter)); [inversion Hf; subst; split; assumption|].
    destruct (_ <=? 0) eqn:Ea; [inversion Hf; subst; split; assumption|]. apply Z.leb_gt in Ea.
    destruct (minter_send st _ _ _ _) as [st1|?|?] eqn:Hm; simpl in Hf; try discriminate.
    pose proof Hm as Hm2. eapply (minter_send_phi st _ _ _ _ st1 d) in Hm2 as [A B]; [| rewrite Ht; exact Htok | lia].
    destruct (aget _ (st_feerec st1)) as [[vc ef]|]; [|discriminate].
    inversion Hf; subst. rewrite set_feerec_phi. split; [lia | simpl; congruence].
  - intros s0 E. inversion E; subst. split; [lia | reflexivity].
Qed.

Lemma pay_fees_phi s b ti tf fp payer s' d :
  tokens_ok (st_tokens s) -> pay_fees s b ti tf fp payer = Ok s' ->
  phi s' d <= phi s d + (if beqb d (ti_denom ti) then Z.max tf 0 else 0) /\ st_tokens s' = st_tokens s.
Proof.
  intros Htok H. unfold pay_fees in H.
  assert (Z0 : phi s d <= phi s d + (if beqb d (ti_denom ti) then Z.max tf 0 else 0)) by (destruct (beqb d (ti_denom ti)); lia).
  destruct (tf <=? 0) eqn:Etf; [inversion H; subst; split; [exact Z0 | reflexivity]|]. apply Z.leb_gt in Etf.
  destruct (if beqb (b_chain b) b_ethereum then Some b_eth else if beqb (b_chain b) b_bsc then Some b_bnb else None)
    as [base|]; [|inversion H; subst; split; [exact Z0 | reflexivity]].
  destruct (price s base) as [pb|]; [|discriminate].
  destruct (price s (ti_denom ti)) as [pt|]; [|discriminate].
  destruct (pt =? 0); [discriminate|]. destruct (_ <? 0) eqn:Eam; [discriminate|]. apply Z.ltb_ge in Eam.
  set (fee := reimb_fee (reimbursement fp pb pt) tf) in *.
  assert (Hfee : fee <= tf) by (unfold fee, reimb_fee; destruct (tf <=? _) eqn:E; [lia | apply Z.leb_gt in E; lia]).
  destruct (fee <=? 0) eqn:Ef; [inversion H; subst; split; [exact Z0 | reflexivity]|]. apply Z.leb_gt in Ef.
  set (s1 := credit s (p_temp (st_params s)) (ti_denom ti) fee) in *.
  match type of H with bind ?r _ = _ => destruct r as [s2|?|?] eqn:Hm; cbn [bind] in H; try discriminate end.
  pose proof Hm as Hm2. eapply (minter_send_phi s1 _ _ _ _ s2 d) in Hm2 as [A2 T2]; [| exact Htok | lia].
  assert (P2 : phi s2 d <= phi s d + (if beqb d (ti_denom ti) then fee else 0)).
  { unfold s1 in A2. rewrite phi_credit in A2. exact A2. }
  destruct (tf - fee <=? 0) eqn:El.
  { inversion H; subst. split; [destruct (beqb d (ti_denom ti)); lia | exact T2]. }
  apply Z.leb_gt in El.
  set (s3 := credit s2 (p_temp (st_params s)) (ti_denom ti) (tf - fee)) in *.
  destruct (fee_refunds_phi s3 b ti (tf - fee) _ s' d ltac:(simpl; rewrite T2; exact Htok) H) as [A4 T4].
  split; [|rewrite T4; simpl; exact T2].
  unfold s3 in A4. rewrite phi_credit in A4. destruct (beqb d (ti_denom ti)); lia.
Qed.

(* ---------- batchTxExecuted ---------- *)
Definition exec_mark (h : bytes) (st : state) (e : ste) : state :=
  let st' := set_tx_status st (s_txhash e) ST_BATCH_EXECUTED h in
  set_feerec st' (aset (s_txhash e) (s_comm e, s_fee e) (st_feerec st')).

Lemma exec_mark_phi h st e d : phi (exec_mark h st e) d = phi st d /\ st_tokens (exec_mark h st e) = st_tokens st.
Proof.
  unfold exec_mark. cbv zeta. rewrite set_feerec_phi. split; [apply phi_set_tx_status|].
  simpl. apply (stx_fields st (s_txhash e) ST_BATCH_EXECUTED h).
Qed.

Lemma fold_exec_phi txs h d : forall s,
  phi (fold_left (exec_mark h) txs s) d = phi s d /\ st_tokens (fold_left (exec_mark h) txs s) = st_tokens s.
Proof.
  induction txs as [|e txs IH]; intro s; cbn [fold_left]; [split; reflexivity|].
  destruct (IH (exec_mark h s e)) as [A B]. destruct (exec_mark_phi h s e d) as [C D].
  split; congruence.
Qed.

Lemma to_hub_linear dec x : 0 <= dec <= 18 -> to_hub dec x = x * pow10 (18 - dec).
Proof. intro H. unfold to_hub, HUB_DEC. apply convert_up. lia. Qed.

(* what the entries of one batch are worth: for a token with at most 18 external decimals the value is
   linear, so the batch's value is the value of its amounts plus its fees plus its commissions *)
Lemma batch_value_split toks ti chain b d :
  0 <= ti_dec ti <= 18 ->
  (forall e, In e (b_txs b) -> entry_denom toks e = Some (ti_denom ti) /\ s_chain e = chain /\ s_ext e = ti_ext ti) ->
  ext_to_token toks chain (ti_ext ti) = Some ti ->
  inflight toks (b_txs b) d =
  if beqb d (ti_denom ti)
  then to_hub (ti_dec ti) (zsum (map s_token (b_txs b))) + to_hub (ti_dec ti) (zsum (map s_fee (b_txs b)))
       + to_hub (ti_dec ti) (zsum (map s_comm (b_txs b)))
  else 0.
Proof.
  intros Hdec Hall Hext. rewrite !to_hub_linear by exact Hdec. set (k := pow10 (18 - ti_dec ti)).
  induction (b_txs b) as [|e l IH]; [unfold inflight; simpl; destruct (beqb d (ti_denom ti)); lia|].
  rewrite inflight_cons. destruct (Hall e (or_introl eq_refl)) as [Hd [Hc He]]. rewrite Hd.
  rewrite IH by (intros x Hx; apply Hall; right; exact Hx).
  unfold entry_value, conv_from_ext. rewrite Hc, He, Hext. rewrite to_hub_linear by exact Hdec. fold k.
  cbn [map zsum fold_right]. change (fold_right Z.add 0) with zsum.
  destruct (beqb d (ti_denom ti)); lia.
Qed.

Lemma fold_cancel_tokens (p : batch -> bool) l : forall s,
  st_tokens (fold_left (fun st b => if p b then cancel_batch st b else st) l s) = st_tokens s.
Proof. induction l as [|a l IH]; intro s; simpl; [reflexivity|]. destruct (p a); rewrite IH; reflexivity. Qed.

Lemma batch_executed_phi s chain ext nonce h fp payer s' d :
  Inv s -> tokens_ok (st_tokens s) ->
  (forall b ti, find (batch_is chain ext nonce) (st_batches s) = Some b ->
                ext_to_token (st_tokens s) chain (b_ext b) = Some ti ->
                ti_dec ti <= 18 /\
                forall e, In e (b_txs b) -> entry_denom (st_tokens s) e = Some (ti_denom ti) /\ 0 <= s_token e /\ 0 <= s_fee e /\ 0 <= s_comm e) ->
  batch_executed s chain ext nonce h fp payer = Ok s' ->
  phi s' d <= phi s d.
Proof.
  intros HI Htok Hb H. unfold batch_executed in H.
  destruct (find (batch_is chain ext nonce) (st_batches s)) as [b|] eqn:Hf; [|inversion H; subst; lia].
  specialize (Hb b). pose proof Hf as Hf0. apply find_some in Hf as [Hbin Hbis].
  assert (Hkey : chain = b_chain b /\ ext = b_ext b /\ nonce = b_nonce b).
  { unfold batch_is in Hbis. apply andb_true_iff in Hbis as [X3 X4]. apply andb_true_iff in X3 as [X1 X2].
    apply beqb_eq in X1, X2. apply N.eqb_eq in X4. auto. }
  destruct Hkey as [Kc [Ke Kn]].
  match type of H with context [if beqb chain b_minter then s else ?f] => set (s1 := if beqb chain b_minter then s else f) in * end.
  assert (H1 : Inv s1 /\ phi s1 d = phi s d /\ st_tokens s1 = st_tokens s /\ In b (st_batches s1)).
  { unfold s1. destruct (beqb chain b_minter); [split; [exact HI | split; [reflexivity | split; [reflexivity | exact Hbin]]]|].
    set (p := fun x => (beqb (b_chain x) chain && N.ltb (b_nonce x) (b_nonce b) && beqb (b_ext x) (b_ext b))%bool).
    destruct (fold_cancel_inv p (st_batches s) s HI (inv_bkeys s HI) ltac:(auto)) as [G1 G2].
    split; [exact G1|]. split; [apply (fold_cancel_phi p d (st_batches s) s HI (inv_bkeys s HI)); auto|].
    split; [apply fold_cancel_tokens|].
    apply G2. split; [exact Hbin|]. intros [_ Hp]. unfold p in Hp. rewrite N.ltb_irrefl, andb_false_r in Hp. discriminate. }
  destruct H1 as [HI1 [P1 [T1 Hb1]]].
  destruct (ext_to_token (st_tokens s) chain (b_ext b)) as [ti|] eqn:Hext; [|discriminate].
  destruct (Hb ti eq_refl eq_refl) as [Hdec Hent].
  destruct (negb _); [discriminate|].
  match type of H with bind ?r _ = _ => destruct r as [s4|?|?] eqn:Hp; cbn [bind] in H; try discriminate end.
  set (s2 := set_batches s1 (filter (fun x => negb (batch_is chain ext nonce x)) (st_batches s1))) in *.
  match type of Hp with pay_commissions ?x _ _ = _ => set (s3 := x) in * end.
  destruct (fold_exec_phi (b_txs b) h d s2) as [P3 T3]. change (fold_left (exec_mark h) (b_txs b) s2) with s3 in P3, T3.
  assert (Ht2 : st_tokens s2 = st_tokens s) by (unfold s2; simpl; exact T1).
  destruct (pay_commissions_phi s3 _ _ s4 d ltac:(rewrite T3, Ht2; exact Htok) Hp) as [P4 T4].
  destruct (pay_fees_phi s4 b ti _ fp payer s' d ltac:(rewrite T4, T3, Ht2; exact Htok) H) as [P5 T5].
  (* removing the batch *)
  assert (P2 : phi s2 d = phi s1 d - inflight (st_tokens s) (b_txs b) d).
  { unfold s2, phi. cbn [st_tokens st_pool st_batches set_batches]. rewrite T1.
    fold (batch_txs (filter (fun x => negb (batch_is chain ext nonce x)) (st_batches s1))). fold (batch_txs (st_batches s1)).
    rewrite !inflight_app. rewrite Kc, Ke, Kn.
    rewrite (inflight_remove_batch (st_tokens s) d b _ (inv_bkeys s1 HI1) Hb1). unfold supply. simpl. lia. }
  assert (Hdec' : 0 <= ti_dec ti <= 18).
  { split; [|exact Hdec]. apply find_some in Hext as [Hin _]. destruct (Htok ti Hin) as [_ [_ Hd]]. lia. }
  assert (Hti : ext_to_token (st_tokens s) chain (ti_ext ti) = Some ti).
  { apply find_some in Hext as [Hin Hq]. destruct (Htok ti Hin) as [Hx _]. apply andb_true_iff in Hq as [Q1 _]. apply beqb_eq in Q1. rewrite <- Q1. exact Hx. }
  assert (Hext2 : b_ext b = ti_ext ti).
  { apply find_some in Hext as [_ Hq]. apply andb_true_iff in Hq as [_ Q2]. apply beqb_eq in Q2. congruence. }
  rewrite (batch_value_split (st_tokens s) ti chain b d Hdec') in P2.
  2:{ intros e He. destruct (Hent e He) as [A _]. destruct (inv_batch_own s HI b e Hbin He) as [B C]. repeat split; congruence. }
  2:{ exact Hti. }
  unfold conv_from_ext in P4, P5. rewrite Hti in P4, P5.
  rewrite !to_hub_linear in * by exact Hdec'.
  pose proof (pow10_pos (18 - ti_dec ti) ltac:(lia)) as Hk. set (k := pow10 (18 - ti_dec ti)) in *.
  assert (0 <= zsum (map s_token (b_txs b))) by (apply zsum_nonneg; apply Forall_forall; intros x Hx; apply in_map_iff in Hx as [e [<- He]]; apply (Hent e He)).
  assert (0 <= zsum (map s_fee (b_txs b))) by (apply zsum_nonneg; apply Forall_forall; intros x Hx; apply in_map_iff in Hx as [e [<- He]]; apply (Hent e He)).
  assert (0 <= zsum (map s_comm (b_txs b))) by (apply zsum_nonneg; apply Forall_forall; intros x Hx; apply in_map_iff in Hx as [e [<- He]]; apply (Hent e He)).
  destruct (beqb d (ti_denom ti)); nia.
Qed.

(* ---------- external events ---------- *)
(* what an event locks for asset d: the converted amount of a deposit / transfer of a listed token *)
Definition dep_value (toks : list token_info) (chain : bytes) (e : event) (d : bytes) : Z :=
  match e with
  | EvDeposit _ coin amount _ _ _ _ | EvTransfer _ coin amount _ _ _ _ _ _ _ =>
      match ext_to_token toks chain coin with
      | Some t => if beqb d (ti_denom t) then to_hub (ti_dec t) amount else 0
      | None => 0
      end
  | _ => 0
  end.

(* the hypotheses under which an execution claim is accounted for: the executed batch's token has at most
   18 external decimals and its entries carry the token's denom and non-negative amounts *)
Definition exec_ok (s : state) (chain : bytes) (e : event) : Prop :=
  match e with
  | EvBatchExecuted _ coin bn _ _ _ _ =>
      forall b ti, find (batch_is chain coin bn) (st_batches s) = Some b ->
                   ext_to_token (st_tokens s) chain (b_ext b) = Some ti ->
                   ti_dec ti <= 18 /\
                   forall x, In x (b_txs b) -> entry_denom (st_tokens s) x = Some (ti_denom ti) /\ 0 <= s_token x /\ 0 <= s_fee x /\ 0 <= s_comm x
  | _ => True
  end.

Lemma handle_deposit_tokens s chain coin amount recv h s' :
  handle_deposit s chain coin amount recv h = Ok s' -> st_tokens s' = st_tokens s.
Proof.
  unfold handle_deposit. destruct (ext_to_token _ _ _); [|discriminate].
  destruct (negb _); [discriminate|]. destruct (_ <? 0); [discriminate|]. destruct (negb _); [discriminate|]. destruct (_ =? 0); [discriminate|].
  intro H. inversion H; subst. match goal with |- st_tokens (set_tx_status ?x _ _ _) = _ => destruct (stx_fields x h ST_DEPOSIT_RECEIVED []) as [F _]; rewrite F end. reflexivity.
Qed.

Lemma handle_event_phi s chain e s' d :
  Inv s -> tokens_ok (st_tokens s) -> exec_ok s chain e ->
  handle_event s chain e = Ok s' ->
  phi s' d <= phi s d + dep_value (st_tokens s) chain e d.
Proof.
  intros HI Htok Hex H. destruct e as [n coin amount sender receiver hh txhash|n coin amount fee sender rchain receiver hh txhash rhub|n coin bn hh txhash fp payer|n hh]; cbn [handle_event] in H.
  - destruct (handle_deposit_phi _ _ _ _ _ _ _ d H) as [ti [Et Ep]]. unfold dep_value. rewrite Et, Ep. lia.
  - destruct (negb (chain_ok _ rchain)); [discriminate|]. destruct (beqb rchain b_hub).
    + destruct (negb (fits256 amount)); [discriminate|].
      destruct (handle_deposit_phi _ _ _ _ _ _ _ d H) as [ti [Et Ep]]. unfold dep_value. rewrite Et, Ep. lia.
    + destruct (handle_deposit s chain coin amount (p_temp (st_params s)) txhash) as [s1|?|?] eqn:Hd; cbn [bind] in H; try discriminate.
      destruct (handle_deposit_phi _ _ _ _ _ _ _ d Hd) as [ti [Et Ep]]. pose proof (handle_deposit_tokens _ _ _ _ _ _ _ Hd) as Ht1.
      rewrite Et in H.
      destruct (denom_to_token (st_tokens s) rchain (ti_denom ti)) as [rti|]; [|discriminate].
      match type of H with (if ?g then _ else _) = _ => destruct g; [discriminate|] end.
      match type of H with (if ?g then _ else _) = _ => destruct g eqn:E1; [discriminate|] end.
      match type of H with (if ?g then _ else _) = _ => destruct g eqn:E2; [discriminate|] end.
      match type of H with (if ?g then _ else _) = _ => destruct g eqn:E3; [discriminate|] end.
      match type of H with (if ?g then _ else _) = _ => destruct g eqn:E4; [discriminate|] end.
      apply Z.ltb_ge in E1, E2, E3, E4.
      match type of H with bind ?r _ = _ => destruct r as [[s2 i2]|?|?] eqn:Hc; cbn [bind] in H; try discriminate end.
      inversion H; subst s'; clear H.
      eapply (create_send_phi s1 _ _ _ _ _ _ _ _ _ _ s2 i2 d) in Hc as [A _]; [| rewrite Ht1; exact Htok | lia | lia | lia].
      unfold dep_value. rewrite Et. lia.
  - unfold dep_value. rewrite Z.add_0_r. eapply batch_executed_phi; [exact HI | exact Htok | exact Hex | exact H].
  - inversion H; subst. unfold dep_value. lia.
Qed.
