From V Require Import Base.Prelude Base.Val Num.Arith Hub.Types Hub.Model Proofs.ListX.
Local Open Scope Z_scope.

(* reimbursement = min(1.5 * gas cost in token, total fee) *)
Lemma c19_reimbursement amount total_fee :
  reimb_fee amount total_fee <= total_fee /\ reimb_fee amount total_fee <= amount /\
  (0 <= amount -> 0 <= total_fee -> 0 <= reimb_fee amount total_fee).
Proof. unfold reimb_fee. destruct (Z.leb_spec total_fee amount); repeat split; lia. Qed.

Definition goods (avg : Z) (cs : list Z) : list Z := filter (fun c => avg <=? c) cs.

(* the pro-rata refunds never hand out more than the fee surplus *)
Lemma c19_refund_sum fee_left avg cs :
  0 <= fee_left -> Forall (fun c => 0 <= c) cs -> 0 < zsum (goods avg cs) ->
  zsum (map (fun c => refund_share fee_left c (zsum (goods avg cs))) (goods avg cs)) <= fee_left.
Proof.
  intros Hf Hc Hg. set (G := zsum (goods avg cs)) in *.
  assert (Hgs : Forall (fun c => 0 <= c) (goods avg cs)).
  { apply Forall_forall. intros c Hin. apply filter_In in Hin as [Hin _]. eapply Forall_forall in Hc; eauto. }
  assert (K : forall l, Forall (fun c => 0 <= c) l ->
                        zsum (map (fun c => refund_share fee_left c G) l) * G <= fee_left * zsum l).
  { induction l as [|c l IH]; simpl; intro Hl; [lia|]. inversion Hl; subst.
    specialize (IH H2). unfold refund_share at 1.
    pose proof (Z.mul_div_le (fee_left * c) G Hg). nia. }
  specialize (K _ Hgs). fold G in K. nia.
Qed.

(* for tokens with at most 18 external decimals (conversion to hub units is exact, so the total
   fee is the sum of the converted fees) nobody is refunded more than the fee they paid *)
Lemma sum_split avg cs : zsum cs = zsum (goods avg cs) + zsum (filter (fun c => negb (avg <=? c)) cs).
Proof. induction cs as [|c cs IH]; simpl; [reflexivity|]. destruct (avg <=? c); simpl; lia. Qed.

Lemma bad_sum_bound avg cs :
  0 <= avg -> Forall (fun c => 0 <= c) cs ->
  zsum (filter (fun c => negb (avg <=? c)) cs) <= avg * Z.of_nat (length cs).
Proof.
  intros Ha. induction 1 as [|c cs Hc _ IH]; simpl; [lia|].
  destruct (Z.leb_spec avg c); simpl; lia.
Qed.

Lemma c19_refund_le_fee F cs c :
  Forall (fun c => 0 <= c) cs -> 0 < F <= zsum cs -> cs <> [] ->
  let n := Z.of_nat (length cs) in
  let avg := quo_trunc F n in
  let good := zsum (goods avg cs) in
  let fee_left := zsum cs - F in
  In c cs -> avg <= c -> 0 < good ->
  0 <= refund_share fee_left c good <= c.
Proof.
  intros Hc HF Hne n avg good fee_left Hin Hge Hgood.
  assert (Hn : 0 < n) by (unfold n; destruct cs; [contradiction | simpl; lia]).
  assert (Havg : 0 <= avg /\ avg * n <= F).
  { unfold avg, quo_trunc. rewrite Z.quot_div_nonneg by lia.
    split; [apply Z.div_pos; lia | rewrite Z.mul_comm; apply Z.mul_div_le; lia]. }
  assert (Hc0 : 0 <= c) by (eapply Forall_forall in Hc; eauto).
  assert (Hle : fee_left <= good).
  { unfold fee_left, good. rewrite (sum_split avg cs).
    pose proof (bad_sum_bound avg cs (proj1 Havg) Hc). fold n in H. lia. }
  unfold refund_share. split.
  - apply Z.div_pos; [|lia]. unfold fee_left. nia.
  - apply Z.div_le_upper_bound; [lia|]. nia.
Qed.

(* commission payouts: proportional to power (floor) and within the commission collected *)
Lemma c19_commission_sum total powers :
  0 <= total -> Forall (fun p => 0 <= p) powers -> 0 < zsum powers ->
  zsum (map (fun p => commission_share total p (zsum powers)) powers) <= total /\
  Forall (fun p => 0 <= commission_share total p (zsum powers)) powers.
Proof.
  intros Ht Hp Hs. set (P := zsum powers) in *. split.
  - assert (K : forall l, Forall (fun p => 0 <= p) l ->
                          zsum (map (fun p => commission_share total p P) l) * P <= total * zsum l).
    { induction l as [|p l IH]; simpl; intro Hl; [lia|]. inversion Hl; subst. specialize (IH H2).
      unfold commission_share at 1. pose proof (Z.mul_div_le (total * p) P Hs). nia. }
    specialize (K _ Hp). fold P in K. nia.
  - apply Forall_forall. intros p Hin. pose proof (proj1 (Forall_forall _ _) Hp p Hin) as Hp0. simpl in Hp0.
    unfold commission_share. apply Z.div_pos; nia.
Qed.

(* the fee record (external units): fee minus the refund converted to external units *)
Lemma c19_fee_record d fee r :
  0 <= d <= 18 -> 0 <= fee -> 0 <= r <= to_hub d fee ->
  0 <= fee - to_ext d r <= fee.
Proof.
  intros Hd Hf Hr. unfold to_hub, to_ext, HUB_DEC in *.
  rewrite convert_up in Hr by lia. rewrite convert_down by lia.
  pose proof (pow10_pos (18 - d) ltac:(lia)) as Hp.
  assert (0 <= r / pow10 (18 - d)) by (apply Z.div_pos; lia).
  assert (r / pow10 (18 - d) <= fee) by (apply Z.div_le_upper_bound; lia).
  lia.
Qed.

(* with more than 18 external decimals the per-user bound fails (known finding): 19 decimals,
   fees 10, 9, 9, 9 (i.e. 1.0, 0.9, 0.9, 0.9 hub units), reimbursement 1 *)
Lemma c19_refund_gt18_refuted :
  exists d fees F fee,
    18 < d <= 24 /\
    let cs := map (to_hub d) fees in
    let total := to_hub d (zsum fees) in
    let avg := quo_trunc F (Z.of_nat (length cs)) in
    let good := zsum (goods avg cs) in
    0 < F <= total /\ 0 < good /\
    In fee fees /\ avg <= to_hub d fee /\
    to_ext d (refund_share (total - F) (to_hub d fee) good) > fee.
Proof.
  exists 19, [10; 9; 9; 9], 1, 10. vm_compute. repeat split; auto; congruence.
Qed.
