(* C08, hub side: no signer set that has not been superseded by an OBSERVED execution ever leaves the store. *)
From V Require Import Base.Prelude Base.Val Num.Arith Hub.SignerSet Hub.Prune Proofs.ListX.
From Coq Require Import ZifyN ZifyNat ZifyBool.
Local Open Scope N_scope.

Definition obs_le (o : option N) (m : N) : Prop := match o with Some x => x <= m | None => True end.

(* every nonce above m up to the latest one is stored; the observed nonce never exceeds m *)
Definition PInv (s : pstate) (m : N) : Prop :=
  (forall n, m < n <= ss_latest_nonce (ps_sets s) -> In n (map fst (ps_stored s))) /\ obs_le (ps_observed s) m.

Lemma begin_block_sets_nonce ss h lu vals ss' :
  begin_block_sets ss h lu vals = Ok ss' ->
  ss_latest_nonce ss' = ss_latest_nonce ss \/ ss_latest_nonce ss' = ss_latest_nonce ss + 1.
Proof.
  unfold begin_block_sets, create_set. intro H.
  destruct (ss_latest ss) as [[[a b] l]|].
  - destruct (current_signer_set vals) as [cur|?|?]; simpl in H; try discriminate.
    destruct (_ || _)%bool; inversion H; subst; simpl; auto.
  - destruct (current_signer_set vals) as [cur|?|?]; simpl in H; try discriminate.
    inversion H; subst; simpl; auto.
Qed.

Lemma prune_keeps w height o stored n :
  obs_le o n -> In n (map fst stored) -> In n (map fst (prune w height o stored)).
Proof.
  intros Ho Hin. unfold prune. destruct o as [x|]; [|exact Hin]. destruct (N.ltb height w); [exact Hin|].
  apply in_map_iff in Hin as [[a b] [E Hin]]. simpl in E. subst a.
  apply in_map_iff. exists (n, b). split; [reflexivity|]. apply filter_In. split; [exact Hin|].
  simpl in *. assert (N.ltb n x = false) as -> by (apply N.ltb_ge; exact Ho). reflexivity.
Qed.

Lemma pbegin_inv w s height vals s' m : PInv s m -> pbegin w s height vals = Ok s' -> PInv s' m.
Proof.
  intros [Hst Hobs] H. unfold pbegin in H.
  assert (Hv : ss_latest_nonce (visible s) = ss_latest_nonce (ps_sets s)) by (unfold visible; destruct (ps_stored s); reflexivity).
  destruct (begin_block_sets (visible s) height 0 vals) as [ss'|?|?] eqn:Hb; simpl in H; try discriminate.
  inversion H; subst s'; clear H. split; [|exact Hobs]. cbn [ps_sets ps_stored ps_observed].
  intros n Hn. apply prune_keeps.
  - destruct (ps_observed s) as [x|]; simpl in *; lia.
  - destruct (begin_block_sets_nonce _ _ _ _ _ Hb) as [E|E]; rewrite Hv in E.
    + rewrite E, N.eqb_refl. apply Hst. lia.
    + assert (N.eqb (ss_latest_nonce ss') (ss_latest_nonce (ps_sets s)) = false) as -> by (apply N.eqb_neq; lia).
      rewrite map_app. apply in_or_app. destruct (N.eq_dec n (ss_latest_nonce ss')) as [->|Hne].
      * right. left. reflexivity.
      * left. apply Hst. lia.
Qed.

Lemma fold_obs_le executed : forall o m, obs_le o m ->
  obs_le (fold_left (fun _ n => Some n) executed o) (fold_left N.max executed m).
Proof.
  induction executed as [|x l IH]; intros o m H; simpl; [exact H|]. apply IH. simpl. lia.
Qed.

Lemma fold_max_ge l : forall m, m <= fold_left N.max l m.
Proof. induction l as [|x l IH]; intro m; simpl; [lia|]. specialize (IH (N.max m x)). lia. Qed.

Lemma pend_inv s executed m : PInv s m -> PInv (pend s executed) (fold_left N.max executed m).
Proof.
  intros [Hst Hobs]. split; cbn [pend ps_sets ps_stored ps_observed].
  - intros n Hn. apply Hst. pose proof (fold_max_ge executed m). lia.
  - apply fold_obs_le. exact Hobs.
Qed.

Definition block_max (m : N) (b : N * list bval * list N) : N := fold_left N.max (snd b) m.

Lemma pblock_inv w s b m : PInv s m -> PInv (fst (pblock w s b)) (block_max m b).
Proof.
  intro HI. destruct b as [[height vals] executed]. unfold pblock, block_max. cbn [snd].
  destruct (pbegin w s height vals) as [s1|?|?] eqn:Hb; cbn [fst]; apply pend_inv; try exact HI.
  eapply pbegin_inv; eauto.
Qed.

Definition maxobs_of (blocks : list (N * list bval * list N)) : N := fold_left block_max blocks 0.

Lemma prun_inv_from w blocks : forall s m, PInv s m ->
  PInv (fold_left (fun s b => fst (pblock w s b)) blocks s) (fold_left block_max blocks m).
Proof.
  induction blocks as [|b blocks IH]; intros s m HI; simpl; [exact HI|]. apply IH. apply pblock_inv. exact HI.
Qed.

Theorem unexecuted_sets_stay_stored w blocks n :
  let s := prun w blocks in
  maxobs_of blocks < n <= ss_latest_nonce (ps_sets s) -> In n (map fst (ps_stored s)).
Proof.
  intros s Hn. assert (HI : PInv pinit 0) by (split; [simpl; intros; lia | exact I]).
  destruct (prun_inv_from w blocks pinit 0 HI) as [Hst _]. apply Hst. exact Hn.
Qed.

(* and a set that does leave the store was below the observed nonce and older than the window *)
Theorem pruned_only_below_observed w height o stored nh :
  In nh stored -> ~ In nh (prune w height o stored) ->
  exists x, o = Some x /\ fst nh < x /\ snd nh < height - w /\ w <= height.
Proof.
  intros Hin Hnot. unfold prune in Hnot. destruct o as [x|]; [|contradiction].
  destruct (N.ltb height w) eqn:Ew; [contradiction|]. apply N.ltb_ge in Ew.
  exists x. split; [reflexivity|].
  destruct (N.ltb (fst nh) x && N.ltb (snd nh) (height - w))%bool eqn:E.
  - apply andb_true_iff in E as [A B]. apply N.ltb_lt in A, B. auto.
  - exfalso. apply Hnot. apply filter_In. split; [exact Hin | rewrite E; reflexivity].
Qed.
