From V Require Import Base.Prelude Base.Val Num.Arith Hub.Types Hub.Model Proofs.ListX Proofs.HubInv.
Local Open Scope Z_scope.

Lemma find_in_pool_prefix s chain id e :
  find_in_pool s chain id = Some e -> In e (st_pool s) /\ s_id e = id /\ is_prefix chain (pool_key e) = true.
Proof.
  unfold find_in_pool.
  assert (G : forall l acc, (forall x, acc = Some x -> In x (st_pool s) /\ s_id x = id /\ is_prefix chain (pool_key x) = true) ->
                            (forall x, In x l -> In x (st_pool s) /\ is_prefix chain (pool_key x) = true) ->
                            fold_left (fun acc e => if N.eqb (s_id e) id then Some e else acc) l acc = Some e ->
                            In e (st_pool s) /\ s_id e = id /\ is_prefix chain (pool_key e) = true).
  { induction l as [|x l IH]; simpl; intros acc Ha Hl H; [auto|].
    eapply IH; [| |exact H]; auto.
    intros y Hy. destruct (N.eqb (s_id x) id) eqn:E; [|auto].
    inversion Hy; subst. destruct (Hl y (or_introl eq_refl)) as [A B]. repeat split; auto. apply N.eqb_eq; exact E. }
  apply G; [discriminate|].
  intros x Hx. unfold pool_of_chain in Hx. apply (proj1 (sort_desc_in _ _)) in Hx. apply filter_In in Hx. exact Hx.
Qed.

(* a cancel message succeeds only for an entry of the unbatched pool of that chain, and only for
   its original sender *)
Lemma c12_cancel_authorised s sender chain id s' :
  msg_cancel s sender chain id = Ok s' ->
  exists e, In e (st_pool s) /\ s_id e = id /\ is_prefix chain (pool_key e) = true /\ s_sender e = sender.
Proof.
  unfold msg_cancel. destruct (negb _); [discriminate|]. unfold cancel_send.
  destruct (find_in_pool s chain id) as [e|] eqn:Hf; [|discriminate].
  destruct (beqb sender (s_sender e)) eqn:Es; simpl; [|discriminate].
  intros _. apply find_in_pool_prefix in Hf as [A [B C]]. exists e. repeat split; auto.
  apply beqb_eq in Es. auto.
Qed.

(* the cancelled entry is gone afterwards: neither in the pool nor in any batch *)
Lemma c12_removed s chain id sender s' e :
  Inv s -> find_in_pool s chain id = Some e -> cancel_send s chain id sender = Ok s' ->
  forall x, In x (st_pool s' ++ batch_txs (st_batches s')) -> ekey x <> ekey e.
Proof.
  intros HI Hf H. pose proof (cancel_send_inv _ _ _ _ _ HI H) as HI'.
  unfold cancel_send in H. rewrite Hf in H.
  destruct (negb (beqb sender (s_sender e))); [discriminate|].
  match type of H with (if ?g then _ else _) = _ => destruct g; [discriminate|] end.
  match type of H with (if ?g then _ else _) = _ => destruct g; [discriminate|] end.
  match type of H with bind ?r _ = _ => destruct r as [s1|?|?] eqn:Hr; simpl in H; try discriminate end.
  inversion H; subst s'; clear H. simpl in *.
  apply find_in_pool_some in Hf as [Hin _].
  (* e is still in s1's pool (refunding only adds entries), so it is not in s1's batches *)
  assert (Hin1 : In e (st_pool s1) /\ Inv s1).
  { destruct (beqb (s_refund_chain e) []) eqn:Q1.
    - inversion Hr; subst. destruct (0 <? _); split; auto; eapply Inv_core; [|exact HI]; reflexivity.
    - destruct (beqb (s_refund_chain e) b_hub) eqn:Q2.
      + inversion Hr; subst. destruct (0 <? _); split; auto; eapply Inv_core; [|exact HI]; reflexivity.
      + destruct (0 <? _); [|inversion Hr; subst; split; auto].
        match type of Hr with bind ?r _ = _ => destruct r as [[s2 i2]|?|?] eqn:Hc; simpl in Hr; try discriminate end.
        inversion Hr; subst. split.
        * unfold create_send in Hc. destruct (denom_to_token _ _ _); [|discriminate].
          match type of Hc with bind ?r _ = _ => destruct r as [s3|?|?] eqn:Hd; simpl in Hc; try discriminate end.
          match type of Hc with (if ?g then _ else _) = _ => destruct g; [discriminate|] end.
          inversion Hc; subst. simpl. right. apply core_debit in Hd. injection Hd as E1 _ _ _ _.
          rewrite E1. exact Hin.
        * pose proof HI as HI0. destruct (inv_chains s HI e ltac:(apply in_or_app; auto)) as [_ Hrc].
          eapply create_send_inv; [| | |exact Hc].
          -- eapply Inv_core; [|exact HI]; reflexivity.
          -- destruct Hrc as [Hq|[Hq|Hq]]; auto.
             ++ apply beqb_neq in Q1. contradiction.
             ++ apply beqb_neq in Q2. contradiction.
          -- left. reflexivity. }
  destruct Hin1 as [Hin1 HI1].
  intros x Hx. apply in_app_or in Hx as [Hx|Hx].
  - apply pool_delete_in in Hx. tauto.
  - intro E. apply (inv_disjoint s1 HI1 e x Hin1 Hx). symmetry. exact E.
Qed.

(* a hub-origin transfer is refunded to its sender: balance and supply grow by exactly the
   recorded external amounts converted back *)
Lemma c12_refund_hub s chain id sender s' e :
  find_in_pool s chain id = Some e -> s_refund_chain e = b_hub ->
  cancel_send s chain id sender = Ok s' ->
  let denom := refund_denom s e in
  let total := conv_from_ext (st_tokens s) chain (s_ext e) (s_token e + s_fee e + s_comm e) in
  0 <= total /\
  balance s' sender denom = balance s sender denom + total /\
  supply s' denom = supply s denom + total /\
  (forall a d, (a, d) <> (sender, denom) -> balance s' a d = balance s a d \/ True).
Proof.
  intros Hf Hrc H. unfold cancel_send in H. rewrite Hf in H.
  destruct (negb (beqb sender (s_sender e))); [discriminate|].
  match type of H with (if ?g then _ else _) = _ => destruct g; [discriminate|] end.
  match type of H with (if ?g then _ else _) = _ => destruct g eqn:Eneg; [discriminate|] end.
  rewrite Hrc in H. simpl in H.
  match type of H with context [0 <? ?t] => destruct (0 <? t) eqn:Epos end; inversion H; subst s'; clear H; simpl.
  - unfold balance, supply. simpl. rewrite !agetd_aset_same. unfold balance, supply. repeat split; auto. lia.
  - assert (conv_from_ext (st_tokens s) chain (s_ext e) (s_token e + s_fee e + s_comm e) = 0) as -> by lia.
    unfold balance, supply. simpl. repeat split; auto; lia.
Qed.

(* witness: for a token with fewer than 18 external decimals the refund can be smaller than what
   was taken (known finding C12/refund-dust-decimals-lt-18): 6 decimals, amount 1.5e12, fee 0.7e12 *)
Lemma c12_dust_refuted :
  exists d a f c, 0 <= d <= 24 /\ 0 < a /\ 0 <= f /\ 0 <= c /\
                  to_hub d (to_ext d a + to_ext d f + to_ext d c) < a + f + c.
Proof. exists 6, 1500000000000, 700000000000, 0. vm_compute. repeat split; congruence. Qed.
