(* Monitor for the oracle suite (C18): the property's predicates evaluated on the implementation's
   observations.  The monitor keeps its own bookkeeping from the operations alone (latest accepted
   report per validator account in the observed epoch, staking input) and never consults the
   model's state. *)
From V Require Import Base.Prelude Base.Val Num.Arith Oracle.Oracle.
From Coq Require Import String Ascii.
Local Open Scope Z_scope.

Fixpoint sb (s : string) : bytes := match s with EmptyString => [] | String a r => N_of_ascii a :: sb r end.
Definition okey (s : string) : val := VB (sb s).
Definition oviol (key : val) (step : nat) (detail : list val) : val := VL (key :: VI (Z.of_nat step) :: detail).

Definition k_c18_outside := Eval vm_compute in okey "C18/change-outside-epoch-boundary".
Definition k_c18_epoch := Eval vm_compute in okey "C18/epoch-step".
Definition k_c18_pquorum := Eval vm_compute in okey "C18/prices-changed-without-quorum".
Definition k_c18_hquorum := Eval vm_compute in okey "C18/holders-changed-without-quorum".
Definition k_c18_median := Eval vm_compute in okey "C18/price-not-weighted-median".
Definition k_c18_two_thirds := Eval vm_compute in okey "C18/holders-without-two-thirds".

Record oobs := mkOobs {
  oo_code : Z;
  oo_epoch : N;
  oo_prices : option (list (bytes * Z));
  oo_holders : option (list (bytes * Z))
}.
Definition dec_oobs (v : val) : oobs :=
  let st := vnth 1 v in
  mkOobs (vI (vnth 0 v)) (vN (vnth 0 st))
         (match vL (vnth 1 st) with p :: _ => Some (dec_pairs p) | [] => None end)
         (match vL (vnth 2 st) with h :: _ => Some (dec_pairs (VL (tl (vL h)))) | [] => None end).
Definition oobs0 : oobs := mkOobs 0 1 None None.

Record otrack := mkOtrack {
  ot_vals : list oval;
  ot_prices : list (bytes * list (bytes * Z));    (* account -> latest accepted price report of the observed epoch *)
  ot_holders : list (bytes * list (bytes * Z))
}.

Definition pairs_eqb (a b : list (bytes * Z)) : bool :=
  Nat.eqb (List.length a) (List.length b)
  && forallb (fun p : bytes * Z => existsb (fun q : bytes * Z => beqb (fst p) (fst q) && (snd p =? snd q)) b) a
  && forallb (fun p : bytes * Z => existsb (fun q : bytes * Z => beqb (fst p) (fst q) && (snd p =? snd q)) a) b.
Definition opt_pairs_eqb (a b : option (list (bytes * Z))) : bool :=
  match a, b with
  | Some x, Some y => pairs_eqb x y
  | None, None => true
  | _, _ => false
  end.
(* prices are an ordered list *)
Fixpoint plist_eqb (a b : list (bytes * Z)) : bool :=
  match a, b with
  | [], [] => true
  | x :: a', y :: b' => beqb (fst x) (fst y) && (snd x =? snd y) && plist_eqb a' b'
  | _, _ => false
  end.
Definition opt_plist_eqb (a b : option (list (bytes * Z))) : bool :=
  match a, b with
  | Some x, Some y => plist_eqb x y
  | None, None => true
  | _, _ => false
  end.

(* stake of a validator account: bonded power, first entry *)
Definition stake_of (vals : list oval) (acc : bytes) : Z :=
  match find (fun v => beqb (ov_id v) acc) vals with Some v => if ov_bonded v then ov_power v else 0 | None => 0 end.
Definition stake_total (vals : list oval) : Z := zsum (map (fun v => if ov_bonded v then ov_power v else 0) vals).
Definition weight_of (vals : list oval) (acc : bytes) : Z :=
  let t := stake_total vals in
  match find (fun v => beqb (ov_id v) acc && ov_bonded v) vals with
  | Some v => if t =? 0 then 0 else ov_power v * 65535 / t
  | None => 0 end.

Definition mon_oracle_step (step : nat) (o : oop) (prev cur : oobs) (t : otrack) : list val :=
  let same_out := N.eqb (oo_epoch cur) (oo_epoch prev) && opt_plist_eqb (oo_prices cur) (oo_prices prev)
                  && opt_pairs_eqb (oo_holders cur) (oo_holders prev) in
  match o with
  | OEndBlock h =>
      if N.eqb (h mod 5) 0 then
        (if N.eqb (oo_epoch cur) (oo_epoch prev + 1) then [] else [oviol k_c18_epoch step [vNat (oo_epoch prev); vNat (oo_epoch cur)]])
        ++ (if opt_plist_eqb (oo_prices cur) (oo_prices prev) then []
            else
              let total := stake_total (ot_vals t) in
              let reported := zsum (map (fun c : bytes * list (bytes * Z) => stake_of (ot_vals t) (fst c)) (ot_prices t)) in
              (if 66 * total <=? 100 * reported then [] else [oviol k_c18_pquorum step [VI reported; VI total]])
              ++ flat_map (fun nm : bytes * Z =>
                             let samples := flat_map (fun c : bytes * list (bytes * Z) =>
                                                        map (fun p : bytes * Z => (snd p, weight_of (ot_vals t) (fst c)))
                                                            (filter (fun p : bytes * Z => beqb (fst p) (fst nm)) (snd c))) (ot_prices t) in
                             match wmedian samples with
                             | Some m => if m =? snd nm then [] else [oviol k_c18_median step [VB (fst nm); VI (snd nm); VI m]]
                             | None => [oviol k_c18_median step [VB (fst nm); VI (snd nm)]]
                             end)
                          (match oo_prices cur with Some l => l | None => [] end))
        ++ (if opt_pairs_eqb (oo_holders cur) (oo_holders prev) then []
            else
              let total := stake_total (ot_vals t) in
              let reported := zsum (map (fun c : bytes * list (bytes * Z) => stake_of (ot_vals t) (fst c)) (ot_holders t)) in
              let adopted := match oo_holders cur with Some l => l | None => [] end in
              let agreeing := zsum (map (fun c : bytes * list (bytes * Z) =>
                                           if pairs_eqb (snd c) adopted then stake_of (ot_vals t) (fst c) else 0) (ot_holders t)) in
              (if 66 * total <=? 100 * reported then [] else [oviol k_c18_hquorum step [VI reported; VI total]])
              ++ (if 2 * total <? 3 * agreeing then [] else [oviol k_c18_two_thirds step [VI agreeing; VI total]]))
      else if same_out then [] else [oviol k_c18_outside step []]
  | OPrice acc e _ | OHolders acc e _ =>
      if same_out then [] else [oviol k_c18_outside step []]
  | OSetVals _ => if same_out then [] else [oviol k_c18_outside step []]
  end.

(* bookkeeping: a report counts when it was accepted (code 0), names the observed epoch and comes
   from a validator account; a later report of the same account replaces the earlier one *)
Definition otrack_step (o : oop) (prev cur : oobs) (t : otrack) : otrack :=
  let is_val acc := existsb (fun v => beqb (ov_id v) acc) (ot_vals t) in
  match o with
  | OPrice acc e p =>
      if (oo_code cur =? 0) && N.eqb e (oo_epoch prev) && is_val acc
      then mkOtrack (ot_vals t) (aset acc p (ot_prices t)) (ot_holders t) else t
  | OHolders acc e h =>
      if (oo_code cur =? 0) && N.eqb e (oo_epoch prev) && is_val acc
      then mkOtrack (ot_vals t) (ot_prices t) (aset acc h (ot_holders t)) else t
  | OEndBlock h => if N.eqb (h mod 5) 0 then mkOtrack (ot_vals t) [] [] else t
  | OSetVals vals => mkOtrack vals (ot_prices t) (ot_holders t)
  end.

Fixpoint omon_fold (step : nat) (ops : list val) (outs : list val) (prev : oobs) (t : otrack) : list val :=
  match ops, outs with
  | ov :: ops', v :: outs' =>
      let o := dec_oop ov in
      let cur := dec_oobs v in
      mon_oracle_step step o prev cur t ++ omon_fold (S step) ops' outs' cur (otrack_step o prev cur t)
  | _, _ => []
  end.

Definition mon_C18 (c impl : val) : val :=
  VL (omon_fold 0 (vL (vnth 1 c)) (vL impl) oobs0 (mkOtrack [] [] [])).

(* C15 on the oracle module: which outputs survive the genesis round trip *)
Definition k_c15_epoch := Eval vm_compute in okey "C15/lost:oracle-epoch".
Definition k_c15_claims := Eval vm_compute in okey "C15/lost:oracle-claims-of-running-epoch".
Definition k_c15_prices := Eval vm_compute in okey "C15/lost:oracle-prices".
Definition k_c15_holders := Eval vm_compute in okey "C15/lost:oracle-holders".
Definition mon_C15_oracle (c impl : val) : val :=
  let outs := vL impl in
  VL (snd (fold_left
    (fun (acc : nat * list val) (ov : val) =>
       let i := fst acc in
       (S i, snd acc ++
             (if (vI (vnth 0 ov) =? 5) && Nat.ltb 0 i then
                let b := nth (i - 1) outs (VL []) in
                let a := nth i outs (VL []) in
                let ob := dec_oobs b in let oa := dec_oobs a in
                (if N.eqb (oo_epoch oa) (oo_epoch ob) then [] else [VL [k_c15_epoch; VI (Z.of_nat i); vNat (oo_epoch ob); vNat (oo_epoch oa)]])
                ++ (if veqb (vnth 3 (vnth 1 b)) (vnth 3 (vnth 1 a)) && veqb (vnth 4 (vnth 1 b)) (vnth 4 (vnth 1 a)) then []
                    else [VL [k_c15_claims; VI (Z.of_nat i)]])
                ++ (if opt_plist_eqb (oo_prices oa) (oo_prices ob) then [] else [VL [k_c15_prices; VI (Z.of_nat i)]])
                ++ (if opt_pairs_eqb (oo_holders oa) (oo_holders ob) then [] else [VL [k_c15_holders; VI (Z.of_nat i)]])
              else [])))
    (vL (vnth 1 c)) (O, []))).
