(* Oracle module model (C18): epochs, price / holder claims, attestation quorum, stake-weighted
   median, holders tally.  Mirrors module/x/oracle/keeper/{msg_server,attestation,
   attestation_handler,keeper}.go and abci.go (after the fix: commits). *)
From V Require Import Base.Prelude Base.Val Num.Arith.
Local Open Scope Z_scope.

(* A validator is identified by the raw address bytes that its operator address (stored in the
   attestation's vote list) and its account address (the claim's orchestrator field) share. *)
Record oval := mkOval { ov_id : bytes; ov_power : Z; ov_bonded : bool }.

Record ostate := mkOs {
  os_epoch : N;
  os_price_claims : list (bytes * list (bytes * Z));    (* validator -> latest price claim of the epoch *)
  os_price_votes : list bytes;                           (* validators, arrival order, no duplicates *)
  os_holder_claims : list (bytes * list (bytes * Z));   (* validator -> latest holders claim (address, value) *)
  os_holder_votes : list bytes;
  os_prices : option (list (bytes * Z));                 (* stored prices *)
  os_holders : option (list (bytes * Z));                (* stored holders *)
  os_vals : list oval;                                   (* staking input *)
  os_required : list bytes                               (* required price names: eth, ethereum/gas, bnb, bsc/gas, token denoms *)
}.

Definition oinit (required : list bytes) : ostate := mkOs 1 [] [] [] [] None None [] required.

Definition is_val (s : ostate) (id : bytes) : bool := existsb (fun v => beqb (ov_id v) id) (os_vals s).
Definition bonded_power (v : oval) : Z := if ov_bonded v then ov_power v else 0.
Definition power_raw (s : ostate) (id : bytes) : Z :=
  match find (fun v => beqb (ov_id v) id) (os_vals s) with Some v => bonded_power v | None => 0 end.
Definition total_raw (s : ostate) : Z := zsum (map bonded_power (os_vals s)).

(* GetNormalizedValPowers: bonded validators only, p * 65535 / total *)
Definition norm_power (s : ostate) (id : bytes) : Z :=
  if total_raw s =? 0 then 0 else power_raw s id * 65535 / total_raw s.

Definition add_vote (votes : list bytes) (v : bytes) : list bytes :=
  if existsb (beqb v) votes then votes else votes ++ [v].

Definition has_required (s : ostate) (prices : list (bytes * Z)) : bool :=
  forallb (fun r => existsb (fun p : bytes * Z => beqb (fst p) r && (0 <? snd p)) prices) (os_required s).

(* MsgPriceClaim *)
Definition price_claim (s : ostate) (id : bytes) (epoch : N) (prices : list (bytes * Z)) : res ostate :=
  if negb (is_val s id) then Err 1
  else if negb (N.eqb (os_epoch s) epoch) then Ok s                      (* silently ignored *)
  else if negb (has_required s prices) then Err 2
  else Ok (mkOs (os_epoch s) (aset id prices (os_price_claims s)) (add_vote (os_price_votes s) id)
                (os_holder_claims s) (os_holder_votes s) (os_prices s) (os_holders s) (os_vals s) (os_required s)).

Definition holders_claim (s : ostate) (id : bytes) (epoch : N) (holders : list (bytes * Z)) : res ostate :=
  if negb (is_val s id) then Err 1
  else if negb (N.eqb (os_epoch s) epoch) then Ok s
  else Ok (mkOs (os_epoch s) (os_price_claims s) (os_price_votes s)
                (aset id holders (os_holder_claims s)) (add_vote (os_holder_votes s) id)
                (os_prices s) (os_holders s) (os_vals s) (os_required s)).

(* tryAttestation: 66% (rounded up) of the total power among the votes, in order *)
Fixpoint reaches (s : ostate) (required : Z) (votes : list bytes) (acc : Z) : bool :=
  match votes with
  | [] => false
  | v :: rest => let acc' := acc + power_raw s v in if required <=? acc' then true else reaches s required rest acc'
  end.
Definition required_power (s : ostate) : Z := (66 * total_raw s + 99) / 100.
Definition quorum (s : ostate) (votes : list bytes) : bool := reaches s (required_power s) votes 0.

(* ---------- weighted median ---------- *)
(* (value, weight) pairs sorted by value; the element at position k (0-based) of the multiset in
   which each value occurs weight times *)
Fixpoint insert_vw (x : Z * Z) (l : list (Z * Z)) : list (Z * Z) :=
  match l with
  | [] => [x]
  | y :: l' => if fst x <=? fst y then x :: l else y :: insert_vw x l'
  end.
Definition sort_vw (l : list (Z * Z)) : list (Z * Z) := fold_right insert_vw [] l.
Fixpoint at_pos (l : list (Z * Z)) (k : Z) : Z :=
  match l with
  | [] => 0
  | (v, w) :: rest => if k <? w then v else at_pos rest (k - w)
  end.
Definition positive_weight (p : Z * Z) : bool := 0 <? snd p.
Definition wtotal (l : list (Z * Z)) : Z := zsum (map snd l).
Definition wmedian (pairs : list (Z * Z)) : option Z :=
  let l := sort_vw (filter positive_weight pairs) in
  let W := wtotal l in
  if W =? 0 then None
  else if Z.even W then Some (quo_trunc (at_pos l (W / 2) + at_pos l (W / 2 - 1)) 2)
  else Some (at_pos l (W / 2)).

(* sort.Strings over the names that got at least one sample *)
Fixpoint insert_name (x : bytes) (l : list bytes) : list bytes :=
  match l with
  | [] => [x]
  | y :: l' => match bcmp x y with Lt => x :: l | Eq => l | Gt => y :: insert_name x l' end
  end.

(* every (name, (value, weight)) of the voters' latest claims *)
Definition psamples (s : ostate) : list (bytes * (Z * Z)) :=
  flat_map (fun id => match aget id (os_price_claims s) with
                      | Some prices => map (fun p : bytes * Z => (fst p, (snd p, norm_power s id))) prices
                      | None => []
                      end) (os_price_votes s).
Definition reports_of (s : ostate) (name : bytes) : list (Z * Z) :=
  map snd (filter (fun x : bytes * (Z * Z) => beqb (fst x) name) (psamples s)).
Definition pnames (s : ostate) : list bytes :=
  fold_left (fun acc (x : bytes * (Z * Z)) => if 0 <? snd (snd x) then insert_name (fst x) acc else acc) (psamples s) [].
Definition price_handler (s : ostate) : list (bytes * Z) :=
  flat_map (fun n => match wmedian (reports_of s n) with Some m => [(n, m)] | None => [] end) (pnames s).

(* holders: lists are compared after sorting their "address:value" strings; here: in the canonical
   order given by the harness (the stabilized form), compared by equality *)
Definition hsame (a b : list (bytes * Z)) : bool :=
  Nat.eqb (length a) (length b)
  && forallb (fun p : (bytes * Z) * (bytes * Z) => beqb (fst (fst p)) (fst (snd p)) && (snd (fst p) =? snd (snd p))) (combine a b).
Definition hclaims (s : ostate) : list (list (bytes * Z) * Z) :=
  flat_map (fun id => match aget id (os_holder_claims s) with
                      | Some h => [(h, norm_power s id)] | None => [] end) (os_holder_votes s).
Definition agree_weight (s : ostate) (h : list (bytes * Z)) : Z :=
  zsum (map (fun c : list (bytes * Z) * Z => if hsame h (fst c) then snd c else 0) (hclaims s)).
Definition TWO_THIRDS : Z := 43690.      (* math.MaxUint16 * 2 / 3 *)
Definition holders_handler (s : ostate) : option (list (bytes * Z)) :=
  (* the last claim of each distinct list stands for it; at most one list can exceed 2/3 *)
  match find (fun c : list (bytes * Z) * Z => TWO_THIRDS <? agree_weight s (fst c)) (rev (hclaims s)) with
  | Some c => Some (fst c)
  | None => None
  end.

(* ProcessCurrentEpoch *)
Definition process_epoch (s : ostate) : ostate :=
  let prices' := match os_price_votes s with
                 | [] => os_prices s
                 | _ => if quorum s (os_price_votes s) then Some (price_handler s) else os_prices s end in
  let holders' := match os_holder_votes s with
                  | [] => os_holders s
                  | _ => if quorum s (os_holder_votes s) then
                           match holders_handler s with Some h => Some h | None => os_holders s end
                         else os_holders s end in
  mkOs (os_epoch s + 1) [] [] [] [] prices' holders' (os_vals s) (os_required s).

Inductive oop :=
| OPrice (acc : bytes) (epoch : N) (prices : list (bytes * Z))
| OHolders (acc : bytes) (epoch : N) (holders : list (bytes * Z))
| OEndBlock (height : N)
| OSetVals (vals : list oval).

Definition ostep (s : ostate) (o : oop) : ostate * N :=
  match o with
  | OPrice a e p => match price_claim s a e p with Ok s' => (s', 0%N) | Err _ => (s, 1%N) | Panic _ => (s, 2%N) end
  | OHolders a e h => match holders_claim s a e h with Ok s' => (s', 0%N) | Err _ => (s, 1%N) | Panic _ => (s, 2%N) end
  | OEndBlock h => (if N.eqb (h mod 5) 0 then process_epoch s else s, 0%N)
  | OSetVals vals => (mkOs (os_epoch s) (os_price_claims s) (os_price_votes s) (os_holder_claims s) (os_holder_votes s)
                           (os_prices s) (os_holders s) vals (os_required s), 0%N)
  end.
Definition orun (s : ostate) (ops : list oop) : ostate := fold_left (fun st o => fst (ostep st o)) ops s.

(* ---------- codec ---------- *)
Definition dec_pairs (v : val) : list (bytes * Z) := map (fun x => (vB (vnth 0 x), vI (vnth 1 x))) (vL v).
Definition dec_oop (v : val) : oop :=
  match vI (vnth 0 v) with
  | 1 => OPrice (vB (vnth 1 v)) (vN (vnth 2 v)) (dec_pairs (vnth 3 v))
  | 2 => OHolders (vB (vnth 1 v)) (vN (vnth 2 v)) (dec_pairs (vnth 3 v))
  | 3 => OEndBlock (vN (vnth 1 v))
  | _ => OSetVals (map (fun x => mkOval (vB (vnth 0 x)) (vI (vnth 1 x)) (vgetbool (vnth 2 x))) (vL (vnth 1 v)))
  end.
Definition enc_pairs (l : list (bytes * Z)) : val := VL (map (fun p : bytes * Z => VL [VB (fst p); VI (snd p)]) l).
Definition oset (l : list val) : val := VL (VB [115;101;116]%N :: l).
Definition enc_ostate (s : ostate) : val :=
  VL [ vNat (os_epoch s);
       (* an empty stored list marshals to zero bytes and reads back as "nothing stored" *)
       match os_prices s with Some ((_ :: _) as p) => VL [enc_pairs p] | _ => VL [] end;
       match os_holders s with Some ((_ :: _) as h) => VL [oset (map (fun p : bytes * Z => VL [VB (fst p); VI (snd p)]) h)] | _ => VL [] end;
       VL (map VB (os_price_votes s)); VL (map VB (os_holder_votes s)) ].
Definition oracle_run (c : val) : val :=
  VL (snd (fold_left (fun (acc : ostate * list val) o =>
                        let (s, out) := acc in
                        let (s', code) := ostep s o in
                        (s', out ++ [VL [vNat code; enc_ostate s']]))
                     (map dec_oop (vL (vnth 1 c))) (oinit (map vB (vL (vnth 0 c))), []))).

(* ---------- genesis export / import of the oracle module (C15) ---------- *)
(* x/oracle/keeper/genesis.go: params, prices and holders are exported; InitGenesis sets the epoch
   to 1; the claims and vote lists of the running epoch have no genesis field *)
Definition orestart (s : ostate) : ostate :=
  mkOs 1 [] [] [] [] (os_prices s) (os_holders s) (os_vals s) (os_required s).
Definition oraclegen_run (c : val) : val :=
  VL (snd (fold_left (fun (acc : ostate * list val) (ov : val) =>
                        let (s, out) := acc in
                        if vI (vnth 0 ov) =? 5 then (orestart s, out ++ [VL [VI 0; enc_ostate (orestart s)]])
                        else let (s', code) := ostep s (dec_oop ov) in (s', out ++ [VL [vNat code; enc_ostate s']]))
                     (vL (vnth 1 c)) (oinit (map vB (vL (vnth 0 c))), []))).
