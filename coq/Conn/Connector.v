(* Minter connector (C20): command validation and the persisted scan cursor.
   Mirrors minter-connector/command/command.go (ValidateAndComplete),
   minter-connector/minter/minter.go (GetLatestMinterBlockAndNonce),
   minter-connector/context/context.go (LoadStatus / Commit) and the event numbering of
   relayMinterEvents in cmd/mhub-minter-connector/main.go (after the fix: commits). *)
From V Require Import Base.Prelude Base.Val Num.Arith.
Local Open Scope Z_scope.

(* ---------- text ---------- *)
Definition is_digit (c : N) : bool := (48 <=? c)%N && (c <=? 57)%N.
Definition is_hex_digit (c : N) : bool :=
  is_digit c || ((97 <=? c)%N && (c <=? 102)%N) || ((65 <=? c)%N && (c <=? 70)%N).

(* decimal digits, most significant first *)
Fixpoint digits_val (acc : Z) (l : bytes) : option Z :=
  match l with
  | [] => Some acc
  | c :: r => if is_digit c then digits_val (acc * 10 + (Z.of_N c - 48)) r else None
  end.

(* big.Int.SetString(s, 10) / strconv.Atoi syntax: optional sign, at least one digit *)
Definition parse_dec (s : bytes) : option Z :=
  match s with
  | [] => None
  | 45%N :: r => match r with [] => None | _ => option_map Z.opp (digits_val 0 r) end
  | 43%N :: r => match r with [] => None | _ => digits_val 0 r end
  | _ => digits_val 0 s
  end.

(* math/big Int.SetString(s, 0), as used by sdk.NewIntFromString: optional sign; prefix 0x/0X, 0b/0B,
   0o/0O or a leading 0 (octal); underscores may separate digits (and a prefix from a digit); the whole
   string must be consumed *)
Definition digit_of (c : N) : option Z :=
  if is_digit c then Some (Z.of_N c - 48)
  else if (97 <=? c)%N && (c <=? 122)%N then Some (Z.of_N c - 87)
  else if (65 <=? c)%N && (c <=? 90)%N then Some (Z.of_N c - 55)
  else None.
Inductive prevch := PDot | PDigit | PSep.
Fixpoint scan_digits (b : Z) (l : bytes) (prev : prevch) (count : nat) (inval : bool) (acc : Z) : option Z :=
  match l with
  | [] => match prev with
          | PSep => None
          | _ => if inval then None else match count with O => None | _ => Some acc end
          end
  | c :: r =>
      if N.eqb c 95 then scan_digits b r PSep count (inval || match prev with PDigit => false | _ => true end) acc
      else match digit_of c with
           | Some d => if d <? b then scan_digits b r PDigit (S count) inval (acc * b + d) else None
           | None => None
           end
  end.
Definition scan_nat0 (r : bytes) : option Z :=
  match r with
  | [48%N] => Some 0
  | 48%N :: c :: r' =>
      if N.eqb c 98 || N.eqb c 66 then scan_digits 2 r' PDigit 0 false 0
      else if N.eqb c 111 || N.eqb c 79 then scan_digits 8 r' PDigit 0 false 0
      else if N.eqb c 120 || N.eqb c 88 then scan_digits 16 r' PDigit 0 false 0
      else scan_digits 8 (c :: r') PDigit 0 false 0
  | _ => scan_digits 10 r PDot 0 false 0
  end.
Definition parse_base0 (s : bytes) : option Z :=
  match s with
  | 45%N :: r => option_map Z.opp (scan_nat0 r)
  | 43%N :: r => scan_nat0 r
  | _ => scan_nat0 s
  end.

(* sdk.NewIntFromString: at most 256 bits of magnitude *)
Definition parse_sdk_int (s : bytes) : option Z :=
  match parse_base0 s with
  | Some z => if Z.abs z <? 2 ^ 256 then Some z else None
  | None => None
  end.

(* strconv.Atoi on a 64-bit platform *)
Definition parse_atoi (s : bytes) : option Z :=
  match parse_dec s with
  | Some z => if (- 2 ^ 63 <=? z) && (z <? 2 ^ 63) then Some z else None
  | None => None
  end.

(* common.IsHexAddress: optional 0x / 0X, then exactly 40 hex digits *)
Definition strip_0x (s : bytes) : bytes :=
  match s with
  | 48%N :: 120%N :: r => r
  | 48%N :: 88%N :: r => r
  | _ => s
  end.
Definition is_hex_address (s : bytes) : bool :=
  let r := strip_0x s in Nat.eqb (length r) 40 && forallb is_hex_digit r.

Definition t_send_to_eth : bytes := Eval vm_compute in map Z.to_N [115;101;110;100;95;116;111;95;101;116;104;101;114;101;117;109].
Definition t_send_to_bsc : bytes := Eval vm_compute in map Z.to_N [115;101;110;100;95;116;111;95;98;115;99].
Definition t_send_to_hub : bytes := Eval vm_compute in map Z.to_N [115;101;110;100;95;116;111;95;104;117;98].

(* Command.ValidateAndComplete: nil error?  bech_ok is sdk.AccAddressFromBech32's verdict on the
   recipient (an input: bech32 is not modelled) *)
Definition cmd_valid (ty rcpt fee : bytes) (amount : Z) (bech_ok : bool) : bool :=
  (if beqb ty t_send_to_eth || beqb ty t_send_to_bsc then is_hex_address rcpt
   else if beqb ty t_send_to_hub then bech_ok else false)
  && match parse_sdk_int fee with
     | Some f => (0 <=? f) && (f <? amount - quo_trunc amount 100)
     | None => false
     end.

(* ---------- Minter transactions as the connector sees them ---------- *)
Inductive mtx :=
| TSend (to_msig json_ok : bool) (ty rcpt fee : bytes) (amount : Z) (bech_ok : bool)
| TMulti (from_msig : bool)
| TEdit (from_msig : bool) (payload : bytes)
| TOther.

Inductive bev := BDeposit | BBatch | BValset (nonce : Z) | BNone.

Definition classify (t : mtx) : bev :=
  match t with
  | TSend to_msig json_ok ty rcpt fee amount bech_ok =>
      if to_msig && json_ok && cmd_valid ty rcpt fee amount bech_ok then BDeposit else BNone
  | TMulti from_msig => if from_msig then BBatch else BNone
  | TEdit from_msig payload =>
      if from_msig then match parse_atoi payload with Some n => BValset (n mod 2 ^ 64) | None => BNone end   (* uint64(nonce) *)
      else BNone
  | TOther => BNone
  end.
Definition is_event (t : mtx) : bool := match classify t with BNone => false | _ => true end.

Record cursor := mkCur { cu_block : Z; cu_nonce : Z; cu_batch : Z; cu_valset : Z }.

Definition apply_ev (c : cursor) (e : bev) : cursor :=
  match e with
  | BDeposit => mkCur (cu_block c) (cu_nonce c + 1) (cu_batch c) (cu_valset c)
  | BBatch => mkCur (cu_block c) (cu_nonce c + 1) (cu_batch c + 1) (cu_valset c)
  | BValset n => mkCur (cu_block c) (cu_nonce c + 1) (cu_batch c) n
  | BNone => c
  end.
Definition at_block (c : cursor) (h : Z) : cursor := mkCur h (cu_nonce c) (cu_batch c) (cu_valset c).

(* a whole block *)
Definition scan_txs (c : cursor) (txs : list mtx) : cursor := fold_left (fun c t => apply_ev c (classify t)) txs c.

(* resync: a block is scanned until an event is met whose nonce the hub has not acknowledged
   (0 < ack < next nonce); None = stopped inside this block *)
Fixpoint scan_until (ack : Z) (c : cursor) (txs : list mtx) : option cursor :=
  match txs with
  | [] => Some c
  | t :: r => if is_event t then
                if (0 <? ack) && (ack <? cu_nonce c) then None else scan_until ack (apply_ev c (classify t)) r
              else scan_until ack c r
  end.

(* blocks h, h+1, ... ; returns the cursor and whether anything was committed to the status file *)
Fixpoint resync_blocks (ack : Z) (c : cursor) (h : Z) (blocks : list (list mtx)) (committed : bool) : cursor * bool :=
  match blocks with
  | [] => (c, committed)
  | txs :: rest =>
      match scan_until ack c txs with
      | None => (at_block c (h - 1), true)               (* the nonces of the block's start are kept *)
      | Some c' => resync_blocks ack (at_block c' h) (h + 1) rest true
      end
  end.

(* the blocks with heights first+1 .. latest of a chain whose first block has height 1 *)
Definition blocks_between (chain : list (list mtx)) (first latest : Z) : list (list mtx) :=
  skipn (Z.to_nat first) (firstn (Z.to_nat latest) chain).

Definition resync (chain : list (list mtx)) (c : cursor) (ack latest : Z) : cursor * bool :=
  resync_blocks ack c (cu_block c + 1) (blocks_between chain (cu_block c) latest) false.

(* relayMinterEvents: every block up to latest (at most 100 per round) is scanned completely, each
   event is claimed with the current next nonce *)
Definition relay_block (c : cursor) (txs : list mtx) : cursor * list (Z * bev) :=
  fold_left (fun (acc : cursor * list (Z * bev)) t =>
               match classify t with
               | BNone => acc
               | e => (apply_ev (fst acc) e, snd acc ++ [(cu_nonce (fst acc), e)])
               end) txs (c, []).
Fixpoint relay_blocks (c : cursor) (h : Z) (blocks : list (list mtx)) : cursor * list (Z * bev) :=
  match blocks with
  | [] => (c, [])
  | txs :: rest =>
      let (c1, claims1) := relay_block (at_block c h) txs in
      let (c2, claims2) := relay_blocks c1 (h + 1) rest in
      (c2, claims1 ++ claims2)
  end.
Definition relay (chain : list (list mtx)) (c : cursor) (latest : Z) : cursor * list (Z * bev) :=
  relay_blocks c (cu_block c + 1) (blocks_between chain (cu_block c) (Z.min latest (cu_block c + 100))).

(* ---------- the status file over restarts ---------- *)
Inductive sfile := FNone | FCorrupt | FOk (c : cursor).
Definition load (start : cursor) (f : sfile) : cursor := match f with FOk c => c | _ => start end.

Inductive cop := CResync (ack latest : Z) | CCorrupt | CRemove.

Definition cstep (start : cursor) (chain : list (list mtx)) (f : sfile) (o : cop) : sfile * option cursor :=
  match o with
  | CResync ack latest =>
      let (c, committed) := resync chain (load start f) ack latest in
      (if committed then FOk c else f, Some c)
  | CCorrupt => (FCorrupt, None)
  | CRemove => (FNone, None)
  end.

(* ---------- codec ---------- *)
Definition dec_mtx (v : val) : mtx :=
  match vI (vnth 0 v) with
  | 1 => TSend (vgetbool (vnth 1 v)) (vgetbool (vnth 2 v)) (vB (vnth 3 v)) (vB (vnth 4 v)) (vB (vnth 5 v)) (vI (vnth 6 v)) (vgetbool (vnth 7 v))
  | 2 => TMulti (vgetbool (vnth 1 v))
  | 3 => TEdit (vgetbool (vnth 1 v)) (vB (vnth 2 v))
  | _ => TOther
  end.
Definition dec_cop (v : val) : cop :=
  match vI (vnth 0 v) with
  | 1 => CResync (vI (vnth 1 v)) (vI (vnth 2 v))
  | 2 => CCorrupt
  | _ => CRemove
  end.
Definition enc_cursor (c : cursor) : val := VL [VI (cu_block c); VI (cu_nonce c); VI (cu_batch c); VI (cu_valset c)].
Definition enc_sfile (f : sfile) : val :=
  match f with FNone => VL [] | FCorrupt => VL [VI (-1)] | FOk c => enc_cursor c end.

Definition conn_run (c : val) : val :=
  let cfg := vnth 0 c in
  let start := mkCur (vI (vnth 0 cfg)) (vI (vnth 1 cfg)) (vI (vnth 2 cfg)) (vI (vnth 3 cfg)) in
  let chain := map (fun b => map dec_mtx (vL b)) (vL (vnth 1 c)) in
  VL (snd (fold_left (fun (acc : sfile * list val) o =>
                        let (f', r) := cstep start chain (fst acc) o in
                        (f', snd acc ++ [VL [match r with Some cu => enc_cursor cu | None => VL [] end; enc_sfile f']]))
                     (map dec_cop (vL (vnth 2 c))) (FNone, []))).

(* ---------- a process start of the connector: start-up resync, then rounds of relayMinterEvents ---------- *)
(* the claims of a round as the committer receives them: (kind event-nonce height [batch nonce | valset nonce]) *)
Definition enc_claim (c : cursor) (h : Z) (e : bev) : list val :=
  match e with
  | BDeposit => [VL [VI 1; VI (cu_nonce c); VI h]]
  | BBatch => [VL [VI 2; VI (cu_nonce c); VI h; VI (cu_batch c)]]
  | BValset n => [VL [VI 3; VI (cu_nonce c); VI h; VI n]]
  | BNone => []
  end.
Definition claims_block (c : cursor) (h : Z) (txs : list mtx) : cursor * list val :=
  fold_left (fun (acc : cursor * list val) t =>
               let e := classify t in (apply_ev (fst acc) e, snd acc ++ enc_claim (fst acc) h e)) txs (c, []).
Fixpoint claims_blocks (c : cursor) (h : Z) (blocks : list (list mtx)) : cursor * list val :=
  match blocks with
  | [] => (c, [])
  | txs :: rest =>
      let (c1, l1) := claims_block (at_block c h) h txs in
      let (c2, l2) := claims_blocks c1 (h + 1) rest in
      (c2, l1 ++ l2)
  end.
Definition relay_claims (chain : list (list mtx)) (c : cursor) (latest : Z) : cursor * list val :=
  claims_blocks c (cu_block c + 1) (blocks_between chain (cu_block c) (Z.min latest (cu_block c + 100))).

Definition vset_c (l : list val) : val := VL (VB [115;101;116]%N :: l).

(* op 4: (4 ack latest0 (latest1 ...)) ; ops 2 / 3: the status file is corrupted / removed between two starts.
   Output per op: (cursor after the resync, ((cursor claims) per round), status file) *)
Definition relay_step (start : cursor) (chain : list (list mtx)) (f : sfile) (ov : val) : sfile * val :=
  match vI (vnth 0 ov) with
  | 4 =>
      let (c0, committed) := resync chain (load start f) (vI (vnth 1 ov)) (vI (vnth 2 ov)) in
      let f0 := if committed then FOk c0 else f in
      let '(cN, fN, outs) :=
          fold_left (fun (acc : cursor * sfile * list val) lv =>
                       let '(c, _, out) := acc in
                       let (c', claims) := relay_claims chain c (vI lv) in
                       (* every scanned block, or the commit after the claims were handed over, persists the cursor;
                          a round that scans nothing leaves the file alone *)
                       (c', (if cu_block c' =? cu_block c then snd (fst acc) else FOk c'), out ++ [VL [enc_cursor c'; vset_c claims]]))
                    (vL (vnth 3 ov)) (c0, f0, []) in
      (fN, VL [enc_cursor c0; VL outs; enc_sfile fN])
  | 2 => (FCorrupt, VL [VL []; VL []; enc_sfile FCorrupt])
  | _ => (FNone, VL [VL []; VL []; enc_sfile FNone])
  end.

Definition relay_run (c : val) : val :=
  let cfg := vnth 0 c in
  let start := mkCur (vI (vnth 0 cfg)) (vI (vnth 1 cfg)) (vI (vnth 2 cfg)) (vI (vnth 3 cfg)) in
  let chain := map (fun b => map dec_mtx (vL b)) (vL (vnth 1 c)) in
  VL (snd (fold_left (fun (acc : sfile * list val) ov =>
                        let (f', out) := relay_step start chain (fst acc) ov in (f', snd acc ++ [out]))
                     (vL (vnth 2 c)) (FNone, []))).

Definition cmd_run (c : val) : val :=
  vbool (cmd_valid (vB (vnth 0 c)) (vB (vnth 1 c)) (vB (vnth 2 c)) (vI (vnth 3 c)) (vgetbool (vnth 4 c))).
