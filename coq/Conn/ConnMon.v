(* Monitors for C20: the property's predicates on the connector's observations. *)
From V Require Import Base.Prelude Base.Val Num.Arith Conn.Connector.
From Coq Require Import String Ascii.
Local Open Scope Z_scope.

Fixpoint sbytes (s : string) : bytes := match s with EmptyString => [] | String a r => N_of_ascii a :: sbytes r end.
Definition k_c20_cursor : val := Eval vm_compute in VB (sbytes "C20/cursor-not-a-whole-block-count").
Definition k_c20_cmd : val := Eval vm_compute in VB (sbytes "C20/malformed-command-accepted").

Definition nevents_m (txs : list mtx) : Z := Z.of_nat (List.length (filter is_event txs)).
Definition count_events_m (blocks : list (list mtx)) : Z := zsum (map nevents_m blocks).

(* next event nonce = start nonce + number of bridge events at or below the last checked block *)
Definition cursor_okb (start : cursor) (chain : list (list mtx)) (c : cursor) : bool :=
  (cu_block start <=? cu_block c)
  && (cu_nonce c =? cu_nonce start + count_events_m (blocks_between chain (cu_block start) (cu_block c))).

Definition dec_cursor_opt (v : val) : option cursor :=
  match vL v with
  | [b; n; bn; vn] => Some (mkCur (vI b) (vI n) (vI bn) (vI vn))
  | _ => None
  end.

Definition mon_C20_conn (c impl : val) : val :=
  let cfg := vnth 0 c in
  let start := mkCur (vI (vnth 0 cfg)) (vI (vnth 1 cfg)) (vI (vnth 2 cfg)) (vI (vnth 3 cfg)) in
  let chain := map (fun b => map dec_mtx (vL b)) (vL (vnth 1 c)) in
  VL (snd (fold_left (fun (acc : nat * list val) o =>
                        let check (what : Z) (v : val) :=
                            match dec_cursor_opt v with
                            | Some cu => if cursor_okb start chain cu then [] else [VL [k_c20_cursor; VI (Z.of_nat (fst acc)); VI what; v]]
                            | None => []
                            end in
                        (S (fst acc), snd acc ++ check 0 (vnth 0 o) ++ check 1 (vnth 1 o)))
                     (vL impl) (O, []))).

(* a command the implementation accepts has a known type with a valid recipient and a non-negative
   integer fee below amount - amount/100 *)
Definition mon_C20_cmd (c impl : val) : val :=
  if vgetbool impl then
    let ty := vB (vnth 0 c) in let rc := vB (vnth 1 c) in let amount := vI (vnth 3 c) in
    let rcpt_ok := if beqb ty t_send_to_eth || beqb ty t_send_to_bsc then is_hex_address rc
                   else if beqb ty t_send_to_hub then vgetbool (vnth 4 c) else false in
    let fee_ok := match parse_sdk_int (vB (vnth 2 c)) with
                  | Some f => (0 <=? f) && (f <? amount - quo_trunc amount 100)
                  | None => false end in
    if rcpt_ok && fee_ok then VL [] else VL [VL [k_c20_cmd; VI 0; c]]
  else VL [].

(* ---------- relay suite: the connector process itself ---------- *)
Definition k_c20_claims : val := Eval vm_compute in VB (sbytes "C20/claims-not-numbered-consecutively").

Fixpoint zrange (a : Z) (n : nat) : list Z := match n with O => [] | S m => a :: zrange (a + 1) m end.

(* every cursor the process reports or persists is a whole-block cursor, and the claims of a round carry exactly
   the event nonces from the round's starting cursor up to (excluding) its final one, each once *)
Definition mon_C20_relay (c impl : val) : val :=
  let cfg := vnth 0 c in
  let start := mkCur (vI (vnth 0 cfg)) (vI (vnth 1 cfg)) (vI (vnth 2 cfg)) (vI (vnth 3 cfg)) in
  let chain := map (fun b => map dec_mtx (vL b)) (vL (vnth 1 c)) in
  VL (snd (fold_left (fun (acc : nat * list val) o =>
                        let step := fst acc in
                        let check (what : Z) (v : val) :=
                            match dec_cursor_opt v with
                            | Some cu => if cursor_okb start chain cu then [] else [VL [k_c20_cursor; VI (Z.of_nat step); VI what; v]]
                            | None => []
                            end in
                        let rounds := vL (vnth 1 o) in
                        let round_checks :=
                            snd (fold_left (fun (ra : option cursor * list val) r =>
                                              let cur := dec_cursor_opt (vnth 0 r) in
                                              let claims := tl (vL (vnth 1 r)) in
                                              let nonces := map (fun cl => vI (vnth 1 cl)) claims in
                                              (cur,
                                               snd ra ++ check 2 (vnth 0 r) ++
                                               match fst ra, cur with
                                               | Some p, Some q =>
                                                   let want := zrange (cu_nonce p) (Z.to_nat (cu_nonce q - cu_nonce p)) in
                                                   if Nat.eqb (List.length nonces) (List.length want)
                                                      && forallb (fun n => existsb (Z.eqb n) nonces) want
                                                      && forallb (fun n => existsb (Z.eqb n) want) nonces then []
                                                   else [VL [k_c20_claims; VI (Z.of_nat step); vnth 0 r; VL (map VI nonces)]]
                                               | _, _ => []
                                               end))
                                           rounds (dec_cursor_opt (vnth 0 o), [])) in
                        (S step, snd acc ++ check 0 (vnth 0 o) ++ round_checks ++ check 1 (vnth 2 o)))
                     (vL impl) (O, []))).
