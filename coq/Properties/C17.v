(* C17 — Delegate-key registry is one-to-one and self-authorised.  Statements only.  Model: Hub/Registry.v *)
From V Require Import Base.Prelude Base.Val Num.Arith Hub.Registry Proofs.ListX Proofs.RegistryInv.
Local Open Scope Z_scope.

(* For every history of registrations, confirmations, staking and outgoing-tx changes: per chain an
   external address is bound to at most one validator, and every validator->address and
   orchestrator->validator binding was created by a successful registration of that validator. *)
Theorem C17_registry_invariant :
  forall chains ops, Forall wf_rop ops ->
    let s := rrun (rinit chains) ops in
    (forall c v1 v2 e, realbytes c ->
        aget (ck c v1) (rs_val_ext s) = Some e -> aget (ck c v2) (rs_val_ext s) = Some e -> v1 = v2) /\
    (forall c v e, realbytes c -> aget (ck c v) (rs_val_ext s) = Some e -> exists o, In (c, v, o, e) (rs_log s)) /\
    (forall c o v, realbytes c -> aget (ck c o) (rs_orch_val s) = Some v -> exists e, In (c, v, o, e) (rs_log s)).
Proof.
  intros chains ops Hw s. destruct (rrun_inv (rinit chains) ops (rinit_inv chains) Hw) as [H1 H2 H3 H4 H5]. fold s in H3, H4, H5.
  split; [exact H3 | split; [exact H4 | exact H5]].
Qed.
Print Assumptions C17_registry_invariant.

(* a registration succeeds only for a known validator, with an external address and an orchestrator
   not in use on that chain, and with a signature that recovers to the external address over
   (validator, sequence - 1); it then writes exactly the three bindings.  (That the transaction is
   signed by the validator's own account is enforced by MsgDelegateKeys.GetSigners in the SDK.) *)
Theorem C17_registration_requires :
  forall s c val orch eth rec s',
    set_keys s c val orch eth rec = Ok s' ->
    rec = Some eth /\ (exists v, find_rval s val = Some v) /\ ext_in_use s c eth = false /\ orch_in_use s c orch = false /\
    aget (ck c val) (rs_val_ext s') = Some eth /\ aget (ck c orch) (rs_orch_val s') = Some val /\
    aget (ck c eth) (rs_ext_orch s') = Some orch.
Proof. exact set_keys_requires. Qed.
Print Assumptions C17_registration_requires.

(* an orchestrator's messages are attributed to the validator stored for it, which must be bonded *)
Theorem C17_orchestrator_resolution :
  forall s c signer v, aget (ck c signer) (rs_orch_val s) = Some v ->
    forall val, signer_val s c signer = Ok val -> val = v \/ (exists r, find_rval s v = Some r /\ rv_addr r = val).
Proof.
  intros s c signer v Hg val H. unfold signer_val in H. rewrite Hg in H.
  destruct (find_rval s v) as [r|] eqn:E; [|discriminate]. destruct (rv_bonded r); [|discriminate].
  inversion H; subst. right. exists r. auto.
Qed.
