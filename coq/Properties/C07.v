(* C07 — Sign-bytes agree with the Ethereum contract.  Statements only.
   Gen/SrcFactsSol.v and Gen/SrcFactsGo.v are regenerated from /repo's Hub2.sol, abi_json.go,
   outgoing_tx.go and ethereum_signer.go on every run (bin/gen_srcfacts.py). *)
From V Require Import Base.Prelude Base.Val Ext.Abi Ext.Keccak Gen.SrcFactsSol Gen.SrcFactsGo Ext.Checkpoint Proofs.C07Proofs.
Local Open Scope Z_scope.

(* the three encodings have the same argument types in the same order in Go and in Solidity *)
Theorem C07_types_agree :
  map snd go_checkpoint_types = map snd sol_checkpoint_encode /\
  map snd go_batch_types = map snd sol_batch_encode /\
  map snd go_call_types = map snd sol_call_encode.
Proof. exact c07_types_agree. Qed.

(* the contract's method-name literals are the padded names the hub uses *)
Theorem C07_method_constants :
  sol_checkpoint_encode_const0 = word_b32 go_checkpoint_name /\
  sol_batch_encode_const0 = word_b32 go_batch_name /\
  sol_call_encode_const0 = word_b32 go_call_name /\
  go_checkpoint_name = s_checkpoint /\ go_batch_name = s_transactionBatch /\ go_call_name = s_logicCall.
Proof. exact c07_method_constants. Qed.

(* the model's hub argument lists follow the `args` slices of GetCheckpoint as written now *)
Theorem C07_go_args_as_modelled :
  go_checkpoint_args = exp_go_checkpoint_args /\ go_batch_args = exp_go_batch_args /\ length go_call_args = 11%nat.
Proof. exact c07_go_args_as_modelled. Qed.

(* for every gravity id, nonce, member list and batch (any lengths, any amounts): the values the
   contract hashes for the relayed data are the hub's, hence equal ABI encodings and digests *)
Theorem C07_digest_equal_valset :
  forall gid nonce addrs powers,
    sol_vals (relay_valset gid nonce addrs powers) sol_checkpoint_encode =
      [Some (AB32 gid); Some (AB32 sol_checkpoint_encode_const0); Some (AUint nonce); Some (AArrAddr addrs); Some (AArrUint powers)] /\
    keccak256 (abi_encode [AB32 gid; AB32 sol_checkpoint_encode_const0; AUint nonce; AArrAddr addrs; AArrUint powers]) =
      hub_digest (hub_valset_args gid nonce addrs powers).
Proof. intros. split; [apply c07_args_equal_valset | unfold hub_digest; rewrite c07_encoding_equal_valset; reflexivity]. Qed.
Print Assumptions C07_digest_equal_valset.

Theorem C07_digest_equal_batch :
  forall gid amounts dests fees nonce token timeout,
    sol_vals (relay_batch gid amounts dests fees nonce token timeout) sol_batch_encode =
      [Some (AB32 gid); Some (AB32 sol_batch_encode_const0); Some (AArrUint amounts); Some (AArrAddr dests); Some (AArrUint fees);
       Some (AUint nonce); Some (AAddr token); Some (AUint timeout)] /\
    keccak256 (abi_encode [AB32 gid; AB32 sol_batch_encode_const0; AArrUint amounts; AArrAddr dests; AArrUint fees;
                           AUint nonce; AAddr token; AUint timeout]) =
      hub_digest (hub_batch_args gid amounts dests fees nonce token timeout).
Proof. intros. split; [apply c07_args_equal_batch | unfold hub_digest; rewrite c07_encoding_equal_batch; reflexivity]. Qed.
Print Assumptions C07_digest_equal_batch.

(* signature scheme: same prefix, and for a 65-byte signature r||s||v with v in {27,28} the hub
   check and the contract's verifySig are the same predicate, for any recovery function *)
Theorem C07_sig_scheme :
  forall (recover : bytes -> bytes -> option bytes) hash r s v addr,
    length r = 32%nat -> length s = 32%nat -> (v = 27 \/ v = 28)%N -> addr <> zero_addr ->
    hub_verify recover hash (r ++ s ++ [v]) addr = sol_verify recover addr hash v r s.
Proof. exact c07_sig_scheme. Qed.
Print Assumptions C07_sig_scheme.

Theorem C07_prefix_agree : go_sig_prefix = sol_sig_prefix.
Proof. exact c07_prefix_agree. Qed.
