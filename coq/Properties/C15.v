(* C15 — Genesis export/import round trip preserves bridge state.  Statements only.
   Models of the round trip: Hub/Genesis.v (restart, vrestart), Oracle/Oracle.v (orestart),
   Hub/Registry.v (rrestart); each is co-executed with the real ExportGenesis -> JSON -> InitGenesis on
   fresh stores (suites genesis, votesgen, oraclegen, reggen).
   The property as stated is FALSE of the code (several components have no genesis field): the lost
   components are refuted below by kernel-checked witnesses and listed as known findings; what is
   preserved is proved. *)
From V Require Import Base.Prelude Base.Val Num.Arith Hub.Types Hub.Model Hub.Codec Hub.Votes Hub.Genesis Hub.Registry Oracle.Oracle
     Proofs.ListX Proofs.C04Proofs.
Local Open Scope Z_scope.

(* Preserved by the bridge module's round trip (after the fix: commit): the pool, the batches with
   their sequence numbers, the per-chain batch nonce and outgoing sequence, the observed external
   height; token list and params; (balances and supply: x/bank). *)
Theorem C15_hub_preserved :
  forall s, let r := restart s in
    st_pool r = st_pool s /\ st_batches r = st_batches s /\ st_last_batch_nonce r = st_last_batch_nonce s /\
    st_out_seq r = st_out_seq s /\ st_obs_ext_h r = st_obs_ext_h s /\ st_tokens r = st_tokens s /\ st_params r = st_params s /\
    st_bal r = st_bal s /\ st_supply r = st_supply s.
Proof. intro s. cbv zeta. repeat split; reflexivity. Qed.
Print Assumptions C15_hub_preserved.

(* When the components without a genesis field are empty, the restarted chain is the original one and
   reacts to every continuation exactly as the original. *)
Theorem C15_hub_continuation :
  forall s ops,
    st_last_id s = [] -> st_obs_cosmos_h s = [] -> st_status s = [] -> st_feerec s = [] -> st_sigset_nonce s = [] ->
    restart s = s /\ run (restart s) ops = run s ops.
Proof.
  intros s ops H1 H2 H3 H4 H5.
  assert (restart s = s) as E by (unfold restart; destruct s; simpl in *; subst; reflexivity).
  split; [exact E | rewrite E; reflexivity].
Qed.
Print Assumptions C15_hub_continuation.

(* The full statement is refuted: a reachable state whose round trip forgets the transfer-id counter
   and the transaction status, so that the same continuation (one more transfer) gets id 1 instead of 3. *)
Theorem C15_hub_round_trip_refuted :
  exists p tokens ops more chain,
    let s := run (init_state p tokens) ops in
    agetd 0%N chain (st_last_id (run s more)) = 3%N /\
    agetd 0%N chain (st_last_id (run (restart s) more)) = 1%N /\
    st_status s <> [] /\ st_status (restart s) = [].
Proof.
  exists c04_params, c04_tokens, c04_ops, [OpBeginBlock 7 1010000 []; OpSend c04_user b_ethereum [114]%N b_hub 50 0 [73]%N], b_ethereum.
  vm_compute. repeat split; try reflexivity. discriminate.
Qed.
Print Assumptions C15_hub_round_trip_refuted.

(* vote records, last observed nonce, per-validator nonces: all have genesis fields; the model's round
   trip is the identity, and the correspondence (suite votesgen: restarts in mid-history, votes in
   progress, continuation compared step by step) shows the implementation's is too. *)
Theorem C15_votes_round_trip : forall s ops, vrestart s = s /\ fold_left (fun st o => fst (vstep st o)) ops (vrestart s) = fold_left (fun st o => fst (vstep st o)) ops s.
Proof. intros s ops. split; reflexivity. Qed.
Print Assumptions C15_votes_round_trip.

(* oracle: prices and holders survive; the epoch is reset to 1 and the running epoch's reports are lost *)
Theorem C15_oracle_preserved : forall s, os_prices (orestart s) = os_prices s /\ os_holders (orestart s) = os_holders s.
Proof. intro s. split; reflexivity. Qed.
Print Assumptions C15_oracle_preserved.
Theorem C15_oracle_round_trip_refuted :
  exists required ops, let s := orun (oinit required) ops in os_epoch s = 2%N /\ os_epoch (orestart s) = 1%N.
Proof. exists [], [OEndBlock 5]. vm_compute. split; reflexivity. Qed.
Print Assumptions C15_oracle_round_trip_refuted.

(* registry: confirmations are not exported; the outgoing txs are *)
Theorem C15_registry_round_trip :
  forall s, rs_sigs (rrestart s) = [] /\ rs_otxs (rrestart s) = rs_otxs s /\ rs_chains (rrestart s) = rs_chains s.
Proof. intro s. repeat split; reflexivity. Qed.
Print Assumptions C15_registry_round_trip.
