(* C02 — Attestation quorum: >= 66% of bonded power, one vote per validator.  Statements only.
   Model: Hub/Votes.v (claims, contiguity rule, EndBlocker tally of one external chain). *)
From V Require Import Base.Prelude Base.Val Num.Arith Hub.Votes Proofs.ListX Proofs.VotesInv Proofs.C02Proofs.
Local Open Scope Z_scope.

(* For every history of claims (any signers, nonces >= 1, conflicting hashes), tallies and staking
   changes (non-negative powers; powers and bonding may change between vote and tally): the
   EndBlocker tally never panics, only appends to the log of applied claims, and every claim it
   applies has a vote record whose voters are pairwise distinct and whose power, read at the
   moment of the tally, is at least 66% of the total bonded power. *)
Theorem C02_quorum :
  forall ops, Forall wf_vop ops ->
    let s := vrun vinit ops in
    exists s' new,
      tally s = Ok s' /\ vs_applied s' = vs_applied s ++ new /\
      forall k, In k new ->
        exists r, In r (vs_records s) /\ rkey r = k /\ NoDup (vr_votes r) /\
                  66 * total_power (vs_staking s) <= 100 * vote_power (vs_staking s) (vr_votes r).
Proof. exact c02_quorum. Qed.
Print Assumptions C02_quorum.

Theorem C02_no_double_vote :
  forall ops, Forall wf_vop ops -> forall r, In r (vs_records (vrun vinit ops)) -> NoDup (vr_votes r).
Proof. exact c02_no_double. Qed.
Print Assumptions C02_no_double_vote.

(* every recorded vote is cast by a bonded validator: the signer is its registered orchestrator,
   or (no registration for that account) the validator's own account; the vote is attributed to
   that validator *)
Theorem C02_vote_cast_by_validator :
  forall s signer nonce hash amount s',
    vote s signer nonce hash amount = Ok s' ->
    exists v, In v (vs_staking s) /\ sv_bonded v = true /\
              (aget signer (vs_orch s) = Some (sv_addr v) \/ (aget signer (vs_orch s) = None /\ sv_acc v = signer)) /\
              exists r, In r (vs_records s') /\ rkey r = (nonce, hash) /\ last (vr_votes r) [] = sv_addr v.
Proof. exact c02_vote_cast_by_validator. Qed.
Print Assumptions C02_vote_cast_by_validator.

(* the threshold is a ceiling: three validators of power 1 need two votes, total 101 needs 67 *)
Example C02_threshold_examples : threshold 3 = 2 /\ threshold 101 = 67 /\ threshold 100 = 66 /\ threshold 0 = 0.
Proof. vm_compute. repeat split; reflexivity. Qed.
