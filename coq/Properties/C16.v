(* C16 — Confirmations are attributable, unique and correctly queryable.  Statements only. *)
From V Require Import Base.Prelude Base.Val Num.Arith Hub.Registry Proofs.ListX Proofs.RegistryInv.
Local Open Scope Z_scope.

(* a confirmation is recorded iff: configured chain, signer resolves to a bonded validator (itself or
   its orchestrator), the outgoing tx exists under that chain's store index, the validator's
   registered address is set and equals the claimed signer, and no signature of this validator is
   stored for this tx yet; then exactly this signature is added *)
Theorem C16_recorded_iff :
  forall s c signer index claimed sig s',
    confirm s c signer index claimed sig = Ok s' <->
    (In c (rs_chains s) /\
     exists val, signer_val s c signer = Ok val /\
       In (c, index) (rs_otxs s) /\
       ext_of s c val <> zero20 /\ ext_of s c val = claimed /\
       aget (sig_key c index val) (rs_sigs s) = None /\
       s' = mkRs (rs_chains s) (rs_val_ext s) (rs_orch_val s) (rs_ext_orch s)
                 (aset (sig_key c index val) (c, index, val, sig) (rs_sigs s)) (rs_otxs s) (rs_vals s) (rs_log s)).
Proof. exact confirm_iff. Qed.
Print Assumptions C16_recorded_iff.

Theorem C16_at_most_once :
  forall s c signer index claimed sig s' signer2 claimed2 sig2 val,
    confirm s c signer index claimed sig = Ok s' -> signer_val s c signer = Ok val -> signer_val s' c signer2 = Ok val ->
    confirm s' c signer2 index claimed2 sig2 <> Ok s' /\ forall s'', confirm s' c signer2 index claimed2 sig2 <> Ok s''.
Proof. exact confirm_once. Qed.

(* the confirmation queries return exactly the stored signatures of that store index ... *)
Theorem C16_confirmations_query :
  forall s c index a sg,
    In (a, sg) (confirmations s c index) <->
    exists k v, In (k, (c, index, v, sg)) (rs_sigs s) /\ a = ext_of s c v.
Proof. exact confirmations_spec. Qed.

(* ... but attribute them to the validator's CURRENT address: "attributed to the right external
   address" is refuted after a re-registration (known finding C16/attribution-after-reregistration):
   a signature recorded for key e1 is returned under e2 *)
Theorem C16_attribution_refuted :
  let s := rrun (rinit [w_c]) w_ops in
  confirmations s w_c [1;7]%N = [(w_e2, [115]%N)] /\ rs_log s = [(w_c, w_v, [111]%N, w_e1); (w_c, w_v, [112]%N, w_e2)].
Proof. exact c16_attribution_refuted. Qed.
Print Assumptions C16_attribution_refuted.
