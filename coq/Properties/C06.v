(* C06 — The state machine is deterministic.  Statements only.
   The models (Hub/Model.v, Hub/Votes.v, Hub/SignerSet.v, Hub/Registry.v, Oracle/Oracle.v) are Gallina
   functions: same genesis and same ordered operations give the same state and outputs by construction,
   and every correspondence suite shows the implementation computing that function.  What remains is the
   place where a function can hide nondeterminism of the code: Go maps are modelled by lists.  The
   theorems below show that at every map iteration of the consensus code (inventory regenerated from
   the source on every run) the result is independent of the iteration order.  Process-level replays
   (byte-identical stores and events across fresh processes and rebuilt keeper instances) are the
   runtime half of the check: they are tests, not theorems. *)
From V Require Import Base.Prelude Base.Val Num.Arith Gen.NondetFacts Oracle.Oracle Proofs.ListX Proofs.RegistryInv Proofs.C18Proofs Proofs.C06Proofs.
From Coq Require Import Permutation Sorting.Sorted.
Local Open Scope Z_scope.

(* The map iterations, goroutines, selects, wall-clock reads and random numbers found in the current
   consensus code are exactly the classified ones. *)
Theorem C06_inventory :
  map_range_sites = map (fun x : bytes * bytes * bytes * site_class => fst x) classified_sites /\
  other_nondet_sites = classified_other /\
  map_range_function_crcs = classified_function_crcs.
Proof. exact inventory_is_classified. Qed.
Print Assumptions C06_inventory.

(* CollectThenSort (batch creation per coin, tally by nonce, oracle price names): the sorted list of
   collected keys is the same for every order in which the keys are met. *)
Theorem C06_sorted_keys_order_independent :
  (forall l1 l2, StronglySorted blt l1 -> StronglySorted blt l2 -> (forall x, In x l1 <-> In x l2) -> l1 = l2) /\
  (forall s1 s2, Permutation s1 s2 -> names_of s1 = names_of s2).
Proof. split; [exact sorted_unique | exact names_of_perm]. Qed.
Print Assumptions C06_sorted_keys_order_independent.

(* CommutativeFold (lowest accepted nonce; PowerDiff's sum of absolute differences, whose float64
   additions are exact because every partial sum is an integer below 2^53) *)
Theorem C06_folds_order_independent :
  (forall l l' init, Permutation l l' -> fold_right N.min init l = fold_right N.min init l') /\
  (forall l l', Permutation l l' -> zsum (map Z.abs l) = zsum (map Z.abs l')).
Proof. split; [exact min_fold_perm | exact abs_sum_perm]. Qed.
Print Assumptions C06_folds_order_independent.

(* UniqueWinner (oracle holders tally "return the first list above two thirds"): with distinct voters
   the claimed weights sum to at most 65535, and then at most one list can exceed 43690. *)
Theorem C06_holders_winner_unique :
  forall s h1 h2, vals_ok s -> votes_power s (os_holder_votes s) <= total_raw s ->
    TWO_THIRDS < agree_weight s h1 -> TWO_THIRDS < agree_weight s h2 -> h1 = h2.
Proof.
  intros s h1 h2 Hok Hp. apply holders_winner_unique; [exact Hok | apply claimed_weight_bound; assumption].
Qed.
Print Assumptions C06_holders_winner_unique.

(* the weighted median is determined by sums over the reports (C18_price_is_weighted_median is stated
   through wlt / wgt / wtotal), which do not depend on their order *)
Theorem C06_median_inputs_order_independent :
  forall l l' v, Permutation l l' -> wlt l v = wlt l' v /\ wle l v = wle l' v.
Proof. intros l l' v H. split; [apply wlt_perm | apply wle_perm]; exact H. Qed.
Print Assumptions C06_median_inputs_order_independent.
