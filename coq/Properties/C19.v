(* C19 — Fees and commissions are distributed within what was collected.  Statements only.
   The functions reimb_fee, refund_share, commission_share are the ones the hub model's
   batch_executed uses (Hub/Model.v pay_fees, fee_refunds, pay_commissions). *)
From V Require Import Base.Prelude Base.Val Num.Arith Hub.Types Hub.Model Proofs.ListX Proofs.C19Proofs.
Local Open Scope Z_scope.

Theorem C19_reimbursement :
  forall amount total_fee,
    reimb_fee amount total_fee <= total_fee /\ reimb_fee amount total_fee <= amount /\
    (0 <= amount -> 0 <= total_fee -> 0 <= reimb_fee amount total_fee).
Proof. exact c19_reimbursement. Qed.
Print Assumptions C19_reimbursement.

(* for every batch (any number of transfers, any fee spread): the refunds sum to at most the
   surplus total_fee - reimbursement *)
Theorem C19_refund_sum :
  forall fee_left avg cs,
    0 <= fee_left -> Forall (fun c => 0 <= c) cs -> 0 < zsum (goods avg cs) ->
    zsum (map (fun c => refund_share fee_left c (zsum (goods avg cs))) (goods avg cs)) <= fee_left.
Proof. exact c19_refund_sum. Qed.
Print Assumptions C19_refund_sum.

(* each user's refund is at most the fee that user paid (hub units; cs = converted fees of the
   batch, whose sum is the total fee: exact for tokens with at most 18 external decimals) *)
Theorem C19_refund_le_fee :
  forall F cs c,
    Forall (fun c => 0 <= c) cs -> 0 < F <= zsum cs -> cs <> [] ->
    let n := Z.of_nat (length cs) in
    let avg := quo_trunc F n in
    let good := zsum (goods avg cs) in
    let fee_left := zsum cs - F in
    In c cs -> avg <= c -> 0 < good ->
    0 <= refund_share fee_left c good <= c.
Proof. exact c19_refund_le_fee. Qed.
Print Assumptions C19_refund_le_fee.

Theorem C19_commission_sum :
  forall total powers,
    0 <= total -> Forall (fun p => 0 <= p) powers -> 0 < zsum powers ->
    zsum (map (fun p => commission_share total p (zsum powers)) powers) <= total /\
    Forall (fun p => 0 <= commission_share total p (zsum powers)) powers.
Proof. exact c19_commission_sum. Qed.
Print Assumptions C19_commission_sum.

(* the fee record stays between zero and the fee paid, in external units *)
Theorem C19_fee_record :
  forall d fee r, 0 <= d <= 18 -> 0 <= fee -> 0 <= r <= to_hub d fee -> 0 <= fee - to_ext d r <= fee.
Proof. exact c19_fee_record. Qed.
Print Assumptions C19_fee_record.

(* "each refund never exceeds the fee paid" is false for tokens with more than 18 external
   decimals (truncation gap between the sum of converted fees and the converted sum): known
   finding C19/refund-exceeds-fee-decimals-gt-18 *)
Theorem C19_refund_gt18_refuted :
  exists d fees F fee,
    18 < d <= 24 /\
    let cs := map (to_hub d) fees in
    let total := to_hub d (zsum fees) in
    let avg := quo_trunc F (Z.of_nat (length cs)) in
    let good := zsum (goods avg cs) in
    0 < F <= total /\ 0 < good /\
    In fee fees /\ avg <= to_hub d fee /\
    to_ext d (refund_share (total - F) (to_hub d fee) good) > fee.
Proof. exact c19_refund_gt18_refuted. Qed.
Print Assumptions C19_refund_gt18_refuted.
