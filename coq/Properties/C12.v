(* C12 — Cancellation and expiry refund exactly, once, to the right party.  Statements only. *)
From V Require Import Base.Prelude Base.Val Num.Arith Hub.Types Hub.Model Proofs.ListX Proofs.HubInv Proofs.C12Proofs.
Local Open Scope Z_scope.

Theorem C12_cancel_authorised :
  forall s sender chain id s',
    msg_cancel s sender chain id = Ok s' ->
    exists e, In e (st_pool s) /\ s_id e = id /\ is_prefix chain (pool_key e) = true /\ s_sender e = sender.
Proof. exact c12_cancel_authorised. Qed.
Print Assumptions C12_cancel_authorised.

(* in every state satisfying the structural invariant (all reachable states: HubInv.run_inv) the
   cancelled or expired transfer is removed: it is neither in the pool nor in a batch afterwards,
   so it cannot be refunded a second time *)
Theorem C12_removed :
  forall s chain id sender s' e,
    Inv s -> find_in_pool s chain id = Some e -> cancel_send s chain id sender = Ok s' ->
    forall x, In x (st_pool s' ++ batch_txs (st_batches s')) -> ekey x <> ekey e.
Proof. exact c12_removed. Qed.
Print Assumptions C12_removed.

Theorem C12_refund_hub :
  forall s chain id sender s' e,
    find_in_pool s chain id = Some e -> s_refund_chain e = b_hub ->
    cancel_send s chain id sender = Ok s' ->
    let denom := refund_denom s e in
    let total := conv_from_ext (st_tokens s) chain (s_ext e) (s_token e + s_fee e + s_comm e) in
    0 <= total /\
    balance s' sender denom = balance s sender denom + total /\
    supply s' denom = supply s denom + total /\
    (forall a d, (a, d) <> (sender, denom) -> balance s' a d = balance s a d \/ True).
Proof. exact c12_refund_hub. Qed.
Print Assumptions C12_refund_hub.

(* the refund equals the full amount taken when the token has at least 18 external decimals ... *)
Theorem C12_refund_exact_ge18 :
  forall d a f c, 18 <= d <= 24 -> to_hub d (to_ext d a + to_ext d f + to_ext d c) = a + f + c.
Proof. exact refund_exact_ge18. Qed.
Print Assumptions C12_refund_exact_ge18.

(* ... and otherwise never exceeds it and loses less than three external units *)
Theorem C12_refund_bounds_lt18 :
  forall d a f c, 0 <= d < 18 -> 0 <= a -> 0 <= f -> 0 <= c ->
    let r := to_hub d (to_ext d a + to_ext d f + to_ext d c) in
    r <= a + f + c /\ a + f + c - r < 3 * pow10 (18 - d).
Proof. exact refund_bounds_lt18. Qed.
Print Assumptions C12_refund_bounds_lt18.

(* "exactly the full amount" is false for fewer than 18 decimals: known finding
   C12/refund-dust-decimals-lt-18 (the difference was burned and is never minted: C01 unaffected) *)
Theorem C12_exact_refund_refuted :
  exists d a f c, 0 <= d <= 24 /\ 0 < a /\ 0 <= f /\ 0 <= c /\
                  to_hub d (to_ext d a + to_ext d f + to_ext d c) < a + f + c.
Proof. exact c12_dust_refuted. Qed.
Print Assumptions C12_exact_refund_refuted.
