(* C20 — Minter connector numbers events identically across restarts.  Statements only.
   Model: Conn/Connector.v (co-executed with the real connector packages, suites "conn" and "cmd"). *)
From V Require Import Base.Prelude Base.Val Num.Arith Conn.Connector Proofs.ListX Proofs.C20Proofs.
Local Open Scope Z_scope.

(* "consistent start chain c": c is exactly the cursor obtained by scanning, from the configured
   start, some whole number k of the blocks after the start block.  Hence (consistent_facts) its
   last-checked block is start block + k and its next event nonce is the start nonce plus the
   number of bridge events in those k blocks. *)
Theorem C20_consistent_means :
  forall start chain c, 0 <= cu_block start -> consistent start chain c ->
    exists k, (k <= length (blocks_after chain start))%nat /\
              cu_block c = cu_block start + Z.of_nat k /\
              cu_nonce c = cu_nonce start + count_events (firstn k (blocks_after chain start)).
Proof. exact consistent_facts. Qed.
Print Assumptions C20_consistent_means.

(* For every Minter block history, every acknowledged nonce and every node height: a resync from a
   consistent cursor returns (and persists) a consistent cursor. *)
Theorem C20_resync_consistent :
  forall start chain c ack latest, 0 <= cu_block start ->
    consistent start chain c -> consistent start chain (fst (resync chain c ack latest)).
Proof. exact resync_consistent. Qed.
Print Assumptions C20_resync_consistent.

(* ... and so, for every sequence of restarts (resyncs with arbitrary acknowledged nonces and node
   heights, status file lost or corrupted in between): whatever status file exists holds a consistent
   cursor, and every cursor a resync returns is consistent. *)
Theorem C20_any_restart_history :
  forall start chain ops, 0 <= cu_block start ->
    file_ok start chain (fold_left (fun f o => fst (cstep start chain f o)) ops FNone) /\
    (forall f o c, file_ok start chain f -> snd (cstep start chain f o) = Some c -> consistent start chain c).
Proof.
  intros start chain ops H0. split.
  - apply crun_file_ok; [exact H0 | exact I].
  - intros f o c Hf. apply (cstep_file_ok start chain f o H0 Hf).
Qed.
Print Assumptions C20_any_restart_history.

(* A relay round from a consistent cursor ends on a consistent cursor, and the events it claims are
   numbered consecutively from the cursor's next nonce — which, by C20_consistent_means, is the start
   nonce plus the number of events in the blocks before: the nonce of an event depends on the chain
   and the configured start only, not on the restart history, so every validator assigns it alike. *)
Theorem C20_event_nonces_canonical :
  forall start chain c latest, 0 <= cu_block start -> consistent start chain c ->
    consistent start chain (fst (relay chain c latest)) /\
    map fst (snd (relay chain c latest)) = zseq (cu_nonce c) (length (snd (relay chain c latest))).
Proof. exact relay_consistent. Qed.
Print Assumptions C20_event_nonces_canonical.

(* The same for the form of a round that is co-executed with the connector process (suite relay: the claims as the
   committer receives them, with their heights): whole-block cursor afterwards, event nonces consecutive from the
   cursor's next nonce. *)
Theorem C20_relay_claims_numbered_consecutively :
  forall start chain c latest, 0 <= cu_block start -> consistent start chain c ->
    consistent start chain (fst (relay_claims chain c latest)) /\
    map claim_nonce (snd (relay_claims chain c latest)) = zseq (cu_nonce c) (length (snd (relay_claims chain c latest))).
Proof. exact relay_claims_consistent. Qed.
Print Assumptions C20_relay_claims_numbered_consecutively.

(* A deposit becomes a claim only if its command is well formed: a known type with a valid recipient
   for the target chain and a fee that parses as an integer f with 0 <= f < amount - amount/100. *)
Theorem C20_command_well_formed :
  forall ty rcpt fee amount bech_ok,
    cmd_valid ty rcpt fee amount bech_ok = true <->
    ((beqb ty t_send_to_eth || beqb ty t_send_to_bsc = true /\ is_hex_address rcpt = true) \/
     (beqb ty t_send_to_eth || beqb ty t_send_to_bsc = false /\ ty = t_send_to_hub /\ bech_ok = true)) /\
    exists f, parse_sdk_int fee = Some f /\ 0 <= f < amount - quo_trunc amount 100.
Proof. exact cmd_valid_spec. Qed.
Print Assumptions C20_command_well_formed.

Theorem C20_deposit_needs_valid_command :
  forall to_msig json_ok ty rcpt fee amount bech_ok,
    classify (TSend to_msig json_ok ty rcpt fee amount bech_ok) <> BNone ->
    to_msig = true /\ json_ok = true /\ cmd_valid ty rcpt fee amount bech_ok = true.
Proof.
  intros to_msig json_ok ty rcpt fee amount bech_ok H. simpl in H.
  destruct to_msig, json_ok, (cmd_valid ty rcpt fee amount bech_ok); simpl in H; try congruence. auto.
Qed.
Print Assumptions C20_deposit_needs_valid_command.

(* the executable check used by the monitor follows from consistency *)
Theorem C20_monitor_sound :
  forall start chain c, 0 <= cu_block start -> consistent start chain c -> cursor_consistentb start chain c = true.
Proof. exact consistent_checks. Qed.
Print Assumptions C20_monitor_sound.

(* non-vacuity: a chain with two events in one block; a resync acknowledged up to the first of them
   stops at the block before and keeps the nonce of the block's start *)
Definition ex_dep := TSend true true t_send_to_eth (map Z.to_N (48 :: 120 :: repeat 97 40)) [49%N] 1000 false.
Definition ex_chain := [[ex_dep]; []; [ex_dep; ex_dep]; [TMulti true]].
Example C20_example :
  let start := mkCur 0 1 1 0 in
  resync ex_chain start 0 4 = (mkCur 4 5 2 0, true) /\
  resync ex_chain start 2 4 = (mkCur 2 2 1 0, true) /\
  consistent start ex_chain (mkCur 2 2 1 0).
Proof.
  split; [vm_compute; reflexivity | split; [vm_compute; reflexivity|]].
  exists 2%nat. split; [simpl; lia | vm_compute; reflexivity].
Qed.
