(* C03 — External events are applied exactly once, in nonce order.  Statements only. *)
From V Require Import Base.Prelude Base.Val Num.Arith Hub.Votes Proofs.ListX Proofs.VotesInv Proofs.C02Proofs.
Local Open Scope Z_scope.

(* Refinement to the abstract log: in every reachable state the applied claims carry the nonces
   1, 2, ..., L in this order (so no nonce is applied twice and at most one of several conflicting
   claims of a nonce is ever applied), L is the stored last observed nonce, and a record is marked
   accepted iff it is in the log. *)
Theorem C03_consecutive :
  forall ops, Forall wf_vop ops ->
    let s := vrun vinit ops in
    map fst (vs_applied s) = nseq1 (length (vs_applied s)) 1 /\
    vs_last_observed s = N.of_nat (length (vs_applied s)) /\
    NoDup (map fst (vs_applied s)) /\
    (forall r, In r (vs_records s) -> (vr_accepted r = true <-> In (rkey r) (vs_applied s))).
Proof. exact c03_consecutive. Qed.
Print Assumptions C03_consecutive.

(* every EndBlocker extends the log (never rewrites it) and does not touch the validators' nonces *)
Theorem C03_tally_appends :
  forall ops, Forall wf_vop ops ->
    let s := vrun vinit ops in
    exists s' new, tally s = Ok s' /\ vs_applied s' = vs_applied s ++ new /\ vs_last_by_val s' = vs_last_by_val s.
Proof. exact c03_tally_appends. Qed.
Print Assumptions C03_tally_appends.

(* after its first claim a validator's claims are consecutive: an accepted claim of a validator
   with a stored nonce l carries nonce l+1, and stores it *)
Theorem C03_validator_contiguous :
  forall s signer nonce hash amount s',
    vote s signer nonce hash amount = Ok s' ->
    exists val, signer_validator s signer = Ok val /\
                aget val (vs_last_by_val s') = Some nonce /\
                (forall l, aget val (vs_last_by_val s) = Some l -> l <> 0%N -> nonce = (l + 1)%N).
Proof. exact c03_validator_contiguous. Qed.
Print Assumptions C03_validator_contiguous.

(* stored per-validator nonces are never 0 in a reachable state, so the exemption for "no claim
   yet" cannot be re-entered *)
Theorem C03_stored_nonce_positive :
  forall ops, Forall wf_vop ops -> forall v l, aget v (vs_last_by_val (vrun vinit ops)) = Some l -> (1 <= l)%N.
Proof. intros ops Hw v l. destruct (vrun_inv vinit ops vinit_VI Hw) as [HI _]. apply (vi_last_pos _ HI). Qed.
