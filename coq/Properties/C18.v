(* C18 — Price and holder attestations need a distinct-validator quorum.  Statements only.
   Model: Oracle/Oracle.v (co-executed with the real x/oracle keeper, suite "oracle"). *)
From V Require Import Base.Prelude Base.Val Num.Arith Oracle.Oracle Proofs.ListX Proofs.RegistryInv Proofs.C18Proofs.
Local Open Scope Z_scope.

(* Epoch, prices and holders change at no operation other than the EndBlocker of a block whose
   height is a multiple of 5 — for single steps and for arbitrarily long stretches of claims (valid,
   stale, future, refused), staking changes and ordinary blocks; the boundary step is
   ProcessCurrentEpoch and advances the epoch by exactly one. *)
Theorem C18_change_only_at_epoch_boundary :
  (forall s o, boundary o = false -> outputs (fst (ostep s o)) = outputs s) /\
  (forall s ops, Forall (fun o => boundary o = false) ops -> outputs (orun s ops) = outputs s) /\
  (forall s o, boundary o = true ->
     fst (ostep s o) = process_epoch s /\ os_epoch (process_epoch s) = (os_epoch s + 1)%N).
Proof.
  split; [exact step_outputs | split; [intros s ops; apply run_outputs|]].
  intros s o H. split; [apply step_boundary; exact H | reflexivity].
Qed.
Print Assumptions C18_change_only_at_epoch_boundary.

(* In every reachable state the voters of the epoch are pairwise distinct and are exactly the
   validators with a stored report of this epoch (one report each). *)
Theorem C18_voters_distinct_one_report_each :
  forall required ops,
    let s := orun (oinit required) ops in
    NoDup (os_price_votes s) /\ NoDup (os_holder_votes s) /\
    (forall v, In v (os_price_votes s) <-> exists p, aget v (os_price_claims s) = Some p) /\
    (forall v, In v (os_holder_votes s) <-> exists h, aget v (os_holder_claims s) = Some h).
Proof. exact reachable_votes. Qed.
Print Assumptions C18_voters_distinct_one_report_each.

(* "each validator's latest report": an accepted report of the current epoch comes from a validator,
   carries every required price, replaces that validator's earlier report and touches no other
   validator's; a report naming another epoch changes nothing; a stranger's report is refused. *)
Theorem C18_latest_report :
  (forall s a e p s', price_claim s a e p = Ok s' -> e = os_epoch s ->
     aget a (os_price_claims s') = Some p /\ In a (os_price_votes s') /\
     (forall b, b <> a -> aget b (os_price_claims s') = aget b (os_price_claims s)) /\
     is_val s a = true /\ has_required s p = true) /\
  (forall s a e h s', holders_claim s a e h = Ok s' -> e = os_epoch s ->
     aget a (os_holder_claims s') = Some h /\ In a (os_holder_votes s') /\
     (forall b, b <> a -> aget b (os_holder_claims s') = aget b (os_holder_claims s)) /\
     is_val s a = true) /\
  (forall s a e p s', price_claim s a e p = Ok s' -> e <> os_epoch s -> s' = s) /\
  (forall s a e h s', holders_claim s a e h = Ok s' -> e <> os_epoch s -> s' = s) /\
  (forall s a e p h, is_val s a = false -> price_claim s a e p = Err 1 /\ holders_claim s a e h = Err 1).
Proof.
  split; [exact price_claim_latest | split; [exact holders_claim_latest | split; [exact price_claim_other_epoch |
  split; [exact holders_claim_other_epoch | exact claim_by_stranger]]]].
Qed.
Print Assumptions C18_latest_report.

(* The quorum test (votes summed in arrival order, stopping early) is exactly "the voters hold at
   least 66% of the total bonded power" — it does not depend on the order of the votes. *)
Theorem C18_quorum_is_66_percent_of_power :
  forall s votes, vals_ok s ->
    (quorum s votes = true <-> votes <> [] /\ 66 * total_raw s <= 100 * votes_power s votes).
Proof. exact quorum_iff. Qed.
Print Assumptions C18_quorum_is_66_percent_of_power.

(* Reachable states with non-negative staking powers: when the epoch boundary changes the stored
   prices, the (distinct) voters of the epoch hold at least 66% of the power and the new prices are
   the price handler's output; when it changes the holders, the voters hold at least 66%, the new
   list is the stored report of a voter and the voters whose report is that identical list hold
   more than two thirds of the total power. *)
Theorem C18_boundary_needs_quorum :
  forall required ops, Forall wf_oop ops ->
    let s := orun (oinit required) ops in
    (os_prices (process_epoch s) <> os_prices s ->
       66 * total_raw s <= 100 * votes_power s (os_price_votes s) /\
       os_prices (process_epoch s) = Some (price_handler s)) /\
    (os_holders (process_epoch s) <> os_holders s ->
       66 * total_raw s <= 100 * votes_power s (os_holder_votes s) /\
       exists h, os_holders (process_epoch s) = Some h /\
                 (exists id, In id (os_holder_votes s) /\ aget id (os_holder_claims s) = Some h) /\
                 2 * total_raw s < 3 * agree_stake s h).
Proof.
  intros required ops Hw s.
  assert (vals_ok s) as Hok by (apply orun_vals_ok; [apply oinit_vals_ok | exact Hw]).
  split; [apply epoch_boundary_prices | apply epoch_boundary_holders]; exact Hok.
Qed.
Print Assumptions C18_boundary_needs_quorum.

(* hsame is equality of the (canonically ordered) lists: "the identical list" *)
Theorem C18_identical_list : forall a b, hsame a b = true <-> a = b.
Proof. exact hsame_eq. Qed.
Print Assumptions C18_identical_list.

(* Every stored price is the weighted median of the values reported under that name in the voters'
   latest reports, weighted by normalised power: there are reported values lo <= hi with
   m = (lo + hi) quo 2, at most half of the weight strictly below lo and at most half strictly
   above hi; lo = hi = m when the total weight is odd. *)
Theorem C18_price_is_weighted_median :
  forall s n m, In (n, m) (price_handler s) ->
    let l := filter positive_weight (reports_of s n) in
    let W := wtotal l in
    0 < W /\
    exists lo hi, In lo (map fst l) /\ In hi (map fst l) /\ lo <= hi /\ m = quo_trunc (lo + hi) 2 /\
                  2 * wlt l lo <= W /\ 2 * wgt l hi <= W /\ (Z.even W = false -> lo = hi).
Proof. intros s n m H. apply wmedian_spec. apply price_handler_in. exact H. Qed.
Print Assumptions C18_price_is_weighted_median.

(* the reports under a name: one (value, weight) per voter entry of that name in the voter's stored
   (latest) report, the weight being the voter's normalised power *)
Theorem C18_reports :
  forall s n x w,
    In (x, w) (reports_of s n) <->
    exists id prices, In id (os_price_votes s) /\ aget id (os_price_claims s) = Some prices /\
                      In (n, x) prices /\ w = norm_power s id.
Proof. exact reports_of_in. Qed.
Print Assumptions C18_reports.

(* the weights are the stake shares scaled to 65535 and rounded down: within one unit *)
Theorem C18_weight_is_stake_share :
  forall s id, vals_ok s -> 0 < total_raw s ->
    norm_power s id * total_raw s <= 65535 * power_raw s id < (norm_power s id + 1) * total_raw s.
Proof. exact norm_power_bounds. Qed.
Print Assumptions C18_weight_is_stake_share.

Theorem C18_median_between :
  forall lo hi, 0 <= lo -> lo <= hi -> lo <= quo_trunc (lo + hi) 2 <= hi.
Proof. exact quo_between. Qed.
Print Assumptions C18_median_between.

(* non-vacuity: a reachable state in which the boundary adopts new prices and holders *)
Definition ex_vals := [mkOval [1%N] 10 true; mkOval [2%N] 40 true; mkOval [3%N] 40 true; mkOval [4%N] 10 false].
Definition ex_ops :=
  [OSetVals ex_vals;
   OPrice [1%N] 1 [([101%N], 5)]; OPrice [2%N] 1 [([101%N], 9)]; OPrice [3%N] 1 [([101%N], 7)]; OPrice [2%N] 1 [([101%N], 8)];
   OHolders [2%N] 1 [([9%N], 3)]; OHolders [3%N] 1 [([9%N], 3)]; OHolders [1%N] 1 []].
Example C18_hypotheses_satisfiable :
  let s := orun (oinit [[101%N]]) ex_ops in
  Forall wf_oop ex_ops /\
  os_prices (process_epoch s) = Some [([101%N], 7)] /\ os_prices s = None /\
  os_holders (process_epoch s) = Some [([9%N], 3)] /\ os_holders s = None.
Proof.
  split; [|vm_compute; auto]. repeat constructor; vm_compute; congruence.
Qed.
