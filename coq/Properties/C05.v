(* C05 — Block processing never panics or deadlocks.  Statements only.
   Models: Hub/Model.v (begin_block / end_block), Hub/Votes.v (tally), Oracle/Oracle.v; lock skeleton:
   Proofs/C05Proofs.v with the iterator facts regenerated from the source (Gen/IterFacts.v).
   PARTIAL: the deadlock half is a theorem about the lock discipline of a cache-wrapped KV store (model)
   plus a syntactic fact about the code, tied to the real store by watchdog runs on a cache-wrapped
   multistore (suite blocks); panic freedom of the expiry refunds inside the EndBlocker is exercised by the
   hostile correspondence streams and the monitor, not proved (see DESIGN.md). *)
From V Require Import Base.Prelude Base.Val Num.Arith Hub.Types Hub.Model Hub.Votes Oracle.Oracle Gen.IterFacts
     Proofs.ListX Proofs.HubInv Proofs.VotesInv Proofs.C05Proofs.
Local Open Scope Z_scope.

(* Lock discipline: code in which no iterator body both writes to the store and opens another iterator
   never blocks — for every number of loop iterations, every path through the bodies, every number of
   dirty entries (worst case: every open iterator holds the index's read lock). *)
Theorem C05_no_deadlock_without_nested_write :
  forall p t, traces p t -> nest_ok p = true -> forall pend, exists pend', lrun (0%nat, pend) t = Some (0%nat, pend').
Proof. exact nest_ok_safe. Qed.
Print Assumptions C05_no_deadlock_without_nested_write.

(* ... and the excluded shape does block: a write followed by a nested iterator inside an open one *)
Theorem C05_nested_write_deadlocks :
  exists t, traces (PIter (PSeq PWrite (PIter PRead))) t /\ lrun (0%nat, false) t = None.
Proof. exact nested_write_blocks. Qed.
Print Assumptions C05_nested_write_deadlocks.

(* The keepers of the current source have no such site (translator bin/gen_iterfacts.py). *)
Theorem C05_source_has_no_nested_write_site : iter_write_sites = [].
Proof. exact no_nested_iterator_sites. Qed.
Print Assumptions C05_source_has_no_nested_write_site.

(* BeginBlocker never panics, from any state, whatever batches time out or get created, when every
   configured chain is one of ethereum / bsc / minter / hub and the average block times are non-zero
   (an unknown chain id makes getBatchTimeoutHeight divide by zero: stated, not excluded by the code). *)
Theorem C05_begin_block_never_panics :
  forall s force, params_ok (st_params s) -> exists s', begin_block s force = Ok s'.
Proof. exact begin_block_no_panic. Qed.
Print Assumptions C05_begin_block_never_panics.

(* An external event applied by the EndBlocker either succeeds or leaves pool, batches, balances and
   supply untouched: a malformed or malicious deposit / claim fails on its own. *)
(* The EndBlocker of the bridge module always completes: the tally applies claims on cache contexts and survives their
   errors and panics (below), and -- after the fix that lets a panicking expiry refund fail on its own -- the expiry
   refunds cannot make it fail either, whatever the pool, the balances, the supply (the bank panics on a mint beyond
   2^256-1) and the token list are. *)
Theorem C05_end_block_never_fails :
  (forall s, exists s', end_block s = Ok s') /\ (forall s, snd (step s OpEndBlock) = 0%N).
Proof.
  split; [exact end_block_never_fails|].
  intro s. cbn [step]. destruct (end_block_never_fails s) as [s' E]. rewrite E. reflexivity.
Qed.
Print Assumptions C05_end_block_never_fails.

Theorem C05_event_fails_on_its_own :
  forall s chain e,
    let (s', code) := apply_event s chain e in
    code = 0%N \/ (st_pool s' = st_pool s /\ st_batches s' = st_batches s /\ st_bal s' = st_bal s /\ st_supply s' = st_supply s).
Proof. exact apply_event_contains. Qed.
Print Assumptions C05_event_fails_on_its_own.

(* the vote tally of the EndBlocker and every oracle operation (claims, epoch processing) never panic *)
Theorem C05_tally_and_oracle_never_panic :
  (forall s, VInv s -> powers_nonneg (vs_staking s) -> exists s', tally s = Ok s') /\
  (forall s o, snd (ostep s o) <> 2%N).
Proof. split; [exact tally_never_panics | exact oracle_never_panics]. Qed.
Print Assumptions C05_tally_and_oracle_never_panic.

(* non-vacuity: the configured test parameters satisfy params_ok *)
Example C05_params_ok_example :
  params_ok (mkParams [b_ethereum; b_minter; b_bsc; b_hub] 5000 15000 5000 60001 60001 [84]%N).
Proof. repeat split; discriminate. Qed.
