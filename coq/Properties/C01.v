(* C01 — Bridge solvency: vouchers never exceed locked collateral.  Statements only.
   Per bridged asset (denom) D the potential
       phi s D = hub supply of D + hub value of every transfer of D in the pool or in a pending batch
   (Hub/World.v) is what must stay within the external custody.  The custody enters a hub history only
   through attested events: a deposit locks, an executed batch pays out.  PARTIAL: the theorems below
   cover the user-facing operations (withdrawal request, deposit, refund to the hub); that batch creation /
   cancellation only moves entries and that execution payouts stay within the executed batch's fees is
   evaluated on every history by the monitor mon_C01 (phi never grows except by applied deposits, phi
   never exceeds the custody ledger), not proved.  One genuine defect is recorded as a known finding:
   an execution claim whose handling fails is dropped (C01/execution-event-dropped). *)
From V Require Import Base.Prelude Base.Val Num.Arith Hub.Types Hub.Model Hub.Codec Hub.Monitor Hub.World
     Proofs.ListX Proofs.HubInv Proofs.C04Proofs Proofs.C11Proofs Proofs.C12Proofs Proofs.C01Proofs.
Local Open Scope Z_scope.

(* A withdrawal request (MsgSendToExternal) never increases the potential of any asset: what is burned
   (amount + fee) covers the hub value of the scheduled transfer — for every token configuration with
   0..24 external decimals, every commission rate and holder discount, every amount and fee. *)
Theorem C01_withdrawal_does_not_create_value :
  forall s sender chain rcpt denom a f h s' id d,
    tokens_ok (st_tokens s) -> 0 <= f ->
    (forall ti, In ti (st_tokens s) -> 0 <= commission_of (holder_rate s [sender; rcpt] (ti_comm ti)) (a + f)) ->
    msg_send s sender chain rcpt denom a f h = Ok (s', id) ->
    phi s' d <= phi s d.
Proof. exact msg_send_phi. Qed.
Print Assumptions C01_withdrawal_does_not_create_value.

(* Supply grows by exactly the amount locked by an observed deposit: an applied deposit of `amount`
   external units raises the potential of its asset by to_hub(decimals, amount) — the floor of the
   locked value in hub units — and of no other asset. *)
Theorem C01_deposit_mints_exactly_the_locked_amount :
  forall s chain coin amount recv h s' d,
    handle_deposit s chain coin amount recv h = Ok s' ->
    exists ti, ext_to_token (st_tokens s) chain coin = Some ti /\
               phi s' d = phi s d + (if beqb d (ti_denom ti) then to_hub (ti_dec ti) amount else 0).
Proof. exact handle_deposit_phi. Qed.
Print Assumptions C01_deposit_mints_exactly_the_locked_amount.

(* and the minted hub value never exceeds the locked external value *)
Theorem C01_minted_value_within_locked_value :
  forall d a, 0 <= d <= 24 -> 0 <= a -> hub_val (to_hub d a) <= ext_val d a.
Proof. intros d a Hd Ha. apply to_hub_value; assumption. Qed.
Print Assumptions C01_minted_value_within_locked_value.

(* A cancellation or expiry refund of a hub-origin transfer (listed token) leaves the potential of every
   asset unchanged: exactly the recorded value returns to the supply. *)
Theorem C01_refund_returns_exactly_what_was_in_flight :
  forall s chain id sender s' e t d,
    find_in_pool s chain id = Some e -> s_chain e = chain -> s_refund_chain e = b_hub ->
    NoDup (map ekey (st_pool s)) -> id_to_token (st_tokens s) (s_tid e) = Some t ->
    cancel_send s chain id sender = Ok s' ->
    phi s' d = phi s d.
Proof. exact cancel_hub_phi. Qed.
Print Assumptions C01_refund_returns_exactly_what_was_in_flight.

(* a failed or malicious event leaves supply, balances, pool and batches untouched (C05_event_fails_on_its_own),
   hence phi: only an applied deposit can raise it *)
Theorem C01_failed_event_changes_nothing :
  forall s chain e,
    let (s', code) := apply_event s chain e in
    code = 0%N \/ (st_pool s' = st_pool s /\ st_batches s' = st_batches s /\ st_bal s' = st_bal s /\ st_supply s' = st_supply s).
Proof. intros s chain e. unfold apply_event. destruct (handle_event _ chain e); simpl; auto. Qed.
Print Assumptions C01_failed_event_changes_nothing.

(* non-vacuity: the C04 witness history satisfies the hypotheses and its potential is accounted for *)
Example C01_example :
  let s := run (init_state c04_params c04_tokens) [OpBeginBlock 3 1000000 []; OpEvent b_ethereum (EvDeposit 1 c04_tok 1000 [120]%N c04_user 10 [100]%N); OpEndBlock] in
  tokens_ok (st_tokens s) /\ phi s b_hub = 1000.
Proof.
  split; [|vm_compute; reflexivity].
  intros t [<-|[]]. vm_compute. repeat split; try reflexivity; discriminate.
Qed.
