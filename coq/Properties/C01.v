(* C01 — Bridge solvency: vouchers never exceed locked collateral.  Statements only.
   Per bridged asset (denom) D the potential
       phi s D = hub supply of D + hub value of every transfer of D in the pool or in a pending batch
   (Hub/World.v) is what must stay within the external custody.  The custody enters a hub history only
   through attested events: a deposit locks, an executed batch pays out.  PARTIAL: the theorems below
   cover the withdrawal request, the deposit, the refund to the hub, batch creation / cancellation / timeout sweep
   (whole BeginBlocker); that execution payouts and foreign-chain refunds stay within what was in flight is
   evaluated on every history by the monitor mon_C01 (phi never grows except by applied deposits, phi
   never exceeds the custody ledger), not proved.  One genuine defect is recorded as a known finding:
   an execution claim whose handling fails is dropped (C01/execution-event-dropped). *)
From V Require Import Base.Prelude Base.Val Num.Arith Hub.Types Hub.Model Hub.Codec Hub.Monitor Hub.World
     Proofs.ListX Proofs.HubInv Proofs.C04Proofs Proofs.C11Proofs Proofs.C12Proofs Proofs.C01Proofs Proofs.C01Moves Proofs.C01Ok Proofs.C01Run.
Local Open Scope Z_scope.

(* A withdrawal request (MsgSendToExternal) never increases the potential of any asset: what is burned
   (amount + fee) covers the hub value of the scheduled transfer — for every token configuration with
   0..24 external decimals, every commission rate and holder discount, every amount and fee. *)
Theorem C01_withdrawal_does_not_create_value :
  forall s sender chain rcpt denom a f h s' id d,
    tokens_ok (st_tokens s) -> 0 <= f ->
    (forall ti, In ti (st_tokens s) -> 0 <= commission_of (holder_rate s [sender; rcpt] (ti_comm ti)) (a + f)) ->
    msg_send s sender chain rcpt denom a f h = Ok (s', id) ->
    phi s' d <= phi s d.
Proof. exact msg_send_phi. Qed.
Print Assumptions C01_withdrawal_does_not_create_value.

(* Supply grows by exactly the amount locked by an observed deposit: an applied deposit of `amount`
   external units raises the potential of its asset by to_hub(decimals, amount) — the floor of the
   locked value in hub units — and of no other asset. *)
Theorem C01_deposit_mints_exactly_the_locked_amount :
  forall s chain coin amount recv h s' d,
    handle_deposit s chain coin amount recv h = Ok s' ->
    exists ti, ext_to_token (st_tokens s) chain coin = Some ti /\
               phi s' d = phi s d + (if beqb d (ti_denom ti) then to_hub (ti_dec ti) amount else 0).
Proof. exact handle_deposit_phi. Qed.
Print Assumptions C01_deposit_mints_exactly_the_locked_amount.

(* and the minted hub value never exceeds the locked external value *)
Theorem C01_minted_value_within_locked_value :
  forall d a, 0 <= d <= 24 -> 0 <= a -> hub_val (to_hub d a) <= ext_val d a.
Proof. intros d a Hd Ha. apply to_hub_value; assumption. Qed.
Print Assumptions C01_minted_value_within_locked_value.

(* A cancellation or expiry refund of a hub-origin transfer (listed token) leaves the potential of every
   asset unchanged: exactly the recorded value returns to the supply. *)
Theorem C01_refund_returns_exactly_what_was_in_flight :
  forall s chain id sender s' e t d,
    find_in_pool s chain id = Some e -> s_chain e = chain -> s_refund_chain e = b_hub ->
    NoDup (map ekey (st_pool s)) -> id_to_token (st_tokens s) (s_tid e) = Some t ->
    cancel_send s chain id sender = Ok s' ->
    phi s' d = phi s d.
Proof. exact cancel_hub_phi. Qed.
Print Assumptions C01_refund_returns_exactly_what_was_in_flight.

(* Batch creation (BeginBlocker on every chain, MsgRequestBatchTx), batch cancellation and the timeout
   sweep only move transfers between the pool and the batches: in every state satisfying the proved
   invariant the potential of every asset is exactly unchanged by a whole BeginBlocker and by a batch request. *)
Theorem C01_batching_only_moves_transfers :
  (forall p s force s' d, InvP p s -> begin_block s force = Ok s' -> phi s' d = phi s d) /\
  (forall s chain denom s' d, Inv s -> msg_request_batch s chain denom = Ok s' -> phi s' d = phi s d) /\
  (forall s b d, Inv s -> In b (st_batches s) -> phi (cancel_batch s b) d = phi s d).
Proof. split; [exact begin_block_phi | split; [exact msg_request_batch_phi | exact cancel_batch_phi]]. Qed.
Print Assumptions C01_batching_only_moves_transfers.

(* a failed or malicious event leaves supply, balances, pool and batches untouched (C05_event_fails_on_its_own),
   hence phi: only an applied deposit can raise it *)
Theorem C01_failed_event_changes_nothing :
  forall s chain e,
    let (s', code) := apply_event s chain e in
    code = 0%N \/ (st_pool s' = st_pool s /\ st_batches s' = st_batches s /\ st_bal s' = st_bal s /\ st_supply s' = st_supply s).
Proof. intros s chain e. unfold apply_event. destruct (handle_event _ chain e); simpl; auto. Qed.
Print Assumptions C01_failed_event_changes_nothing.

(* THE HISTORY THEOREM.  Along every history of hub operations (withdrawal requests, cancellations, batch
   requests, attested events of all four kinds — deposits, transfers, batch executions, valset updates —
   Begin- and EndBlockers with their timeouts, refunds, commission and fee payouts), from the empty state,
   for every parameter set with distinct prefix-free chain ids and every consistent token table whose
   tokens have at most 18 external decimals and non-negative commission rates:
       hub supply of D  +  hub value of every transfer of D in the pool or in a batch
   never exceeds the hub value minted for the attested deposits of D (floor of the locked external value).
   Executions, refunds and payouts never add to it.  The only operations excluded are token-list changes
   (op_wf: an environment change must keep the token list); tokens with more than 18 decimals are the
   known findings C12/C19 (rounding in the external direction). *)
Theorem C01_history :
  forall p toks, tokens_ok toks -> le18 toks -> (forall t, In t toks -> 0 <= ti_comm t) -> NoDup (p_chains p) ->
  prefix_free (b_minter :: p_chains p) ->
  forall ops d, Forall (op_wf toks) ops ->
    phi (run (init_state p toks) ops) d <= deposits toks ops d.
Proof. intros p toks H1 H2 H3 H4 H5 ops d Hwf. exact (history_solvent p toks H1 H2 H3 H4 ops d H5 Hwf). Qed.
Print Assumptions C01_history.

(* and what a deposit contributes is never more than what it locked *)
Theorem C01_history_deposit_term :
  forall toks chain e d, tokens_ok toks ->
    match e with
    | EvDeposit _ coin amount _ _ _ _ | EvTransfer _ coin amount _ _ _ _ _ _ _ =>
        0 <= amount -> forall t, ext_to_token toks chain coin = Some t -> d = ti_denom t ->
        hub_val (dep_pos toks chain e d) <= ext_val (ti_dec t) amount
    | _ => dep_pos toks chain e d = 0
    end.
Proof.
  intros toks chain e d Htok. destruct e; try reflexivity.
  - intros Ha t Ht Hd. unfold dep_pos, dep_value. rewrite Ht. subst d. rewrite beqb_refl.
    apply find_some in Ht as [Hin _]. destruct (Htok t Hin) as [_ [_ Hdec]].
    destruct (to_hub_value (ti_dec t) amount Hdec Ha) as [V1 V2].
    assert (0 <= to_hub (ti_dec t) amount).
    { unfold hub_val, ext_val in V2. pose proof (pow10_pos 6 ltac:(lia)). pose proof (pow10_pos (24 - ti_dec t) ltac:(lia)). nia. }
    rewrite Z.max_r by lia. exact V1.
  - intros Ha t Ht Hd. unfold dep_pos, dep_value. rewrite Ht. subst d. rewrite beqb_refl.
    apply find_some in Ht as [Hin _]. destruct (Htok t Hin) as [_ [_ Hdec]].
    destruct (to_hub_value (ti_dec t) amount Hdec Ha) as [V1 V2].
    assert (0 <= to_hub (ti_dec t) amount).
    { unfold hub_val, ext_val in V2. pose proof (pow10_pos 6 ltac:(lia)). pose proof (pow10_pos (24 - ti_dec t) ltac:(lia)). nia. }
    rewrite Z.max_r by lia. exact V1.
Qed.
Print Assumptions C01_history_deposit_term.

(* non-vacuity of the history theorem: the C04 parameters and token table meet every hypothesis *)
Definition c01_params : params := mkParams [b_ethereum; b_minter; b_bsc; b_hub] 5000 15000 5000 60001 60001 [84]%N.
Example C01_history_hypotheses :
  tokens_ok c04_tokens /\ le18 c04_tokens /\ (forall t, In t c04_tokens -> 0 <= ti_comm t) /\
  NoDup (p_chains c01_params) /\ prefix_free (b_minter :: p_chains c01_params).
Proof.
  split; [intros t [<-|[]]; vm_compute; repeat split; try reflexivity; discriminate|].
  split; [intros t [<-|[]]; vm_compute; discriminate|].
  split; [intros t [<-|[]]; vm_compute; discriminate|].
  split; [vm_compute; repeat constructor; simpl; intuition discriminate|].
  exact c04_real_chains_prefix_free.
Qed.

(* non-vacuity: the C04 witness history satisfies the hypotheses and its potential is accounted for *)
Example C01_example :
  let s := run (init_state c04_params c04_tokens) [OpBeginBlock 3 1000000 []; OpEvent b_ethereum (EvDeposit 1 c04_tok 1000 [120]%N c04_user 10 [100]%N); OpEndBlock] in
  tokens_ok (st_tokens s) /\ phi s b_hub = 1000.
Proof.
  split; [|vm_compute; reflexivity].
  intros t [<-|[]]. vm_compute. repeat split; try reflexivity; discriminate.
Qed.
