(* C10 — Batches are well formed.  Statements only. *)
From V Require Import Base.Prelude Base.Val Num.Arith Hub.Types Hub.Model Proofs.ListX Proofs.HubInv Proofs.C10Proofs Proofs.C10Order.
Local Open Scope Z_scope.

(* Every pending batch of every reachable state: 1..100 transfers, all of the batch's own chain
   and token, a nonce between 1 and the chain's counter, unique per chain. *)
Theorem C10_stored_batches :
  forall p tokens ops,
    prefix_free (b_minter :: p_chains p) ->
    let s := run (init_state p tokens) ops in
    forall b, In b (st_batches s) ->
      (1 <= length (b_txs b) <= 100)%nat /\
      (forall e, In e (b_txs b) -> s_chain e = b_chain b /\ s_ext e = b_ext b) /\
      (1 <= b_nonce b <= agetd 0 (b_chain b) (st_last_batch_nonce s))%N /\
      (forall b', In b' (st_batches s) -> b_chain b' = b_chain b -> b_nonce b' = b_nonce b -> b' = b).
Proof. exact c10_stored_batches. Qed.
Print Assumptions C10_stored_batches.

(* Creation, from every reachable state: no batch (and no counter change at all) when the token
   has nothing pooled; otherwise the batch takes the first min(100, n) candidates, gets nonce
   counter+1 and sequence counter+1, and both counters advance to exactly these values
   (gap-free, strictly increasing in creation order). *)
Theorem C10_build_batch :
  forall p tokens ops chain ext s' ob,
    prefix_free (b_minter :: p_chains p) ->
    let s := run (init_state p tokens) ops in
    In chain (b_minter :: p_chains p) ->
    build_batch s chain ext = Ok (s', ob) ->
    match ob with
    | None => s' = s /\ pool_of_coin chain ext (st_pool s) = []
    | Some b =>
        b_chain b = chain /\ b_ext b = ext /\
        b_txs b = firstn 100 (pool_of_coin chain ext (st_pool s)) /\
        b_nonce b = (agetd 0 chain (st_last_batch_nonce s) + 1)%N /\
        agetd 0%N chain (st_last_batch_nonce s') = b_nonce b /\
        b_seq b = (agetd 0 chain (st_out_seq s) + 1)%N /\
        agetd 0%N chain (st_out_seq s') = b_seq b /\
        st_batches s' = st_batches s ++ [b]
    end.
Proof. exact c10_build_batch. Qed.
Print Assumptions C10_build_batch.

(* The candidates are ordered by descending store key chain|token|fee(32, big endian)|id(8):
   whatever is selected precedes whatever is left behind.  PARTIAL with respect to the property
   text ("highest fee"): that the byte order of fee(32) coincides with the numeric order of fees
   below 2^256 is not proved here; the monitor mon_C10 checks the numeric (fee, id) order on the
   implementation's batches. *)
Theorem C10_highest_key_first_partial :
  forall chain ext pool,
    let cands := pool_of_coin chain ext pool in
    sorted_desc cands /\
    forall n x y, In x (firstn n cands) -> In y (skipn n cands) -> bcmp (pool_key x) (pool_key y) <> Lt.
Proof. exact c10_highest_key_first. Qed.
Print Assumptions C10_highest_key_first_partial.

(* ... and the byte order of the key's fee(32) | id(8) suffix IS the numeric order of (fee, id) for fees
   below 2^256 and ids below 2^64, so the statement above reads "highest fee first": whatever is selected
   has a fee at least as high as anything of the same chain and token left behind; equal fees: higher id first. *)
Theorem C10_pool_key_order :
  forall x y, s_chain x = s_chain y -> s_ext x = s_ext y ->
    0 <= s_fee x < 2 ^ 256 -> 0 <= s_fee y < 2 ^ 256 -> (s_id x < 2 ^ 64)%N -> (s_id y < 2 ^ 64)%N ->
    bcmp (pool_key x) (pool_key y) = match s_fee x ?= s_fee y with Eq => (s_id x ?= s_id y)%N | c => c end.
Proof. exact pool_key_order. Qed.
Print Assumptions C10_pool_key_order.

Theorem C10_highest_fee_first :
  forall chain ext pool n x y,
    let cands := pool_of_coin chain ext pool in
    In x (firstn n cands) -> In y (skipn n cands) -> s_chain x = s_chain y ->
    0 <= s_fee x < 2 ^ 256 -> 0 <= s_fee y < 2 ^ 256 -> (s_id x < 2 ^ 64)%N -> (s_id y < 2 ^ 64)%N ->
    s_fee y < s_fee x \/ (s_fee x = s_fee y /\ (s_id y <= s_id x)%N).
Proof. exact c10_highest_fee_first. Qed.
Print Assumptions C10_highest_fee_first.
