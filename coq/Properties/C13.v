(* C13 — Batches are invalidated only when they can no longer execute.  Statements only. *)
From V Require Import Base.Prelude Base.Val Num.Arith Hub.Types Hub.Model Proofs.ListX Proofs.HubInv Proofs.C13Proofs Hub.Votes Hub.VotesMon Hub.VotesHeight Proofs.C13Height Gen.SrcFactsSol Ext.Hub2Sol Proofs.C08Proofs Proofs.C13Contract.
Local Open Scope Z_scope.

(* BeginBlocker's timeout sweep of a chain, from any state satisfying the structural invariant
   (all reachable states, HubInv.run_inv): a pending batch survives iff it is not (of that chain
   and with a timeout strictly below the last OBSERVED external height).  The contract requires
   block.number < timeout, and observed heights only come from applied events, so a withdrawn
   batch can no longer execute. *)
Theorem C13_timeout_only_if_dead :
  forall s chain x, Inv s -> In x (st_batches s) ->
    (In x (st_batches (cleanup_timed_out s chain)) <->
     ~ (b_chain x = chain /\ (b_timeout x < agetd 0 chain (st_obs_ext_h s))%N)).
Proof. exact c13_timeout_only_if_dead. Qed.
Print Assumptions C13_timeout_only_if_dead.

(* BeginBlocker never withdraws a Minter batch, in any reachable state *)
Theorem C13_minter_never_withdrawn :
  forall p s force s' x,
    InvP p s -> begin_block s force = Ok s' -> In x (st_batches s) -> b_chain x = b_minter -> In x (st_batches s').
Proof. exact c13_minter_never_withdrawn. Qed.
Print Assumptions C13_minter_never_withdrawn.

(* An observed execution removes exactly that batch and, on chains other than Minter, exactly the
   older batches of the same chain and token (whose transfers return to the pool: C04). *)
Theorem C13_executed_exact :
  forall s chain ext nonce h fp payer s' b x,
    Inv s -> find (batch_is chain ext nonce) (st_batches s) = Some b ->
    batch_executed s chain ext nonce h fp payer = Ok s' ->
    In x (st_batches s) ->
    (In x (st_batches s') <->
     ~ (batch_is chain ext nonce x = true \/
        (chain <> b_minter /\ b_chain x = chain /\ b_ext x = b_ext b /\ (b_nonce x < b_nonce b)%N))).
Proof. exact c13_executed_exact. Qed.
Print Assumptions C13_executed_exact.

(* The clock the timeout sweep reads -- the last observed external height -- is moved by the tally alone, and only to
   the height reported by a claim it has just applied (which had the 66% quorum: C02, in nonce order: C03).  A vote,
   whatever height it claims and whoever sends it, never moves it. *)
Theorem C13_observed_height_only_from_applied_claims :
  forall s o h,
    let s' := fst (hstep s o h) in
    hs_observed s' = hs_observed s \/
    (o = VTally /\ exists k, In k (skipn (length (vs_applied (hs_votes s))) (vs_applied (hs_votes s'))) /\
                             hs_observed s' = height_of (hs_heights s) k).
Proof. exact observed_height_only_from_applied. Qed.
Print Assumptions C13_observed_height_only_from_applied_claims.

Theorem C13_height_unchanged_without_application :
  forall s o h, vs_applied (hs_votes (fst (hstep s o h))) = vs_applied (hs_votes s) -> hs_observed (fst (hstep s o h)) = hs_observed s.
Proof. exact height_unchanged_without_application. Qed.
Print Assumptions C13_height_unchanged_without_application.

(* "can no longer execute", against the contract model of C08 (interpreted from the current Hub2.sol): a batch that the
   timeout sweep withdraws is rejected by submitBatch at every block at or after the height the hub has observed --
   whatever signer set, signatures, nonce and funds are presented. *)
Theorem C13_withdrawn_batch_is_dead_on_the_contract :
  forall s chain x sol trs bnonce quals mode exec,
    Inv s -> In x (st_batches s) -> ~ In x (st_batches (cleanup_timed_out s chain)) ->
    members_nonneg sol -> Z.of_N (agetd 0%N chain (st_obs_ext_h s)) <= exec ->
    snd (submit_batch sol trs bnonce (Z.of_N (b_timeout x)) quals mode exec) = false.
Proof. exact withdrawn_batch_is_dead_on_the_contract. Qed.
Print Assumptions C13_withdrawn_batch_is_dead_on_the_contract.
