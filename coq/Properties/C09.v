(* C09 — Signer sets mirror bonded voting power.  Statements only.  Model: Hub/SignerSet.v *)
From V Require Import Base.Prelude Base.Val Num.Arith Hub.SignerSet Proofs.ListX Proofs.C09Proofs.
From Coq Require Import Permutation.
Local Open Scope Z_scope.

(* exactly the bonded validators with a registered external key, in staking order *)
Theorem C09_members :
  forall vals a p,
    In (mkSigner a p) (members vals) <-> exists v, In v vals /\ bv_ext v = Some a /\ bv_power v = p.
Proof. exact members_spec. Qed.
Theorem C09_current_addresses :
  forall vals l, current_signer_set vals = Ok l -> map sg_addr l = map sg_addr (members vals).
Proof. exact current_addrs. Qed.

(* powers: floor(p * (2^32-1) / total) for each member -- within one unit of the exact share --
   and the normalised powers sum to at most 2^32-1 *)
Theorem C09_normalisation :
  forall vals l,
    (forall v, In v vals -> 0 <= bv_power v) ->
    current_signer_set vals = Ok l ->
    let T := total_of (members vals) in
    (members vals = [] /\ l = []) \/
    (0 < T /\
     Forall2 (fun m n => sg_addr n = sg_addr m /\ sg_power n = sg_power m * MAXU32 / T /\
                         sg_power n * T <= sg_power m * MAXU32 < (sg_power n + 1) * T /\ 0 <= sg_power n)
             (members vals) l /\
     total_of l <= MAXU32).
Proof. exact current_powers. Qed.
Print Assumptions C09_normalisation.

(* published order: a permutation of the current set, sorted by non-increasing power with ties
   broken by the address bytes, and this order is the only such arrangement (deterministic) *)
Theorem C09_sorted :
  forall l, Permutation (sg_sort l) l /\ sg_sorted (sg_sort l).
Proof. intro l. split; [apply sg_sort_perm | apply sg_sort_sorted]. Qed.
Theorem C09_sorted_unique :
  forall l1 l2, Permutation l1 l2 -> sg_sorted l1 -> sg_sorted l2 -> l1 = l2.
Proof. exact sorted_perm_unique. Qed.
Print Assumptions C09_sorted_unique.

(* nonces strictly increase by one per published set and the published set carries the counter *)
Theorem C09_nonce :
  forall s height vals s',
    create_set s height vals = Ok s' ->
    exists cur, current_signer_set vals = Ok cur /\
                ss_latest_nonce s' = (ss_latest_nonce s + 1)%N /\
                ss_latest s' = Some (ss_latest_nonce s', height, sg_sort cur).
Proof. exact create_set_spec. Qed.

(* after BeginBlocker: either a set equal to the sorted current set was just published, or the
   latest published set differs from the current one by at most 5% of 2^32-1 (sum of absolute
   power differences over the union of addresses) *)
Theorem C09_fresh :
  forall s height lu vals s',
    begin_block_sets s height lu vals = Ok s' ->
    exists cur, current_signer_set vals = Ok cur /\
      ((ss_latest_nonce s' = (ss_latest_nonce s + 1)%N /\ ss_latest s' = Some (ss_latest_nonce s', height, sg_sort cur)) \/
       (s' = s /\ exists n h latest, ss_latest s = Some (n, h, latest) /\ 20 * diff_sum cur latest <= MAXU32 /\ lu <> height)).
Proof. exact begin_block_sets_spec. Qed.
Print Assumptions C09_fresh.

(* the 5% boundary in integers: 214748364 passes, 214748365 triggers a new set *)
Example C09_boundary :
  power_diff_exceeds [mkSigner [1]%N 214748364] [] = false /\ power_diff_exceeds [mkSigner [1]%N 214748365] [] = true.
Proof. vm_compute. split; reflexivity. Qed.
