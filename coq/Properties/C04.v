(* C04 — An outgoing transfer is in exactly one place at any time.
   Only statements: every proof is one `exact` of a lemma proved in Proofs/. *)
From V Require Import Base.Prelude Base.Val Num.Arith Hub.Types Hub.Model Proofs.ListX Proofs.HubInv Proofs.C04Proofs.
Local Open Scope Z_scope.

(* For every configuration whose chain ids are prefix-free and every history of messages,
   external events and blocks: each transfer (chain, id) occurs at most once in the union of
   the unbatched pool and all pending batches, its id is between 1 and the chain's id counter,
   and no two pending batches share (chain, nonce). *)
Theorem C04_one_place :
  forall p tokens ops,
    prefix_free (b_minter :: p_chains p) ->
    let s := run (init_state p tokens) ops in
    NoDup (map ekey (st_pool s ++ batch_txs (st_batches s))) /\
    (forall e, In e (st_pool s ++ batch_txs (st_batches s)) ->
               (1 <= s_id e <= agetd 0 (s_chain e) (st_last_id s))%N) /\
    NoDup (map bkey (st_batches s)).
Proof. exact c04_one_place. Qed.
Print Assumptions C04_one_place.

(* Ids are never handed out twice: the counter never decreases and a new entry always carries
   counter+1 (so an id that has left pool and batches cannot come back as a different transfer). *)
Theorem C04_fresh_ids :
  forall s chain sender rcpt denom a f c h rc ra s' id,
    create_send s chain sender rcpt denom a f c h rc ra = Ok (s', id) ->
    id = (agetd 0 chain (st_last_id s) + 1)%N /\ agetd 0%N chain (st_last_id s') = id.
Proof. exact c04_fresh_ids. Qed.
Print Assumptions C04_fresh_ids.

(* The reported status does NOT always follow the lifecycle: the status is keyed by the inbound
   transaction hash, which several transfers can share.  Witness: two sends in one transaction,
   the first cancelled, the second batched and executed externally -- its status stays REFUNDED.
   (Recorded as known finding C04/shared-inbound-txhash; replayed on the implementation by the
   harness whenever two transfers share a hash.) *)
Theorem C04_status_refuted :
  exists p tokens ops h,
    let s := run (init_state p tokens) ops in
    st_pool s = [] /\ st_batches s = [] /\ get_status s h = ST_REFUNDED /\
    (* the second transfer (200) left the hub for good: only the first (100) came back *)
    balance s c04_user c04_denom = 1000 - 200.
Proof. exact c04_status_refuted. Qed.
Print Assumptions C04_status_refuted.

(* non-vacuity: a configuration with the real chain ids meets the hypothesis, and a history
   with a transfer in the pool, one in a batch and one executed exists *)
Example C04_hypothesis_satisfiable : prefix_free (b_minter :: [b_ethereum; b_minter; b_bsc; b_hub]).
Proof. exact c04_real_chains_prefix_free. Qed.
