(* C08 — What the hub emits is executable on the external chain.  Statements only.
   Model: Ext/Hub2Sol.v, interpreted from the text extracted from the current Hub2.sol (Gen/SrcFactsSol.v)
   and co-executed with the compiled contract on go-ethereum's simulated chain (suite "evm"), the signed
   digests being the real hub types' GetCheckpoint values. *)
From V Require Import Base.Prelude Base.Val Num.Arith Gen.SrcFactsSol Gen.SrcFactsGo Ext.Hub2Sol Hub.SignerSet Hub.Prune Proofs.ListX Proofs.C08Proofs Proofs.C08Prune Proofs.C08Once.
Local Open Scope Z_scope.

(* The current Hub2.sol compiles to the conditions the theorems below reason about (re-checked on every run). *)
Theorem C08_source_facts :
  c_skip = [(TVar 2, ONe, TLit 0)] /\ c_break = [(TVar 0, OGt, TVar 1)] /\ c_final = [(TVar 0, OGt, TVar 1)] /\
  sol_cvs_skeleton = expected_cvs_skeleton /\
  sol_initial_event_nonce = 1%N /\ sol_initial_valset_nonce = 0%N.
Proof.
  split; [exact c_skip_eq | split; [exact c_break_eq | split; [exact c_final_eq | split; [exact cvs_skeleton_ok | exact initial_nonces]]]].
Qed.
Print Assumptions C08_source_facts.

(* The signature check, for every signer set, every choice of supplied signatures and every power
   distribution (ties included): whatever is supplied, acceptance implies that validators of the set
   with VALID signatures hold strictly more than the threshold; and when no invalid signature is
   supplied the check accepts exactly when they do. *)
Theorem C08_signature_check :
  (forall thr slots, powers_nonneg slots -> check_sigs thr slots = true -> thr < valid_power slots) /\
  (forall thr slots, powers_nonneg slots -> no_invalid slots -> (check_sigs thr slots = true <-> thr < valid_power slots)).
Proof. split; [exact check_sigs_sound | exact check_sigs_iff]. Qed.
Print Assumptions C08_signature_check.

(* updateValset: accepted only with more than the threshold behind valid signatures of the contract's
   CURRENT set, against the true current set, with a larger nonce; and with those it is accepted,
   installs the new set and nonce and advances the event nonce by one. *)
Theorem C08_update_valset :
  (forall s new_members new_nonce quals mode exec, members_nonneg s ->
     snd (update_valset s new_members new_nonce quals mode exec) = true ->
     so_thr s < valid_power (slots_of s quals) /\ mode = 0 /\ so_vnonce s < new_nonce /\ length quals = length (so_members s)) /\
  (forall s new_members new_nonce quals exec, members_nonneg s ->
     length quals = length (so_members s) -> no_invalid (slots_of s quals) ->
     so_thr s < valid_power (slots_of s quals) -> so_vnonce s < new_nonce ->
     update_valset s new_members new_nonce quals 0 exec =
     (mkSol (so_thr s) new_members new_nonce (so_bnonce s) (so_enonce s + 1) (so_bal s) (so_user s) exec (so_dests s), true)).
Proof. split; [exact update_valset_accepts | exact update_valset_accepted]. Qed.
Print Assumptions C08_update_valset.

(* submitBatch: the same, plus nonce order per token, the timeout (executing block < timeout) and funds;
   an accepted batch pays out exactly its amounts and advances the event nonce by one. *)
Theorem C08_submit_batch :
  (forall s trs bnonce timeout quals mode exec, members_nonneg s ->
     snd (submit_batch s trs bnonce timeout quals mode exec) = true ->
     so_thr s < valid_power (slots_of s quals) /\ mode = 0 /\ so_bnonce s < bnonce /\ exec < timeout /\ batch_total trs <= so_bal s) /\
  (forall s trs bnonce timeout quals exec, members_nonneg s ->
     length quals = length (so_members s) -> no_invalid (slots_of s quals) ->
     so_thr s < valid_power (slots_of s quals) -> so_bnonce s < bnonce -> exec < timeout -> batch_total trs <= so_bal s ->
     submit_batch s trs bnonce timeout quals 0 exec =
     (mkSol (so_thr s) (so_members s) (so_vnonce s) bnonce (so_enonce s + 1) (so_bal s - batch_total trs) (so_user s) exec
            (pay_out (so_dests s) trs), true)).
Proof. split; [exact submit_batch_accepts | exact submit_batch_accepted]. Qed.
Print Assumptions C08_submit_batch.

(* Every operation: the event nonce advances by exactly one when the operation is accepted and not at
   all when it is refused (so the emitted events carry consecutive nonces, which the hub applies in
   order exactly once: C03); a refused operation leaves signer set, nonces and balances unchanged;
   nonces never decrease. *)
Theorem C08_nonces_in_step :
  forall s o,
    let (s', ok) := sstep s o in
    (match o with SMine _ => so_enonce s' = so_enonce s | _ => so_enonce s' = so_enonce s + (if ok then 1 else 0) end) /\
    (ok = false -> so_members s' = so_members s /\ so_vnonce s' = so_vnonce s /\ so_bnonce s' = so_bnonce s /\
                   so_bal s' = so_bal s /\ so_user s' = so_user s) /\
    so_vnonce s <= so_vnonce s' /\ so_bnonce s <= so_bnonce s' /\ so_thr s' = so_thr s.
Proof. exact sstep_nonces. Qed.
Print Assumptions C08_nonces_in_step.

(* Minter multisig as configured by the connector (weights floor(1000 p / total), threshold extracted
   from the connector source = 667): execution needs signers holding at least 66.7% of the power. *)
Theorem C08_minter_multisig :
  conn_threshold = 667 /\
  (forall total powers, 0 < total -> Forall (fun p => 0 <= p) powers ->
     msig_accepts (map (fun p => msig_weight p total) powers) = true -> 667 * total <= 1000 * zsum powers).
Proof. split; [exact conn_threshold_value | exact msig_sound]. Qed.
Print Assumptions C08_minter_multisig.

(* In nonce order, each at most once: after the contract has executed the batch (signer-set update) with nonce n, no
   batch (update) with a nonce <= n -- in particular not the same one again -- is ever accepted, whatever operations
   happen in between.  With C04 (a transfer is in at most one batch) this is "paid out at most once" on the external side. *)
Theorem C08_batch_nonce_executes_at_most_once :
  forall s trs n t q mode exec ops trs' n' t' q' mode' exec',
    snd (submit_batch s trs n t q mode exec) = true -> n' <= n ->
    snd (submit_batch (srun (fst (submit_batch s trs n t q mode exec)) ops) trs' n' t' q' mode' exec') = false.
Proof. exact batch_nonce_executes_at_most_once. Qed.
Print Assumptions C08_batch_nonce_executes_at_most_once.

Theorem C08_valset_nonce_executes_at_most_once :
  forall s m n q mode exec ops m' n' q' mode' exec',
    snd (update_valset s m n q mode exec) = true -> n' <= n ->
    snd (update_valset (srun (fst (update_valset s m n q mode exec)) ops) m' n' q' mode' exec') = false.
Proof. exact valset_nonce_executes_at_most_once. Qed.
Print Assumptions C08_valset_nonce_executes_at_most_once.

(* Hub side of "in nonce order": whatever validators change, whatever executions are attested and however
   far the height jumps, a signer set leaves the hub's store only when a set with a HIGHER nonce has been observed
   as executed on the external side.  Every nonce above the highest observed one, up to the latest, stays
   available to signers and relayers (on Minter, whose multisig takes strictly consecutive nonces, nothing that is
   still to be executed may be skipped). *)
Theorem C08_unexecuted_signer_sets_stay_available :
  forall w blocks n,
    let s := prun w blocks in
    (maxobs_of blocks < n <= ss_latest_nonce (ps_sets s))%N -> In n (map fst (ps_stored s)).
Proof. exact unexecuted_sets_stay_stored. Qed.
Print Assumptions C08_unexecuted_signer_sets_stay_available.

Theorem C08_pruned_only_below_observed :
  forall w height o stored nh,
    In nh stored -> ~ In nh (prune w height o stored) ->
    exists x, o = Some x /\ (fst nh < x)%N /\ (snd nh < height - w)%N /\ (w <= height)%N.
Proof. exact pruned_only_below_observed. Qed.
Print Assumptions C08_pruned_only_below_observed.

(* non-vacuity: three sets created, the second observed as executed, a jump beyond the window: set 1 is pruned,
   sets 2 and 3 stay *)
Example C08_prune_example :
  let v1 := [mkBval 700 (Some [1%N]); mkBval 200 (Some [2%N]); mkBval 100 (Some [3%N])] in
  let v2 := [mkBval 700 (Some [1%N]); mkBval 200 (Some [3%N]); mkBval 100 (Some [2%N])] in
  map fst (ps_stored (prun 3 [(2%N, v1, []); (3%N, v2, []); (4%N, v1, [2%N]); (20%N, v1, [])])) = [2%N; 3%N].
Proof. vm_compute. reflexivity. Qed.

(* non-vacuity: three validators 40/35/25 %, threshold 2/3 *)
Definition ex_sol := mkSol 2863311530 [([1%N], 1717986918); ([2%N], 1503238553); ([3%N], 1073741823)] 0 0 1 0 0 1 [].
Example C08_example :
  members_nonneg ex_sol /\
  snd (update_valset ex_sol [([9%N], 4294967295)] 1 [1; 1; 0] 0 2) = true /\      (* 75% signed *)
  snd (update_valset ex_sol [([9%N], 4294967295)] 1 [1; 0; 1] 0 2) = false /\     (* 65% signed *)
  snd (update_valset ex_sol [([9%N], 4294967295)] 1 [1; 1; 2] 0 2) = true /\      (* an invalid signature after the quorum is never looked at *)
  snd (update_valset ex_sol [([9%N], 4294967295)] 1 [2; 1; 1] 0 2) = false.       (* an invalid signature before it reverts *)
Proof.
  split; [repeat constructor; simpl; lia | vm_compute; auto].
Qed.
