(* C11 — Amounts credited, debited and paid out are exact.  Statements only. *)
From V Require Import Base.Prelude Base.Val Num.Arith Hub.Types Hub.Model Proofs.ListX Proofs.HubInv Proofs.C11Proofs.
Local Open Scope Z_scope.

(* a successful withdrawal request debits the sender (and the supply) by exactly amount + fee and
   schedules amount - commission, fee and commission (each converted to external units) *)
Theorem C11_withdraw :
  forall s sender chain rcpt denom a f h s' id,
    msg_send s sender chain rcpt denom a f h = Ok (s', id) ->
    exists ti comm,
      denom_to_token (st_tokens s) chain denom = Some ti /\
      comm = commission_of (holder_rate s [sender; rcpt] (ti_comm ti)) (a + f) /\
      0 <= a - comm /\
      balance s' sender denom = balance s sender denom - (a + f) /\
      supply s' denom = supply s denom - (a + f) /\
      exists e, st_pool s' = e :: st_pool s /\
                s_id e = id /\ s_sender e = sender /\ s_recipient e = rcpt /\ s_chain e = chain /\
                s_ext e = ti_ext ti /\
                s_token e = conv_to_ext (st_tokens s) chain (ti_ext ti) (a - comm) /\
                s_fee e = conv_to_ext (st_tokens s) chain (ti_ext ti) f /\
                s_comm e = conv_to_ext (st_tokens s) chain (ti_ext ti) comm /\
                s_refund_chain e = b_hub /\ s_refund_addr e = sender.
Proof. exact c11_withdraw. Qed.
Print Assumptions C11_withdraw.

(* the commission is floor(r * (amount+fee)) for a rate r that is the configured rate reduced by
   exactly one of the tiers 0,10,...,60 %, hence at most the configured rate *)
Theorem C11_commission_bounds :
  forall s addrs rate v, 0 <= rate -> 0 <= v ->
    let r := holder_rate s addrs rate in
    0 <= r <= rate /\
    (exists k, In k [0; 10; 20; 30; 40; 50; 60] /\ r = rate - (rate * k) / 100) /\
    0 <= commission_of r v /\ commission_of r v * ONE <= rate * v /\ commission_of r v = (r * v) / ONE.
Proof. exact c11_commission_bounds. Qed.
Print Assumptions C11_commission_bounds.

Theorem C11_tier_table :
  forall v, tier v = (if v <? ONE then 0 else if v <? 2 * ONE then 10 else if v <? 4 * ONE then 20 else if v <? 8 * ONE then 30
                      else if v <? 16 * ONE then 40 else if v <? 32 * ONE then 50 else 60).
Proof. exact c11_tier_table. Qed.

Theorem C11_fail_atomic :
  forall s sender chain rcpt denom a f h,
    snd (step s (OpSend sender chain rcpt denom a f h)) <> 0%N ->
    fst (step s (OpSend sender chain rcpt denom a f h)) = s.
Proof. exact c11_fail_atomic. Qed.

(* an observed deposit credits the recipient (and the supply) with exactly the converted locked
   amount; the conversion truncates by less than one hub unit and never rounds up *)
Theorem C11_deposit :
  forall s chain coin amount recv h s', 0 <= amount ->
    handle_deposit s chain coin amount recv h = Ok s' ->
    exists ti, ext_to_token (st_tokens s) chain coin = Some ti /\
      let c := to_hub (ti_dec ti) amount in
      0 < c /\
      balance s' recv (ti_denom ti) = balance s recv (ti_denom ti) + c /\
      supply s' (ti_denom ti) = supply s (ti_denom ti) + c /\
      st_pool s' = st_pool s /\ st_batches s' = st_batches s /\
      (0 <= ti_dec ti <= 24 -> hub_val c <= ext_val (ti_dec ti) amount < hub_val (c + 1)).
Proof. exact c11_deposit. Qed.
Print Assumptions C11_deposit.

(* non-vacuity: a 6-decimals deposit of 1234567 external units credits 1234567 * 10^12 *)
Example C11_deposit_example : to_hub 6 1234567 = 1234567000000000000 /\ to_ext 6 1234567999999999999 = 1234567.
Proof. vm_compute. split; reflexivity. Qed.
