(* C14 — Votes aggregate only on identical events.  Statements only.  Model: Ext/ClaimHash.v *)
From V Require Import Base.Prelude Base.Val Ext.Abi Ext.ClaimHash Proofs.ListX Proofs.C14Proofs.
Local Open Scope Z_scope.

(* For all admissible events (nonces and heights below 2^64, fields shorter than 2^64 bytes), of
   the same or of different types: equal hashed byte strings imply the same event type and equal
   values of every field.  With a collision-free SHA-256 the claim identifiers of two events that
   differ in any effect field differ. *)
Theorem C14_injective :
  forall e1 e2, xwf e1 -> xwf e2 -> xenc e1 = xenc e2 -> e1 = e2.
Proof. exact xenc_inj. Qed.
Print Assumptions C14_injective.

(* stated with the hash as an arbitrary injective function on byte strings *)
Theorem C14_claim_ids :
  forall (sha256 : bytes -> bytes),
    (forall a b, sha256 a = sha256 b -> a = b) ->
    forall e1 e2, xwf e1 -> xwf e2 -> e1 <> e2 -> sha256 (xenc e1) <> sha256 (xenc e2).
Proof. intros h Hinj e1 e2 H1 H2 Hne E. apply Hne. apply xenc_inj; auto. Qed.
Print Assumptions C14_claim_ids.

(* non-vacuity and the old ambiguity: coin "1" with amount 0x31.. against coin "11" now differ *)
Example C14_boundary_shift :
  xenc (XDeposit 1 [49]%N 12593 [] [] 1 []) <> xenc (XDeposit 1 [49;49]%N 49 [] [] 1 []).
Proof. vm_compute. congruence. Qed.
