(* Numbers as the code has them: sdk.Int (Z, 256-bit panic where checked), sdk.Dec (Z scaled by
   10^18 with the SDK's rounding), convertDecimals (big.Int Mul/Div, Euclidean = floor for
   positive divisors). *)
From V Require Import Base.Prelude.
Local Open Scope Z_scope.

Definition pow10 (d : Z) : Z := 10 ^ d.
Definition ONE : Z := 10 ^ 18.          (* sdk.Dec precision *)
Definition HUB_DEC : Z := 18.
Definition MAXINT : Z := 2 ^ 256.       (* |sdk.Int| < 2^256 or the constructor panics *)

Definition fits256 (z : Z) : bool := (Z.abs z <? MAXINT).

(* keeper.convertDecimals (big.Int: result.Mul(to).Div(from); Div is Euclidean) *)
Definition convert_decimals (from to amount : Z) : Z :=
  if from =? to then amount else (amount * pow10 to) / pow10 from.

Definition to_hub (d amount : Z) : Z := convert_decimals d HUB_DEC amount.    (* ConvertFromExternalValue *)
Definition to_ext (d amount : Z) : Z := convert_decimals HUB_DEC d amount.    (* ConvertToExternalValue *)

(* sdk.Dec operations on the underlying integer (value * 10^18) *)
Definition quo_trunc (a b : Z) : Z := Z.quot a b.        (* big.Int.Quo: toward zero *)

(* chopPrecisionAndRound: divide by 10^18 rounding half to even (on the absolute value) *)
Definition chop_round_pos (d : Z) : Z :=
  let q := d / ONE in
  let r := d mod ONE in
  if r =? 0 then q
  else if r <? 5 * 10 ^ 17 then q
  else if 5 * 10 ^ 17 <? r then q + 1
  else if Z.even q then q else q + 1.
Definition chop_round (d : Z) : Z :=
  if d <? 0 then - chop_round_pos (- d) else chop_round_pos d.

Definition dec_of_int (i : Z) : Z := i * ONE.                 (* Int.ToDec *)
Definition dec_mul (a b : Z) : Z := chop_round (a * b).       (* Dec.Mul *)
Definition dec_quo (a b : Z) : Z := chop_round (quo_trunc (a * ONE * ONE) b).  (* Dec.Quo *)
Definition dec_mul_int64 (a i : Z) : Z := a * i.
Definition dec_quo_int64 (a i : Z) : Z := quo_trunc a i.
Definition dec_truncate (a : Z) : Z := quo_trunc a ONE.       (* TruncateInt *)

(* GetCommissionForHolder: tier by the larger holder value; commission - commission*k*10/100 *)
Definition tier (maxv : Z) : Z :=
  if maxv <=? 0 then 0
  else if 32 * ONE <=? maxv then 60
  else if 16 * ONE <=? maxv then 50
  else if 8 * ONE <=? maxv then 40
  else if 4 * ONE <=? maxv then 30
  else if 2 * ONE <=? maxv then 20
  else if 1 * ONE <=? maxv then 10
  else 0.

Definition commission_rate (rate maxv : Z) : Z :=
  let t := tier maxv in
  if t =? 0 then rate else rate - dec_quo_int64 (dec_mul_int64 rate t) 100.

(* commission charged on a value: rate.Mul(value.ToDec()).TruncateInt() *)
Definition commission_of (rate value : Z) : Z :=
  dec_truncate (dec_mul rate (dec_of_int value)).

(* ------------------------------------------------------------------------- *)
(* Lemmas *)

Lemma ONE_pos : 0 < ONE. Proof. unfold ONE. lia. Qed.
Lemma pow10_pos d : 0 <= d -> 0 < pow10 d.
Proof. intro H. unfold pow10. apply Z.pow_pos_nonneg; lia. Qed.

Lemma chop_round_exact x : 0 <= x -> chop_round (x * ONE) = x.
Proof.
  intro Hx. pose proof ONE_pos.
  unfold chop_round. assert (x * ONE <? 0 = false) as -> by nia.
  unfold chop_round_pos. rewrite Z.mod_mul by lia. simpl. apply Z.div_mul. lia.
Qed.

Lemma commission_of_floor rate value :
  0 <= rate -> 0 <= value -> commission_of rate value = (rate * value) / ONE.
Proof.
  intros Hr Hv. unfold commission_of, dec_mul, dec_of_int, dec_truncate, quo_trunc.
  replace (rate * (value * ONE)) with ((rate * value) * ONE) by ring.
  rewrite chop_round_exact by nia.
  rewrite Z.quot_div_nonneg; [reflexivity | nia | apply ONE_pos].
Qed.

Lemma commission_of_bounds rate value :
  0 <= rate -> 0 <= value ->
  0 <= commission_of rate value /\ commission_of rate value * ONE <= rate * value.
Proof.
  intros Hr Hv. rewrite commission_of_floor by assumption. pose proof ONE_pos.
  split; [apply Z.div_pos; nia|]. rewrite Z.mul_comm. apply Z.mul_div_le. lia.
Qed.

Lemma commission_of_le_value rate value :
  0 <= rate <= ONE -> 0 <= value -> commission_of rate value <= value.
Proof.
  intros Hr Hv. rewrite commission_of_floor by lia. pose proof ONE_pos.
  apply Z.div_le_upper_bound; nia.
Qed.

Lemma commission_rate_bounds rate maxv :
  0 <= rate -> 0 <= commission_rate rate maxv <= rate.
Proof.
  intro Hr. unfold commission_rate.
  assert (Ht : 0 <= tier maxv <= 60).
  { unfold tier. repeat (destruct (_ <=? _)); lia. }
  destruct (tier maxv =? 0) eqn:E; [lia|].
  unfold dec_quo_int64, dec_mul_int64, quo_trunc.
  rewrite Z.quot_div_nonneg by nia.
  assert (0 <= rate * tier maxv / 100) by (apply Z.div_pos; nia).
  assert (rate * tier maxv / 100 <= rate) by (apply Z.div_le_upper_bound; nia).
  lia.
Qed.

(* the discounted rate is exactly rate - floor(rate*k/10) for the tier k in 0..6 *)
Lemma commission_rate_tier rate maxv :
  0 <= rate -> commission_rate rate maxv = rate - (rate * tier maxv) / 100.
Proof.
  intro Hr. unfold commission_rate.
  assert (Ht : 0 <= tier maxv <= 60).
  { unfold tier. repeat (destruct (_ <=? _)); lia. }
  destruct (tier maxv =? 0) eqn:E.
  - apply Z.eqb_eq in E. rewrite E, Z.mul_0_r. simpl. lia.
  - unfold dec_quo_int64, dec_mul_int64, quo_trunc. rewrite Z.quot_div_nonneg by nia. reflexivity.
Qed.

(* conversions: exact when scaling up, floor when scaling down *)
Lemma convert_up from to a :
  0 <= from <= to -> convert_decimals from to a = a * pow10 (to - from).
Proof.
  intros H. unfold convert_decimals. destruct (from =? to) eqn:E.
  - apply Z.eqb_eq in E. subst. rewrite Z.sub_diag. unfold pow10. simpl. lia.
  - unfold pow10. replace to with ((to - from) + from) at 1 by lia.
    rewrite Z.pow_add_r by lia. rewrite Z.mul_assoc. apply Z.div_mul.
    apply Z.pow_nonzero; lia.
Qed.

Lemma convert_down from to a :
  0 <= to <= from -> convert_decimals from to a = a / pow10 (from - to).
Proof.
  intros H. unfold convert_decimals. destruct (from =? to) eqn:E.
  - apply Z.eqb_eq in E. subst. rewrite Z.sub_diag. unfold pow10. simpl. symmetry. apply Z.div_1_r.
  - unfold pow10. replace from with ((from - to) + to) at 1 by lia.
    rewrite Z.pow_add_r by lia.
    rewrite Z.div_mul_cancel_r; [reflexivity | apply Z.pow_nonzero; lia | apply Z.pow_nonzero; lia].
Qed.

Lemma convert_nonneg from to a : 0 <= from -> 0 <= to -> 0 <= a -> 0 <= convert_decimals from to a.
Proof.
  intros Hf Ht Ha. unfold convert_decimals. destruct (from =? to); [assumption|].
  apply Z.div_pos; [|apply pow10_pos; lia]. pose proof (pow10_pos to Ht). nia.
Qed.

Lemma convert_mono from to a b :
  0 <= from -> 0 <= to -> a <= b -> convert_decimals from to a <= convert_decimals from to b.
Proof.
  intros Hf Ht Hab. unfold convert_decimals. destruct (from =? to); [assumption|].
  apply Z.div_le_mono; [apply pow10_pos; lia|]. pose proof (pow10_pos to Ht). nia.
Qed.

(* value in the common fine unit 10^-24: a hub amount is worth a*10^6, an external amount of a
   d-decimals token a*10^(24-d) *)
Definition hub_val (a : Z) : Z := a * pow10 6.
Definition ext_val (d a : Z) : Z := a * pow10 (24 - d).

Lemma pow10_add a b : 0 <= a -> 0 <= b -> pow10 (a + b) = pow10 a * pow10 b.
Proof. intros. unfold pow10. apply Z.pow_add_r; assumption. Qed.

(* a deposit never credits more than was locked, and loses less than one hub unit *)
Lemma to_hub_value d a :
  0 <= d <= 24 -> 0 <= a ->
  hub_val (to_hub d a) <= ext_val d a /\ ext_val d a < hub_val (to_hub d a + 1).
Proof.
  intros Hd Ha. unfold to_hub, hub_val, ext_val, HUB_DEC.
  destruct (Z_le_gt_dec d 18) as [Hle|Hgt].
  - rewrite convert_up by lia.
    replace (24 - d) with ((18 - d) + 6) by lia. rewrite pow10_add by lia.
    pose proof (pow10_pos 6 ltac:(lia)). pose proof (pow10_pos (18 - d) ltac:(lia)). nia.
  - rewrite convert_down by lia.
    assert (E6 : pow10 6 = pow10 (d - 18) * pow10 (24 - d)).
    { rewrite <- pow10_add by lia. f_equal. lia. }
    rewrite E6.
    pose proof (pow10_pos (24 - d) ltac:(lia)). pose proof (pow10_pos (d - 18) ltac:(lia)).
    pose proof (Z.mul_div_le a (pow10 (d - 18)) ltac:(lia)).
    pose proof (Z.mul_succ_div_gt a (pow10 (d - 18)) ltac:(lia)). nia.
Qed.

(* a withdrawal never schedules more externally than was burned on the hub *)
Lemma to_ext_value d a :
  0 <= d <= 24 -> 0 <= a -> ext_val d (to_ext d a) <= hub_val a.
Proof.
  intros Hd Ha. unfold to_ext, hub_val, ext_val, HUB_DEC.
  destruct (Z_le_gt_dec 18 d) as [Hle|Hgt].
  - rewrite convert_up by lia.
    assert (E6 : pow10 6 = pow10 (d - 18) * pow10 (24 - d)).
    { rewrite <- pow10_add by lia. f_equal. lia. }
    rewrite E6.
    pose proof (pow10_pos (24 - d) ltac:(lia)). pose proof (pow10_pos (d - 18) ltac:(lia)). nia.
  - rewrite convert_down by lia.
    replace (24 - d) with ((18 - d) + 6) by lia. rewrite pow10_add by lia.
    pose proof (pow10_pos 6 ltac:(lia)). pose proof (pow10_pos (18 - d) ltac:(lia)).
    pose proof (Z.mul_div_le a (pow10 (18 - d)) ltac:(lia)). nia.
Qed.

Lemma to_hub_to_ext_le d a : 0 <= d <= 24 -> 0 <= a -> to_hub d (to_ext d a) <= a.
Proof.
  intros Hd Ha. unfold to_hub, to_ext, HUB_DEC.
  destruct (Z_le_gt_dec 18 d) as [Hle|Hgt].
  - rewrite (convert_up 18 d) by lia. rewrite convert_down by lia.
    rewrite Z.div_mul; [lia | apply Z.pow_nonzero; lia].
  - rewrite (convert_down 18 d) by lia. rewrite convert_up by lia.
    pose proof (pow10_pos (18 - d) ltac:(lia)).
    pose proof (Z.mul_div_le a (pow10 (18 - d)) ltac:(lia)). nia.
Qed.

(* what a refund returns: the recorded external amounts converted back to hub units *)
Lemma refund_exact_ge18 d a f c :
  18 <= d <= 24 -> to_hub d (to_ext d a + to_ext d f + to_ext d c) = a + f + c.
Proof.
  intros Hd. unfold to_hub, to_ext, HUB_DEC. rewrite !(convert_up 18 d) by lia. rewrite convert_down by lia.
  replace (a * pow10 (d - 18) + f * pow10 (d - 18) + c * pow10 (d - 18)) with ((a + f + c) * pow10 (d - 18)) by ring.
  apply Z.div_mul. unfold pow10. apply Z.pow_nonzero; lia.
Qed.

Lemma refund_bounds_lt18 d a f c :
  0 <= d < 18 -> 0 <= a -> 0 <= f -> 0 <= c ->
  let r := to_hub d (to_ext d a + to_ext d f + to_ext d c) in
  r <= a + f + c /\ a + f + c - r < 3 * pow10 (18 - d).
Proof.
  intros Hd Ha Hf Hc. unfold to_hub, to_ext, HUB_DEC. rewrite !(convert_down 18 d) by lia. rewrite convert_up by lia.
  pose proof (pow10_pos (18 - d) ltac:(lia)) as Hp. set (P := pow10 (18 - d)) in *.
  pose proof (Z.mul_div_le a P Hp). pose proof (Z.mul_div_le f P Hp). pose proof (Z.mul_div_le c P Hp).
  pose proof (Z.mul_succ_div_gt a P Hp). pose proof (Z.mul_succ_div_gt f P Hp). pose proof (Z.mul_succ_div_gt c P Hp).
  cbv zeta. generalize dependent (a / P). generalize dependent (f / P). generalize dependent (c / P). intros. nia.
Qed.
