(* Extraction of the executable model to OCaml.  Only ExtrOcamlBasic is used: bool, option,
   list, prod, unit, sumbool map to OCaml natives; Z, N, positive, nat stay the extracted
   inductives (2^256-scale integers do not fit OCaml int). *)
From Coq Require Extraction ExtrOcamlBasic.
From V Require Import Base.Prelude Base.Val Hub.Codec Hub.Monitor Hub.World Hub.Genesis Hub.Votes Hub.VotesMon Hub.VotesHeight Hub.SignerSet Hub.Prune Ext.Checkpoint Ext.ClaimHash Hub.Registry Oracle.Oracle Oracle.OracleMon Conn.Connector Conn.ConnMon Ext.Hub2Sol Ext.Hub2SolMon.

Extraction Language OCaml.
Extraction "model.ml" hub_run blocks_run mon_C04 mon_C10 mon_C12 mon_C13 mon_C11 mon_C19 votes_run mon_C02 mon_C03 sigset_run mon_C09 ckpt_run sig_run mon_C07_ckpt mon_C07_sig claim_run mon_C14 reg_run mon_C16 mon_C17 oracle_run mon_C18 conn_run cmd_run mon_C20_conn mon_C20_cmd relay_run mon_C20_relay evm_run mon_C08 mon_C08_sigset mon_C08_hub mon_C08_reg prune_run mon_C08_prune mon_C09_prune votesh_run mon_C13_votes mon_C01_votes genesis_run det_run mon_C01 mon_C05_hub mon_C05_votes mon_C05_oracle mon_C15_hub votesgen_run mon_C15_votes oraclegen_run mon_C15_oracle reggen_run mon_C15_reg.
