(* driver.ml: generic glue between the Go harness and the extracted model.
   stdin lines:  <function-name> TAB <case> TAB <implementation-output>
   stdout lines: OK | MISMATCH <name> <first differing index or -1> <model-output> | MONFAIL <name> <detail>
   Values use the text syntax described in Base/Val.v; collections tagged "set" are sorted
   before comparison. *)
module BZ = Z
open Model

(* ---------- Z conversion ---------- *)
let rec pos_of_z (z : BZ.t) : positive =
  if BZ.equal z BZ.one then XH
  else if BZ.equal (BZ.logand z BZ.one) BZ.one then XI (pos_of_z (BZ.shift_right z 1))
  else XO (pos_of_z (BZ.shift_right z 1))
let cz_of_z (z : BZ.t) : Model.z =
  if BZ.sign z = 0 then Z0 else if BZ.sign z > 0 then Zpos (pos_of_z z) else Zneg (pos_of_z (BZ.neg z))
let rec z_of_pos (p : positive) : BZ.t =
  match p with
  | XH -> BZ.one
  | XO q -> BZ.shift_left (z_of_pos q) 1
  | XI q -> BZ.succ (BZ.shift_left (z_of_pos q) 1)
let z_of_cz (c : Model.z) : BZ.t =
  match c with Z0 -> BZ.zero | Zpos p -> z_of_pos p | Zneg p -> BZ.neg (z_of_pos p)
let n_of_int (i : int) : Model.n = if i = 0 then N0 else Npos (pos_of_z (BZ.of_int i))
let int_of_n (n : Model.n) : int = match n with N0 -> 0 | Npos p -> BZ.to_int (z_of_pos p)

(* ---------- parsing ---------- *)
exception Parse of string
let parse (s : string) : val0 =
  let n = String.length s in
  let pos = ref 0 in
  let rec skip () = if !pos < n && (s.[!pos] = ' ') then (incr pos; skip ()) in
  let hexv c = match c with
    | '0'..'9' -> Char.code c - 48 | 'a'..'f' -> Char.code c - 87 | 'A'..'F' -> Char.code c - 55
    | _ -> raise (Parse "hex") in
  let rec value () : val0 =
    skip ();
    if !pos >= n then raise (Parse "eof");
    match s.[!pos] with
    | '(' ->
        incr pos;
        let items = ref [] in
        let rec loop () =
          skip ();
          if !pos >= n then raise (Parse "unclosed");
          if s.[!pos] = ')' then incr pos
          else (items := value () :: !items; loop ()) in
        loop ();
        VL (List.rev !items)
    | '"' ->
        incr pos;
        let start = !pos in
        while !pos < n && s.[!pos] <> '"' do incr pos done;
        let str = String.sub s start (!pos - start) in
        incr pos;
        VB (List.init (String.length str) (fun i -> n_of_int (Char.code str.[i])))
    | 'x' ->
        incr pos;
        let start = !pos in
        while !pos < n && s.[!pos] <> ' ' && s.[!pos] <> ')' do incr pos done;
        let len = (!pos - start) / 2 in
        VB (List.init len (fun i -> n_of_int (hexv s.[start + 2*i] * 16 + hexv s.[start + 2*i + 1])))
    | _ ->
        let start = !pos in
        while !pos < n && s.[!pos] <> ' ' && s.[!pos] <> ')' do incr pos done;
        VI (cz_of_z (BZ.of_string (String.sub s start (!pos - start))))
  in
  let v = value () in
  v

(* ---------- printing (canonical) ---------- *)
let printable c = c > 32 && c < 127 && c <> 34 && c <> 92 && c <> 40 && c <> 41
let print_bytes (b : Model.n list) : string =
  let codes = List.map int_of_n b in
  if codes <> [] && List.for_all printable codes then
    "\"" ^ String.concat "" (List.map (fun c -> String.make 1 (Char.chr c)) codes) ^ "\""
  else "x" ^ String.concat "" (List.map (fun c -> Printf.sprintf "%02x" (c land 0xffff)) codes)
let is_set_tag (v : val0) = match v with
  | VB [a; b; c] -> int_of_n a = 115 && int_of_n b = 101 && int_of_n c = 116
  | _ -> false
let rec print (v : val0) : string =
  match v with
  | VI z -> BZ.to_string (z_of_cz z)
  | VB b -> print_bytes b
  | VL (t :: items) when is_set_tag t ->
      let strs = List.sort compare (List.map print items) in
      "(\"set\"" ^ String.concat "" (List.map (fun s -> " " ^ s) strs) ^ ")"
  | VL items -> "(" ^ String.concat " " (List.map print items) ^ ")"

let functions : (string * (val0 -> val0)) list = [
  ("hub", hub_run);
  ("votes", votes_run);
  ("sigset", sigset_run);
  ("ckpt", ckpt_run);
  ("sig", sig_run);
  ("claim", claim_run);
  ("reg", reg_run);
  ("oracle", oracle_run);
  ("conn", conn_run);
  ("cmd", cmd_run);
  ("evm", evm_run);
  ("genesis", genesis_run);
  ("det", det_run);
  ("blocks", blocks_run);
  ("detoracle", oracle_run);
  ("votesgen", votesgen_run);
  ("oraclegen", oraclegen_run);
  ("reggen", reggen_run);
  ("sigprune", prune_run);
  ("votesh", votesh_run);
  ("relay", relay_run);
]

(* monitors: (property, suite) -> case -> implementation output -> list of violations *)
let monitors : ((string * string) * (val0 -> val0 -> val0)) list = [
  (("C01", "hub"), mon_C01);
  (("C04", "hub"), mon_C04);
  (("C10", "hub"), mon_C10);
  (("C12", "hub"), mon_C12);
  (("C13", "hub"), mon_C13);
  (("C13", "votesh"), mon_C13_votes);
  (("C11", "hub"), mon_C11);
  (("C19", "hub"), mon_C19);
  (("C02", "votes"), mon_C02);
  (("C03", "votes"), mon_C03);
  (("C09", "sigset"), mon_C09);
  (("C07", "ckpt"), mon_C07_ckpt);
  (("C08", "evm"), mon_C08);
  (("C08", "sigset"), mon_C08_sigset);
  (("C08", "hub"), mon_C08_hub);
  (("C08", "sigprune"), mon_C08_prune);
  (("C09", "sigprune"), mon_C09_prune);
  (("C08", "reg"), mon_C08_reg);
  (("C07", "sig"), mon_C07_sig);
  (("C14", "claim"), mon_C14);
  (("C16", "reg"), mon_C16);
  (("C17", "reg"), mon_C17);
  (("C05", "blocks"), mon_C05_hub);
  (("C05", "hub"), mon_C05_hub);
  (("C01", "votesh"), mon_C01_votes);
  (("C05", "votes"), mon_C05_votes);
  (("C05", "oracle"), mon_C05_oracle);
  (("C15", "genesis"), mon_C15_hub);
  (("C15", "votesgen"), mon_C15_votes);
  (("C15", "oraclegen"), mon_C15_oracle);
  (("C15", "reggen"), mon_C15_reg);
  (("C18", "oracle"), mon_C18);
  (("C20", "conn"), mon_C20_conn);
  (("C20", "cmd"), mon_C20_cmd);
  (("C20", "relay"), mon_C20_relay);
]

let first_diff (a : val0) (b : val0) : int =
  match a, b with
  | VL la, VL lb ->
      let rec go i la lb = match la, lb with
        | [], [] -> -1
        | x :: la', y :: lb' -> if print x = print y then go (i+1) la' lb' else i
        | _, _ -> i in
      go 0 la lb
  | _, _ -> -1

(* usage: driver print            : print the model's output for each case
          driver check <PROP>     : compare model and implementation, run PROP's monitors
   output per input line: one line "OK", or "MISMATCH <suite> <index> <model-output>", followed by
   zero or more "MONITOR <suite> <violation>" lines, then "END". *)
let () =
  let mode = if Array.length Sys.argv > 1 then Sys.argv.(1) else "check" in
  let prop = if Array.length Sys.argv > 2 then Sys.argv.(2) else "" in
  try
    while true do
      let line = input_line stdin in
      (match String.split_on_char '\t' line with
      | suite :: case :: rest ->
          let c = parse case in
          let impl = match rest with i :: _ -> parse i | [] -> VL [] in
          (match List.assoc_opt suite functions with
           | Some f ->
               let m = f c in
               if mode = "print" then print_endline (print m)
               else if print m = print impl then print_endline "OK"
               else Printf.printf "MISMATCH\t%s\t%d\t%s\n" suite (first_diff m impl) (print m)
           | None -> if mode <> "print" then print_endline "NOMODEL");
          if mode <> "print" then begin
            (match List.assoc_opt (prop, suite) monitors with
             | Some f ->
                 (match f c impl with
                  | VL items -> List.iter (fun v -> Printf.printf "MONITOR\t%s\t%s\n" suite (print v)) items
                  | v -> Printf.printf "MONITOR\t%s\t%s\n" suite (print v))
             | None -> ());
            print_endline "END"
          end
      | _ -> print_endline "BADLINE"; print_endline "END");
      flush stdout
    done
  with End_of_file -> ()
