package main

// Seeded generation of hub histories.  Generation is interleaved with execution on the real
// keepers so that cancels, batch requests and execution events can refer to what exists.

import (
	"fmt"
	"math/big"
	"sort"

	sdk "github.com/cosmos/cosmos-sdk/types"

	"github.com/MinterTeam/mhub2/module/x/mhub2/types"
)

func pow10(n int) *big.Int { return new(big.Int).Exp(big.NewInt(10), big.NewInt(int64(n)), nil) }
func pow2(n int) *big.Int  { return new(big.Int).Lsh(big.NewInt(1), uint(n)) }

func randBig(rng *Rng, max *big.Int) *big.Int {
	if max.Sign() <= 0 {
		return big.NewInt(0)
	}
	n := (max.BitLen() + 63) / 64
	x := new(big.Int)
	for i := 0; i < n; i++ {
		x.Lsh(x, 64)
		x.Or(x, new(big.Int).SetUint64(rng.Next()))
	}
	return x.Mod(x, max)
}

// amount classes; hostile adds 2^255-scale values
func genAmount(rng *Rng, dec int, hostile bool) *big.Int {
	c := rng.Intn(100)
	switch {
	case c < 15:
		return big.NewInt(int64(1 + rng.Intn(100)))
	case c < 25:
		return big.NewInt(int64(1000 + rng.Intn(1000000000)))
	case c < 60:
		return new(big.Int).Mul(big.NewInt(int64(1+rng.Intn(5000))), pow10(15))
	case c < 72:
		// around the truncation boundary of a dec-decimals token
		k := 18 - dec
		if k < 0 {
			k = -k
		}
		x := new(big.Int).Mul(big.NewInt(int64(1+rng.Intn(20))), pow10(k))
		return x.Add(x, big.NewInt(int64(rng.Intn(3)-1)))
	case c < 90:
		return new(big.Int).Add(pow2(64), randBig(rng, pow2(100)))
	default:
		if hostile {
			return new(big.Int).Add(pow2(250), randBig(rng, pow2(255)))
		}
		return new(big.Int).Mul(big.NewInt(int64(1+rng.Intn(64))), pow10(18))
	}
}

var minterIds = []string{"1", "10", "100", "2012", "20", "0", "101"}
var decChoices = []uint64{18, 18, 18, 6, 0, 8, 24, 20, 18, 12}

func commChoice(rng *Rng) sdk.Dec {
	switch rng.Intn(7) {
	case 0:
		return sdk.ZeroDec()
	case 1:
		return sdk.NewDecWithPrec(1, 2)
	case 2:
		return sdk.NewDecWithPrec(3, 3)
	case 3:
		return sdk.NewDecWithPrec(5, 1)
	case 4:
		return sdk.NewDecWithPrec(1, 18)
	case 5:
		return sdk.NewDecWithPrec(999, 3)
	default:
		return sdk.NewDecWithPrec(int64(1+rng.Intn(99999)), 6)
	}
}

// prefixIds: external ids on ethereum/bsc where one id is a prefix of another (not valid hex
// addresses: reachable only through a governance listing of such ids)
var prefixIds = false

// directed: boundary-directed stream (prefix-related ids on one chain, many batches, out-of-order executions)
var directed = false

// genesisMode: only events that pass ExternalEvent.Validate (what MsgSubmitExternalEvent.ValidateBasic
// admits on a real chain): InitGenesis re-validates stored events
var genesisMode = false

// detMode (determinism suite): after every operation a hash over all stores and the emitted events
// is recorded (lastCaseHashes); the history also contains failed transactions that wrote the token list
// before failing (op 9: must leave no trace) and rebuilds of all keeper objects over the same stores
// (op 10: a process restart; must change nothing)
var detMode = false

// blocksMode (C05): blocks run on a cache-wrapped multistore under a watchdog; histories contain bursts
// of 60-110 transfers written in one block, batches that time out with all their transfers, expiries
// next to many dirty pool entries
var blocksMode = false

// manyBatches: a relayer that is far behind: more than 100 batches of one token wait on one chain (what a
// paginated accessor would cut off)
var manyBatches = false

// floodMode: a backlog on four or five tokens of one chain at the same time (relayers down, a halt): every token of the chain has about
// a hundred or more pooled transfers when the BeginBlocker of an even height batches them
var floodMode = false

// consistentExec: with -hostile, keep the reported executions within what the external side can do (a custody
// ledger is only meaningful for executions the custody could have made)
var consistentExec = false

// noCapDeposit: deposits are not capped below 2^255 of hub value per denom, so that refunds and mints can run into the
// bank's 256-bit supply limit (the C05 stream for the expiry refund that used to panic out of the EndBlocker).
var noCapDeposit = false
var lastCaseHashes []string
var lastCaseShadowDiff = -1

func genTokens(rng *Rng) []*types.TokenInfo {
	prefixIds = (rng.Chance(1, 5) || directed) && !genesisMode && !floodMode
	sharedIds := !prefixIds && rng.Chance(1, 4)
	denoms := []string{"hub", "usdx", "eth", "dai", "wbtc"}
	nd := 1 + rng.Intn(3)
	if floodMode {
		nd = 4 + rng.Intn(2)
	}
	if prefixIds && nd < 2 {
		nd = 2
	}
	if directed {
		nd = 3
	}
	var out []*types.TokenInfo
	id := uint64(1)
	perm := []int{0, 1, 2, 3, 4, 5, 6}
	for i := range perm {
		j := i + rng.Intn(len(perm)-i)
		perm[i], perm[j] = perm[j], perm[i]
	}
	for d := 0; d < nd; d++ {
		for _, ch := range []string{"minter", "ethereum", "bsc"} {
			if ch != "minter" && !prefixIds && !floodMode && rng.Chance(1, 4) {
				continue
			}
			ext := ""
			if ch == "minter" {
				ext = minterIds[perm[d]]
			} else {
				ext = ethAddrOf(byte(0xc0+16*d), len(ch))
				if sharedIds && ch == "bsc" {
					// the same contract address exists on both EVM chains, behind it a different asset
					ext = ethAddrOf(byte(0xc0+16*((d+1)%nd)), len("ethereum"))
				}
				if prefixIds {
					ext = ethAddrOf(0xc0, len(ch))[:10+16*d]
				}
			}
			out = append(out, &types.TokenInfo{Id: id, Denom: denoms[d], ChainId: ch, ExternalTokenId: ext,
				ExternalDecimals: decChoices[rng.Intn(len(decChoices))], Commission: commChoice(rng)})
			id++
		}
	}
	return out
}

type HubStats map[string]int

func runHubCase(seed uint64, nOps int, hostile bool, gov bool, restart bool, stats HubStats) (V, V) {
	rng := &Rng{s: seed}
	tokens := genTokens(rng)
	params := DefaultTestParams(allChains)
	params.OutgoingTxTimeout = 60001
	nVals := 1 + rng.Intn(3)
	var dk []*types.MsgDelegateKeys
	for i := 0; i < nVals; i++ {
		dk = append(dk, &types.MsgDelegateKeys{ValidatorAddress: valAddr(i).String(), OrchestratorAddress: orchAddr(i).String(),
			ExternalAddress: ethAddrOf(0x70, i), EthSignature: []byte{1}, ChainId: "minter"})
	}
	env := NewEnv(EnvOpts{Params: params, Tokens: tokens, States: []*types.ExternalState{{ChainId: "minter", DelegateKeys: dk,
		LatestBlockHeight: types.LatestBlockHeight{}}}})
	powers := []int64{100, int64(1 + rng.Intn(40)), int64(1 + rng.Intn(10))}
	if rng.Chance(1, 4) {
		// an 18-decimals stake token: consensus powers beyond 2^32 (same proportions)
		for i := range powers {
			powers[i] <<= 33
		}
	}
	for i := 0; i < nVals; i++ {
		env.Staking.Vals = append(env.Staking.Vals, ValIn{Oper: valAddr(i), Power: powers[i], Bonded: true})
	}
	run := &HubRun{env: env, chains: allChains, nextNonce: map[string]uint64{}, voter: sdk.AccAddress(valAddr(0)), deliver: blocksMode}

	holders := map[string]*big.Int{}
	prices := map[string]sdk.Dec{}
	genEnv := func() *HubOp {
		for i := 0; i < 3; i++ {
			if rng.Chance(1, 2) {
				tierv := []int64{0, 1, 2, 4, 8, 16, 32, 33}[rng.Intn(8)]
				v := new(big.Int).Mul(big.NewInt(tierv), pow10(18))
				v.Add(v, big.NewInt(int64(rng.Intn(3)-1)))
				if v.Sign() < 0 {
					v.SetInt64(0)
				}
				if rng.Chance(1, 2) {
					holders[lower(userAddr(i).String())] = v
				} else {
					holders[ethAddrOf(0xe0, i)[2:]] = v
				}
			}
		}
		if !hostile || rng.Chance(9, 10) {
			for _, n := range []string{"eth", "bnb", "hub", "usdx"} {
				prices[n] = sdk.NewDecWithPrec(int64(1+rng.Intn(5000000)), int64(rng.Intn(6)))
			}
		}
		hc := map[string]*big.Int{}
		for k, v := range holders {
			hc[k] = v
		}
		pc := map[string]sdk.Dec{}
		for k, v := range prices {
			pc[k] = v
		}
		return &HubOp{Kind: 7, Tokens: tokens, Holders: hc, Prices: pc}
	}

	// determinism suite: a shadow instance executes the same operations but rebuilds all keeper objects
	// before each of them, so nothing the modules keep outside the stores ever survives there
	var shadow *HubRun
	lastCaseShadowDiff = -1
	if detMode {
		env2 := NewEnv(EnvOpts{Params: params, Tokens: tokens, States: []*types.ExternalState{{ChainId: "minter", DelegateKeys: dk,
			LatestBlockHeight: types.LatestBlockHeight{}}}})
		env2.Staking.Vals = append([]ValIn{}, env.Staking.Vals...)
		shadow = &HubRun{env: env2, chains: allChains, nextNonce: map[string]uint64{}, voter: run.voter}
	}
	var ops, outs []V
	deadlocked := false
	do := func(op *HubOp) int64 {
		if deadlocked {
			return 3
		}
		opv := op.val(env) // before exec: env op reads the signer set
		code, _ := run.exec(op)
		ops = append(ops, opv)
		if code == 3 {
			// the store is blocked: it cannot be observed any more, the history ends here
			deadlocked = true
			outs = append(outs, L(I(3), L()))
			stats[fmt.Sprintf("op%d_code3", op.Kind)]++
			return 3
		}
		if blocksMode && (op.Kind == 1 || op.Kind == 2 || op.Kind == 3 || op.Kind == 4 || op.Kind == 11) {
			// inside a block nothing reads the stores between two transactions: observing here would sort the dirty
			// entries of the block's cache store, which the Begin/EndBlocker of a real node find unsorted
			outs = append(outs, L(I(code), L()))
		} else {
			outs = append(outs, L(I(code), observeHub(env, allChains)))
		}
		if detMode {
			lastCaseHashes = append(lastCaseHashes, env.StateHash())
			shadow.env.Wire()
			code2, _ := shadow.exec(op)
			if lastCaseShadowDiff < 0 && (code2 != code || Str(observeHub(shadow.env, allChains)) != Str(observeHub(env, allChains))) {
				lastCaseShadowDiff = len(ops) - 1
			}
		}
		if code == 3 {
			deadlocked = true
		}
		stats[fmt.Sprintf("op%d_code%d", op.Kind, code)]++
		return code
	}
	do(genEnv())

	height := int64(2)
	timeMs := int64(1600000000000)
	extHeight := map[string]uint64{"ethereum": 100, "bsc": 500, "minter": 1000}
	inBlock := false
	txCounter := uint64(seed << 16)
	var lastTx []byte
	lastExec := map[string]uint64{}

	tokensOn := func(ch string) []*types.TokenInfo {
		var l []*types.TokenInfo
		for _, t := range tokens {
			if t.ChainId == ch {
				l = append(l, t)
			}
		}
		return l
	}
	// what the custodies hold stays representable: the hub value of everything deposited of one asset is kept below
	// 2^255 (a deposit that would go beyond is made small). With that -- and supply + in flight <= deposits (C01) --
	// the bank's 256-bit arithmetic cannot overflow in a mint; assets whose locked value exceeds 2^256 hub units are
	// outside what the bridge can represent at all.
	deposited := map[string]*big.Int{}
	capDeposit := func(t *types.TokenInfo, amt *big.Int) *big.Int {
		if t == nil || amt.Sign() <= 0 || noCapDeposit {
			return amt
		}
		hv := new(big.Int).Set(amt)
		if d := int(t.ExternalDecimals); d <= 18 {
			hv.Mul(hv, pow10(18-d))
		} else {
			hv.Div(hv, pow10(d-18))
		}
		cur := deposited[t.Denom]
		if cur == nil {
			cur = new(big.Int)
		}
		if new(big.Int).Add(cur, hv).Cmp(pow2(255)) >= 0 {
			amt = new(big.Int).Mul(big.NewInt(int64(1+rng.Intn(900))), pow10(int(t.ExternalDecimals)))
			hv = new(big.Int).Mul(big.NewInt(1000), pow10(18))
		}
		deposited[t.Denom] = new(big.Int).Add(cur, hv)
		return amt
	}
	extChains := []string{"ethereum", "minter", "bsc"}
	nextEvent := func(ch string) (uint64, uint64) {
		run.nextNonce[ch]++
		step := uint64(rng.Intn(3))
		if rng.Chance(1, 8) {
			step = uint64(5 + rng.Intn(30))
		}
		extHeight[ch] += step
		return run.nextNonce[ch], extHeight[ch]
	}
	poolOf := func(ch string) []*types.SendToExternal {
		var l []*types.SendToExternal
		env.K.IterateUnbatchedSendToExternals(env.Ctx, types.ChainID(ch), func(s *types.SendToExternal) bool { l = append(l, s); return false })
		return l
	}
	batchesOf := func(ch string) []*types.BatchTx {
		var l []*types.BatchTx
		env.K.IterateOutgoingTxsByType(env.Ctx, types.ChainID(ch), types.BatchTxPrefixByte, func(_ []byte, otx types.OutgoingTx) bool {
			l = append(l, otx.(*types.BatchTx))
			return false
		})
		return l
	}

	// funding block: a few deposits applied by the first EndBlocker
	funding := 2 + rng.Intn(4)
	burstsLeft := 3
	foreignLeft := 1
	nonMonoLeft := 1
	catchupLeft := 1
	quietLeft := 1
	manyDone := false
	lastCaseHashes = nil
	for len(ops) < nOps || (blocksMode && !deadlocked && (foreignLeft > 0 || catchupLeft > 0 || burstsLeft > 1) && len(ops) < nOps+1500) {
		if detMode && rng.Chance(1, 10) {
			if rng.Chance(1, 2) {
				// a transaction that rewrites the token list (as a governance proposal handler does) and then fails
				var mut []*types.TokenInfo
				for _, t := range tokens {
					c := *t
					c.ExternalDecimals = uint64((int(t.ExternalDecimals) + 1 + rng.Intn(5)) % 25)
					c.Commission = sdk.NewDecWithPrec(int64(rng.Intn(100)), 3)
					mut = append(mut, &c)
				}
				do(&HubOp{Kind: 9, Tokens: mut})
			} else {
				do(&HubOp{Kind: 10})
			}
			continue
		}
		if deadlocked {
			break
		}
		if blocksMode && inBlock && funding == 0 && catchupLeft > 0 && rng.Chance(1, 2) {
			// a catch-up block: a transfer is sent and batched, and an oracle that was down reports a long run of events at
			// once -- first the execution of that (or an older waiting) batch, then 66-90 deposits
			catchupLeft--
			var t *types.TokenInfo
			u := 0
			for _, c := range tokens {
				for i := 0; i < 3; i++ {
					if (c.ChainId == "ethereum" || c.ChainId == "bsc") && env.Bank.GetBalance(env.Ctx, userAddr(i), c.Denom).Amount.BigInt().Cmp(pow10(9)) > 0 {
						t, u = c, i
					}
				}
			}
			if t != nil {
				ch := t.ChainId
				txCounter++
				do(&HubOp{Kind: 1, Sender: userAddr(u).String(), Chain: ch, Recipient: ethAddrOf(0xe0, rng.Intn(3)), Denom: t.Denom,
					Amount: big.NewInt(int64(100000 + rng.Intn(1000))), Fee: big.NewInt(int64(1 + rng.Intn(5))), TxBytes: []byte(fmt.Sprintf("tx%d", txCounter))})
				do(&HubOp{Kind: 3, Sender: userAddr(u).String(), Chain: ch, Denom: t.Denom})
				// the batch just requested, looked up by key (no iteration: its key must stay among the unsorted dirty entries)
				var b *types.BatchTx
				bn := rawU64(env, append([]byte{types.LastOutgoingBatchNonceKey}, types.ChainID(ch).Bytes()...))
				if otx := env.K.GetOutgoingTx(env.Ctx, types.ChainID(ch), types.MakeBatchTxKey(types.ChainID(ch), t.ExternalTokenId, bn)); otx != nil {
					if x, ok := otx.(*types.BatchTx); ok && x.BatchNonce > lastExec[ch+"|"+x.ExternalTokenId] && (x.Timeout == 0 || x.Timeout > extHeight[ch]+1) {
						b = x
					}
				}
				if b != nil {
					n, h := nextEvent(ch)
					if b.Timeout > 0 && h > b.Timeout-1 {
						h = b.Timeout - 1
						extHeight[ch] = h
					}
					lastExec[ch+"|"+b.ExternalTokenId] = b.BatchNonce
					do(&HubOp{Kind: 4, Chain: ch, Ev: &HubEvent{Kind: 3, Nonce: n, Coin: b.ExternalTokenId, BatchNonce: b.BatchNonce, Height: h,
						TxHash: fmt.Sprintf("0xexe%s%d", ch, n), FeePaid: big.NewInt(int64(rng.Intn(1000))), FeePayer: ethAddrOf(0x90, rng.Intn(2))}})
					nd := 66 + rng.Intn(25)
					for i := 0; i < nd && !deadlocked; i++ {
						n, _ := nextEvent(ch)
						amt := new(big.Int).Mul(big.NewInt(int64(1+rng.Intn(9))), pow10(int(t.ExternalDecimals)))
						do(&HubOp{Kind: 4, Chain: ch, Ev: &HubEvent{Kind: 1, Nonce: n, Coin: t.ExternalTokenId, Amount: amt, Sender: ethAddrOf(0xe0, 0),
							Receiver: userAddr(rng.Intn(3)).String(), Height: extHeight[ch], TxHash: fmt.Sprintf("0xcat%s%d", ch, n)}})
					}
					do(&HubOp{Kind: 6})
					inBlock = false
					stats["catch_up_blocks"]++
				}
			}
			continue
		}
		if blocksMode && inBlock && funding == 0 && foreignLeft > 0 && rng.Chance(1, 3) {
			foreignLeft--
			// many transfers that arrived from another chain expire in one block while their refund cannot be
			// sent back (the token was delisted on the originating chain): every refund fails on its own and the
			// transfers stay pooled; the EndBlocker has to get through all of them, in this and the next blocks
			var tA, tB *types.TokenInfo
			for _, a := range tokens {
				for _, b := range tokens {
					if a.Denom == b.Denom && a.ChainId != b.ChainId && (tA == nil || rng.Chance(1, 3)) {
						tA, tB = a, b
					}
				}
			}
			if tA != nil {
				nblock := func(dt int64) {
					height++
					timeMs += dt
					do(&HubOp{Kind: 5, Height: height, TimeMs: timeMs})
				}
				if height%2 != 0 {
					do(&HubOp{Kind: 6})
					nblock(5000)
				}
				nb := 65 + rng.Intn(40)
				for i := 0; i < nb && !deadlocked; i++ {
					n, h := nextEvent(tA.ChainId)
					amt := new(big.Int).Mul(big.NewInt(int64(1000+rng.Intn(9000))), pow10(int(tA.ExternalDecimals)))
					do(&HubOp{Kind: 4, Chain: tA.ChainId, Ev: &HubEvent{Kind: 2, Nonce: n, Coin: tA.ExternalTokenId, Amount: amt,
						Fee: new(big.Int).Div(amt, big.NewInt(int64(20+rng.Intn(50)))), Sender: ethAddrOf(0xe0, rng.Intn(3)), RChain: tB.ChainId,
						Receiver: ethAddrOf(0xe0, rng.Intn(3)), Height: h, TxHash: fmt.Sprintf("0xfgn%s%d", tA.ChainId, n)}})
				}
				do(&HubOp{Kind: 6})
				var rest []*types.TokenInfo
				for _, t := range tokens {
					if t != tA {
						rest = append(rest, t)
					}
				}
				tokens = rest
				do(genEnv())
				nblock(62000)
				do(&HubOp{Kind: 6})
				nblock(5000)
				do(&HubOp{Kind: 6})
				inBlock = false
				stats["foreign_burst_failing_refunds"]++
			}
			continue
		}
		if blocksMode && inBlock && funding == 0 && burstsLeft > 0 && rng.Chance(1, 3) {
			burstsLeft--
			// a burst: many small transfers of one token to one chain, all written in this block
			ch := []string{"ethereum", "bsc", "minter"}[rng.Intn(3)]
			ts := tokensOn(ch)
			if len(ts) > 0 {
				t := ts[rng.Intn(len(ts))]
				u := rng.Intn(3)
				if env.Bank.GetBalance(env.Ctx, userAddr(u), t.Denom).Amount.BigInt().Cmp(pow10(9)) > 0 {
					nb := 60 + rng.Intn(51)
					burst := func() {
						for i := 0; i < nb && !deadlocked; i++ {
							txCounter++
							do(&HubOp{Kind: 1, Sender: userAddr(u).String(), Chain: ch, Recipient: ethAddrOf(0xe0, rng.Intn(3)), Denom: t.Denom,
								Amount: big.NewInt(int64(100000 + rng.Intn(1000))), Fee: big.NewInt(int64(rng.Intn(5))), TxBytes: []byte(fmt.Sprintf("tx%d", txCounter))})
						}
					}
					newBlock := func(dt int64) {
						height++
						timeMs += dt
						do(&HubOp{Kind: 5, Height: height, TimeMs: timeMs})
					}
					burst()
					stats["bursts"]++
					switch rng.Intn(3) {
					case 0: // batch them, let the whole batch time out: the BeginBlocker of an even height puts them all back and batches again
						if ch != "minter" {
							do(&HubOp{Kind: 3, Chain: ch, Denom: t.Denom, Sender: userAddr(u).String()})
							do(&HubOp{Kind: 6})
							newBlock(5000)
							n, h := nextEvent(ch)
							extHeight[ch] = h + 1000000
							do(&HubOp{Kind: 4, Chain: ch, Ev: &HubEvent{Kind: 4, Nonce: n, Height: h + 1000000}})
							do(&HubOp{Kind: 6})
							newBlock(5000)
							if height%2 != 0 && !deadlocked {
								do(&HubOp{Kind: 6})
								newBlock(5000)
							}
							stats["burst_batch_timeout"]++
						}
					case 1: // let them expire next to a second burst written in the expiry block
						do(&HubOp{Kind: 6})
						newBlock(62000)
						if !deadlocked {
							burst()
						}
						if !deadlocked {
							do(&HubOp{Kind: 6})
							inBlock = false
						}
						stats["burst_expiry"]++
					default:
					}
				}
			}
			continue
		}
		if inBlock && funding > 0 {
			funding--
			ch := extChains[rng.Intn(3)]
			ts := tokensOn(ch)
			if len(ts) > 0 {
				t := ts[rng.Intn(len(ts))]
				n, h := nextEvent(ch)
				amt := new(big.Int).Mul(big.NewInt(int64(1+rng.Intn(900))), pow10(int(t.ExternalDecimals)))
				do(&HubOp{Kind: 4, Chain: ch, Ev: &HubEvent{Kind: 1, Nonce: n, Coin: t.ExternalTokenId, Amount: amt, Sender: ethAddrOf(0xe0, 0),
					Receiver: userAddr(rng.Intn(3)).String(), Height: h, TxHash: fmt.Sprintf("0xfund%s%d", ch, n)}})
			}
			if funding == 0 {
				do(&HubOp{Kind: 6})
				inBlock = false
			}
			continue
		}
		if floodMode && !manyDone && inBlock && funding == 0 {
			manyDone = true
			ch := []string{"ethereum", "bsc", "minter"}[rng.Intn(3)]
			ts := tokensOn(ch)
			// fund user 0 with every token of the chain, applied by this block's EndBlocker
			for _, t := range ts {
				n, h := nextEvent(ch)
				amt := new(big.Int).Mul(big.NewInt(900), pow10(int(t.ExternalDecimals)))
				do(&HubOp{Kind: 4, Chain: ch, Ev: &HubEvent{Kind: 1, Nonce: n, Coin: t.ExternalTokenId, Amount: amt, Sender: ethAddrOf(0xe0, 0),
					Receiver: userAddr(0).String(), Height: h, TxHash: fmt.Sprintf("0xflood%s%d", ch, n)}})
			}
			do(&HubOp{Kind: 6})
			height++
			timeMs += 5000
			do(&HubOp{Kind: 5, Height: height, TimeMs: timeMs})
			for _, t := range ts {
				nb := 100 + rng.Intn(3)*6
				for i := 0; i < nb; i++ {
					txCounter++
					do(&HubOp{Kind: 1, Sender: userAddr(0).String(), Chain: ch, Recipient: ethAddrOf(0xe0, rng.Intn(3)), Denom: t.Denom,
						Amount: new(big.Int).Add(pow10(18), big.NewInt(int64(rng.Intn(1000)))), Fee: new(big.Int).Mul(pow10(15), big.NewInt(int64(1+rng.Intn(50)))), TxBytes: []byte(fmt.Sprintf("tx%d", txCounter))})
				}
			}
			// up to the BeginBlocker of the next even height, which batches the pool
			for k := 0; k < 2; k++ {
				do(&HubOp{Kind: 6})
				height++
				timeMs += 5000
				do(&HubOp{Kind: 5, Height: height, TimeMs: timeMs})
			}
			full := 0
			for _, b := range batchesOf(ch) {
				if len(b.Transactions) >= 100 {
					full++
				}
			}
			stats["flood_full_batches"] += full
			stats["floods"]++
			continue
		}
		if manyBatches && !manyDone && inBlock && funding == 0 {
			manyDone = true
			var t *types.TokenInfo
			u := 0
			for _, c := range tokens {
				for i := 0; i < 3; i++ {
					if c.ChainId != "minter" && env.Bank.GetBalance(env.Ctx, userAddr(i), c.Denom).Amount.BigInt().Cmp(pow10(9)) > 0 {
						t, u = c, i
					}
				}
			}
			if t != nil {
				nb := 101 + rng.Intn(8)
				for i := 0; i < nb; i++ {
					txCounter++
					do(&HubOp{Kind: 1, Sender: userAddr(u).String(), Chain: t.ChainId, Recipient: ethAddrOf(0xe0, rng.Intn(3)), Denom: t.Denom,
						Amount: big.NewInt(int64(100000 + rng.Intn(1000))), Fee: big.NewInt(int64(1 + rng.Intn(5))), TxBytes: []byte(fmt.Sprintf("tx%d", txCounter))})
					do(&HubOp{Kind: 3, Chain: t.ChainId, Denom: t.Denom, Sender: userAddr(u).String()})
				}
				stats["many_batches"]++
			}
			continue
		}
		if !blocksMode && !genesisMode && !inBlock && nonMonoLeft > 0 && funding == 0 && rng.Chance(1, 8) {
			// timeouts that are not monotone in the nonce: batch A is built after a long quiet stretch (its timeout is
			// projected far ahead), then a real height only slightly above the last one is observed, batch B of the same
			// token gets an earlier timeout, and a height between the two timeouts is observed: B is dead, A is not
			nonMonoLeft--
			var t *types.TokenInfo
			u := 0
			for _, c := range tokens {
				for i := 0; i < 3; i++ {
					if (c.ChainId == "ethereum" || c.ChainId == "bsc") && env.Bank.GetBalance(env.Ctx, userAddr(i), c.Denom).Amount.BigInt().Cmp(pow10(9)) > 0 {
						t, u = c, i
					}
				}
			}
			if t != nil {
				ch := t.ChainId
				blk := func() {
					height++
					timeMs += 5000
					do(&HubOp{Kind: 5, Height: height, TimeMs: timeMs})
				}
				sendAndBatch := func() {
					txCounter++
					do(&HubOp{Kind: 1, Sender: userAddr(u).String(), Chain: ch, Recipient: ethAddrOf(0xe0, rng.Intn(3)), Denom: t.Denom,
						Amount: big.NewInt(int64(100000 + rng.Intn(1000))), Fee: big.NewInt(int64(1 + rng.Intn(5))), TxBytes: []byte(fmt.Sprintf("tx%d", txCounter))})
					do(&HubOp{Kind: 3, Sender: userAddr(u).String(), Chain: ch, Denom: t.Denom})
				}
				other := func(h uint64) {
					run.nextNonce[ch]++
					extHeight[ch] = h
					do(&HubOp{Kind: 4, Chain: ch, Ev: &HubEvent{Kind: 4, Nonce: run.nextNonce[ch], Height: h}})
				}
				// an observation to project from, then the quiet stretch
				blk()
				other(extHeight[ch] + 1)
				do(&HubOp{Kind: 6})
				for i := 0; i < 12+rng.Intn(10); i++ {
					blk()
					do(&HubOp{Kind: 6})
				}
				blk()
				sendAndBatch() // batch A
				other(extHeight[ch] + 1)
				do(&HubOp{Kind: 6})
				blk()
				sendAndBatch() // batch B
				var tb uint64
				for _, b := range batchesOf(ch) {
					if b.ExternalTokenId == t.ExternalTokenId && (tb == 0 || b.Timeout < tb) && b.Timeout > 0 {
						tb = b.Timeout
					}
				}
				if tb > extHeight[ch] {
					other(tb + 1)
				}
				do(&HubOp{Kind: 6})
				blk()
				do(&HubOp{Kind: 6})
				inBlock = false
				stats["non_monotone_timeouts"]++
			}
			continue
		}
		if !inBlock && quietLeft > 0 && funding == 0 && rng.Chance(1, 6) && len(batchesOf("ethereum"))+len(batchesOf("bsc")) > 0 {
			// a quiet stretch: batches wait for a relayer while no event of their chain is observed; hub blocks
			// (and hub time) go by, the external height known to the hub does not move
			quietLeft--
			nq := 4 + rng.Intn(14)
			for i := 0; i < nq && !deadlocked; i++ {
				height++
				timeMs += 5000
				do(&HubOp{Kind: 5, Height: height, TimeMs: timeMs})
				do(&HubOp{Kind: 6})
			}
			stats["quiet_stretches"]++
			continue
		}
		if !inBlock {
			height++
			dt := int64(5000)
			if rng.Chance(1, 7) {
				dt = 61000 + int64(rng.Intn(20000))
			}
			timeMs += dt
			do(&HubOp{Kind: 5, Height: height, TimeMs: timeMs})
			inBlock = true
			continue
		}
		c := rng.Intn(100)
		switch {
		case c < 12: // end block
			do(&HubOp{Kind: 6})
			inBlock = false
		case c < 30: // deposit to a hub account
			ch := extChains[rng.Intn(3)]
			ts := tokensOn(ch)
			coin := "0xdeadbeefdeadbeefdeadbeefdeadbeefdeadbeef"
			dec := 18
			var dtok *types.TokenInfo
			if len(ts) > 0 && rng.Chance(19, 20) {
				t := ts[rng.Intn(len(ts))]
				coin, dec = t.ExternalTokenId, int(t.ExternalDecimals)
				dtok = t
			} else if ch == "minter" {
				coin = "777"
			}
			n, h := nextEvent(ch)
			amt := capDeposit(dtok, genAmount(rng, dec, hostile))
			if hostile && rng.Chance(1, 10) {
				amt = big.NewInt(0)
			}
			ev := &HubEvent{Kind: 1, Nonce: n, Coin: coin, Amount: amt, Sender: ethAddrOf(0xe0, rng.Intn(3)),
				Receiver: userAddr(rng.Intn(3)).String(), Height: h, TxHash: fmt.Sprintf("0xdep%s%d", ch, n)}
			if err := ev.toExternal().Validate(types.ChainID(ch)); err != nil && !prefixIds {
				run.nextNonce[ch]--
				stats["event_rejected_by_validate"]++
				continue
			}
			do(&HubOp{Kind: 4, Chain: ch, Ev: ev})
		case c < 40: // transfer to another chain through the hub
			ch := extChains[rng.Intn(3)]
			ts := tokensOn(ch)
			if len(ts) == 0 {
				continue
			}
			t := ts[rng.Intn(len(ts))]
			rch := allChains[rng.Intn(4)]
			n, h := nextEvent(ch)
			amt := capDeposit(t, genAmount(rng, int(t.ExternalDecimals), hostile))
			fee := new(big.Int).Div(amt, big.NewInt(int64(2+rng.Intn(200))))
			if rng.Chance(1, 5) {
				fee = big.NewInt(0)
			}
			if hostile {
				switch rng.Intn(6) {
				case 0:
					fee = new(big.Int).Add(pow2(254), randBig(rng, pow2(255)))
				case 1:
					fee = big.NewInt(-int64(1 + rng.Intn(1000)))
				case 2:
					fee = new(big.Int).Add(amt, big.NewInt(1))
				}
			}
			recv := ethAddrOf(0xe0, rng.Intn(3))
			if rng.Chance(1, 6) {
				recv = "0xE0E0E0E0E0E0E0E0E0E0E0E0E0E0E0E0E0E0E0E0"
			}
			ev := &HubEvent{Kind: 2, Nonce: n, Coin: t.ExternalTokenId, Amount: amt, Fee: fee, Sender: ethAddrOf(0xe0, rng.Intn(3)),
				RChain: rch, Receiver: recv, Height: h, TxHash: fmt.Sprintf("0xttc%s%d", ch, n)}
			if err := ev.toExternal().Validate(types.ChainID(ch)); err != nil && !prefixIds {
				run.nextNonce[ch]--
				stats["event_rejected_by_validate"]++
				continue
			}
			do(&HubOp{Kind: 4, Chain: ch, Ev: ev})
		case c < 62: // send to external
			u := rng.Intn(3)
			ch := allChains[rng.Intn(3)]
			if rng.Chance(1, 25) {
				ch = "hub"
			}
			if directed && rng.Chance(4, 5) {
				ch = "ethereum"
			}
			denom := "hub"
			if len(tokens) > 0 {
				denom = tokens[rng.Intn(len(tokens))].Denom
			}
			if rng.Chance(1, 30) {
				denom = "nope"
			}
			balance := env.Bank.GetBalance(env.Ctx, userAddr(u), denom).Amount.BigInt()
			var amt *big.Int
			switch rng.Intn(6) {
			case 0:
				amt = genAmount(rng, 18, hostile)
			case 1:
				amt = new(big.Int).Add(balance, big.NewInt(int64(rng.Intn(3))))
			default:
				amt = new(big.Int).Div(balance, big.NewInt(int64(2+rng.Intn(50))))
			}
			if amt.Sign() <= 0 {
				amt = big.NewInt(int64(1 + rng.Intn(50)))
			}
			fee := new(big.Int).Div(amt, big.NewInt(int64(3+rng.Intn(100))))
			if rng.Chance(1, 4) {
				fee = big.NewInt(0)
			}
			if rng.Chance(1, 6) { // equal fees
				fee = big.NewInt(int64(1 + rng.Intn(3)))
			}
			if rng.Chance(1, 5) { // a skewed spread: many small fees and a few large ones in one batch
				fee = new(big.Int).Mul(big.NewInt([]int64{10, 10, 10, 100, 1000}[rng.Intn(5)]), pow10(rng.Intn(3)*6))
			}
			txCounter++
			tx := []byte(fmt.Sprintf("tx%d", txCounter))
			if lastTx != nil && rng.Chance(1, 7) {
				tx = lastTx // second message of the same transaction
			}
			lastTx = tx
			recv := ethAddrOf(0xe0, rng.Intn(3))
			op := &HubOp{Kind: 1, Sender: userAddr(u).String(), Chain: ch, Recipient: recv, Denom: denom, Amount: amt, Fee: fee, TxBytes: tx}
			msg := types.MsgSendToExternal{Sender: op.Sender, ExternalRecipient: recv, Amount: sdk.Coin{Denom: denom, Amount: sdk.NewIntFromBigInt(amt)},
				BridgeFee: sdk.Coin{Denom: denom, Amount: sdk.NewIntFromBigInt(fee)}, ChainId: ch}
			if err := msg.ValidateBasic(); err != nil {
				stats["msg_rejected_by_validate"]++
				continue
			}
			do(op)
		case c < 72: // cancel
			ch := allChains[rng.Intn(3)]
			p := poolOf(ch)
			id := uint64(1 + rng.Intn(5))
			sender := userAddr(rng.Intn(3)).String()
			if len(p) > 0 && rng.Chance(5, 6) {
				e := p[rng.Intn(len(p))]
				id = e.Id
				if rng.Chance(4, 5) {
					sender = e.Sender
				}
			}
			do(&HubOp{Kind: 2, Sender: sender, Chain: ch, Id: id})
		case c < 80: // request batch
			ch := allChains[rng.Intn(3)]
			denom := "hub"
			if len(tokens) > 0 {
				denom = tokens[rng.Intn(len(tokens))].Denom
			}
			if rng.Chance(1, 5) {
				do(&HubOp{Kind: 11, Sender: userAddr(0).String(), Chain: ch, Denom: denom})
			} else {
				do(&HubOp{Kind: 3, Sender: userAddr(0).String(), Chain: ch, Denom: denom})
			}
		case c < 94: // batch executed
			ch := extChains[rng.Intn(3)]
			if directed && rng.Chance(4, 5) {
				ch = "ethereum"
			}
			bs := batchesOf(ch)
			coin := ""
			bn := uint64(1 + rng.Intn(4))
			hostileExec := hostile && !consistentExec // executions the contract / the multisig could not have made
			maxH := uint64(0)
			// the external side only executes what it can: on ethereum/bsc a batch whose nonce is above the
			// token's last executed nonce; on Minter any pending batch, once
			sort.Slice(bs, func(i, j int) bool { return bs[i].BatchNonce < bs[j].BatchNonce })
			if !hostileExec {
				var ok []*types.BatchTx
				for _, b := range bs {
					if ch == "minter" {
						// the multisig pays out whichever pending batch the relayers submit: any order, each batch once
						if lastExec[fmt.Sprintf("minter#%d", b.BatchNonce)] == 0 {
							ok = append(ok, b)
						}
					} else if b.BatchNonce > lastExec[ch+"|"+b.ExternalTokenId] && b.Timeout > extHeight[ch] {
						ok = append(ok, b)
					}
				}
				bs = ok
			}
			if len(bs) > 0 && (rng.Chance(9, 10) || !hostileExec) {
				b := bs[rng.Intn(len(bs))]
				if directed && rng.Chance(2, 3) {
					b = bs[len(bs)-1]
				}
				coin, bn = b.ExternalTokenId, b.BatchNonce
				if ch != "minter" && !hostileExec {
					maxH = b.Timeout - 1 // the contract requires block.number < timeout
				}
				if ch == "minter" {
					lastExec[fmt.Sprintf("minter#%d", bn)] = 1
				} else {
					lastExec[ch+"|"+coin] = bn
				}
			} else {
				if !hostileExec {
					continue
				}
				ts := tokensOn(ch)
				if len(ts) == 0 {
					continue
				}
				coin = ts[rng.Intn(len(ts))].ExternalTokenId
			}
			n, h := nextEvent(ch)
			if maxH > 0 && h > maxH {
				h = maxH
				extHeight[ch] = h
			}
			feePaid := genAmount(rng, 18, false)
			if rng.Chance(1, 3) {
				feePaid = big.NewInt(int64(rng.Intn(1000)))
			}
			ev := &HubEvent{Kind: 3, Nonce: n, Coin: coin, BatchNonce: bn, Height: h, TxHash: fmt.Sprintf("0xexe%s%d", ch, n),
				FeePaid: feePaid, FeePayer: ethAddrOf(0x90, rng.Intn(2))}
			if err := ev.toExternal().Validate(types.ChainID(ch)); err != nil && !prefixIds {
				run.nextNonce[ch]--
				stats["event_rejected_by_validate"]++
				continue
			}
			do(&HubOp{Kind: 4, Chain: ch, Ev: ev})
		case c < 97: // other event (advances the observed height only)
			ch := extChains[rng.Intn(3)]
			n, h := nextEvent(ch)
			do(&HubOp{Kind: 4, Chain: ch, Ev: &HubEvent{Kind: 4, Nonce: n, Height: h}})
		default: // environment change: holders/prices, rarely a delisting
			if gov && rng.Chance(1, 4) && len(tokens) > 1 {
				i := rng.Intn(len(tokens))
				tokens = append(append([]*types.TokenInfo{}, tokens[:i]...), tokens[i+1:]...)
				stats["delisted"]++
			}
			do(genEnv())
		}
	}
	if inBlock {
		do(&HubOp{Kind: 6})
	}
	if restart {
		// genesis export / import at the block boundary that ends the history
		do(&HubOp{Kind: 8})
	}
	pv := L(L(B("ethereum"), B("minter"), B("bsc"), B("hub")), U(params.AverageBlockTime), U(params.AverageEthereumBlockTime),
		U(params.AverageBscBlockTime), U(params.TargetEthTxTimeout), U(params.OutgoingTxTimeout), B(types.TempAddress.String()))
	return L(pv, L(), L(ops...)), L(outs...)
}
