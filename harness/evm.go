package main

// EVM suite: the compiled Hub2 contract (module/solidity/Hub2.go) on go-ethereum's SimulatedBackend,
// driven by random updateValset / submitBatch / transferToChain calls whose digests are computed
// with the real hub types (types.SignerSetTx / types.BatchTx .GetCheckpoint) and signed with real keys.
//
// case   = ((threshold (initial members) initial-user-balance) (ops...))
// output = (observations...), one per op.

import (
	"context"
	"crypto/ecdsa"
	"fmt"
	"math/big"
	"strings"

	sdk "github.com/cosmos/cosmos-sdk/types"
	ethereum "github.com/ethereum/go-ethereum"
	"github.com/ethereum/go-ethereum/accounts/abi"
	"github.com/ethereum/go-ethereum/accounts/abi/bind"
	"github.com/ethereum/go-ethereum/accounts/abi/bind/backends"
	"github.com/ethereum/go-ethereum/common"
	"github.com/ethereum/go-ethereum/core"
	ethtypes "github.com/ethereum/go-ethereum/core/types"
	"github.com/ethereum/go-ethereum/crypto"

	"github.com/MinterTeam/mhub2/module/solidity"
	"github.com/MinterTeam/mhub2/module/x/mhub2/types"
)

const (
	evmPowerThreshold = uint64(2863311530)
	evmPowerTotal     = uint64(4294967295)
	evmGravityID      = "defaultgravityid"
	evmTxGas          = uint64(8_000_000) // explicit gas limit: no estimation, reverting calls are mined
	evmBlockGas       = uint64(30_000_000)
	evmKeyPool        = 8 // validator key pool (initial set: the first 1..6 of them)
	evmMaxSet         = 7
)

type evmMember struct {
	addr  common.Address
	power uint64
}

type evmTransfer struct {
	amount *big.Int
	dest   common.Address
	fee    *big.Int
}

type evmCase struct {
	rng     *Rng
	stats   map[string]int
	ctx     context.Context
	backend *backends.SimulatedBackend
	hubABI  *abi.ABI

	relayer, user *bind.TransactOpts
	hub           *solidity.Hub2
	hubAddr       common.Address
	tok           *Erc20
	tokAddr       common.Address
	tokHex        string

	keys   map[common.Address]*ecdsa.PrivateKey // every key of the pool, by address
	pool   []common.Address                     // validator candidates
	stray  *ecdsa.PrivateKey                    // never a validator
	cur    []evmMember                          // the set whose checkpoint the contract holds, contract order
	curN   uint64                               // its nonce
	prev   []evmMember                          // the set before the last successful update (nil at start)
	hubBal *big.Int                             // token balance of the contract, as last observed
	lastBN uint64                               // lastBatchNonce(token), as last observed

	destPool []common.Address
	dests    []common.Address // batch destinations used so far, first-use order
	destSeen map[common.Address]bool
	txID     uint64

	initV V
}

func evmHex(a common.Address) string { return strings.ToLower(a.Hex()) }

func evmKey(rng *Rng) *ecdsa.PrivateKey {
	b := make([]byte, 32)
	for i := range b {
		b[i] = byte(rng.Next())
	}
	b[0] &= 0x7f
	b[31] |= 1
	k, err := crypto.ToECDSA(b)
	if err != nil {
		panic(err)
	}
	return k
}

func evmGravityIDFixed() (g [32]byte) {
	copy(g[:], evmGravityID)
	return
}

// ---------- powers ----------

// evmNormalise is the hub's normalisation: power_i = floor(p_i * 4294967295 / total). raw[i] < 2^32.
func evmNormalise(raw []uint64) []uint64 {
	total := uint64(0)
	for _, p := range raw {
		total += p
	}
	out := make([]uint64, len(raw))
	if total == 0 {
		return out
	}
	for i, p := range raw {
		out[i] = p * evmPowerTotal / total
	}
	return out
}

// evmSplit splits sum into k parts (the parts add up to sum exactly).
func evmSplit(rng *Rng, sum uint64, k int) []uint64 {
	out := make([]uint64, k)
	rest := sum
	for i := 0; i < k-1; i++ {
		share := rest / uint64(k-i)
		switch rng.Intn(3) {
		case 0:
			out[i] = share
		case 1:
			out[i] = share/2 + rng.Next()%(share/2+1)
		default:
			out[i] = 1 + rng.Next()%3
			if out[i] > rest {
				out[i] = rest
			}
		}
		rest -= out[i]
	}
	if k > 0 {
		out[k-1] = rest
	}
	return out
}

// evmRawPowers draws raw powers for n validators. Profiles: 0 all equal, 1 one dominant, 2 near the
// threshold (raw powers add up to 4294967295, so normalisation keeps them: some k strongest
// validators hold threshold-2..threshold+2 together), 3 random (with ties in small ranges).
func evmRawPowers(rng *Rng, n, profile int) []uint64 {
	raw := make([]uint64, n)
	if n == 0 {
		return raw
	}
	switch {
	case profile == 0:
		for i := range raw {
			raw[i] = 1
		}
	case profile == 1:
		for i := range raw {
			raw[i] = 1 + rng.Next()%1000
		}
		rest := uint64(0)
		for _, p := range raw {
			rest += p
		}
		// the dominant one gets 60..96 % of the total
		pct := uint64(60 + rng.Intn(37))
		raw[rng.Intn(n)] = rest * pct / (100 - pct)
	case profile == 2 && n >= 2:
		k := 1 + rng.Intn(n-1)
		d := []int64{-1, 0, 1, -1, 0, 1, -2, 2}[rng.Intn(8)]
		head := uint64(int64(evmPowerThreshold) + d)
		copy(raw, evmSplit(rng, head, k))
		copy(raw[k:], evmSplit(rng, evmPowerTotal-head, n-k))
	default:
		lim := uint64(1) << 31
		if rng.Chance(1, 4) {
			lim = 3 // ties
		}
		for i := range raw {
			raw[i] = 1 + rng.Next()%lim
		}
	}
	return raw
}

// evmSort orders a set as the hub does (power descending, ties by address ascending) using the
// hub's own ExternalSigners.Sort. Addresses are lower-case hex, for which the hub's string
// comparison coincides with the byte order of the addresses.
func evmSort(ms []evmMember) []evmMember {
	ss := make(types.ExternalSigners, len(ms))
	by := map[string]evmMember{}
	for i, m := range ms {
		ss[i] = &types.ExternalSigner{Power: m.power, ExternalAddress: evmHex(m.addr)}
		by[evmHex(m.addr)] = m
	}
	ss.Sort()
	out := make([]evmMember, len(ms))
	for i, s := range ss {
		out[i] = by[s.ExternalAddress]
	}
	return out
}

func evmSigners(ms []evmMember) []*types.ExternalSigner {
	out := make([]*types.ExternalSigner, len(ms))
	for i, m := range ms {
		out[i] = &types.ExternalSigner{Power: m.power, ExternalAddress: evmHex(m.addr)}
	}
	return out
}

func evmMembersV(ms []evmMember) V {
	items := make([]V, len(ms))
	for i, m := range ms {
		items[i] = L(Bb(m.addr.Bytes()), U(m.power))
	}
	return L(items...)
}

func evmSplitSet(ms []evmMember) ([]common.Address, []*big.Int) {
	a := make([]common.Address, len(ms))
	p := make([]*big.Int, len(ms))
	for i, m := range ms {
		a[i] = m.addr
		p[i] = new(big.Int).SetUint64(m.power)
	}
	return a, p
}

func evmCopySet(ms []evmMember) []evmMember { return append([]evmMember{}, ms...) }

// ---------- set-up ----------

func newEvmCase(seed uint64, stats map[string]int) *evmCase {
	if stats == nil {
		stats = map[string]int{}
	}
	rng := &Rng{s: seed}
	c := &evmCase{rng: rng, stats: stats, ctx: context.Background(), keys: map[common.Address]*ecdsa.PrivateKey{},
		destSeen: map[common.Address]bool{}, hubBal: new(big.Int)}

	hubABI, err := solidity.Hub2MetaData.GetAbi()
	if err != nil {
		panic(err)
	}
	c.hubABI = hubABI

	for i := 0; i < evmKeyPool; i++ {
		k := evmKey(rng)
		a := crypto.PubkeyToAddress(k.PublicKey)
		c.keys[a] = k
		c.pool = append(c.pool, a)
	}
	c.stray = evmKey(rng)
	relayerKey, userKey := evmKey(rng), evmKey(rng)
	for i := 0; i < 5; i++ {
		c.destPool = append(c.destPool, crypto.PubkeyToAddress(evmKey(rng).PublicKey))
	}

	// initial validator set
	n := 1 + rng.Intn(6)
	raw := evmRawPowers(rng, n, rng.Intn(4))
	pw := evmNormalise(raw)
	var set []evmMember
	for i := 0; i < n; i++ {
		set = append(set, evmMember{c.pool[i], pw[i]})
	}
	c.cur = evmSort(set)
	c.stats[fmt.Sprintf("init_n%d", n)]++

	chainID := big.NewInt(1337)
	mk := func(k *ecdsa.PrivateKey) *bind.TransactOpts {
		o, err := bind.NewKeyedTransactorWithChainID(k, chainID)
		if err != nil {
			panic(err)
		}
		o.GasLimit = evmTxGas
		o.GasPrice = big.NewInt(50_000_000_000)
		o.Context = c.ctx
		return o
	}
	c.relayer, c.user = mk(relayerKey), mk(userKey)
	eth := new(big.Int).Exp(big.NewInt(10), big.NewInt(30), nil)
	c.backend = backends.NewSimulatedBackend(core.GenesisAlloc{
		c.relayer.From: {Balance: eth},
		c.user.From:    {Balance: eth},
	}, evmBlockGas)

	// token (the whole supply goes to the relayer, who gives the user its initial balance), bridge
	userBal := new(big.Int).Mul([]*big.Int{big.NewInt(1000), pow10(18), pow10(24), pow2(128)}[rng.Intn(4)], big.NewInt(int64(1+rng.Intn(1000))))
	tokAddr, tx1, tok, err := DeployErc20(c.relayer, c.backend, c.relayer.From, "Test", "TST", 18)
	if err != nil {
		panic(err)
	}
	weth := crypto.PubkeyToAddress(evmKey(rng).PublicKey)
	guardian := crypto.PubkeyToAddress(evmKey(rng).PublicKey)
	addrs, powers := evmSplitSet(c.cur)
	hubAddr, tx2, hub, err := solidity.DeployHub2(c.relayer, c.backend, evmGravityIDFixed(), new(big.Int).SetUint64(evmPowerThreshold), addrs, powers, weth, guardian)
	if err != nil {
		panic(err)
	}
	tx3, err := tok.Transfer(c.relayer, c.user.From, userBal)
	if err != nil {
		panic(err)
	}
	c.backend.Commit()
	for _, tx := range []*ethtypes.Transaction{tx1, tx2, tx3} {
		if !c.status(tx) {
			panic("evm: set-up transaction failed")
		}
	}
	c.tok, c.tokAddr, c.tokHex, c.hub, c.hubAddr = tok, tokAddr, evmHex(tokAddr), hub, hubAddr
	c.initV = L(U(evmPowerThreshold), evmMembersV(c.cur), Z(userBal), U(c.head()))
	return c
}

func (c *evmCase) head() uint64 { return c.backend.Blockchain().CurrentBlock().NumberU64() }

func (c *evmCase) status(tx *ethtypes.Transaction) bool {
	rc, err := c.backend.TransactionReceipt(c.ctx, tx.Hash())
	if err != nil || rc == nil {
		panic(fmt.Sprintf("evm: no receipt: %v", err))
	}
	return rc.Status == ethtypes.ReceiptStatusSuccessful
}

// mine commits the pending block with the one transaction in it and reports the receipt status.
// With an explicit gas limit the binding does not estimate gas, so an error here is a harness fault.
func (c *evmCase) mine(tx *ethtypes.Transaction, err error) bool {
	if err != nil {
		panic(fmt.Sprintf("evm: transaction not sent: %v", err))
	}
	c.backend.Commit()
	return c.status(tx)
}

// probe runs the call on the pending block (the block the transaction will execute in) and
// classifies the revert reason; "" when the call goes through.
func (c *evmCase) probe(from common.Address, method string, args ...interface{}) string {
	data, err := c.hubABI.Pack(method, args...)
	if err != nil {
		panic(err)
	}
	_, err = c.backend.PendingCallContract(c.ctx, ethereum.CallMsg{From: from, To: &c.hubAddr, Gas: evmTxGas, Data: data})
	if err == nil {
		return ""
	}
	return evmReasonClass(err.Error())
}

func evmReasonClass(msg string) string {
	for _, p := range [][2]string{
		{"nonce must be greater", "nonce"},
		{"Batch timeout must be greater", "timeout"},
		{"Malformed", "malformed"},
		{"do not match checkpoint", "checkpoint"},
		{"signature does not match", "badsig"},
		{"do not have enough power", "power"},
		{"exceeds balance", "balance"},
		{"exceeds allowance", "allowance"},
	} {
		if strings.Contains(msg, p[0]) {
			return p[1]
		}
	}
	return "other"
}

func (c *evmCase) count(kind string, ok bool, reason string) {
	if ok {
		c.stats[kind+"_ok"]++
		if reason != "" {
			c.stats["probe_mismatch"]++
		}
		return
	}
	c.stats[kind+"_revert"]++
	if reason == "" {
		c.stats["probe_mismatch"]++
		reason = "unknown"
	}
	c.stats[kind+"_revert:"+reason]++
}

// ---------- observation ----------

func (c *evmCase) observe(ok bool) V {
	must := func(x *big.Int, err error) *big.Int {
		if err != nil {
			panic(err)
		}
		return x
	}
	vn := must(c.hub.StateLastValsetNonce(nil))
	bn := must(c.hub.LastBatchNonce(nil, c.tokAddr))
	en := must(c.hub.StateLastEventNonce(nil))
	hb := must(c.tok.BalanceOf(nil, c.hubAddr))
	c.hubBal, c.lastBN = hb, bn.Uint64()
	db := make([]V, len(c.dests))
	for i, d := range c.dests {
		db[i] = Z(must(c.tok.BalanceOf(nil, d)))
	}
	return L(Bool(ok), U(vn.Uint64()), U(bn.Uint64()), U(en.Uint64()), Z(hb), U(c.head()), L(db...))
}

// ---------- signatures ----------

// claim builds the "current validator set" arguments. mode 0: the truth; 1: a wrong set with the
// true nonce (same length, so that the signature arrays stay aligned); 2: the true set, wrong nonce.
func (c *evmCase) claim(mode int) ([]common.Address, []*big.Int, *big.Int) {
	rng := c.rng
	set := evmCopySet(c.cur)
	nonce := c.curN
	switch mode {
	case 1:
		stale := len(c.prev) == len(set) && len(set) > 0
		if stale {
			stale = false
			for i := range set {
				if set[i] != c.prev[i] {
					stale = true
				}
			}
		}
		switch {
		case len(set) == 0:
			// nothing to get wrong in an empty set: fall back to a wrong nonce
			nonce++
		case stale && rng.Chance(1, 3):
			set = evmCopySet(c.prev) // the set before the last update
		default:
			i := rng.Intn(len(set))
			switch rng.Intn(4) {
			case 0:
				set[i].power++
			case 1:
				if set[i].power > 0 {
					set[i].power--
				} else {
					set[i].power++
				}
			case 2:
				set[i].power ^= 1 + rng.Next()%evmPowerTotal
			default:
				set[i].addr = crypto.PubkeyToAddress(c.stray.PublicKey)
			}
		}
	case 2:
		switch rng.Intn(4) {
		case 0:
			if nonce > 0 {
				nonce--
			} else {
				nonce++
			}
		case 1:
			nonce += uint64(2 + rng.Intn(5))
		case 2:
			if nonce != 0 {
				nonce = 0
			} else {
				nonce = 1
			}
		default:
			nonce++
		}
	}
	a, p := evmSplitSet(set)
	return a, p, new(big.Int).SetUint64(nonce)
}

// genQual chooses, per current validator (contract order), 0 = no signature, 1 = valid, 2 = invalid.
func (c *evmCase) genQual(kind string) []int {
	rng := c.rng
	n := len(c.cur)
	q := make([]int, n)
	if n == 0 {
		return q
	}
	sum := func(mask int) uint64 {
		s := uint64(0)
		for i := 0; i < n; i++ {
			if mask>>uint(i)&1 == 1 {
				s += c.cur[i].power
			}
		}
		return s
	}
	full := 1<<uint(n) - 1
	bestBelow, bestAbove, exact := 0, -1, -1
	for m := 0; m <= full; m++ {
		s := sum(m)
		if s > evmPowerThreshold {
			if bestAbove < 0 || s < sum(bestAbove) {
				bestAbove = m
			}
		} else {
			if s > sum(bestBelow) {
				bestBelow = m
			}
			if s == evmPowerThreshold {
				exact = m
			}
		}
	}
	if bestAbove < 0 {
		bestAbove = full // the set as a whole is too weak
	}
	mask := 0
	strat := rng.Intn(100)
	switch {
	case strat < 34: // everybody
		mask = full
		c.stats[kind+"_sig:all"]++
	case strat < 56: // just above the threshold
		mask = bestAbove
		c.stats[kind+"_sig:min_above"]++
	case strat < 68: // just below (or exactly at) the threshold
		mask = bestBelow
		c.stats[kind+"_sig:max_below"]++
	case strat < 76: // exactly at the threshold when some subset allows it
		if exact >= 0 {
			mask = exact
			c.stats[kind+"_sig:exact"]++
		} else {
			mask = bestAbove
			c.stats[kind+"_sig:min_above"]++
		}
	case strat < 88: // the strongest ones until the threshold is passed (what a relayer does)
		for i := 0; i < n && sum(mask) <= evmPowerThreshold; i++ {
			mask |= 1 << uint(i)
		}
		c.stats[kind+"_sig:prefix"]++
	default: // random subset
		for i := 0; i < n; i++ {
			if rng.Chance(2, 3) {
				mask |= 1 << uint(i)
			}
		}
		c.stats[kind+"_sig:random"]++
	}
	if sum(mask) == evmPowerThreshold {
		c.stats[kind+"_signed_exactly_threshold"]++
	}
	var chosen []int
	for i := 0; i < n; i++ {
		if mask>>uint(i)&1 == 1 {
			q[i] = 1
			chosen = append(chosen, i)
		}
	}
	if len(chosen) > 0 && rng.Chance(1, 8) {
		k := 1
		if rng.Chance(1, 4) {
			k = 2
		}
		for j := 0; j < k; j++ {
			// more often the last signer: after the quorum is reached the contract stops looking
			i := chosen[len(chosen)-1]
			if rng.Chance(1, 2) {
				i = chosen[rng.Intn(len(chosen))]
			}
			q[i] = 2
		}
		c.stats[kind+"_with_invalid_sig"]++
	}
	return q
}

func (c *evmCase) sign(digest []byte, qual []int) ([]uint8, [][32]byte, [][32]byte) {
	rng := c.rng
	n := len(qual)
	v, r, s := make([]uint8, n), make([][32]byte, n), make([][32]byte, n)
	for i, q := range qual {
		if q == 0 {
			continue
		}
		key := c.keys[c.cur[i].addr]
		d := append([]byte{}, digest...)
		if q == 2 {
			switch rng.Intn(3) {
			case 0: // another digest
				d[rng.Intn(32)] ^= byte(1 << uint(rng.Intn(8)))
			case 1: // somebody who is not a validator
				key = c.stray
			default: // another validator of the pool
				for {
					a := c.pool[rng.Intn(len(c.pool))]
					if a != c.cur[i].addr {
						key = c.keys[a]
						break
					}
				}
			}
		}
		sig, err := types.NewEthereumSignature(d, key)
		if err != nil {
			panic(err)
		}
		copy(r[i][:], sig[:32])
		copy(s[i][:], sig[32:64])
		v[i] = sig[64] + 27
	}
	return v, r, s
}

func evmQualV(q []int) V {
	items := make([]V, len(q))
	for i, x := range q {
		items[i] = I(int64(x))
	}
	return L(items...)
}

func (c *evmCase) genMode(kind string) int {
	mode := 0
	if c.rng.Chance(1, 7) {
		mode = 1 + c.rng.Intn(2)
	}
	c.stats[fmt.Sprintf("%s_mode%d", kind, mode)]++
	return mode
}

// ---------- operations ----------

// execValset: one updateValset transaction. newSet in the order in which it is passed to the contract.
func (c *evmCase) execValset(newSet []evmMember, newNonce uint64, qual []int, mode int) (V, bool) {
	digest := types.SignerSetTx{Nonce: newNonce, Signers: evmSigners(newSet)}.GetCheckpoint([]byte(evmGravityID))
	v, r, s := c.sign(digest, qual)
	ca, cp, cn := c.claim(mode)
	na, np := evmSplitSet(newSet)
	nn := new(big.Int).SetUint64(newNonce)
	exec := c.head() + 1
	reason := c.probe(c.relayer.From, "updateValset", na, np, nn, ca, cp, cn, v, r, s)
	ok := c.mine(c.hub.UpdateValset(c.relayer, na, np, nn, ca, cp, cn, v, r, s))
	c.count("valset", ok, reason)
	if ok {
		for _, q := range qual {
			if q == 2 {
				c.stats["valset_ok_despite_invalid_sig"]++
				break
			}
		}
		c.prev, c.cur, c.curN = c.cur, evmCopySet(newSet), newNonce
		t := uint64(0)
		for _, m := range c.cur {
			t += m.power
		}
		if t <= evmPowerThreshold {
			c.stats["bricked"]++
		}
	}
	return L(I(1), evmMembersV(newSet), U(newNonce), evmQualV(qual), I(int64(mode)), U(exec)), ok
}

// execBatch: one submitBatch transaction for the ERC20 token.
func (c *evmCase) execBatch(trs []evmTransfer, nonce, timeout uint64, qual []int, mode int) (V, bool) {
	var txs []*types.SendToExternal
	var amounts, fees []*big.Int
	var dests []common.Address
	var tv []V
	for _, t := range trs {
		c.txID++
		txs = append(txs, &types.SendToExternal{Id: c.txID, ExternalRecipient: evmHex(t.dest),
			Token: types.ExternalToken{Amount: sdk.NewIntFromBigInt(t.amount), ExternalTokenId: c.tokHex},
			Fee:   types.ExternalToken{Amount: sdk.NewIntFromBigInt(t.fee), ExternalTokenId: c.tokHex}})
		amounts = append(amounts, t.amount)
		dests = append(dests, t.dest)
		fees = append(fees, t.fee)
		tv = append(tv, L(Z(t.amount), Bb(t.dest.Bytes()), Z(t.fee)))
		if !c.destSeen[t.dest] {
			c.destSeen[t.dest] = true
			c.dests = append(c.dests, t.dest)
		}
	}
	digest := types.BatchTx{BatchNonce: nonce, Timeout: timeout, Transactions: txs, ExternalTokenId: c.tokHex}.GetCheckpoint([]byte(evmGravityID))
	v, r, s := c.sign(digest, qual)
	ca, cp, cn := c.claim(mode)
	bn, to := new(big.Int).SetUint64(nonce), new(big.Int).SetUint64(timeout)
	exec := c.head() + 1
	reason := c.probe(c.relayer.From, "submitBatch", ca, cp, cn, v, r, s, amounts, dests, fees, bn, c.tokAddr, to)
	ok := c.mine(c.hub.SubmitBatch(c.relayer, ca, cp, cn, v, r, s, amounts, dests, fees, bn, c.tokAddr, to))
	c.count("batch", ok, reason)
	if ok {
		for _, q := range qual {
			if q == 2 {
				c.stats["batch_ok_despite_invalid_sig"]++
				break
			}
		}
	}
	return L(I(2), L(tv...), U(nonce), U(timeout), evmQualV(qual), I(int64(mode)), U(exec)), ok
}

// execDeposit: approve(hub, amount) in one block, transferToChain in the next one (the observed op).
// The allowance always equals the amount, so only the user's balance can make the deposit fail.
func (c *evmCase) execDeposit(amount, fee *big.Int, destChain, dest [32]byte) (V, bool) {
	if !c.mine(c.tok.Approve(c.user, c.hubAddr, amount)) {
		panic("evm: approve failed")
	}
	exec := c.head() + 1
	reason := c.probe(c.user.From, "transferToChain", c.tokAddr, destChain, dest, amount, fee)
	ok := c.mine(c.hub.TransferToChain(c.user, c.tokAddr, destChain, dest, amount, fee))
	c.count("deposit", ok, reason)
	return L(I(3), Z(amount), U(exec)), ok
}

func (c *evmCase) execMine(k int) V {
	for i := 0; i < k; i++ {
		c.backend.Commit()
	}
	c.stats["mine"]++
	return L(I(4), U(uint64(k)))
}

// ---------- generators ----------

func (c *evmCase) genNewSet() []evmMember {
	rng := c.rng
	set := evmCopySet(c.cur)
	renorm := func(ms []evmMember) []evmMember {
		raw := make([]uint64, len(ms))
		for i, m := range ms {
			raw[i] = m.power
		}
		for i, p := range evmNormalise(raw) {
			ms[i].power = p
		}
		return ms
	}
	unused := func() (common.Address, bool) {
		in := map[common.Address]bool{}
		for _, m := range set {
			in[m.addr] = true
		}
		var free []common.Address
		for _, a := range c.pool {
			if !in[a] {
				free = append(free, a)
			}
		}
		if len(free) == 0 {
			return common.Address{}, false
		}
		return free[rng.Intn(len(free))], true
	}
	what := rng.Intn(100)
	switch {
	case what < 18: // the same set under a new nonce
		c.stats["valset_new:same"]++
	case what < 45 && len(set) > 0: // new powers
		pw := evmNormalise(evmRawPowers(rng, len(set), rng.Intn(4)))
		for i := range set {
			set[i].power = pw[i]
		}
		c.stats["valset_new:repower"]++
	case what < 65 && len(set) > 1: // somebody leaves
		i := rng.Intn(len(set))
		set = renorm(append(set[:i], set[i+1:]...))
		c.stats["valset_new:drop"]++
	case what < 88 && len(set) < evmMaxSet: // somebody joins
		if a, ok := unused(); ok {
			p := uint64(1)
			if len(set) > 0 {
				p = 1 + rng.Next()%(2*set[0].power+1)
				if p >= 1<<32 {
					p = 1<<32 - 1
				}
			}
			set = renorm(append(set, evmMember{a, p}))
			c.stats["valset_new:add"]++
		}
	case what < 97 && len(set) > 0: // a small drift of one power, not renormalised
		i := rng.Intn(len(set))
		if set[i].power > 0 && rng.Chance(1, 2) {
			set[i].power--
		} else {
			set[i].power++
		}
		c.stats["valset_new:drift"]++
	default: // a set that cannot reach the threshold any more (the contract does not check that)
		switch rng.Intn(3) {
		case 0:
			if len(set) > 0 {
				set = set[1:] // the strongest one leaves, the others keep their powers
			}
		case 1:
			for i := range set {
				set[i].power /= 2
			}
		default:
			set = nil
		}
		c.stats["valset_new:weak"]++
	}
	return evmSort(set)
}

func (c *evmCase) opValset() (V, bool) {
	rng := c.rng
	newSet := c.genNewSet()
	nonce := c.curN + 1
	switch x := rng.Intn(100); {
	case x < 78:
	case x < 88:
		nonce = c.curN + 3
	case x < 94:
		nonce = c.curN
	case x < 97:
		if c.curN > 0 {
			nonce = c.curN - 1
		} else {
			nonce = 0
		}
	default:
		nonce = 0
	}
	return c.execValset(newSet, nonce, c.genQual("valset"), c.genMode("valset"))
}

func (c *evmCase) opBatch() (V, bool) {
	rng := c.rng
	n := 1 + rng.Intn(4)
	h := c.hubBal
	trs := make([]evmTransfer, n)
	for i := range trs {
		trs[i].dest = c.destPool[rng.Intn(len(c.destPool))]
		trs[i].fee = big.NewInt(int64(rng.Intn(1000)))
		if rng.Chance(1, 6) {
			trs[i].fee = randBig(rng, pow2(1+rng.Intn(100)))
		}
		// a share of the contract's balance; the shares of one batch never add up to more than half of it
		trs[i].amount = new(big.Int).Div(h, big.NewInt(int64(2*n+rng.Intn(40))))
		if rng.Chance(1, 10) {
			trs[i].amount = big.NewInt(int64(rng.Intn(3)))
			if trs[i].amount.Cmp(new(big.Int).Div(h, big.NewInt(int64(2*n)))) > 0 {
				trs[i].amount = big.NewInt(0)
			}
		}
	}
	sumOthers := func(skip int) *big.Int {
		s := new(big.Int)
		for i, t := range trs {
			if i != skip {
				s.Add(s, t.amount)
			}
		}
		return s
	}
	switch x := rng.Intn(100); {
	case x < 86:
		c.stats["batch_amounts:within"]++
	case x < 91: // exactly everything the contract has
		i := rng.Intn(n)
		trs[i].amount = new(big.Int).Sub(h, sumOthers(i))
		c.stats["batch_amounts:drain"]++
	case x < 95: // one token too many in total
		i := rng.Intn(n)
		trs[i].amount = new(big.Int).Add(new(big.Int).Sub(h, sumOthers(i)), big.NewInt(1))
		c.stats["batch_amounts:over"]++
	default: // one transfer far too large
		i := rng.Intn(n)
		trs[i].amount = new(big.Int).Add(new(big.Int).Mul(h, big.NewInt(int64(1+rng.Intn(3)))), big.NewInt(int64(1+rng.Intn(1000))))
		c.stats["batch_amounts:over"]++
	}

	nonce := c.lastBN + 1
	switch x := rng.Intn(100); {
	case x < 83:
	case x < 91:
		nonce = c.lastBN + 2
	case x < 96:
		nonce = c.lastBN
	case x < 98:
		if c.lastBN > 0 {
			nonce = c.lastBN - 1
		} else {
			nonce = 0
		}
	default:
		nonce = 0
	}

	exec := c.head() + 1
	timeout := exec + 2 + uint64(rng.Intn(500))
	switch x := rng.Intn(100); {
	case x < 81:
		c.stats["batch_timeout:future"]++
	case x < 90: // the last block in which the batch is still good
		timeout = exec + 1
		c.stats["batch_timeout:exec+1"]++
	case x < 95:
		timeout = exec
		c.stats["batch_timeout:exec"]++
	default:
		timeout = []uint64{exec - 1, 0, 1, exec / 2}[rng.Intn(4)]
		c.stats["batch_timeout:past"]++
	}
	return c.execBatch(trs, nonce, timeout, c.genQual("batch"), c.genMode("batch"))
}

func (c *evmCase) opDeposit() (V, bool) {
	rng := c.rng
	ub, err := c.tok.BalanceOf(nil, c.user.From)
	if err != nil {
		panic(err)
	}
	var amount *big.Int
	switch x := rng.Intn(100); {
	case x < 68:
		amount = new(big.Int).Div(ub, big.NewInt(int64(3+rng.Intn(30))))
		c.stats["deposit_amount:within"]++
	case x < 76:
		amount = new(big.Int).Set(ub)
		c.stats["deposit_amount:all"]++
	case x < 84:
		amount = new(big.Int).Add(ub, big.NewInt(1))
		c.stats["deposit_amount:over"]++
	case x < 90:
		amount = new(big.Int).Add(new(big.Int).Mul(ub, big.NewInt(2)), big.NewInt(int64(rng.Intn(1000))))
		c.stats["deposit_amount:over"]++
	case x < 95:
		amount = big.NewInt(0)
		c.stats["deposit_amount:zero"]++
	default:
		amount = big.NewInt(int64(1 + rng.Intn(1000)))
		if amount.Cmp(ub) > 0 {
			c.stats["deposit_amount:over"]++
		} else {
			c.stats["deposit_amount:within"]++
		}
	}
	var chain, dest [32]byte
	copy(chain[:], "minter")
	for i := range dest {
		dest[i] = byte(rng.Next())
	}
	return c.execDeposit(amount, big.NewInt(int64(rng.Intn(1000))), chain, dest)
}

func (c *evmCase) step() (V, bool) {
	rng := c.rng
	x := rng.Intn(100)
	switch {
	case x < 30:
		return c.opValset()
	case x < 70:
		// a bridge without funds can only send empty batches: fund it first, most of the time
		if c.hubBal.Sign() == 0 && rng.Chance(3, 4) {
			return c.opDeposit()
		}
		return c.opBatch()
	case x < 86:
		return c.opDeposit()
	default:
		return c.execMine(1 + rng.Intn(5)), true
	}
}

// runEvmCase: one contract deployment, nOps operations; see the head of the file for the format.
func runEvmCase(seed uint64, nOps int, stats map[string]int) (V, V) {
	c := newEvmCase(seed, stats)
	defer c.backend.Close()
	ops := make([]V, 0, nOps)
	obs := make([]V, 0, nOps)
	for i := 0; i < nOps; i++ {
		op, ok := c.step()
		ops = append(ops, op)
		obs = append(obs, c.observe(ok))
	}
	return L(c.initV, L(ops...)), L(obs...)
}
