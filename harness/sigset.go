package main

// Signer-set suite (C09): sequences of BeginBlocker calls under changing bonded sets and powers.

import (
	"fmt"

	sdk "github.com/cosmos/cosmos-sdk/types"
	"github.com/ethereum/go-ethereum/common"

	mhub2 "github.com/MinterTeam/mhub2/module/x/mhub2"
	"github.com/MinterTeam/mhub2/module/x/mhub2/types"
)

func sigValAddr(i int) sdk.ValAddress {
	b := make([]byte, 20)
	b[0] = 0x33
	b[1] = byte(i)
	for j := 2; j < 20; j++ {
		b[j] = byte(i*7 + j)
	}
	return sdk.ValAddress(b)
}

func signersVal(l types.ExternalSigners) V {
	var items []V
	for _, s := range l {
		items = append(items, L(B(s.ExternalAddress), U(s.Power)))
	}
	return L(items...)
}

func runSigsetCase(seed uint64, nSteps int, stats map[string]int) (V, V) {
	rng := &Rng{s: seed}
	pool := 1 + rng.Intn(40)
	if rng.Chance(1, 4) {
		pool = 1 + rng.Intn(4)
	}
	keys := make([]string, pool) // "" = no key
	var dk []*types.MsgDelegateKeys
	for i := 0; i < pool; i++ {
		if rng.Chance(1, 7) {
			continue
		}
		b := make([]byte, 20)
		for j := range b {
			b[j] = byte(rng.Next())
		}
		if rng.Chance(1, 10) && i > 0 && keys[i-1] != "" {
			// nearly equal addresses: same bytes except the last
			copy(b, common.HexToAddress(keys[i-1]).Bytes())
			b[19] ^= 1
			b[18] = byte(i) // keep addresses pairwise distinct (C17)
		}
		keys[i] = common.BytesToAddress(b).Hex()
		// one address per validator per chain (C17): never hand the same address to two validators
		for dup := true; dup; {
			dup = false
			for j := 0; j < i; j++ {
				if keys[j] == keys[i] {
					dup = true
				}
			}
			if dup {
				b[17]++
				keys[i] = common.BytesToAddress(b).Hex()
			}
		}
		dk = append(dk, &types.MsgDelegateKeys{ValidatorAddress: sigValAddr(i).String(), OrchestratorAddress: orchAddr(i % 200).String(),
			ExternalAddress: keys[i], EthSignature: []byte{1}, ChainId: "ethereum"})
	}
	env := NewEnv(EnvOpts{Params: DefaultTestParams([]string{"ethereum", "hub"}), Tokens: nil,
		States: []*types.ExternalState{{ChainId: "ethereum", DelegateKeys: dk}}})

	powers := make([]int64, pool)
	bonded := make([]bool, pool)
	profile := rng.Intn(5)
	for i := range powers {
		switch profile {
		case 0:
			powers[i] = 100 // ties everywhere
		case 1:
			powers[i] = int64(1 + rng.Intn(5))
		case 2:
			powers[i] = int64(1 + rng.Intn(1000000))
			if i == 0 {
				powers[i] = 1000000000000 // dominant
			}
		case 3:
			powers[i] = 1000 + int64(rng.Intn(3)) // near ties, changes around the 5% boundary
		default:
			powers[i] = int64(1 + rng.Intn(1<<30))
		}
		bonded[i] = rng.Chance(4, 5)
	}
	var steps, outs []V
	height := int64(1 + rng.Intn(3))
	for len(steps) < nSteps {
		// mutate stake: delegation changes, bonding/unbonding
		for i := range powers {
			c := rng.Intn(20)
			switch {
			case c == 0:
				bonded[i] = !bonded[i]
			case c == 1:
				powers[i] += int64(rng.Intn(1 + int(powers[i]/10+1)))
			case c == 2:
				powers[i] -= int64(rng.Intn(1 + int(powers[i]/15+1)))
				if powers[i] < 1 {
					powers[i] = 1
				}
			case c == 3 && profile == 3:
				powers[i] = 1000 + int64(rng.Intn(120))
			}
		}
		env.Staking.Vals = nil
		var vv []V
		// "by power" order of the staking keeper: descending power, stable
		idx := make([]int, 0, pool)
		for i := range powers {
			if bonded[i] {
				idx = append(idx, i)
			}
		}
		for a := 1; a < len(idx); a++ {
			for b := a; b > 0 && powers[idx[b]] > powers[idx[b-1]]; b-- {
				idx[b], idx[b-1] = idx[b-1], idx[b]
			}
		}
		for _, i := range idx {
			env.Staking.Vals = append(env.Staking.Vals, ValIn{Oper: sigValAddr(i), Power: powers[i], Bonded: true})
			if keys[i] == "" {
				vv = append(vv, L(I(powers[i]), L()))
			} else {
				vv = append(vv, L(I(powers[i]), L(B(keys[i]))))
			}
		}
		height += int64(1 + rng.Intn(2))
		env.Ctx = env.Ctx.WithBlockHeight(height)
		var cur V = L(I(2))
		if code, _ := outcome(func() error { cur = L(I(0), signersVal(env.K.CurrentSignerSet(env.Ctx, "ethereum"))); return nil }); code != 0 {
			cur = L(I(2))
		}
		nonceBefore := env.K.GetLatestSignerSetTxNonce(env.Ctx, "ethereum")
		code, _ := outcome(func() error { mhub2.BeginBlocker(env.Ctx, env.K); return nil })
		st := L()
		if latest := env.K.GetLatestSignerSetTx(env.Ctx, "ethereum"); latest != nil {
			st = L(U(latest.Nonce), U(latest.Height), signersVal(latest.Signers))
		}
		if env.K.GetLatestSignerSetTxNonce(env.Ctx, "ethereum") != nonceBefore {
			stats["sets_created"]++
		}
		stats[fmt.Sprintf("members_%d", len(idx)/8*8)]++
		steps = append(steps, L(I(height), L(vv...)))
		outs = append(outs, L(I(code), cur, L(U(env.K.GetLatestSignerSetTxNonce(env.Ctx, "ethereum")), st)))
	}
	return L(steps...), L(outs...)
}
