package main

// Checkpoint suite (C07): GetCheckpoint of random signer sets, batches and contract calls, and
// ValidateEthereumSignature against go-ethereum's recovery.

import (
	"crypto/ecdsa"
	"math/big"
	"strings"

	sdk "github.com/cosmos/cosmos-sdk/types"
	"github.com/ethereum/go-ethereum/common"
	"github.com/ethereum/go-ethereum/crypto"

	"github.com/MinterTeam/mhub2/module/x/mhub2/types"
)

func rndAddr(rng *Rng) common.Address {
	var a common.Address
	for i := range a {
		a[i] = byte(rng.Next())
	}
	if rng.Chance(1, 12) {
		for i := 0; i < 12+rng.Intn(8); i++ {
			a[i] = 0
		}
	}
	return a
}

// spell: the hub keeps addresses as strings and accepts every spelling common.IsHexAddress does (checksummed,
// lower / upper case digits, "0X" prefix, no prefix); what is signed is the 20-byte address in all of them
func spell(rng *Rng, a common.Address) string {
	h := a.Hex()
	switch rng.Intn(10) {
	case 0:
		return strings.ToLower(h)
	case 1:
		return "0X" + h[2:]
	case 2:
		return h[2:]
	case 3:
		return "0x" + strings.ToUpper(h[2:])
	case 4:
		return "0X" + strings.ToLower(h[2:])
	default:
		return h
	}
}

func rndU256(rng *Rng) *big.Int {
	switch rng.Intn(6) {
	case 0:
		return big.NewInt(0)
	case 1:
		return new(big.Int).Sub(pow2(256), big.NewInt(1))
	case 2:
		return big.NewInt(int64(rng.Intn(1000)))
	case 3:
		return pow2(8 * (1 + rng.Intn(31)))
	default:
		return randBig(rng, pow2(1+rng.Intn(256)))
	}
}

func rndGravityID(rng *Rng) string {
	n := rng.Intn(33)
	b := make([]byte, n)
	for i := range b {
		b[i] = byte('a' + rng.Intn(26))
	}
	return string(b)
}

func rndNonce(rng *Rng) uint64 {
	switch rng.Intn(4) {
	case 0:
		return uint64(rng.Intn(5))
	case 1:
		return uint64(1)<<62 + rng.Next()%1000
	default:
		return rng.Next() >> uint(1+rng.Intn(62))
	}
}

func runCkptCase(seed uint64) (V, V) {
	rng := &Rng{s: seed}
	gid := rndGravityID(rng)
	if rng.Chance(4, 5) {
		gid = "testgravityid" // one deployment has one gravity id shared by all its chains
	}
	switch rng.Intn(3) {
	case 0:
		n := rng.Intn(12)
		if rng.Chance(1, 10) {
			n = 40 + rng.Intn(80)
		}
		var signers []*types.ExternalSigner
		var addrs, powers []V
		for i := 0; i < n; i++ {
			a := rndAddr(rng)
			p := rng.Next() >> uint(32+rng.Intn(31))
			signers = append(signers, &types.ExternalSigner{Power: p, ExternalAddress: spell(rng, a)})
			addrs = append(addrs, Bb(a.Bytes()))
			powers = append(powers, U(p))
		}
		nonce := rndNonce(rng)
		tx := types.SignerSetTx{Nonce: nonce, Signers: signers}
		return L(I(1), B(gid), U(nonce), L(addrs...), L(powers...)), Bb(tx.GetCheckpoint([]byte(gid)))
	case 1:
		n := rng.Intn(8)
		if rng.Chance(1, 8) {
			n = 100
		}
		var txs []*types.SendToExternal
		var amounts, dests, fees []V
		for i := 0; i < n; i++ {
			a, f, d := rndU256(rng), rndU256(rng), rndAddr(rng)
			txs = append(txs, &types.SendToExternal{ExternalRecipient: spell(rng, d), Token: types.ExternalToken{Amount: sdk.NewIntFromBigInt(a)},
				Fee: types.ExternalToken{Amount: sdk.NewIntFromBigInt(f)}})
			amounts = append(amounts, Z(a))
			fees = append(fees, Z(f))
			dests = append(dests, Bb(d.Bytes()))
		}
		token := rndAddr(rng)
		nonce, timeout := rndNonce(rng), rndNonce(rng)
		b := types.BatchTx{BatchNonce: nonce, Timeout: timeout, Transactions: txs, ExternalTokenId: spell(rng, token)}
		return L(I(2), B(gid), L(amounts...), L(dests...), L(fees...), U(nonce), Bb(token.Bytes()), U(timeout)), Bb(b.GetCheckpoint([]byte(gid)))
	default:
		nt, nf := rng.Intn(4), rng.Intn(4)
		var toks, fs []types.ExternalToken
		var ta, tt, fa, ft []V
		for i := 0; i < nt; i++ {
			a, c := rndU256(rng), rndAddr(rng)
			toks = append(toks, types.ExternalToken{Amount: sdk.NewIntFromBigInt(a), ExternalTokenId: spell(rng, c)})
			ta = append(ta, Z(a))
			tt = append(tt, Bb(c.Bytes()))
		}
		for i := 0; i < nf; i++ {
			a, c := rndU256(rng), rndAddr(rng)
			fs = append(fs, types.ExternalToken{Amount: sdk.NewIntFromBigInt(a), ExternalTokenId: spell(rng, c)})
			fa = append(fa, Z(a))
			ft = append(ft, Bb(c.Bytes()))
		}
		pl := make([]byte, []int{0, 1, 31, 32, 33, 64, 100, 1000}[rng.Intn(8)])
		for i := range pl {
			pl[i] = byte(rng.Next())
		}
		scope := make([]byte, []int{0, 1, 20, 32}[rng.Intn(4)])
		for i := range scope {
			scope[i] = byte(rng.Next())
		}
		logic := rndAddr(rng)
		timeout, inonce := rndNonce(rng), rndNonce(rng)
		c := types.ContractCallTx{InvalidationNonce: inonce, InvalidationScope: scope, Address: spell(rng, logic), Payload: pl, Timeout: timeout, Tokens: toks, Fees: fs}
		return L(I(3), B(gid), L(ta...), L(tt...), L(fa...), L(ft...), Bb(logic.Bytes()), Bb(pl), U(timeout), Bb(scope), U(inonce)), Bb(c.GetCheckpoint([]byte(gid)))
	}
}

// Signature cases: (hash sig addr recover-table) -> ValidateEthereumSignature accepted?
func runSigCase(seed uint64) (V, V) {
	rng := &Rng{s: seed}
	keyBytes := make([]byte, 32)
	for i := range keyBytes {
		keyBytes[i] = byte(rng.Next())
	}
	keyBytes[0] &= 0x7f
	keyBytes[31] |= 1
	var priv *ecdsa.PrivateKey
	priv, err := crypto.ToECDSA(keyBytes)
	if err != nil {
		panic(err)
	}
	hash := make([]byte, 32)
	for i := range hash {
		hash[i] = byte(rng.Next())
	}
	sig, err := types.NewEthereumSignature(hash, priv)
	if err != nil {
		panic(err)
	}
	addr := crypto.PubkeyToAddress(priv.PublicKey)
	claimed := addr
	switch rng.Intn(10) {
	case 8, 9:
		// the other signature of the same key over the same digest: (r, n-s, v^1); ecrecover (the contract) and
		// go-ethereum's recovery accept both
		n := crypto.S256().Params().N
		s2 := new(big.Int).Sub(n, new(big.Int).SetBytes(sig[32:64]))
		copy(sig[32:64], make([]byte, 32))
		s2.FillBytes(sig[32:64])
		sig[64] ^= 1
		if rng.Chance(1, 2) {
			sig[64] += 27
		}
	case 0:
		claimed = rndAddr(rng) // somebody else
	case 1:
		sig[64] += 27 // the 27/28 convention of the contract
	case 2:
		sig = sig[:rng.Intn(65)] // too short
	case 3:
		hash[rng.Intn(32)] ^= 1 // another digest
	case 4:
		sig[rng.Intn(64)] ^= byte(1 << uint(rng.Intn(8))) // damaged signature
	case 5:
		sig = append(sig, byte(rng.Next())) // trailing byte
		sig[64] += 27
	}
	// recovery table entry for what the hub's scheme must look up: keccak(prefix ++ hash), r||s||v(0/1)
	var table []V
	if len(sig) >= 65 {
		digest := crypto.Keccak256(append([]byte("\x19Ethereum Signed Message:\n32"), hash...))
		norm := append([]byte{}, sig[:65]...)
		if norm[64] == 27 || norm[64] == 28 {
			norm[64] -= 27
		}
		rec := []byte{}
		if pub, err := crypto.SigToPub(digest, norm); err == nil {
			rec = crypto.PubkeyToAddress(*pub).Bytes()
		}
		table = append(table, L(Bb(digest), Bb(norm), Bb(rec)))
	}
	ok := types.ValidateEthereumSignature(hash, sig, claimed) == nil
	return L(Bb(hash), Bb(sig), Bb(claimed.Bytes()), L(table...)), Bool(ok)
}
