package main

// verifharness <suite> -seed S -n N [-ops K] [-hostile]
// prints one line per case:  <model function> TAB <case> TAB <implementation output>
// and, on stderr, a JSON object of generator statistics.

import (
	"strings"
	"bufio"
	"encoding/json"
	"flag"
	"fmt"
	"os"
)

func main() {
	if len(os.Args) < 2 {
		fmt.Fprintln(os.Stderr, "usage: verifharness <suite> [flags]")
		os.Exit(2)
	}
	suite := os.Args[1]
	fs := flag.NewFlagSet(suite, flag.ExitOnError)
	seed := fs.Uint64("seed", 1, "PRNG seed")
	n := fs.Int("n", 10, "number of cases")
	nops := fs.Int("ops", 40, "operations per history")
	hostile := fs.Bool("hostile", false, "hostile stream")
	only := fs.Int("case", -1, "run only this case index")
	gov := fs.Bool("gov", false, "include governance token delisting")
	dir := fs.Bool("directed", false, "boundary-directed stream")
	flood := fs.Bool("flood", false, "hub: four or five tokens of one chain with a backlog of about a hundred transfers each")
	nocap := fs.Bool("nocap", false, "do not cap the deposited value per denom below 2^255 (supply overflow stream)")
	cons := fs.Bool("consistent", false, "with -hostile: executions stay within the contract's nonce and timeout rules")
	many := fs.Bool("many", false, "more than 100 pending batches of one token before the restart")
	fs.Parse(os.Args[2:])

	w := bufio.NewWriterSize(os.Stdout, 1<<20)
	defer w.Flush()
	stats := map[string]int{}
	directed = *dir
	manyBatches = *many
	floodMode = *flood
	consistentExec = *cons
	noCapDeposit = *nocap
	switch suite {
	case "hub", "genesis", "det", "blocks":
		genesisMode = suite == "genesis"
		detMode = suite == "det"
		blocksMode = suite == "blocks"
		for i := 0; i < *n; i++ {
			if *only >= 0 && i != *only {
				continue
			}
			c, out := runHubCase(*seed*1000003+uint64(i), *nops, *hostile, *gov, suite == "genesis", stats)
			if detMode {
				fmt.Fprintf(w, "%s\t%s\t%s\t%s\tshadow=%d\n", suite, Str(c), Str(out), strings.Join(lastCaseHashes, ","), lastCaseShadowDiff)
			} else {
				fmt.Fprintf(w, "%s\t%s\t%s\n", suite, Str(c), Str(out))
			}
		}
	case "oracle", "oraclegen", "detoracle":
		detMode = suite == "detoracle"
		for i := 0; i < *n; i++ {
			if *only >= 0 && i != *only {
				continue
			}
			c, out := runOracleCase(*seed*1000003+uint64(i), *nops, suite == "oraclegen", stats)
			if detMode {
				fmt.Fprintf(w, "%s\t%s\t%s\t%s\n", suite, Str(c), Str(out), strings.Join(lastCaseHashes, ","))
			} else {
				fmt.Fprintf(w, "%s\t%s\t%s\n", suite, Str(c), Str(out))
			}
		}
	case "sigprune":
		for i := 0; i < *n; i++ {
			if *only >= 0 && i != *only {
				continue
			}
			c, out := runPruneCase(*seed*1000003+uint64(i), *nops, stats)
			fmt.Fprintf(w, "sigprune\t%s\t%s\n", Str(c), Str(out))
		}
	case "evm":
		for i := 0; i < *n; i++ {
			if *only >= 0 && i != *only {
				continue
			}
			c, out := runEvmCase(*seed*1000003+uint64(i), *nops, stats)
			fmt.Fprintf(w, "evm\t%s\t%s\n", Str(c), Str(out))
		}
	case "reg", "reggen":
		for i := 0; i < *n; i++ {
			if *only >= 0 && i != *only {
				continue
			}
			c, out := runRegCase(*seed*1000003+uint64(i), *nops, suite == "reggen", stats)
			fmt.Fprintf(w, "%s\t%s\t%s\n", suite, Str(c), Str(out))
		}
	case "claim":
		for i := 0; i < *n; i++ {
			if *only >= 0 && i != *only {
				continue
			}
			c, out := runClaimCase(*seed*1000003+uint64(i), stats)
			fmt.Fprintf(w, "claim\t%s\t%s\n", Str(c), Str(out))
		}
	case "ckpt":
		for i := 0; i < *n; i++ {
			if *only >= 0 && i != *only {
				continue
			}
			c, out := runCkptCase(*seed*1000003 + uint64(i))
			fmt.Fprintf(w, "ckpt\t%s\t%s\n", Str(c), Str(out))
		}
	case "sig":
		for i := 0; i < *n; i++ {
			if *only >= 0 && i != *only {
				continue
			}
			c, out := runSigCase(*seed*1000003 + uint64(i))
			fmt.Fprintf(w, "sig\t%s\t%s\n", Str(c), Str(out))
		}
	case "sigset":
		for i := 0; i < *n; i++ {
			if *only >= 0 && i != *only {
				continue
			}
			c, out := runSigsetCase(*seed*1000003+uint64(i), *nops, stats)
			fmt.Fprintf(w, "sigset\t%s\t%s\n", Str(c), Str(out))
		}
	case "votes", "votesgen", "votesh":
		votesHeights = suite == "votesh"
		for i := 0; i < *n; i++ {
			if *only >= 0 && i != *only {
				continue
			}
			c, out := runVotesCase(*seed*1000003+uint64(i), *nops, suite == "votesgen", stats)
			fmt.Fprintf(w, "%s\t%s\t%s\n", suite, Str(c), Str(out))
		}
	default:
		fmt.Fprintln(os.Stderr, "unknown suite", suite)
		os.Exit(2)
	}
	js, _ := json.Marshal(stats)
	fmt.Fprintln(os.Stderr, string(js))
}
