package main

// Claim-hash suite (C14): pairs of events of one type; observation = do their Hash() coincide.

import (
	"bytes"
	"fmt"
	"math/big"

	sdk "github.com/cosmos/cosmos-sdk/types"

	"github.com/MinterTeam/mhub2/module/x/mhub2/types"
)

type xev struct {
	kind     int
	nonce    uint64
	coin     string
	amount   *big.Int
	fee      *big.Int
	sender   string
	receiver string
	rchain   string
	height   uint64
	txhash   string
	bnonce   uint64
	feepaid  *big.Int // nil: unset
	payer    string
	scope    []byte
	inonce   uint64
	retdata  []byte
	snonce   uint64
	members  []*types.ExternalSigner
}

func (e *xev) clone() *xev {
	c := *e
	if e.amount != nil {
		c.amount = new(big.Int).Set(e.amount)
	}
	if e.fee != nil {
		c.fee = new(big.Int).Set(e.fee)
	}
	if e.feepaid != nil {
		c.feepaid = new(big.Int).Set(e.feepaid)
	}
	c.scope = append([]byte{}, e.scope...)
	c.retdata = append([]byte{}, e.retdata...)
	c.members = nil
	for _, m := range e.members {
		c.members = append(c.members, &types.ExternalSigner{Power: m.Power, ExternalAddress: m.ExternalAddress})
	}
	return &c
}

func fit(x *big.Int) *big.Int {
	if x != nil && x.BitLen() > 255 {
		return new(big.Int).Rsh(x, uint(x.BitLen()-250))
	}
	return x
}

func (e *xev) event() types.ExternalEvent {
	e.amount, e.fee, e.feepaid = fit(e.amount), fit(e.fee), fit(e.feepaid)
	switch e.kind {
	case 1:
		return &types.SendToHubEvent{EventNonce: e.nonce, ExternalCoinId: e.coin, Amount: sdk.NewIntFromBigInt(e.amount), Sender: e.sender,
			CosmosReceiver: e.receiver, ExternalHeight: e.height, TxHash: e.txhash}
	case 2:
		return &types.TransferToChainEvent{EventNonce: e.nonce, ExternalCoinId: e.coin, Amount: sdk.NewIntFromBigInt(e.amount), Fee: sdk.NewIntFromBigInt(e.fee),
			Sender: e.sender, ReceiverChainId: e.rchain, ExternalReceiver: e.receiver, ExternalHeight: e.height, TxHash: e.txhash}
	case 3:
		ev := &types.BatchExecutedEvent{ExternalCoinId: e.coin, EventNonce: e.nonce, BatchNonce: e.bnonce, ExternalHeight: e.height, TxHash: e.txhash, FeePayer: e.payer}
		if e.feepaid != nil {
			ev.FeePaid = sdk.NewIntFromBigInt(e.feepaid)
		}
		return ev
	case 4:
		return &types.ContractCallExecutedEvent{EventNonce: e.nonce, InvalidationScope: e.scope, InvalidationNonce: e.inonce, ReturnData: e.retdata,
			ExternalHeight: e.height, TxHash: e.txhash}
	default:
		return &types.SignerSetTxExecutedEvent{EventNonce: e.nonce, SignerSetTxNonce: e.snonce, ExternalHeight: e.height, Members: e.clone().members, TxHash: e.txhash}
	}
}

func (e *xev) val() V {
	switch e.kind {
	case 1:
		return L(I(1), U(e.nonce), B(e.coin), Z(e.amount), B(e.sender), B(e.receiver), U(e.height), B(e.txhash))
	case 2:
		return L(I(2), U(e.nonce), B(e.coin), Z(e.amount), Z(e.fee), B(e.sender), B(e.rchain), B(e.receiver), U(e.height), B(e.txhash))
	case 3:
		fp := L()
		if e.feepaid != nil {
			fp = L(Z(e.feepaid))
		}
		return L(I(3), B(e.coin), U(e.nonce), U(e.bnonce), U(e.height), B(e.txhash), fp, B(e.payer))
	case 4:
		return L(I(4), U(e.nonce), Bb(e.scope), U(e.inonce), Bb(e.retdata), U(e.height), B(e.txhash))
	default:
		ms := types.ExternalSigners(e.clone().members)
		ms.Sort()
		var items []V
		for _, m := range ms {
			items = append(items, L(B(m.ExternalAddress), U(m.Power)))
		}
		return L(I(5), U(e.nonce), U(e.snonce), U(e.height), L(items...), B(e.txhash))
	}
}

func rndStr(rng *Rng, alphabet string, n int) string {
	b := make([]byte, n)
	for i := range b {
		b[i] = alphabet[rng.Intn(len(alphabet))]
	}
	return string(b)
}

func genXev(rng *Rng) *xev {
	e := &xev{kind: 1 + rng.Intn(5)}
	e.nonce = rndNonce(rng) + 1
	e.height = rndNonce(rng)
	e.coin = []string{"1", "10", "11", "2012", ethAddrOf(0xc0, 1), "0xAbCdEf0123456789abcdef0123456789ABCDEF01"}[rng.Intn(6)]
	e.amount = rndU256(rng)
	e.fee = rndU256(rng)
	if rng.Chance(1, 6) {
		e.fee = big.NewInt(-int64(rng.Intn(1000)))
	}
	e.sender = []string{ethAddrOf(0xe0, rng.Intn(3)), "e0e0e0e0e0e0e0e0e0e0e0e0e0e0e0e0e0e0e0e0", "0xE0e0E0e0e0E0E0E0e0e0e0e0e0e0e0e0e0e0e0E0", "Mx" + rndStr(rng, "0123456789abcdef", 40)}[rng.Intn(4)]
	if e.kind == 1 {
		e.receiver = userAddr(rng.Intn(3)).String()
	} else {
		e.receiver = ethAddrOf(0xd0, rng.Intn(3))
	}
	e.rchain = allChains[rng.Intn(4)]
	e.txhash = "0x" + rndStr(rng, "0123456789abcdef", []int{0, 8, 64}[rng.Intn(3)])
	e.bnonce = rndNonce(rng)
	if rng.Chance(3, 4) {
		e.feepaid = rndU256(rng)
	}
	e.payer = ethAddrOf(0x90, rng.Intn(3))
	e.scope = []byte(rndStr(rng, "abc\x00\x01", rng.Intn(5)))
	e.inonce = rndNonce(rng)
	e.retdata = []byte(rndStr(rng, "xyz\x00", rng.Intn(6)))
	e.snonce = rndNonce(rng)
	for i := 0; i < rng.Intn(5); i++ {
		e.members = append(e.members, &types.ExternalSigner{Power: rng.Next() >> uint(32+rng.Intn(31)), ExternalAddress: rndAddr(rng).Hex()})
	}
	return e
}

// mutate changes one field (or shifts a boundary between two neighbouring variable-length fields)
func mutate(rng *Rng, e *xev) (*xev, string) {
	m := e.clone()
	bump := func(x *big.Int) *big.Int {
		switch rng.Intn(4) {
		case 0:
			return new(big.Int).Add(x, big.NewInt(1))
		case 1:
			return new(big.Int).Mul(x, big.NewInt(256))
		case 2:
			return new(big.Int).Neg(x)
		default:
			return rndU256(rng)
		}
	}
	switch rng.Intn(27) {
	case 25, 26: // one member's power moved by a multiple of 2^32 (the ranking of the members unchanged)
		if len(m.members) > 0 {
			top := 0
			for i := range m.members {
				if m.members[i].Power > m.members[top].Power {
					top = i
				}
			}
			if m.members[top].Power < 1<<62 {
				m.members[top].Power += uint64(1+rng.Intn(3)) << 32
			}
		}
		return m, "member-power-plus-2^32k"
	case 24: // the same addresses with their powers exchanged
		if len(m.members) > 1 {
			i := rng.Intn(len(m.members) - 1)
			m.members[i].Power, m.members[i+1].Power = m.members[i+1].Power, m.members[i].Power
		}
		return m, "member-powers-swapped"
	case 0:
		return m, "identical"
	case 1:
		m.nonce++
		return m, "nonce"
	case 2:
		m.height += 1 + uint64(rng.Intn(3))
		return m, "height"
	case 3:
		m.coin = m.coin + "0"
		return m, "coin"
	case 4:
		m.amount = bump(m.amount)
		return m, "amount"
	case 5:
		m.fee = bump(m.fee)
		return m, "fee"
	case 6:
		m.sender = []string{ethAddrOf(0xe0, 7), lower(m.sender), m.sender[2:], "0x" + m.sender}[rng.Intn(4)]
		return m, "sender"
	case 7:
		if m.kind == 1 {
			m.receiver = userAddr(3).String()
		} else {
			m.receiver = ethAddrOf(0xd0, 7)
		}
		return m, "receiver"
	case 8:
		m.rchain = allChains[(rng.Intn(3)+1+indexOf(allChains, m.rchain))%4]
		return m, "rchain"
	case 9:
		m.txhash = m.txhash + "00"
		return m, "txhash"
	case 10:
		m.bnonce++
		return m, "bnonce"
	case 11:
		if m.feepaid == nil {
			m.feepaid = big.NewInt(0)
		} else if rng.Chance(1, 4) {
			m.feepaid = nil
		} else {
			m.feepaid = bump(m.feepaid)
		}
		return m, "feepaid"
	case 12:
		m.payer = ethAddrOf(0x90, 7)
		return m, "payer"
	case 13:
		m.scope = append(m.scope, 0)
		return m, "scope"
	case 14:
		m.inonce++
		return m, "inonce"
	case 15:
		m.retdata = append(m.retdata, 'q')
		return m, "retdata"
	case 16:
		m.snonce++
		return m, "snonce"
	case 17:
		if len(m.members) > 0 {
			m.members[rng.Intn(len(m.members))].Power++
		} else {
			m.members = append(m.members, &types.ExternalSigner{Power: 1, ExternalAddress: rndAddr(rng).Hex()})
		}
		return m, "member-power"
	case 18:
		if len(m.members) > 1 {
			m.members[0], m.members[1] = m.members[1], m.members[0] // a permutation: the same set
			return m, "member-order"
		}
		m.members = append(m.members, &types.ExternalSigner{Power: 5, ExternalAddress: rndAddr(rng).Hex()})
		return m, "member-added"
	case 19:
		if len(m.members) > 0 {
			d := m.members[rng.Intn(len(m.members))]
			m.members = append(m.members, &types.ExternalSigner{Power: d.Power, ExternalAddress: d.ExternalAddress}, &types.ExternalSigner{Power: d.Power, ExternalAddress: d.ExternalAddress})
		}
		return m, "member-duplicated-twice"
	case 20: // shift: last char of coin moves in front of the amount bytes / next field
		if len(m.coin) > 1 {
			m.coin = m.coin[:len(m.coin)-1]
			m.amount = new(big.Int).Add(new(big.Int).Lsh(big.NewInt(int64(e.coin[len(e.coin)-1])), uint(8*len(e.amount.Bytes()))), e.amount)
		}
		return m, "shift-coin-amount"
	case 21: // shift between receiver and receiver chain / sender and receiver
		if len(m.receiver) > 1 {
			if m.kind == 2 {
				m.rchain = m.rchain + m.receiver[:1]
				m.receiver = m.receiver[1:]
			} else {
				m.sender = m.sender + m.receiver[:1]
				m.receiver = m.receiver[1:]
			}
		}
		return m, "shift-strings"
	case 22: // shift between scope and the following nonce bytes / return data
		if len(m.retdata) > 0 {
			m.scope = append(m.scope, m.retdata[0])
			m.retdata = m.retdata[1:]
		}
		return m, "shift-scope-retdata"
	default:
		if len(m.txhash) > 2 {
			m.payer = m.payer + m.txhash[len(m.txhash)-1:]
			m.txhash = m.txhash[:len(m.txhash)-1]
		}
		return m, "shift-txhash-payer"
	}
}

func indexOf(l []string, s string) int {
	for i, x := range l {
		if x == s {
			return i
		}
	}
	return 0
}

// ---- boundary attack on the framing, using the hashed byte string as a black box ----
type slot struct {
	get func(*xev) []byte
	set func(*xev, []byte)
}

func strSlot(f func(*xev) *string) slot {
	return slot{func(e *xev) []byte { return []byte(*f(e)) }, func(e *xev, b []byte) { *f(e) = string(b) }}
}

func slotsOf(kind int) []slot {
	coin := strSlot(func(e *xev) *string { return &e.coin })
	sender := strSlot(func(e *xev) *string { return &e.sender })
	receiver := strSlot(func(e *xev) *string { return &e.receiver })
	rchain := strSlot(func(e *xev) *string { return &e.rchain })
	txhash := strSlot(func(e *xev) *string { return &e.txhash })
	payer := strSlot(func(e *xev) *string { return &e.payer })
	scope := slot{func(e *xev) []byte { return e.scope }, func(e *xev, b []byte) { e.scope = append([]byte{}, b...) }}
	retdata := slot{func(e *xev) []byte { return e.retdata }, func(e *xev, b []byte) { e.retdata = append([]byte{}, b...) }}
	switch kind {
	case 1:
		return []slot{coin, sender, receiver, txhash}
	case 2:
		return []slot{coin, sender, rchain, receiver, txhash}
	case 3:
		return []slot{coin, txhash, payer}
	case 4:
		return []slot{scope, retdata, txhash}
	}
	return nil
}

func preimage(e *xev) []byte {
	e.event().Hash()
	return append([]byte{}, types.LastClaimPreimage...)
}

// absorb builds two different events of one type: one whose field i swallows whatever the
// implementation writes between the contents of fields i and j, and one in which field j carries
// that material instead.  With a sound framing (length prefixes) their hashed strings differ; with
// concatenation, constant delimiters or constant prefixes they coincide.
func absorb(rng *Rng, e *xev) (*xev, *xev, bool) {
	slots := slotsOf(e.kind)
	if len(slots) < 2 {
		return nil, nil, false
	}
	i := rng.Intn(len(slots) - 1)
	j := i + 1 + rng.Intn(len(slots)-i-1)
	a := []byte("Aq" + rndStr(rng, "abcdefgh", 4))
	mk := []byte("~Mk" + rndStr(rng, "ijklmnop", 4))
	bp := []byte("Bz" + rndStr(rng, "qrstuvwx", 3))
	e2m := e.clone()
	slots[i].set(e2m, a)
	slots[j].set(e2m, mk)
	p := preimage(e2m)
	ia := bytes.Index(p, a)
	if ia < 0 {
		return nil, nil, false
	}
	im := bytes.Index(p[ia+len(a):], mk)
	if im < 0 {
		return nil, nil, false
	}
	mid2 := p[ia+len(a) : ia+len(a)+im]
	suffix2 := p[ia+len(a)+im+len(mk):]
	e1 := e.clone()
	fi := append(append(append([]byte{}, a...), mid2...), bp...)
	slots[i].set(e1, fi)
	slots[j].set(e1, nil)
	p1 := preimage(e1)
	k := bytes.Index(p1, fi)
	if k < 0 {
		return nil, nil, false
	}
	t1 := p1[k+len(fi):]
	if !bytes.HasSuffix(t1, suffix2) {
		return e1, e2m, true
	}
	fj := append(append([]byte{}, bp...), t1[:len(t1)-len(suffix2)]...)
	e2 := e.clone()
	slots[i].set(e2, a)
	slots[j].set(e2, fj)
	return e1, e2, true
}

func runClaimCase(seed uint64, stats map[string]int) (V, V) {
	rng := &Rng{s: seed}
	e1 := genXev(rng)
	var e2 *xev
	var what string
	if rng.Chance(1, 6) {
		if x, y, ok := absorb(rng, e1); ok {
			e1, e2, what = x, y, "absorb-separator"
		}
	}
	if e2 == nil && rng.Chance(1, 8) {
		// sign / width confusion: a negative value with a k-byte magnitude x against the positive value 2^(8k) + x
		// (an encoding that writes "sign byte, magnitude" for one and a fixed-width word for the other may make them meet)
		k := []int{7, 7, 7, 1, 3, 8, 15, 31}[rng.Intn(8)]
		x := randBig(rng, pow2(8*k))
		if x.Sign() == 0 {
			x = big.NewInt(1)
		}
		x.SetBit(x, 8*k-1, 1) // a full k-byte magnitude
		neg := new(big.Int).Neg(x)
		pos := new(big.Int).Add(pow2(8*k), x)
		a, b := e1.clone(), e1.clone()
		if rng.Chance(1, 2) {
			a.fee, b.fee = neg, pos
		} else {
			a.feepaid, b.feepaid = neg, pos
		}
		e1, e2, what = a, b, "sign-width"
	}
	if e2 == nil {
		e2, what = mutate(rng, e1)
	}
	h1 := e1.event().Hash()
	p1 := append([]byte{}, types.LastClaimPreimage...)
	h2 := e2.event().Hash()
	p2 := append([]byte{}, types.LastClaimPreimage...)
	same := bytes.Equal(h1, h2)
	stats[fmt.Sprintf("kind%d", e1.kind)]++
	stats["mut_"+what]++
	if same {
		stats["equal_hashes"]++
	}
	return L(e1.val(), e2.val()), L(Bool(same), Bb(p1), Bb(p2))
}
