package main

// Signer-set retention suite (C08, hub side): blocks of BeginBlocker (createSignerSetTxs + pruneSignerSetTxs) and
// EndBlocker (attested SignerSetTxExecutedEvents) under alternating validator powers, a short
// SignedSignerSetTxsWindow and height jumps.  Observed after every block: latest nonce, the stored signer
// sets (nonce, creation height), the last observed nonce.

import (
	"sort"

	sdk "github.com/cosmos/cosmos-sdk/types"

	mhub2 "github.com/MinterTeam/mhub2/module/x/mhub2"
	"github.com/MinterTeam/mhub2/module/x/mhub2/types"
)

func runPruneCase(seed uint64, nBlocks int, stats map[string]int) (V, V) {
	rng := &Rng{s: seed}
	chain := []string{"ethereum", "bsc", "minter"}[rng.Intn(3)]
	window := uint64(2 + rng.Intn(6))
	params := DefaultTestParams([]string{chain, "hub"})
	params.SignedSignerSetTxsWindow = window
	nVals := 3
	keys := make([]string, nVals)
	var dk []*types.MsgDelegateKeys
	for i := 0; i < nVals; i++ {
		keys[i] = ethAddrOf(0x70, i)
		dk = append(dk, &types.MsgDelegateKeys{ValidatorAddress: valAddr(i).String(), OrchestratorAddress: orchAddr(i).String(),
			ExternalAddress: keys[i], EthSignature: []byte{1}, ChainId: chain})
	}
	env := NewEnv(EnvOpts{Params: params, Tokens: nil, States: []*types.ExternalState{{ChainId: chain, DelegateKeys: dk}}})
	voter := sdk.AccAddress(valAddr(0))
	// validator 0 always holds 70% (its vote alone reaches the quorum); the others swap their shares, which
	// moves more than 5% of the normalised power and makes the BeginBlocker publish a new signer set
	profiles := [][]int64{{700, 200, 100}, {700, 100, 200}, {700, 150, 150}}
	profile := 0
	height := int64(1 + rng.Intn(3))
	eventNonce := uint64(0)
	lastExecuted := uint64(0)
	var blocks, outs []V
	for len(blocks) < nBlocks {
		if rng.Chance(1, 2) {
			profile = (profile + 1 + rng.Intn(2)) % 3
		}
		height += int64(1 + rng.Intn(3))
		if rng.Chance(1, 5) {
			height += int64(window) + int64(rng.Intn(4))
		}
		p := profiles[profile]
		idx := []int{0, 1, 2}
		sort.SliceStable(idx, func(a, b int) bool { return p[idx[a]] > p[idx[b]] })
		env.Staking.Vals = nil
		var vv []V
		for _, i := range idx {
			env.Staking.Vals = append(env.Staking.Vals, ValIn{Oper: valAddr(i), Power: p[i], Bonded: true})
			vv = append(vv, L(I(p[i]), L(B(keys[i]))))
		}
		env.Ctx = env.Ctx.WithBlockHeight(height)
		code, _ := outcome(func() error { mhub2.BeginBlocker(env.Ctx, env.K); return nil })
		// executions attested in this block
		var executed []V
		latest := env.K.GetLatestSignerSetTxNonce(env.Ctx, types.ChainID(chain))
		nEv := 0
		if rng.Chance(1, 3) {
			nEv = 1 + rng.Intn(2)
		}
		for e := 0; e < nEv; e++ {
			var n uint64
			switch c := rng.Intn(10); {
			case c < 6: // the contract moves forward to some later set (it accepts any higher nonce)
				if latest <= lastExecuted {
					continue
				}
				n = lastExecuted + 1 + uint64(rng.Intn(int(latest-lastExecuted)))
			case c < 8: // straight to the newest one
				n = latest
			case c < 9: // a nonce the hub has not created (foreign fork / hostile quorum)
				n = latest + 1 + uint64(rng.Intn(3))
			default: // an old one again
				n = uint64(rng.Intn(int(latest + 1)))
			}
			if n == 0 {
				continue
			}
			eventNonce++
			ev := &types.SignerSetTxExecutedEvent{EventNonce: eventNonce, SignerSetTxNonce: n, ExternalHeight: uint64(1000 + height),
				Members: types.ExternalSigners{{Power: 1 << 31, ExternalAddress: keys[0]}}}
			any, err := types.PackEvent(ev)
			if err != nil {
				panic(err)
			}
			msg := &types.MsgSubmitExternalEvent{Event: any, Signer: voter.String(), ChainId: chain}
			c2, m := env.Tx(nil, func(ctx sdk.Context) error {
				_, err := env.Msg.SubmitExternalEvent(sdk.WrapSDKContext(ctx), msg)
				return err
			})
			if c2 != 0 {
				panic("harness: vote of the quorum validator was rejected: " + m)
			}
			executed = append(executed, U(n))
			if n > lastExecuted {
				lastExecuted = n
			}
			stats["executions"]++
		}
		if c3, _ := outcome(func() error { mhub2.EndBlocker(env.Ctx, env.K); return nil }); c3 != 0 && code == 0 {
			code = c3
		}
		var stored []V
		sets := env.K.GetSignerSetTxs(env.Ctx, types.ChainID(chain))
		sort.Slice(sets, func(a, b int) bool { return sets[a].Nonce < sets[b].Nonce })
		for _, s := range sets {
			stored = append(stored, L(U(s.Nonce), U(s.Height)))
		}
		obs := L()
		if lo := env.K.GetLastObservedSignerSetTx(env.Ctx, types.ChainID(chain)); lo != nil {
			obs = L(U(lo.Nonce))
		}
		if uint64(len(sets)) < env.K.GetLatestSignerSetTxNonce(env.Ctx, types.ChainID(chain)) {
			stats["blocks_with_pruned_sets"]++
		}
		blocks = append(blocks, L(I(height), L(vv...), L(executed...)))
		outs = append(outs, L(I(code), L(U(env.K.GetLatestSignerSetTxNonce(env.Ctx, types.ChainID(chain))), L(stored...), obs)))
	}
	return L(U(window), L(blocks...)), L(outs...)
}
