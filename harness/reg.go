package main

// Registry suite (C16, C17): MsgDelegateKeys with real secp256k1 signatures, confirmations of
// signer sets / batches / contract calls, relayer-facing queries.

import (
	"os"
	"bytes"
	"strings"
	"crypto/ecdsa"
	"fmt"

	"github.com/cosmos/cosmos-sdk/store/prefix"
	sdk "github.com/cosmos/cosmos-sdk/types"
	authtypes "github.com/cosmos/cosmos-sdk/x/auth/types"
	"github.com/ethereum/go-ethereum/common"
	"github.com/ethereum/go-ethereum/crypto"

	"github.com/MinterTeam/mhub2/module/x/mhub2/keeper"
	"github.com/MinterTeam/mhub2/module/x/mhub2/types"
)

var regChains = []string{"ethereum", "bsc", "minter", "hub"}

// operator addresses of the registry suite: the leading bytes cover both ends of the key space (0x00.., 0xff..)
func regVal(i int) sdk.ValAddress {
	b := make([]byte, 20)
	for j := range b {
		b[j] = byte(0x10 + i)
	}
	b[0] = []byte{0xff, 0x00, 0x10, 0x7f, 0x80, 0xfe, 0x01}[i%7]
	return sdk.ValAddress(b)
}

func ethKey(i int) *ecdsa.PrivateKey {
	b := make([]byte, 32)
	for j := range b {
		b[j] = byte(17*i + j + 1)
	}
	k, err := crypto.ToECDSA(b)
	if err != nil {
		panic(err)
	}
	return k
}

func splitChainKey(k []byte) (string, []byte) {
	for _, c := range regChains {
		if bytes.HasPrefix(k, []byte(c)) {
			return c, k[len(c):]
		}
	}
	return "?", k
}

type regOtx struct {
	chain string
	otx   types.OutgoingTx
}

func observeReg(env *Env, otxs []regOtx, askers []sdk.AccAddress) V {
	ctx := env.Ctx
	st := ctx.KVStore(env.HubKey)
	var ve, ov, eo, confs, uns []V
	it := prefix.NewStore(st, []byte{types.ValidatorExternalAddressKey}).Iterator(nil, nil)
	for ; it.Valid(); it.Next() {
		c, a := splitChainKey(it.Key())
		ve = append(ve, L(B(c), B(sdk.ValAddress(a).String()), Bb(common.BytesToAddress(it.Value()).Bytes())))
	}
	it.Close()
	it = prefix.NewStore(st, []byte{types.OrchestratorValidatorAddressKey}).Iterator(nil, nil)
	for ; it.Valid(); it.Next() {
		c, a := splitChainKey(it.Key())
		ov = append(ov, L(B(c), B(sdk.AccAddress(a).String()), B(sdk.ValAddress(it.Value()).String())))
	}
	it.Close()
	it = prefix.NewStore(st, []byte{types.ExternalOrchestratorAddressKey}).Iterator(nil, nil)
	for ; it.Valid(); it.Next() {
		c, a := splitChainKey(it.Key())
		eo = append(eo, L(B(c), Bb(append([]byte{}, a...)), B(sdk.AccAddress(it.Value()).String())))
	}
	it.Close()
	gctx := sdk.WrapSDKContext(ctx)
	for _, o := range otxs {
		var items []V
		switch t := o.otx.(type) {
		case *types.SignerSetTx:
			r, err := env.K.SignerSetTxConfirmations(gctx, &types.SignerSetTxConfirmationsRequest{SignerSetNonce: t.Nonce, ChainId: o.chain})
			if err == nil {
				for _, s := range r.Signatures {
					items = append(items, L(Bb(common.HexToAddress(s.ExternalSigner).Bytes()), Bb(s.Signature)))
				}
			}
		case *types.BatchTx:
			r, err := env.K.BatchTxConfirmations(gctx, &types.BatchTxConfirmationsRequest{BatchNonce: t.BatchNonce, ExternalTokenId: t.ExternalTokenId, ChainId: o.chain})
			if err == nil {
				for _, s := range r.Signatures {
					items = append(items, L(Bb(common.HexToAddress(s.ExternalSigner).Bytes()), Bb(s.Signature)))
				}
			}
		case *types.ContractCallTx:
			r, err := env.K.ContractCallTxConfirmations(gctx, &types.ContractCallTxConfirmationsRequest{InvalidationScope: t.InvalidationScope, InvalidationNonce: t.InvalidationNonce, ChainId: o.chain})
			if err == nil {
				for _, s := range r.Signatures {
					items = append(items, L(Bb(common.HexToAddress(s.ExternalSigner).Bytes()), Bb(s.Signature)))
				}
			}
		}
		confs = append(confs, L(B(o.chain), Bb(o.otx.GetStoreIndex(types.ChainID(o.chain))), Set(items...)))
	}
	for _, c := range regChains {
		for _, a := range askers {
			for ty := 1; ty <= 3; ty++ {
				var res V = I(-1)
				var idx []V
				switch ty {
				case 1:
					if r, err := env.K.UnsignedSignerSetTxs(gctx, &types.UnsignedSignerSetTxsRequest{Address: a.String(), ChainId: c}); err == nil {
						for _, x := range r.SignerSets {
							idx = append(idx, Bb(x.GetStoreIndex(types.ChainID(c))))
						}
						res = Set(idx...)
					}
				case 2:
					if r, err := env.K.UnsignedBatchTxs(gctx, &types.UnsignedBatchTxsRequest{Address: a.String(), ChainId: c}); err == nil {
						for _, x := range r.Batches {
							idx = append(idx, Bb(x.GetStoreIndex(types.ChainID(c))))
						}
						res = Set(idx...)
					}
				default:
					if r, err := env.K.UnsignedContractCallTxs(gctx, &types.UnsignedContractCallTxsRequest{Address: a.String(), ChainId: c}); err == nil {
						for _, x := range r.Calls {
							idx = append(idx, Bb(x.GetStoreIndex(types.ChainID(c))))
						}
						res = Set(idx...)
					}
				}
				uns = append(uns, L(B(c), B(a.String()), I(int64(ty)), res))
			}
		}
	}
	return L(Set(ve...), Set(ov...), Set(eo...), Set(confs...), Set(uns...))
}

func runRegCase(seed uint64, nOps int, restart bool, stats map[string]int) (V, V) {
	rng := &Rng{s: seed}
	var regTokens []*types.TokenInfo
	for i, t := range []struct{ chain, id, denom string }{{"ethereum", ethAddrOf(0xc0, 1), "hub"}, {"bsc", ethAddrOf(0xc0, 1), "hub"}, {"minter", "10", "hub"},
		{"ethereum", ethAddrOf(0xc0, 2), "usdx"}, {"bsc", ethAddrOf(0xc0, 2), "usdx"}, {"minter", "1", "usdx"}} {
		regTokens = append(regTokens, &types.TokenInfo{Id: uint64(i + 1), Denom: t.denom, ChainId: t.chain, ExternalTokenId: t.id, ExternalDecimals: 18, Commission: sdk.ZeroDec()})
	}
	env := NewEnv(EnvOpts{Params: DefaultTestParams(regChains), Tokens: regTokens})
	nVals := 2 + rng.Intn(4)
	seqs := make([]uint64, nVals)
	bonded := make([]bool, nVals)
	var askers []sdk.AccAddress
	for i := 0; i < nVals; i++ {
		askers = append(askers, sdk.AccAddress(regVal(i)))
		bonded[i] = true
	}
	for i := 0; i < 4; i++ {
		askers = append(askers, orchAddr(i))
	}
	var askV []V
	for _, a := range askers {
		askV = append(askV, B(a.String()))
	}
	var ops, outs []V
	var otxs []regOtx
	record := func(op V, code int64) {
		ops = append(ops, op)
		outs = append(outs, L(I(code), observeReg(env, otxs, askers)))
	}
	setVals := func() {
		env.Staking.Vals = nil
		var vv []V
		for i := 0; i < nVals; i++ {
			env.Staking.Vals = append(env.Staking.Vals, ValIn{Oper: regVal(i), Power: 10, Bonded: bonded[i]})
			acc := authtypes.NewBaseAccount(sdk.AccAddress(regVal(i)), nil, uint64(100+i), seqs[i])
			env.Acc.SetAccount(env.Ctx, acc)
			vv = append(vv, L(B(regVal(i).String()), B(sdk.AccAddress(regVal(i)).String()), Bool(bonded[i]), U(seqs[i])))
		}
		record(L(I(3), L(vv...)), 0)
	}
	setOtxs := func() {
		var ov []V
		for _, o := range otxs {
			ov = append(ov, L(B(o.chain), Bb(o.otx.GetStoreIndex(types.ChainID(o.chain)))))
		}
		record(L(I(4), L(ov...)), 0)
	}
	setVals()
	cdc := keeper.MakeTestMarshaler()
	nextNonce := map[string]uint64{}
	execBatch := func(o regOtx) {
		b := o.otx.(*types.BatchTx)
		ev := &types.BatchExecutedEvent{EventNonce: 1, ExternalCoinId: b.ExternalTokenId, BatchNonce: b.BatchNonce, ExternalHeight: 10,
			TxHash: "0xexecuted", FeePaid: sdk.ZeroInt(), FeePayer: ethAddrOf(0x90, 0)}
		code, _ := env.Tx(nil, func(ctx sdk.Context) error { return env.K.ExternalEventProcessor.Handle(ctx, types.ChainID(o.chain), ev) })
		stats[fmt.Sprintf("executed_code%d", code)]++
		var rest []regOtx
		for _, x := range otxs {
			if env.K.GetOutgoingTx(env.Ctx, types.ChainID(x.chain), x.otx.GetStoreIndex(types.ChainID(x.chain))) != nil {
				rest = append(rest, x)
			}
		}
		otxs = rest
		setOtxs()
	}
	// a fixed opening for every third case: two validators with keys on Minter, two batches of one coin, both
	// confirmed, the later one observed as executed first (the Minter multisig keeps the earlier one alive)
	if seed%3 == 0 && nVals >= 2 {
		chain := "minter"
		regOK := func(vi, oi, ki int) {
			val := regVal(vi)
			key := ethKey(ki)
			eth := crypto.PubkeyToAddress(key.PublicKey)
			nonce := uint64(0)
			if seqs[vi] > 0 {
				nonce = seqs[vi] - 1
			}
			h := crypto.Keccak256Hash(cdc.MustMarshal(&types.DelegateKeysSignMsg{ValidatorAddress: val.String(), Nonce: nonce})).Bytes()
			sig, err := types.NewEthereumSignature(h, key)
			if err != nil {
				panic(err)
			}
			msg := &types.MsgDelegateKeys{ValidatorAddress: val.String(), OrchestratorAddress: orchAddr(oi).String(), ExternalAddress: eth.Hex(), EthSignature: sig, ChainId: chain}
			code, _ := env.Tx(nil, func(ctx sdk.Context) error {
				_, err := env.Msg.SetDelegateKeys(sdk.WrapSDKContext(ctx), msg)
				return err
			})
			record(L(I(1), B(chain), B(val.String()), B(orchAddr(oi).String()), Bb(eth.Bytes()), L(Bb(eth.Bytes()))), code)
		}
		newBatch := func(id string) regOtx {
			nextNonce[chain]++
			otx := &types.BatchTx{BatchNonce: nextNonce[chain], ExternalTokenId: id, Height: 5}
			env.K.SetOutgoingTx(env.Ctx, types.ChainID(chain), otx)
			o := regOtx{chain, otx}
			otxs = append(otxs, o)
			setOtxs()
			return o
		}
		confirmOK := func(o regOtx, vi int) {
			b := o.otx.(*types.BatchTx)
			claimed := env.K.GetValidatorExternalAddress(env.Ctx, types.ChainID(chain), regVal(vi))
			sigBytes := []byte(fmt.Sprintf("sig-%d-opening", vi))
			conf := &types.BatchTxConfirmation{ExternalTokenId: b.ExternalTokenId, BatchNonce: b.BatchNonce, ExternalSigner: claimed.Hex(), Signature: sigBytes}
			any, err := types.PackConfirmation(conf)
			if err != nil {
				panic(err)
			}
			signer := sdk.AccAddress(regVal(vi))
			msg := &types.MsgSubmitExternalTxConfirmation{Confirmation: any, Signer: signer.String(), ChainId: chain}
			code, _ := env.Tx(nil, func(ctx sdk.Context) error {
				_, err := env.Msg.SubmitTxConfirmation(sdk.WrapSDKContext(ctx), msg)
				return err
			})
			record(L(I(2), B(chain), B(signer.String()), Bb(conf.GetStoreIndex(types.ChainID(chain))), Bb(claimed.Bytes()), Bb(sigBytes)), code)
		}
		regOK(0, 0, 0)
		regOK(1, 1, 1)
		coin := []string{"10", "1"}[rng.Intn(2)]
		b1 := newBatch(coin)
		b2 := newBatch(coin)
		confirmOK(b1, 0)
		if rng.Chance(1, 2) {
			confirmOK(b2, 1)
		}
		execBatch(b2)
		stats["minter_opening"]++
	}
	for len(ops) < nOps {
		c := rng.Intn(100)
		switch {
		case c < 35: // MsgDelegateKeys
			chain := regChains[rng.Intn(3)]
			if rng.Chance(1, 10) {
				chain = "hub"
			}
			vi := rng.Intn(nVals + 1)
			val := regVal(vi) // vi == nVals: unknown validator
			oi := rng.Intn(4)
			ki := rng.Intn(6)
			key := ethKey(ki)
			eth := crypto.PubkeyToAddress(key.PublicKey)
			if rng.Chance(1, 12) {
				eth = common.Address{} // the zero address
			}
			var seq uint64
			if vi < nVals {
				seq = seqs[vi]
			}
			nonce := uint64(0)
			if seq > 0 {
				nonce = seq - 1
			}
			signNonce := nonce
			signKey := key
			switch rng.Intn(8) {
			case 0:
				signNonce = nonce + 1 // stale or future sequence
			case 1:
				signKey = ethKey((ki + 1) % 6) // signed by another key
			}
			mk := func(n uint64) []byte {
				return crypto.Keccak256Hash(cdc.MustMarshal(&types.DelegateKeysSignMsg{ValidatorAddress: val.String(), Nonce: n})).Bytes()
			}
			sig, err := types.NewEthereumSignature(mk(signNonce), signKey)
			if err != nil {
				panic(err)
			}
			if rng.Chance(1, 10) {
				sig = sig[:10+rng.Intn(50)]
			}
			if rng.Chance(1, 12) {
				sig = make([]byte, 65) // well-sized bytes nobody signed (recovery fails)
			}
			// what the correct message recovers to
			rec := L()
			if len(sig) == 65 {
				digest := crypto.Keccak256(append([]byte("\x19Ethereum Signed Message:\n32"), mk(nonce)...))
				norm := append([]byte{}, sig...)
				if norm[64] == 27 || norm[64] == 28 {
					norm[64] -= 27
				}
				if pub, err := crypto.SigToPub(digest, norm); err == nil {
					rec = L(Bb(crypto.PubkeyToAddress(*pub).Bytes()))
				}
			}
			// the orchestrator may be any account, also another validator's operator account
			orch := orchAddr(oi)
			if rng.Chance(1, 5) {
				orch = sdk.AccAddress(regVal(rng.Intn(nVals)))
			}
			// spellings: lower-case hex instead of the EIP-55 checksum form, upper-case bech32
			ethStr, orchStr := eth.Hex(), orch.String()
			if rng.Chance(1, 4) {
				ethStr = strings.ToLower(ethStr)
			}
			if rng.Chance(1, 8) {
				orchStr = strings.ToUpper(orchStr)
			}
			msg := &types.MsgDelegateKeys{ValidatorAddress: val.String(), OrchestratorAddress: orchStr, ExternalAddress: ethStr, EthSignature: sig, ChainId: chain}
			if msg.ValidateBasic() != nil {
				continue
			}
			if rng.Chance(1, 8) {
				// the registration is the first message of a transaction whose second message fails: nothing of it may stay
				code, _ := env.Tx(nil, func(ctx sdk.Context) error {
					if _, err := env.Msg.SetDelegateKeys(sdk.WrapSDKContext(ctx), msg); err != nil {
						return err
					}
					return fmt.Errorf("a later message of the transaction failed")
				})
				stats["setkeys_in_failed_tx"]++
				record(L(I(11)), code)
				continue
			}
			code, _ := env.Tx(nil, func(ctx sdk.Context) error {
				_, err := env.Msg.SetDelegateKeys(sdk.WrapSDKContext(ctx), msg)
				return err
			})
			stats[fmt.Sprintf("setkeys_code%d", code)]++
			record(L(I(1), B(chain), B(val.String()), B(orch.String()), Bb(eth.Bytes()), rec), code)
			if vi < nVals && rng.Chance(2, 3) {
				seqs[vi]++ // the account's sequence moves on with every transaction it signs
				setVals()
			}
		case c < 75: // confirmation
			if len(otxs) == 0 {
				continue
			}
			o := otxs[rng.Intn(len(otxs))]
			if rng.Chance(1, 2) {
				// prefer a batch that has a newer batch of the same token behind it (it stays when the newer one is executed on Minter)
				for _, x := range otxs {
					for _, y := range otxs {
						xb, ok1 := x.otx.(*types.BatchTx)
						yb, ok2 := y.otx.(*types.BatchTx)
						if ok1 && ok2 && x.chain == y.chain && xb.ExternalTokenId == yb.ExternalTokenId && xb.BatchNonce < yb.BatchNonce {
							o = x
						}
					}
				}
			}
			chain := o.chain
			if rng.Chance(1, 10) {
				chain = regChains[rng.Intn(4)]
			}
			vi := rng.Intn(nVals)
			if rng.Chance(3, 4) { // prefer a validator that has a key on this chain
				for k := 0; k < nVals; k++ {
					if env.K.GetValidatorExternalAddress(env.Ctx, types.ChainID(chain), regVal((vi+k)%nVals)) != (common.Address{}) {
						vi = (vi + k) % nVals
						break
					}
				}
			}
			signer := sdk.AccAddress(regVal(vi))
			switch rng.Intn(6) {
			case 0:
				signer = orchAddr(rng.Intn(4))
			case 1:
				signer = userAddr(rng.Intn(2))
			}
			claimed := env.K.GetValidatorExternalAddress(env.Ctx, types.ChainID(chain), regVal(vi))
			switch rng.Intn(7) {
			case 0:
				claimed = crypto.PubkeyToAddress(ethKey(rng.Intn(6)).PublicKey)
			case 1:
				claimed = common.Address{}
			}
			sigBytes := []byte(fmt.Sprintf("sig-%d-%d", vi, rng.Intn(1000)))
			var conf types.ExternalTxConfirmation
			idx := o.otx.GetStoreIndex(types.ChainID(chain))
			switch t := o.otx.(type) {
			case *types.SignerSetTx:
				n := t.Nonce
				if rng.Chance(1, 10) {
					n += 7 // unknown tx
				}
				conf = &types.SignerSetTxConfirmation{SignerSetNonce: n, ExternalSigner: claimed.Hex(), Signature: sigBytes}
			case *types.BatchTx:
				conf = &types.BatchTxConfirmation{ExternalTokenId: t.ExternalTokenId, BatchNonce: t.BatchNonce, ExternalSigner: claimed.Hex(), Signature: sigBytes}
			case *types.ContractCallTx:
				conf = &types.ContractCallTxConfirmation{InvalidationScope: t.InvalidationScope, InvalidationNonce: t.InvalidationNonce, ExternalSigner: claimed.Hex(), Signature: sigBytes}
			}
			idx = conf.GetStoreIndex(types.ChainID(chain))
			any, err := types.PackConfirmation(conf)
			if err != nil {
				panic(err)
			}
			msg := &types.MsgSubmitExternalTxConfirmation{Confirmation: any, Signer: signer.String(), ChainId: chain}
			if msg.ValidateBasic() != nil {
				continue
			}
			code, _ := env.Tx(nil, func(ctx sdk.Context) error {
				_, err := env.Msg.SubmitTxConfirmation(sdk.WrapSDKContext(ctx), msg)
				return err
			})
			stats[fmt.Sprintf("confirm_code%d", code)]++
			record(L(I(2), B(chain), B(signer.String()), Bb(idx), Bb(claimed.Bytes()), Bb(sigBytes)), code)
		case c < 85: // staking change
			bonded[rng.Intn(nVals)] = rng.Chance(3, 4)
			setVals()
		case c < 90: // a batch is observed as executed: it leaves the store (on ethereum/bsc together with the older
			// batches of its token); the confirmations of every transaction that stays must stay as well
			var bs []regOtx
			for _, o := range otxs {
				if _, ok := o.otx.(*types.BatchTx); ok {
					bs = append(bs, o)
				}
			}
			if len(bs) == 0 {
				continue
			}
			o := bs[rng.Intn(len(bs))]
			if rng.Chance(3, 4) {
				// prefer a batch that leaves an older batch of its token behind
				for _, x := range bs {
					for _, y := range bs {
						xb, yb := x.otx.(*types.BatchTx), y.otx.(*types.BatchTx)
						if x.chain == y.chain && xb.ExternalTokenId == yb.ExternalTokenId && yb.BatchNonce < xb.BatchNonce {
							o = x
						}
					}
				}
			}
			execBatch(o)
		default: // a new outgoing tx
			chain := regChains[rng.Intn(3)]
			nextNonce[chain]++
			n := nextNonce[chain]
			var otx types.OutgoingTx
			switch rng.Intn(3) {
			case 0:
				otx = &types.SignerSetTx{Nonce: n, Height: 5}
			case 1:
				ids := []string{ethAddrOf(0xc0, 1), ethAddrOf(0xc0, 2), "10", "1"}
				id := ids[rng.Intn(4)]
				if rng.Chance(3, 4) { // mostly a token that is listed on this chain
					if chain == "minter" {
						id = ids[2+rng.Intn(2)]
					} else {
						id = ids[rng.Intn(2)]
					}
				}
				otx = &types.BatchTx{BatchNonce: n, ExternalTokenId: id, Height: 5}
			default:
				otx = &types.ContractCallTx{InvalidationNonce: n, InvalidationScope: []byte{byte(1 + rng.Intn(3)), 7}, Height: 5}
			}
			env.K.SetOutgoingTx(env.Ctx, types.ChainID(chain), otx)
			otxs = append(otxs, regOtx{chain, otx})
			setOtxs()
		}
	}
	if restart {
		code, m := outcome(func() error { env.Restart(); return nil })
		if code != 0 && os.Getenv("VERIF_DEBUG") != "" {
			fmt.Fprintln(os.Stderr, "restart:", m)
		}
		stats[fmt.Sprintf("restart_code%d", code)]++
		record(L(I(9)), code)
	}
	var cv []V
	for _, c := range regChains {
		cv = append(cv, B(c))
	}
	return L(L(cv...), L(askV...), L(ops...)), L(outs...)
}
