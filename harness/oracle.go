package main

// Oracle suite (C18): price and holder claims over epochs on the real x/oracle keeper.

import (
	"fmt"
	"os"
	"sort"

	sdk "github.com/cosmos/cosmos-sdk/types"

	"github.com/MinterTeam/mhub2/module/x/mhub2/types"
	oracle "github.com/MinterTeam/mhub2/module/x/oracle"
	otypes "github.com/MinterTeam/mhub2/module/x/oracle/types"
)

// voteID: a vote is stored as the operator's bech32 string; the model identifies a validator by
// the raw address bytes that its operator and account addresses share.
func voteID(v string) V {
	a, err := sdk.ValAddressFromBech32(v)
	if err != nil {
		return B("bad:" + v)
	}
	return B(string(a))
}

func observeOracle(env *Env) V {
	ctx := env.Ctx
	epoch := env.OK.GetCurrentEpoch(ctx)
	prices := L()
	if p := env.OK.GetPrices(ctx); p != nil {
		var items []V
		for _, x := range p.List {
			items = append(items, L(B(x.Name), Z(x.Value.BigInt())))
		}
		prices = L(L(items...))
	}
	holders := L()
	if h := env.OK.GetHolders(ctx); h != nil {
		var items []V
		for _, x := range h.List {
			items = append(items, L(B(x.Address), Z(x.Value.BigInt())))
		}
		holders = L(Set(items...))
	}
	var pv, hv []V
	if a := env.OK.GetAttestation(ctx, epoch, &otypes.MsgPriceClaim{Epoch: epoch}); a != nil {
		for _, v := range a.Votes {
			pv = append(pv, voteID(v))
		}
	}
	if a := env.OK.GetAttestation(ctx, epoch, &otypes.MsgHoldersClaim{Epoch: epoch}); a != nil {
		for _, v := range a.Votes {
			hv = append(hv, voteID(v))
		}
	}
	return L(U(epoch), prices, holders, L(pv...), L(hv...))
}

func runOracleCase(seed uint64, nOps int, restart bool, stats map[string]int) (V, V) {
	rng := &Rng{s: seed}
	lastCaseHashes = nil
	tokens := []*types.TokenInfo{{Id: 1, Denom: "hub", ChainId: "minter", ExternalTokenId: "1", ExternalDecimals: 18, Commission: sdk.ZeroDec()}}
	if rng.Chance(1, 2) {
		tokens = append(tokens, &types.TokenInfo{Id: 2, Denom: "usdx", ChainId: "minter", ExternalTokenId: "2", ExternalDecimals: 6, Commission: sdk.ZeroDec()})
	}
	env := NewEnv(EnvOpts{Params: DefaultTestParams(allChains), Tokens: tokens})
	required := []string{"eth", "ethereum/gas", "bnb", "bsc/gas"}
	for _, t := range tokens {
		required = append(required, t.Denom)
	}
	var reqV []V
	for _, r := range required {
		reqV = append(reqV, B(r))
	}
	nVals := 1 + rng.Intn(6)
	powers := make([]int64, nVals)
	bonded := make([]bool, nVals)
	profile := rng.Intn(5)
	for i := range powers {
		switch profile {
		case 0:
			powers[i] = 1
		case 1:
			powers[i] = 10
		case 2:
			powers[i] = []int64{10, 40, 40, 10, 25, 25}[i]
		case 3:
			powers[i] = int64(1 + rng.Intn(100))
		default:
			powers[i] = int64(1 + rng.Intn(1000000))
		}
		bonded[i] = true
	}
	var ops, outs []V
	record := func(op V, code int64) {
		ops = append(ops, op)
		outs = append(outs, L(I(code), observeOracle(env)))
		if detMode {
			lastCaseHashes = append(lastCaseHashes, env.StateHash())
		}
	}
	setVals := func() {
		env.Staking.Vals = nil
		var vv []V
		for i := 0; i < nVals; i++ {
			env.Staking.Vals = append(env.Staking.Vals, ValIn{Oper: valAddr(i), Power: powers[i], Bonded: bonded[i]})
			vv = append(vv, L(B(string(valAddr(i))), I(powers[i]), Bool(bonded[i])))
		}
		record(L(I(4), L(vv...)), 0)
	}
	setVals()
	height := int64(1 + rng.Intn(4))
	holderVariants := [][][2]string{
		{{"0xaa", "5"}, {"0xbb", "7"}, {"0xcc", "11"}},
		{{"0xaa", "5"}, {"0xbb", "8"}},
		{},
	}
	for len(ops) < nOps {
		c := rng.Intn(100)
		epoch := env.OK.GetCurrentEpoch(env.Ctx)
		claimEpoch := epoch
		switch rng.Intn(12) {
		case 0:
			claimEpoch = epoch + 1
		case 1:
			if epoch > 1 {
				claimEpoch = epoch - 1
			}
		}
		who := sdk.AccAddress(valAddr(rng.Intn(nVals)))
		if rng.Chance(1, 12) {
			who = userAddr(0)
		}
		switch {
		case c < 40: // price claim
			var list []*otypes.Price
			var pv []V
			base := int64(1 + rng.Intn(5))
			for _, name := range required {
				if rng.Chance(1, 25) {
					continue // a required price is missing
				}
				val := sdk.NewDecWithPrec(base*int64(1+rng.Intn(4))*1000+int64(rng.Intn(3)), int64(rng.Intn(4)))
				if rng.Chance(1, 30) {
					val = sdk.ZeroDec()
				}
				list = append(list, &otypes.Price{Name: name, Value: val})
				pv = append(pv, L(B(name), Z(val.BigInt())))
			}
			if rng.Chance(1, 5) {
				val := sdk.NewDec(int64(1 + rng.Intn(9)))
				list = append(list, &otypes.Price{Name: "extra", Value: val})
				pv = append(pv, L(B("extra"), Z(val.BigInt())))
			}
			msg := &otypes.MsgPriceClaim{Epoch: claimEpoch, Prices: &otypes.Prices{List: list}, Orchestrator: who.String()}
			if msg.ValidateBasic() != nil {
				continue
			}
			code, _ := env.Tx(nil, func(ctx sdk.Context) error {
				_, err := env.OMsg.PriceClaim(sdk.WrapSDKContext(ctx), msg)
				return err
			})
			stats[fmt.Sprintf("price_code%d", code)]++
			record(L(I(1), B(string(who)), U(claimEpoch), L(pv...)), code)
		case c < 65: // holders claim
			variant := holderVariants[rng.Intn(3)]
			perm := rng.Intn(2) == 0
			var list []*otypes.Holder
			for i := range variant {
				h := variant[i]
				if perm {
					h = variant[len(variant)-1-i]
				}
				v, _ := sdk.NewIntFromString(h[1])
				list = append(list, &otypes.Holder{Address: h[0], Value: v})
			}
			// the model compares the stabilized (sorted "address:value") form
			strs := make([]string, 0)
			byStr := map[string][2]string{}
			for _, h := range variant {
				s := h[0] + ":" + h[1]
				strs = append(strs, s)
				byStr[s] = h
			}
			sort.Strings(strs)
			var hv []V
			for _, s := range strs {
				v, _ := sdk.NewIntFromString(byStr[s][1])
				hv = append(hv, L(B(byStr[s][0]), Z(v.BigInt())))
			}
			msg := &otypes.MsgHoldersClaim{Epoch: claimEpoch, Holders: &otypes.Holders{List: list}, Orchestrator: who.String()}
			if msg.ValidateBasic() != nil {
				continue
			}
			code, _ := env.Tx(nil, func(ctx sdk.Context) error {
				_, err := env.OMsg.HoldersClaim(sdk.WrapSDKContext(ctx), msg)
				return err
			})
			stats[fmt.Sprintf("holders_code%d", code)]++
			record(L(I(2), B(string(who)), U(claimEpoch), L(hv...)), code)
		case c < 92: // end of block
			height++
			env.Ctx = env.Ctx.WithBlockHeight(height)
			before := observeOracle(env)
			code, pm := outcome(func() error { oracle.EndBlocker(env.Ctx, env.OK); return nil })
			if code != 0 && os.Getenv("VERIF_DEBUG") != "" {
				fmt.Fprintln(os.Stderr, "oracle EndBlocker:", pm)
			}
			if height%5 == 0 && Str(before) != Str(observeOracle(env)) {
				stats["epochs_with_change"]++
			}
			record(L(I(3), I(height)), code)
		default:
			i := rng.Intn(nVals)
			if rng.Chance(1, 2) {
				bonded[i] = !bonded[i]
			} else {
				powers[i] = int64(1 + rng.Intn(int(powers[i])*2+1))
			}
			setVals()
		}
	}
	if restart {
		code, m := outcome(func() error { env.Restart(); return nil })
		if code != 0 && os.Getenv("VERIF_DEBUG") != "" {
			fmt.Fprintln(os.Stderr, "restart:", m)
		}
		record(L(I(5)), code)
	}
	return L(L(reqV...), L(ops...)), L(outs...)
}
