// Copy of /repo/auto-tests/erc20/CosmosERC20.go (abigen binding of CosmosToken.sol, with bytecode); that package
// lives in another Go module (github.com/MinterTeam/mhub2/auto-tests), so it is not importable from here.
// Only the package clause was changed.

// Code generated - DO NOT EDIT.
// This file is a generated binding and any manual changes will be lost.

package main

import (
	"errors"
	"math/big"
	"strings"

	ethereum "github.com/ethereum/go-ethereum"
	"github.com/ethereum/go-ethereum/accounts/abi"
	"github.com/ethereum/go-ethereum/accounts/abi/bind"
	"github.com/ethereum/go-ethereum/common"
	"github.com/ethereum/go-ethereum/core/types"
	"github.com/ethereum/go-ethereum/event"
)

// Reference imports to suppress errors if they are not otherwise used.
var (
	_ = errors.New
	_ = big.NewInt
	_ = strings.NewReader
	_ = ethereum.NotFound
	_ = bind.Bind
	_ = common.Big1
	_ = types.BloomLookup
	_ = event.NewSubscription
)

// Erc20MetaData contains all meta data concerning the Erc20 contract.
var Erc20MetaData = &bind.MetaData{
	ABI: "[{\"inputs\":[{\"internalType\":\"address\",\"name\":\"_gravityAddress\",\"type\":\"address\"},{\"internalType\":\"string\",\"name\":\"_name\",\"type\":\"string\"},{\"internalType\":\"string\",\"name\":\"_symbol\",\"type\":\"string\"},{\"internalType\":\"uint8\",\"name\":\"_decimals\",\"type\":\"uint8\"}],\"stateMutability\":\"nonpayable\",\"type\":\"constructor\"},{\"anonymous\":false,\"inputs\":[{\"indexed\":true,\"internalType\":\"address\",\"name\":\"owner\",\"type\":\"address\"},{\"indexed\":true,\"internalType\":\"address\",\"name\":\"spender\",\"type\":\"address\"},{\"indexed\":false,\"internalType\":\"uint256\",\"name\":\"value\",\"type\":\"uint256\"}],\"name\":\"Approval\",\"type\":\"event\"},{\"anonymous\":false,\"inputs\":[{\"indexed\":true,\"internalType\":\"address\",\"name\":\"from\",\"type\":\"address\"},{\"indexed\":true,\"internalType\":\"address\",\"name\":\"to\",\"type\":\"address\"},{\"indexed\":false,\"internalType\":\"uint256\",\"name\":\"value\",\"type\":\"uint256\"}],\"name\":\"Transfer\",\"type\":\"event\"},{\"inputs\":[{\"internalType\":\"address\",\"name\":\"owner\",\"type\":\"address\"},{\"internalType\":\"address\",\"name\":\"spender\",\"type\":\"address\"}],\"name\":\"allowance\",\"outputs\":[{\"internalType\":\"uint256\",\"name\":\"\",\"type\":\"uint256\"}],\"stateMutability\":\"view\",\"type\":\"function\"},{\"inputs\":[{\"internalType\":\"address\",\"name\":\"spender\",\"type\":\"address\"},{\"internalType\":\"uint256\",\"name\":\"amount\",\"type\":\"uint256\"}],\"name\":\"approve\",\"outputs\":[{\"internalType\":\"bool\",\"name\":\"\",\"type\":\"bool\"}],\"stateMutability\":\"nonpayable\",\"type\":\"function\"},{\"inputs\":[{\"internalType\":\"address\",\"name\":\"account\",\"type\":\"address\"}],\"name\":\"balanceOf\",\"outputs\":[{\"internalType\":\"uint256\",\"name\":\"\",\"type\":\"uint256\"}],\"stateMutability\":\"view\",\"type\":\"function\"},{\"inputs\":[],\"name\":\"decimals\",\"outputs\":[{\"internalType\":\"uint8\",\"name\":\"\",\"type\":\"uint8\"}],\"stateMutability\":\"view\",\"type\":\"function\"},{\"inputs\":[{\"internalType\":\"address\",\"name\":\"spender\",\"type\":\"address\"},{\"internalType\":\"uint256\",\"name\":\"subtractedValue\",\"type\":\"uint256\"}],\"name\":\"decreaseAllowance\",\"outputs\":[{\"internalType\":\"bool\",\"name\":\"\",\"type\":\"bool\"}],\"stateMutability\":\"nonpayable\",\"type\":\"function\"},{\"inputs\":[{\"internalType\":\"address\",\"name\":\"spender\",\"type\":\"address\"},{\"internalType\":\"uint256\",\"name\":\"addedValue\",\"type\":\"uint256\"}],\"name\":\"increaseAllowance\",\"outputs\":[{\"internalType\":\"bool\",\"name\":\"\",\"type\":\"bool\"}],\"stateMutability\":\"nonpayable\",\"type\":\"function\"},{\"inputs\":[],\"name\":\"name\",\"outputs\":[{\"internalType\":\"string\",\"name\":\"\",\"type\":\"string\"}],\"stateMutability\":\"view\",\"type\":\"function\"},{\"inputs\":[],\"name\":\"symbol\",\"outputs\":[{\"internalType\":\"string\",\"name\":\"\",\"type\":\"string\"}],\"stateMutability\":\"view\",\"type\":\"function\"},{\"inputs\":[],\"name\":\"totalSupply\",\"outputs\":[{\"internalType\":\"uint256\",\"name\":\"\",\"type\":\"uint256\"}],\"stateMutability\":\"view\",\"type\":\"function\"},{\"inputs\":[{\"internalType\":\"address\",\"name\":\"recipient\",\"type\":\"address\"},{\"internalType\":\"uint256\",\"name\":\"amount\",\"type\":\"uint256\"}],\"name\":\"transfer\",\"outputs\":[{\"internalType\":\"bool\",\"name\":\"\",\"type\":\"bool\"}],\"stateMutability\":\"nonpayable\",\"type\":\"function\"},{\"inputs\":[{\"internalType\":\"address\",\"name\":\"sender\",\"type\":\"address\"},{\"internalType\":\"address\",\"name\":\"recipient\",\"type\":\"address\"},{\"internalType\":\"uint256\",\"name\":\"amount\",\"type\":\"uint256\"}],\"name\":\"transferFrom\",\"outputs\":[{\"internalType\":\"bool\",\"name\":\"\",\"type\":\"bool\"}],\"stateMutability\":\"nonpayable\",\"type\":\"function\"}]",
	Bin: "0x60806040526000196006553480156200001757600080fd5b5060405162000e4338038062000e43833981810160405260808110156200003d57600080fd5b8151602083018051604051929492938301929190846401000000008211156200006557600080fd5b9083019060208201858111156200007b57600080fd5b82516401000000008111828201881017156200009657600080fd5b82525081516020918201929091019080838360005b83811015620000c5578181015183820152602001620000ab565b50505050905090810190601f168015620000f35780820380516001836020036101000a031916815260200191505b50604052602001805160405193929190846401000000008211156200011757600080fd5b9083019060208201858111156200012d57600080fd5b82516401000000008111828201881017156200014857600080fd5b82525081516020918201929091019080838360005b83811015620001775781810151838201526020016200015d565b50505050905090810190601f168015620001a55780820380516001836020036101000a031916815260200191505b5060405260209081015185519093508592508491620001ca91600391850190620003a5565b508051620001e0906004906020840190620003a5565b50506005805460ff1916601217905550620001fb8162000219565b6200020f846006546200022f60201b60201c565b5050505062000441565b6005805460ff191660ff92909216919091179055565b6001600160a01b0382166200028b576040805162461bcd60e51b815260206004820152601f60248201527f45524332303a206d696e7420746f20746865207a65726f206164647265737300604482015290519081900360640190fd5b62000299600083836200033e565b620002b5816002546200034360201b620005731790919060201c565b6002556001600160a01b03821660009081526020818152604090912054620002e89183906200057362000343821b17901c565b6001600160a01b0383166000818152602081815260408083209490945583518581529351929391927fddf252ad1be2c89b69c2b068fc378daa952ba7f163c4a11628f55a4df523b3ef9281900390910190a35050565b505050565b6000828201838110156200039e576040805162461bcd60e51b815260206004820152601b60248201527f536166654d6174683a206164646974696f6e206f766572666c6f770000000000604482015290519081900360640190fd5b9392505050565b828054600181600116156101000203166002900490600052602060002090601f016020900481019282601f10620003e857805160ff191683800117855562000418565b8280016001018555821562000418579182015b8281111562000418578251825591602001919060010190620003fb565b50620004269291506200042a565b5090565b5b808211156200042657600081556001016200042b565b6109f280620004516000396000f3fe608060405234801561001057600080fd5b50600436106100a95760003560e01c8063395093511161007157806339509351146101d957806370a082311461020557806395d89b411461022b578063a457c2d714610233578063a9059cbb1461025f578063dd62ed3e1461028b576100a9565b806306fdde03146100ae578063095ea7b31461012b57806318160ddd1461016b57806323b872dd14610185578063313ce567146101bb575b600080fd5b6100b66102b9565b6040805160208082528351818301528351919283929083019185019080838360005b838110156100f05781810151838201526020016100d8565b50505050905090810190601f16801561011d5780820380516001836020036101000a031916815260200191505b509250505060405180910390f35b6101576004803603604081101561014157600080fd5b506001600160a01b03813516906020013561034f565b604080519115158252519081900360200190f35b61017361036c565b60408051918252519081900360200190f35b6101576004803603606081101561019b57600080fd5b506001600160a01b03813581169160208101359091169060400135610372565b6101c36103f9565b6040805160ff9092168252519081900360200190f35b610157600480360360408110156101ef57600080fd5b506001600160a01b038135169060200135610402565b6101736004803603602081101561021b57600080fd5b50356001600160a01b0316610450565b6100b661046b565b6101576004803603604081101561024957600080fd5b506001600160a01b0381351690602001356104cc565b6101576004803603604081101561027557600080fd5b506001600160a01b038135169060200135610534565b610173600480360360408110156102a157600080fd5b506001600160a01b0381358116916020013516610548565b60038054604080516020601f60026000196101006001881615020190951694909404938401819004810282018101909252828152606093909290918301828280156103455780601f1061031a57610100808354040283529160200191610345565b820191906000526020600020905b81548152906001019060200180831161032857829003601f168201915b5050505050905090565b600061036361035c6105d4565b84846105d8565b50600192915050565b60025490565b600061037f8484846106c4565b6103ef8461038b6105d4565b6103ea85604051806060016040528060288152602001610927602891396001600160a01b038a166000908152600160205260408120906103c96105d4565b6001600160a01b03168152602081019190915260400160002054919061081f565b6105d8565b5060019392505050565b60055460ff1690565b600061036361040f6105d4565b846103ea85600160006104206105d4565b6001600160a01b03908116825260208083019390935260409182016000908120918c168152925290205490610573565b6001600160a01b031660009081526020819052604090205490565b60048054604080516020601f60026000196101006001881615020190951694909404938401819004810282018101909252828152606093909290918301828280156103455780601f1061031a57610100808354040283529160200191610345565b60006103636104d96105d4565b846103ea8560405180606001604052806025815260200161099860259139600160006105036105d4565b6001600160a01b03908116825260208083019390935260409182016000908120918d1681529252902054919061081f565b60006103636105416105d4565b84846106c4565b6001600160a01b03918216600090815260016020908152604080832093909416825291909152205490565b6000828201838110156105cd576040805162461bcd60e51b815260206004820152601b60248201527f536166654d6174683a206164646974696f6e206f766572666c6f770000000000604482015290519081900360640190fd5b9392505050565b3390565b6001600160a01b03831661061d5760405162461bcd60e51b81526004018080602001828103825260248152602001806109746024913960400191505060405180910390fd5b6001600160a01b0382166106625760405162461bcd60e51b81526004018080602001828103825260228152602001806108df6022913960400191505060405180910390fd5b6001600160a01b03808416600081815260016020908152604080832094871680845294825291829020859055815185815291517f8c5be1e5ebec7d5bd14f71427d1e84f3dd0314c0f7b2291e5b200ac8c7c3b9259281900390910190a3505050565b6001600160a01b0383166107095760405162461bcd60e51b815260040180806020018281038252602581526020018061094f6025913960400191505060405180910390fd5b6001600160a01b03821661074e5760405162461bcd60e51b81526004018080602001828103825260238152602001806108bc6023913960400191505060405180910390fd5b6107598383836108b6565b61079681604051806060016040528060268152602001610901602691396001600160a01b038616600090815260208190526040902054919061081f565b6001600160a01b0380851660009081526020819052604080822093909355908416815220546107c59082610573565b6001600160a01b038084166000818152602081815260409182902094909455805185815290519193928716927fddf252ad1be2c89b69c2b068fc378daa952ba7f163c4a11628f55a4df523b3ef92918290030190a3505050565b600081848411156108ae5760405162461bcd60e51b81526004018080602001828103825283818151815260200191508051906020019080838360005b8381101561087357818101518382015260200161085b565b50505050905090810190601f1680156108a05780820380516001836020036101000a031916815260200191505b509250505060405180910390fd5b505050900390565b50505056fe45524332303a207472616e7366657220746f20746865207a65726f206164647265737345524332303a20617070726f766520746f20746865207a65726f206164647265737345524332303a207472616e7366657220616d6f756e7420657863656564732062616c616e636545524332303a207472616e7366657220616d6f756e74206578636565647320616c6c6f77616e636545524332303a207472616e736665722066726f6d20746865207a65726f206164647265737345524332303a20617070726f76652066726f6d20746865207a65726f206164647265737345524332303a2064656372656173656420616c6c6f77616e63652062656c6f77207a65726fa2646970667358221220c26c11ab06feef7e444c0f9ec6e495aedce4b42e8a5469fbd0931eb9556a0a0c64736f6c634300060c0033",
}

// Erc20ABI is the input ABI used to generate the binding from.
// Deprecated: Use Erc20MetaData.ABI instead.
var Erc20ABI = Erc20MetaData.ABI

// Erc20Bin is the compiled bytecode used for deploying new contracts.
// Deprecated: Use Erc20MetaData.Bin instead.
var Erc20Bin = Erc20MetaData.Bin

// DeployErc20 deploys a new Ethereum contract, binding an instance of Erc20 to it.
func DeployErc20(auth *bind.TransactOpts, backend bind.ContractBackend, _gravityAddress common.Address, _name string, _symbol string, _decimals uint8) (common.Address, *types.Transaction, *Erc20, error) {
	parsed, err := Erc20MetaData.GetAbi()
	if err != nil {
		return common.Address{}, nil, nil, err
	}
	if parsed == nil {
		return common.Address{}, nil, nil, errors.New("GetABI returned nil")
	}

	address, tx, contract, err := bind.DeployContract(auth, *parsed, common.FromHex(Erc20Bin), backend, _gravityAddress, _name, _symbol, _decimals)
	if err != nil {
		return common.Address{}, nil, nil, err
	}
	return address, tx, &Erc20{Erc20Caller: Erc20Caller{contract: contract}, Erc20Transactor: Erc20Transactor{contract: contract}, Erc20Filterer: Erc20Filterer{contract: contract}}, nil
}

// Erc20 is an auto generated Go binding around an Ethereum contract.
type Erc20 struct {
	Erc20Caller     // Read-only binding to the contract
	Erc20Transactor // Write-only binding to the contract
	Erc20Filterer   // Log filterer for contract events
}

// Erc20Caller is an auto generated read-only Go binding around an Ethereum contract.
type Erc20Caller struct {
	contract *bind.BoundContract // Generic contract wrapper for the low level calls
}

// Erc20Transactor is an auto generated write-only Go binding around an Ethereum contract.
type Erc20Transactor struct {
	contract *bind.BoundContract // Generic contract wrapper for the low level calls
}

// Erc20Filterer is an auto generated log filtering Go binding around an Ethereum contract events.
type Erc20Filterer struct {
	contract *bind.BoundContract // Generic contract wrapper for the low level calls
}

// Erc20Session is an auto generated Go binding around an Ethereum contract,
// with pre-set call and transact options.
type Erc20Session struct {
	Contract     *Erc20            // Generic contract binding to set the session for
	CallOpts     bind.CallOpts     // Call options to use throughout this session
	TransactOpts bind.TransactOpts // Transaction auth options to use throughout this session
}

// Erc20CallerSession is an auto generated read-only Go binding around an Ethereum contract,
// with pre-set call options.
type Erc20CallerSession struct {
	Contract *Erc20Caller  // Generic contract caller binding to set the session for
	CallOpts bind.CallOpts // Call options to use throughout this session
}

// Erc20TransactorSession is an auto generated write-only Go binding around an Ethereum contract,
// with pre-set transact options.
type Erc20TransactorSession struct {
	Contract     *Erc20Transactor  // Generic contract transactor binding to set the session for
	TransactOpts bind.TransactOpts // Transaction auth options to use throughout this session
}

// Erc20Raw is an auto generated low-level Go binding around an Ethereum contract.
type Erc20Raw struct {
	Contract *Erc20 // Generic contract binding to access the raw methods on
}

// Erc20CallerRaw is an auto generated low-level read-only Go binding around an Ethereum contract.
type Erc20CallerRaw struct {
	Contract *Erc20Caller // Generic read-only contract binding to access the raw methods on
}

// Erc20TransactorRaw is an auto generated low-level write-only Go binding around an Ethereum contract.
type Erc20TransactorRaw struct {
	Contract *Erc20Transactor // Generic write-only contract binding to access the raw methods on
}

// NewErc20 creates a new instance of Erc20, bound to a specific deployed contract.
func NewErc20(address common.Address, backend bind.ContractBackend) (*Erc20, error) {
	contract, err := bindErc20(address, backend, backend, backend)
	if err != nil {
		return nil, err
	}
	return &Erc20{Erc20Caller: Erc20Caller{contract: contract}, Erc20Transactor: Erc20Transactor{contract: contract}, Erc20Filterer: Erc20Filterer{contract: contract}}, nil
}

// NewErc20Caller creates a new read-only instance of Erc20, bound to a specific deployed contract.
func NewErc20Caller(address common.Address, caller bind.ContractCaller) (*Erc20Caller, error) {
	contract, err := bindErc20(address, caller, nil, nil)
	if err != nil {
		return nil, err
	}
	return &Erc20Caller{contract: contract}, nil
}

// NewErc20Transactor creates a new write-only instance of Erc20, bound to a specific deployed contract.
func NewErc20Transactor(address common.Address, transactor bind.ContractTransactor) (*Erc20Transactor, error) {
	contract, err := bindErc20(address, nil, transactor, nil)
	if err != nil {
		return nil, err
	}
	return &Erc20Transactor{contract: contract}, nil
}

// NewErc20Filterer creates a new log filterer instance of Erc20, bound to a specific deployed contract.
func NewErc20Filterer(address common.Address, filterer bind.ContractFilterer) (*Erc20Filterer, error) {
	contract, err := bindErc20(address, nil, nil, filterer)
	if err != nil {
		return nil, err
	}
	return &Erc20Filterer{contract: contract}, nil
}

// bindErc20 binds a generic wrapper to an already deployed contract.
func bindErc20(address common.Address, caller bind.ContractCaller, transactor bind.ContractTransactor, filterer bind.ContractFilterer) (*bind.BoundContract, error) {
	parsed, err := abi.JSON(strings.NewReader(Erc20ABI))
	if err != nil {
		return nil, err
	}
	return bind.NewBoundContract(address, parsed, caller, transactor, filterer), nil
}

// Call invokes the (constant) contract method with params as input values and
// sets the output to result. The result type might be a single field for simple
// returns, a slice of interfaces for anonymous returns and a struct for named
// returns.
func (_Erc20 *Erc20Raw) Call(opts *bind.CallOpts, result *[]interface{}, method string, params ...interface{}) error {
	return _Erc20.Contract.Erc20Caller.contract.Call(opts, result, method, params...)
}

// Transfer initiates a plain transaction to move funds to the contract, calling
// its default method if one is available.
func (_Erc20 *Erc20Raw) Transfer(opts *bind.TransactOpts) (*types.Transaction, error) {
	return _Erc20.Contract.Erc20Transactor.contract.Transfer(opts)
}

// Transact invokes the (paid) contract method with params as input values.
func (_Erc20 *Erc20Raw) Transact(opts *bind.TransactOpts, method string, params ...interface{}) (*types.Transaction, error) {
	return _Erc20.Contract.Erc20Transactor.contract.Transact(opts, method, params...)
}

// Call invokes the (constant) contract method with params as input values and
// sets the output to result. The result type might be a single field for simple
// returns, a slice of interfaces for anonymous returns and a struct for named
// returns.
func (_Erc20 *Erc20CallerRaw) Call(opts *bind.CallOpts, result *[]interface{}, method string, params ...interface{}) error {
	return _Erc20.Contract.contract.Call(opts, result, method, params...)
}

// Transfer initiates a plain transaction to move funds to the contract, calling
// its default method if one is available.
func (_Erc20 *Erc20TransactorRaw) Transfer(opts *bind.TransactOpts) (*types.Transaction, error) {
	return _Erc20.Contract.contract.Transfer(opts)
}

// Transact invokes the (paid) contract method with params as input values.
func (_Erc20 *Erc20TransactorRaw) Transact(opts *bind.TransactOpts, method string, params ...interface{}) (*types.Transaction, error) {
	return _Erc20.Contract.contract.Transact(opts, method, params...)
}

// Allowance is a free data retrieval call binding the contract method 0xdd62ed3e.
//
// Solidity: function allowance(address owner, address spender) view returns(uint256)
func (_Erc20 *Erc20Caller) Allowance(opts *bind.CallOpts, owner common.Address, spender common.Address) (*big.Int, error) {
	var out []interface{}
	err := _Erc20.contract.Call(opts, &out, "allowance", owner, spender)

	if err != nil {
		return *new(*big.Int), err
	}

	out0 := *abi.ConvertType(out[0], new(*big.Int)).(**big.Int)

	return out0, err

}

// Allowance is a free data retrieval call binding the contract method 0xdd62ed3e.
//
// Solidity: function allowance(address owner, address spender) view returns(uint256)
func (_Erc20 *Erc20Session) Allowance(owner common.Address, spender common.Address) (*big.Int, error) {
	return _Erc20.Contract.Allowance(&_Erc20.CallOpts, owner, spender)
}

// Allowance is a free data retrieval call binding the contract method 0xdd62ed3e.
//
// Solidity: function allowance(address owner, address spender) view returns(uint256)
func (_Erc20 *Erc20CallerSession) Allowance(owner common.Address, spender common.Address) (*big.Int, error) {
	return _Erc20.Contract.Allowance(&_Erc20.CallOpts, owner, spender)
}

// BalanceOf is a free data retrieval call binding the contract method 0x70a08231.
//
// Solidity: function balanceOf(address account) view returns(uint256)
func (_Erc20 *Erc20Caller) BalanceOf(opts *bind.CallOpts, account common.Address) (*big.Int, error) {
	var out []interface{}
	err := _Erc20.contract.Call(opts, &out, "balanceOf", account)

	if err != nil {
		return *new(*big.Int), err
	}

	out0 := *abi.ConvertType(out[0], new(*big.Int)).(**big.Int)

	return out0, err

}

// BalanceOf is a free data retrieval call binding the contract method 0x70a08231.
//
// Solidity: function balanceOf(address account) view returns(uint256)
func (_Erc20 *Erc20Session) BalanceOf(account common.Address) (*big.Int, error) {
	return _Erc20.Contract.BalanceOf(&_Erc20.CallOpts, account)
}

// BalanceOf is a free data retrieval call binding the contract method 0x70a08231.
//
// Solidity: function balanceOf(address account) view returns(uint256)
func (_Erc20 *Erc20CallerSession) BalanceOf(account common.Address) (*big.Int, error) {
	return _Erc20.Contract.BalanceOf(&_Erc20.CallOpts, account)
}

// Decimals is a free data retrieval call binding the contract method 0x313ce567.
//
// Solidity: function decimals() view returns(uint8)
func (_Erc20 *Erc20Caller) Decimals(opts *bind.CallOpts) (uint8, error) {
	var out []interface{}
	err := _Erc20.contract.Call(opts, &out, "decimals")

	if err != nil {
		return *new(uint8), err
	}

	out0 := *abi.ConvertType(out[0], new(uint8)).(*uint8)

	return out0, err

}

// Decimals is a free data retrieval call binding the contract method 0x313ce567.
//
// Solidity: function decimals() view returns(uint8)
func (_Erc20 *Erc20Session) Decimals() (uint8, error) {
	return _Erc20.Contract.Decimals(&_Erc20.CallOpts)
}

// Decimals is a free data retrieval call binding the contract method 0x313ce567.
//
// Solidity: function decimals() view returns(uint8)
func (_Erc20 *Erc20CallerSession) Decimals() (uint8, error) {
	return _Erc20.Contract.Decimals(&_Erc20.CallOpts)
}

// Name is a free data retrieval call binding the contract method 0x06fdde03.
//
// Solidity: function name() view returns(string)
func (_Erc20 *Erc20Caller) Name(opts *bind.CallOpts) (string, error) {
	var out []interface{}
	err := _Erc20.contract.Call(opts, &out, "name")

	if err != nil {
		return *new(string), err
	}

	out0 := *abi.ConvertType(out[0], new(string)).(*string)

	return out0, err

}

// Name is a free data retrieval call binding the contract method 0x06fdde03.
//
// Solidity: function name() view returns(string)
func (_Erc20 *Erc20Session) Name() (string, error) {
	return _Erc20.Contract.Name(&_Erc20.CallOpts)
}

// Name is a free data retrieval call binding the contract method 0x06fdde03.
//
// Solidity: function name() view returns(string)
func (_Erc20 *Erc20CallerSession) Name() (string, error) {
	return _Erc20.Contract.Name(&_Erc20.CallOpts)
}

// Symbol is a free data retrieval call binding the contract method 0x95d89b41.
//
// Solidity: function symbol() view returns(string)
func (_Erc20 *Erc20Caller) Symbol(opts *bind.CallOpts) (string, error) {
	var out []interface{}
	err := _Erc20.contract.Call(opts, &out, "symbol")

	if err != nil {
		return *new(string), err
	}

	out0 := *abi.ConvertType(out[0], new(string)).(*string)

	return out0, err

}

// Symbol is a free data retrieval call binding the contract method 0x95d89b41.
//
// Solidity: function symbol() view returns(string)
func (_Erc20 *Erc20Session) Symbol() (string, error) {
	return _Erc20.Contract.Symbol(&_Erc20.CallOpts)
}

// Symbol is a free data retrieval call binding the contract method 0x95d89b41.
//
// Solidity: function symbol() view returns(string)
func (_Erc20 *Erc20CallerSession) Symbol() (string, error) {
	return _Erc20.Contract.Symbol(&_Erc20.CallOpts)
}

// TotalSupply is a free data retrieval call binding the contract method 0x18160ddd.
//
// Solidity: function totalSupply() view returns(uint256)
func (_Erc20 *Erc20Caller) TotalSupply(opts *bind.CallOpts) (*big.Int, error) {
	var out []interface{}
	err := _Erc20.contract.Call(opts, &out, "totalSupply")

	if err != nil {
		return *new(*big.Int), err
	}

	out0 := *abi.ConvertType(out[0], new(*big.Int)).(**big.Int)

	return out0, err

}

// TotalSupply is a free data retrieval call binding the contract method 0x18160ddd.
//
// Solidity: function totalSupply() view returns(uint256)
func (_Erc20 *Erc20Session) TotalSupply() (*big.Int, error) {
	return _Erc20.Contract.TotalSupply(&_Erc20.CallOpts)
}

// TotalSupply is a free data retrieval call binding the contract method 0x18160ddd.
//
// Solidity: function totalSupply() view returns(uint256)
func (_Erc20 *Erc20CallerSession) TotalSupply() (*big.Int, error) {
	return _Erc20.Contract.TotalSupply(&_Erc20.CallOpts)
}

// Approve is a paid mutator transaction binding the contract method 0x095ea7b3.
//
// Solidity: function approve(address spender, uint256 amount) returns(bool)
func (_Erc20 *Erc20Transactor) Approve(opts *bind.TransactOpts, spender common.Address, amount *big.Int) (*types.Transaction, error) {
	return _Erc20.contract.Transact(opts, "approve", spender, amount)
}

// Approve is a paid mutator transaction binding the contract method 0x095ea7b3.
//
// Solidity: function approve(address spender, uint256 amount) returns(bool)
func (_Erc20 *Erc20Session) Approve(spender common.Address, amount *big.Int) (*types.Transaction, error) {
	return _Erc20.Contract.Approve(&_Erc20.TransactOpts, spender, amount)
}

// Approve is a paid mutator transaction binding the contract method 0x095ea7b3.
//
// Solidity: function approve(address spender, uint256 amount) returns(bool)
func (_Erc20 *Erc20TransactorSession) Approve(spender common.Address, amount *big.Int) (*types.Transaction, error) {
	return _Erc20.Contract.Approve(&_Erc20.TransactOpts, spender, amount)
}

// DecreaseAllowance is a paid mutator transaction binding the contract method 0xa457c2d7.
//
// Solidity: function decreaseAllowance(address spender, uint256 subtractedValue) returns(bool)
func (_Erc20 *Erc20Transactor) DecreaseAllowance(opts *bind.TransactOpts, spender common.Address, subtractedValue *big.Int) (*types.Transaction, error) {
	return _Erc20.contract.Transact(opts, "decreaseAllowance", spender, subtractedValue)
}

// DecreaseAllowance is a paid mutator transaction binding the contract method 0xa457c2d7.
//
// Solidity: function decreaseAllowance(address spender, uint256 subtractedValue) returns(bool)
func (_Erc20 *Erc20Session) DecreaseAllowance(spender common.Address, subtractedValue *big.Int) (*types.Transaction, error) {
	return _Erc20.Contract.DecreaseAllowance(&_Erc20.TransactOpts, spender, subtractedValue)
}

// DecreaseAllowance is a paid mutator transaction binding the contract method 0xa457c2d7.
//
// Solidity: function decreaseAllowance(address spender, uint256 subtractedValue) returns(bool)
func (_Erc20 *Erc20TransactorSession) DecreaseAllowance(spender common.Address, subtractedValue *big.Int) (*types.Transaction, error) {
	return _Erc20.Contract.DecreaseAllowance(&_Erc20.TransactOpts, spender, subtractedValue)
}

// IncreaseAllowance is a paid mutator transaction binding the contract method 0x39509351.
//
// Solidity: function increaseAllowance(address spender, uint256 addedValue) returns(bool)
func (_Erc20 *Erc20Transactor) IncreaseAllowance(opts *bind.TransactOpts, spender common.Address, addedValue *big.Int) (*types.Transaction, error) {
	return _Erc20.contract.Transact(opts, "increaseAllowance", spender, addedValue)
}

// IncreaseAllowance is a paid mutator transaction binding the contract method 0x39509351.
//
// Solidity: function increaseAllowance(address spender, uint256 addedValue) returns(bool)
func (_Erc20 *Erc20Session) IncreaseAllowance(spender common.Address, addedValue *big.Int) (*types.Transaction, error) {
	return _Erc20.Contract.IncreaseAllowance(&_Erc20.TransactOpts, spender, addedValue)
}

// IncreaseAllowance is a paid mutator transaction binding the contract method 0x39509351.
//
// Solidity: function increaseAllowance(address spender, uint256 addedValue) returns(bool)
func (_Erc20 *Erc20TransactorSession) IncreaseAllowance(spender common.Address, addedValue *big.Int) (*types.Transaction, error) {
	return _Erc20.Contract.IncreaseAllowance(&_Erc20.TransactOpts, spender, addedValue)
}

// Transfer is a paid mutator transaction binding the contract method 0xa9059cbb.
//
// Solidity: function transfer(address recipient, uint256 amount) returns(bool)
func (_Erc20 *Erc20Transactor) Transfer(opts *bind.TransactOpts, recipient common.Address, amount *big.Int) (*types.Transaction, error) {
	return _Erc20.contract.Transact(opts, "transfer", recipient, amount)
}

// Transfer is a paid mutator transaction binding the contract method 0xa9059cbb.
//
// Solidity: function transfer(address recipient, uint256 amount) returns(bool)
func (_Erc20 *Erc20Session) Transfer(recipient common.Address, amount *big.Int) (*types.Transaction, error) {
	return _Erc20.Contract.Transfer(&_Erc20.TransactOpts, recipient, amount)
}

// Transfer is a paid mutator transaction binding the contract method 0xa9059cbb.
//
// Solidity: function transfer(address recipient, uint256 amount) returns(bool)
func (_Erc20 *Erc20TransactorSession) Transfer(recipient common.Address, amount *big.Int) (*types.Transaction, error) {
	return _Erc20.Contract.Transfer(&_Erc20.TransactOpts, recipient, amount)
}

// TransferFrom is a paid mutator transaction binding the contract method 0x23b872dd.
//
// Solidity: function transferFrom(address sender, address recipient, uint256 amount) returns(bool)
func (_Erc20 *Erc20Transactor) TransferFrom(opts *bind.TransactOpts, sender common.Address, recipient common.Address, amount *big.Int) (*types.Transaction, error) {
	return _Erc20.contract.Transact(opts, "transferFrom", sender, recipient, amount)
}

// TransferFrom is a paid mutator transaction binding the contract method 0x23b872dd.
//
// Solidity: function transferFrom(address sender, address recipient, uint256 amount) returns(bool)
func (_Erc20 *Erc20Session) TransferFrom(sender common.Address, recipient common.Address, amount *big.Int) (*types.Transaction, error) {
	return _Erc20.Contract.TransferFrom(&_Erc20.TransactOpts, sender, recipient, amount)
}

// TransferFrom is a paid mutator transaction binding the contract method 0x23b872dd.
//
// Solidity: function transferFrom(address sender, address recipient, uint256 amount) returns(bool)
func (_Erc20 *Erc20TransactorSession) TransferFrom(sender common.Address, recipient common.Address, amount *big.Int) (*types.Transaction, error) {
	return _Erc20.Contract.TransferFrom(&_Erc20.TransactOpts, sender, recipient, amount)
}

// Erc20ApprovalIterator is returned from FilterApproval and is used to iterate over the raw logs and unpacked data for Approval events raised by the Erc20 contract.
type Erc20ApprovalIterator struct {
	Event *Erc20Approval // Event containing the contract specifics and raw log

	contract *bind.BoundContract // Generic contract to use for unpacking event data
	event    string              // Event name to use for unpacking event data

	logs chan types.Log        // Log channel receiving the found contract events
	sub  ethereum.Subscription // Subscription for errors, completion and termination
	done bool                  // Whether the subscription completed delivering logs
	fail error                 // Occurred error to stop iteration
}

// Next advances the iterator to the subsequent event, returning whether there
// are any more events found. In case of a retrieval or parsing error, false is
// returned and Error() can be queried for the exact failure.
func (it *Erc20ApprovalIterator) Next() bool {
	// If the iterator failed, stop iterating
	if it.fail != nil {
		return false
	}
	// If the iterator completed, deliver directly whatever's available
	if it.done {
		select {
		case log := <-it.logs:
			it.Event = new(Erc20Approval)
			if err := it.contract.UnpackLog(it.Event, it.event, log); err != nil {
				it.fail = err
				return false
			}
			it.Event.Raw = log
			return true

		default:
			return false
		}
	}
	// Iterator still in progress, wait for either a data or an error event
	select {
	case log := <-it.logs:
		it.Event = new(Erc20Approval)
		if err := it.contract.UnpackLog(it.Event, it.event, log); err != nil {
			it.fail = err
			return false
		}
		it.Event.Raw = log
		return true

	case err := <-it.sub.Err():
		it.done = true
		it.fail = err
		return it.Next()
	}
}

// Error returns any retrieval or parsing error occurred during filtering.
func (it *Erc20ApprovalIterator) Error() error {
	return it.fail
}

// Close terminates the iteration process, releasing any pending underlying
// resources.
func (it *Erc20ApprovalIterator) Close() error {
	it.sub.Unsubscribe()
	return nil
}

// Erc20Approval represents a Approval event raised by the Erc20 contract.
type Erc20Approval struct {
	Owner   common.Address
	Spender common.Address
	Value   *big.Int
	Raw     types.Log // Blockchain specific contextual infos
}

// FilterApproval is a free log retrieval operation binding the contract event 0x8c5be1e5ebec7d5bd14f71427d1e84f3dd0314c0f7b2291e5b200ac8c7c3b925.
//
// Solidity: event Approval(address indexed owner, address indexed spender, uint256 value)
func (_Erc20 *Erc20Filterer) FilterApproval(opts *bind.FilterOpts, owner []common.Address, spender []common.Address) (*Erc20ApprovalIterator, error) {

	var ownerRule []interface{}
	for _, ownerItem := range owner {
		ownerRule = append(ownerRule, ownerItem)
	}
	var spenderRule []interface{}
	for _, spenderItem := range spender {
		spenderRule = append(spenderRule, spenderItem)
	}

	logs, sub, err := _Erc20.contract.FilterLogs(opts, "Approval", ownerRule, spenderRule)
	if err != nil {
		return nil, err
	}
	return &Erc20ApprovalIterator{contract: _Erc20.contract, event: "Approval", logs: logs, sub: sub}, nil
}

// WatchApproval is a free log subscription operation binding the contract event 0x8c5be1e5ebec7d5bd14f71427d1e84f3dd0314c0f7b2291e5b200ac8c7c3b925.
//
// Solidity: event Approval(address indexed owner, address indexed spender, uint256 value)
func (_Erc20 *Erc20Filterer) WatchApproval(opts *bind.WatchOpts, sink chan<- *Erc20Approval, owner []common.Address, spender []common.Address) (event.Subscription, error) {

	var ownerRule []interface{}
	for _, ownerItem := range owner {
		ownerRule = append(ownerRule, ownerItem)
	}
	var spenderRule []interface{}
	for _, spenderItem := range spender {
		spenderRule = append(spenderRule, spenderItem)
	}

	logs, sub, err := _Erc20.contract.WatchLogs(opts, "Approval", ownerRule, spenderRule)
	if err != nil {
		return nil, err
	}
	return event.NewSubscription(func(quit <-chan struct{}) error {
		defer sub.Unsubscribe()
		for {
			select {
			case log := <-logs:
				// New log arrived, parse the event and forward to the user
				event := new(Erc20Approval)
				if err := _Erc20.contract.UnpackLog(event, "Approval", log); err != nil {
					return err
				}
				event.Raw = log

				select {
				case sink <- event:
				case err := <-sub.Err():
					return err
				case <-quit:
					return nil
				}
			case err := <-sub.Err():
				return err
			case <-quit:
				return nil
			}
		}
	}), nil
}

// ParseApproval is a log parse operation binding the contract event 0x8c5be1e5ebec7d5bd14f71427d1e84f3dd0314c0f7b2291e5b200ac8c7c3b925.
//
// Solidity: event Approval(address indexed owner, address indexed spender, uint256 value)
func (_Erc20 *Erc20Filterer) ParseApproval(log types.Log) (*Erc20Approval, error) {
	event := new(Erc20Approval)
	if err := _Erc20.contract.UnpackLog(event, "Approval", log); err != nil {
		return nil, err
	}
	event.Raw = log
	return event, nil
}

// Erc20TransferIterator is returned from FilterTransfer and is used to iterate over the raw logs and unpacked data for Transfer events raised by the Erc20 contract.
type Erc20TransferIterator struct {
	Event *Erc20Transfer // Event containing the contract specifics and raw log

	contract *bind.BoundContract // Generic contract to use for unpacking event data
	event    string              // Event name to use for unpacking event data

	logs chan types.Log        // Log channel receiving the found contract events
	sub  ethereum.Subscription // Subscription for errors, completion and termination
	done bool                  // Whether the subscription completed delivering logs
	fail error                 // Occurred error to stop iteration
}

// Next advances the iterator to the subsequent event, returning whether there
// are any more events found. In case of a retrieval or parsing error, false is
// returned and Error() can be queried for the exact failure.
func (it *Erc20TransferIterator) Next() bool {
	// If the iterator failed, stop iterating
	if it.fail != nil {
		return false
	}
	// If the iterator completed, deliver directly whatever's available
	if it.done {
		select {
		case log := <-it.logs:
			it.Event = new(Erc20Transfer)
			if err := it.contract.UnpackLog(it.Event, it.event, log); err != nil {
				it.fail = err
				return false
			}
			it.Event.Raw = log
			return true

		default:
			return false
		}
	}
	// Iterator still in progress, wait for either a data or an error event
	select {
	case log := <-it.logs:
		it.Event = new(Erc20Transfer)
		if err := it.contract.UnpackLog(it.Event, it.event, log); err != nil {
			it.fail = err
			return false
		}
		it.Event.Raw = log
		return true

	case err := <-it.sub.Err():
		it.done = true
		it.fail = err
		return it.Next()
	}
}

// Error returns any retrieval or parsing error occurred during filtering.
func (it *Erc20TransferIterator) Error() error {
	return it.fail
}

// Close terminates the iteration process, releasing any pending underlying
// resources.
func (it *Erc20TransferIterator) Close() error {
	it.sub.Unsubscribe()
	return nil
}

// Erc20Transfer represents a Transfer event raised by the Erc20 contract.
type Erc20Transfer struct {
	From  common.Address
	To    common.Address
	Value *big.Int
	Raw   types.Log // Blockchain specific contextual infos
}

// FilterTransfer is a free log retrieval operation binding the contract event 0xddf252ad1be2c89b69c2b068fc378daa952ba7f163c4a11628f55a4df523b3ef.
//
// Solidity: event Transfer(address indexed from, address indexed to, uint256 value)
func (_Erc20 *Erc20Filterer) FilterTransfer(opts *bind.FilterOpts, from []common.Address, to []common.Address) (*Erc20TransferIterator, error) {

	var fromRule []interface{}
	for _, fromItem := range from {
		fromRule = append(fromRule, fromItem)
	}
	var toRule []interface{}
	for _, toItem := range to {
		toRule = append(toRule, toItem)
	}

	logs, sub, err := _Erc20.contract.FilterLogs(opts, "Transfer", fromRule, toRule)
	if err != nil {
		return nil, err
	}
	return &Erc20TransferIterator{contract: _Erc20.contract, event: "Transfer", logs: logs, sub: sub}, nil
}

// WatchTransfer is a free log subscription operation binding the contract event 0xddf252ad1be2c89b69c2b068fc378daa952ba7f163c4a11628f55a4df523b3ef.
//
// Solidity: event Transfer(address indexed from, address indexed to, uint256 value)
func (_Erc20 *Erc20Filterer) WatchTransfer(opts *bind.WatchOpts, sink chan<- *Erc20Transfer, from []common.Address, to []common.Address) (event.Subscription, error) {

	var fromRule []interface{}
	for _, fromItem := range from {
		fromRule = append(fromRule, fromItem)
	}
	var toRule []interface{}
	for _, toItem := range to {
		toRule = append(toRule, toItem)
	}

	logs, sub, err := _Erc20.contract.WatchLogs(opts, "Transfer", fromRule, toRule)
	if err != nil {
		return nil, err
	}
	return event.NewSubscription(func(quit <-chan struct{}) error {
		defer sub.Unsubscribe()
		for {
			select {
			case log := <-logs:
				// New log arrived, parse the event and forward to the user
				event := new(Erc20Transfer)
				if err := _Erc20.contract.UnpackLog(event, "Transfer", log); err != nil {
					return err
				}
				event.Raw = log

				select {
				case sink <- event:
				case err := <-sub.Err():
					return err
				case <-quit:
					return nil
				}
			case err := <-sub.Err():
				return err
			case <-quit:
				return nil
			}
		}
	}), nil
}

// ParseTransfer is a log parse operation binding the contract event 0xddf252ad1be2c89b69c2b068fc378daa952ba7f163c4a11628f55a4df523b3ef.
//
// Solidity: event Transfer(address indexed from, address indexed to, uint256 value)
func (_Erc20 *Erc20Filterer) ParseTransfer(log types.Log) (*Erc20Transfer, error) {
	event := new(Erc20Transfer)
	if err := _Erc20.contract.UnpackLog(event, "Transfer", log); err != nil {
		return nil, err
	}
	event.Raw = log
	return event, nil
}
