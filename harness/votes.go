package main

// Votes suite: claims by several validators (own accounts and orchestrators), conflicting,
// repeated, ahead and behind claims, power changes and unbonding between vote and tally;
// observation = vote records, last observed nonce, per-validator nonces, credited supply.

import (
	"os"
	"encoding/binary"
	"fmt"
	"math/big"

	"github.com/cosmos/cosmos-sdk/store/prefix"
	sdk "github.com/cosmos/cosmos-sdk/types"
	authtypes "github.com/cosmos/cosmos-sdk/x/auth/types"
	"github.com/ethereum/go-ethereum/crypto"

	mhub2 "github.com/MinterTeam/mhub2/module/x/mhub2"
	"github.com/MinterTeam/mhub2/module/x/mhub2/keeper"
	"github.com/MinterTeam/mhub2/module/x/mhub2/types"
)

// votesHeights (suite votesh): claims carry their external height in the operation, the observation ends with the
// stored last observed external height
var votesHeights = false

const votesCoin = "0xc0c0c0c0c0c0c0c0c0c0c0c0c0c0c0c0c0c0c0c0"

func observeVotes(env *Env) V {
	ctx := env.Ctx
	cdc := keeper.MakeTestMarshaler()
	var recs, lasts []V
	cid := types.ChainID("ethereum")
	it := prefix.NewStore(ctx.KVStore(env.HubKey), append([]byte{types.ExternalEventVoteRecordKey}, cid.Bytes()...)).Iterator(nil, nil)
	for ; it.Valid(); it.Next() {
		var r types.ExternalEventVoteRecord
		cdc.MustUnmarshal(it.Value(), &r)
		k := it.Key()
		nonce := binary.BigEndian.Uint64(k[:8])
		var votes []V
		for _, v := range r.Votes {
			votes = append(votes, B(v))
		}
		recs = append(recs, L(U(nonce), Bb(append([]byte{}, k[8:]...)), L(votes...), Bool(r.Accepted)))
	}
	it.Close()
	it = prefix.NewStore(ctx.KVStore(env.HubKey), append([]byte{types.LastEventNonceByValidatorKey}, cid.Bytes()...)).Iterator(nil, nil)
	for ; it.Valid(); it.Next() {
		lasts = append(lasts, L(B(sdk.ValAddress(it.Key()).String()), U(binary.BigEndian.Uint64(it.Value()))))
	}
	it.Close()
	if votesHeights {
		return L(L(recs...), U(env.K.GetLastObservedEventNonce(ctx, cid)), Set(lasts...), Z(env.Bank.GetSupply(ctx, "hub").Amount.BigInt()),
			U(env.K.GetLastObservedExternalBlockHeight(ctx, cid).ExternalHeight))
	}
	return L(L(recs...), U(env.K.GetLastObservedEventNonce(ctx, cid)), Set(lasts...), Z(env.Bank.GetSupply(ctx, "hub").Amount.BigInt()))
}

func runVotesCase(seed uint64, nOps int, restart bool, stats map[string]int) (V, V) {
	rng := &Rng{s: seed}
	tokens := []*types.TokenInfo{{Id: 1, Denom: "hub", ChainId: "ethereum", ExternalTokenId: votesCoin, ExternalDecimals: 18, Commission: sdk.ZeroDec()}}
	nVals := 2 + rng.Intn(5)
	nOrch := rng.Intn(nVals + 1)
	var dk []*types.MsgDelegateKeys
	for i := 0; i < nOrch; i++ {
		dk = append(dk, &types.MsgDelegateKeys{ValidatorAddress: valAddr(i).String(), OrchestratorAddress: orchAddr(i).String(),
			ExternalAddress: ethAddrOf(0x70, i), EthSignature: []byte{1}, ChainId: "ethereum"})
	}
	// orchestrator accounts registered for another chain only: they are nobody on ethereum
	var dkMinter []*types.MsgDelegateKeys
	var foreignOrchs []sdk.AccAddress
	for i := 0; i < nVals; i++ {
		if rng.Chance(1, 2) {
			o := orchAddr(100 + i)
			foreignOrchs = append(foreignOrchs, o)
			dkMinter = append(dkMinter, &types.MsgDelegateKeys{ValidatorAddress: valAddr(i).String(), OrchestratorAddress: o.String(),
				ExternalAddress: ethAddrOf(0x60, i), EthSignature: []byte{1}, ChainId: "minter"})
		}
	}
	env := NewEnv(EnvOpts{Params: DefaultTestParams([]string{"ethereum", "minter", "hub"}), Tokens: tokens,
		States: []*types.ExternalState{{ChainId: "ethereum", DelegateKeys: dk}, {ChainId: "minter", DelegateKeys: dkMinter}}})

	var ops, outs []V
	record := func(op V, code int64) {
		ops = append(ops, op)
		outs = append(outs, L(I(code), observeVotes(env)))
	}
	// every orchestrator account that was ever registered, with its validator (the orchestrator index keeps the
	// entries of earlier registrations: known finding C16/attribution-after-reregistration)
	type orchReg struct {
		orch sdk.AccAddress
		val  int
	}
	var orchs []orchReg
	for i := 0; i < nOrch; i++ {
		orchs = append(orchs, orchReg{orchAddr(i), i})
	}
	for i := 0; i < nVals; i++ {
		env.Acc.SetAccount(env.Ctx, authtypes.NewBaseAccount(sdk.AccAddress(valAddr(i)), nil, uint64(100+i), 0))
	}
	rotations := 0
	wasBonded := map[int]bool{}
	emitStaking := func() {
		var sv, ov []V
		for _, v := range env.Staking.Vals {
			sv = append(sv, L(B(v.Oper.String()), B(sdk.AccAddress(v.Oper).String()), I(v.Power), Bool(v.Bonded)))
		}
		for _, o := range orchs {
			ov = append(ov, L(B(o.orch.String()), B(valAddr(o.val).String())))
		}
		record(L(I(3), L(sv...), L(ov...)), 0)
	}
	// power profiles: equal, one dominant, tiny totals (threshold rounding), huge totals (66*total beyond int64), random
	setStaking := func() {
		env.Staking.Vals = nil
		profile := rng.Intn(6)
		for i := 0; i < nVals; i++ {
			var p int64
			switch profile {
			case 0:
				p = 1
			case 1:
				p = int64(1 + rng.Intn(3))
			case 2:
				if i == 0 {
					p = 1000
				} else {
					p = int64(1 + rng.Intn(20))
				}
			case 3:
				p = int64(30 + rng.Intn(8))
			case 4:
				// a stake token with 18 decimals: consensus powers around 10^17 (the total still fits int64)
				p = int64(20000000000000000) + int64(rng.Intn(1000000))*int64(100000000000)
			default:
				p = int64(1 + rng.Intn(1000000))
			}
			env.Staking.Vals = append(env.Staking.Vals, ValIn{Oper: valAddr(i), Power: p, Bonded: !rng.Chance(1, 8)})
		}
		// what x/staking tells the bridge when the bonded set changes
		for i, v := range env.Staking.Vals {
			was, known := wasBonded[i]
			if known && !was && v.Bonded {
				env.K.Hooks().AfterValidatorBonded(env.Ctx, sdk.ConsAddress(v.Oper), v.Oper)
				stats["hook_bonded"]++
			}
			if known && was && !v.Bonded {
				env.K.Hooks().AfterValidatorBeginUnbonding(env.Ctx, sdk.ConsAddress(v.Oper), v.Oper)
			}
			wasBonded[i] = v.Bonded
		}
		emitStaking()
	}
	setStaking()

	height := int64(10)
	extH := uint64(100)
	// the honest event log: event n has variant 0; other variants are conflicting claims
	mkEvent := func(nonce uint64, variant int) *types.SendToHubEvent {
		return &types.SendToHubEvent{EventNonce: nonce, ExternalCoinId: votesCoin, Amount: sdk.NewInt(int64(1000*nonce) + int64(variant)),
			Sender: ethAddrOf(0xe0, 0), CosmosReceiver: userAddr(0).String(), ExternalHeight: extH + 10*nonce + uint64(variant), TxHash: fmt.Sprintf("0xv%d", nonce)}
	}
	progress := make([]uint64, nVals) // last nonce each validator voted (generator's view)
	for len(ops) < nOps {
		c := rng.Intn(100)
		if restart && rng.Chance(1, 12) {
			// genesis export / import between two blocks
			code, m := outcome(func() error { env.Restart(); return nil })
			if code != 0 && os.Getenv("VERIF_DEBUG") != "" {
				fmt.Fprintln(os.Stderr, "restart:", m)
			}
			stats[fmt.Sprintf("restart_code%d", code)]++
			record(L(I(4)), code)
			// only the current registration of a validator is exported (known finding C15/lost:delegate-keys): the
			// orchestrators of its earlier registrations are no longer attributed after the restart
			if code == 0 && rotations > 0 {
				var cur []orchReg
				for i := 0; i < nVals; i++ {
					for k := len(orchs) - 1; k >= 0; k-- {
						if orchs[k].val == i {
							cur = append(cur, orchs[k])
							break
						}
					}
				}
				if len(cur) != len(orchs) {
					orchs = cur
					emitStaking()
				}
			}
			continue
		}
		switch {
		case c < 70:
			vi := rng.Intn(nVals)
			last := env.K.GetLastObservedEventNonce(env.Ctx, "ethereum")
			var nonce uint64
			switch rng.Intn(10) {
			case 0:
				nonce = uint64(1 + rng.Intn(8)) // anywhere
			case 1:
				nonce = progress[vi] // repeat
			case 2:
				nonce = progress[vi] + 2 // skip
			default:
				if progress[vi] == 0 {
					nonce = last + 1
					if rng.Chance(1, 4) {
						nonce = last + uint64(rng.Intn(3))
					}
				} else {
					nonce = progress[vi] + 1
				}
			}
			if nonce == 0 {
				nonce = 1
			}
			variant := 0
			if rng.Chance(1, 6) {
				variant = 1 + rng.Intn(2)
			}
			ev := mkEvent(nonce, variant)
			signer := sdk.AccAddress(valAddr(vi))
			switch rng.Intn(8) {
			case 0:
				// one of this validator's orchestrators (the latest registration first)
				for k := len(orchs) - 1; k >= 0; k-- {
					if orchs[k].val == vi {
						signer = orchs[k].orch
						break
					}
				}
			case 1:
				signer = userAddr(rng.Intn(3)) // not a validator
			case 2:
				if len(orchs) > 0 {
					signer = orchs[rng.Intn(len(orchs))].orch
				}
			case 3:
				if len(foreignOrchs) > 0 && rng.Chance(1, 2) {
					signer = foreignOrchs[rng.Intn(len(foreignOrchs))]
				}
			}
			any, _ := types.PackEvent(ev)
			msg := &types.MsgSubmitExternalEvent{Event: any, Signer: signer.String(), ChainId: "ethereum"}
			if msg.ValidateBasic() != nil {
				continue
			}
			code, _ := env.Tx(nil, func(ctx sdk.Context) error {
				_, err := env.Msg.SubmitExternalEvent(sdk.WrapSDKContext(ctx), msg)
				return err
			})
			if code == 0 {
				// find which validator that was
				for i := 0; i < nVals; i++ {
					if signer.Equals(sdk.AccAddress(valAddr(i))) {
						progress[i] = nonce
					}
				}
				for _, o := range orchs {
					if signer.Equals(o.orch) {
						progress[o.val] = nonce
					}
				}
			}
			stats[fmt.Sprintf("vote_code%d", code)]++
			if votesHeights {
				record(L(I(1), B(signer.String()), U(nonce), Bb(ev.Hash()), Z(new(big.Int).Set(ev.Amount.BigInt())), U(ev.ExternalHeight)), code)
			} else {
				record(L(I(1), B(signer.String()), U(nonce), Bb(ev.Hash()), Z(new(big.Int).Set(ev.Amount.BigInt()))), code)
			}
		case c < 90:
			height++
			env.Ctx = env.Ctx.WithBlockHeight(height)
			before := env.K.GetLastObservedEventNonce(env.Ctx, "ethereum")
			code, _ := outcome(func() error { mhub2.EndBlocker(env.Ctx, env.K); return nil })
			after := env.K.GetLastObservedEventNonce(env.Ctx, "ethereum")
			stats[fmt.Sprintf("tally_applied_%d", after-before)]++
			record(L(I(2)), code)
		case c < 94:
			// key rotation: the validator registers a new orchestrator and a new external key (a real, signed
			// MsgDelegateKeys); its votes so far and its position in the event sequence are untouched by that
			vi := rng.Intn(nVals)
			rotations++
			key := ethKey(40 + int(seed%7)*8 + rotations)
			orch := orchAddr(16 + rotations)
			signMsg := keeper.MakeTestMarshaler().MustMarshal(&types.DelegateKeysSignMsg{ValidatorAddress: valAddr(vi).String(), Nonce: 0})
			sig, err := types.NewEthereumSignature(crypto.Keccak256Hash(signMsg).Bytes(), key)
			if err != nil {
				panic(err)
			}
			msg := &types.MsgDelegateKeys{ValidatorAddress: valAddr(vi).String(), OrchestratorAddress: orch.String(),
				ExternalAddress: crypto.PubkeyToAddress(key.PublicKey).Hex(), EthSignature: sig, ChainId: "ethereum"}
			code, m := env.Tx(nil, func(ctx sdk.Context) error {
				_, err := env.Msg.SetDelegateKeys(sdk.WrapSDKContext(ctx), msg)
				return err
			})
			if code != 0 {
				panic("harness: key rotation refused: " + m)
			}
			orchs = append(orchs, orchReg{orch, vi})
			stats["key_rotations"]++
			emitStaking()
		default:
			setStaking()
		}
	}
	return L(ops...), L(outs...)
}
